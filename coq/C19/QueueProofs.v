(* C19 - the pointer-level Queue model (LinkedModel.v) refines a FIFO list; its malloc/free log is sound. *)
From Coq Require Import ZArith List Bool Lia Arith Permutation.
From Cb Require Import C19.Model C19.LinkedModel C19.Log.
Import ListNotations.
Local Open Scope Z_scope.

Definition nodes := list (nat * Z).
Definition nhd (ns : nodes) : option nat := match ns with [] => None | (n, _) :: _ => Some n end.
Fixpoint nlast (ns : nodes) : option nat :=
  match ns with [] => None | (n, _) :: tl => match tl with [] => Some n | _ => nlast tl end end.
Definition nids (ns : nodes) : list nat := List.map fst ns.
Definition nvals (ns : nodes) : list Z := List.map snd ns.

Lemma upd_same : forall A (h : nat -> option A) n x, upd h n x n = x.
Proof. intros. unfold upd. rewrite Nat.eqb_refl. reflexivity. Qed.
Lemma upd_other : forall A (h : nat -> option A) n x m, m <> n -> upd h n x m = h m.
Proof. intros. unfold upd. destruct (Nat.eqb_spec m n); congruence. Qed.

Lemma nlast_snoc : forall ns n x, nlast (ns ++ [(n, x)]) = Some n.
Proof.
  induction ns as [|[a y] ns IH]; intros; cbn [app nlast]; auto.
  destruct (ns ++ [(n, x)]) eqn:E; [destruct ns; discriminate|]. rewrite <- E. apply IH.
Qed.
Lemma nhd_snoc : forall ns p, ns <> [] -> nhd (ns ++ [p]) = nhd ns.
Proof. destruct ns; intros; [congruence|reflexivity]. Qed.
Lemma snoc_cases : forall (ns : nodes), ns = [] \/ exists ns0 r x, ns = ns0 ++ [(r, x)].
Proof.
  induction ns as [|[a y] ns IH]; [left; auto|right].
  destruct IH as [->|(ns0 & r & x & ->)].
  - exists [], a, y. reflexivity.
  - exists ((a, y) :: ns0), r, x. reflexivity.
Qed.

Lemma NoDup_snoc : forall (l : list nat) x, NoDup l -> ~ In x l -> NoDup (l ++ [x]).
Proof.
  intros. eapply Permutation_NoDup; [apply Permutation_cons_append|]. constructor; auto.
Qed.

(* ---------------------------------------------------------------- the singly linked chain *)
Fixpoint qchain (h : nat -> option qnode) (ns : nodes) : Prop :=
  match ns with
  | [] => True
  | (n, x) :: tl => h n = Some (mkq x (nhd tl)) /\ qchain h tl
  end.

Lemma qchain_frame : forall h n x ns, ~ In n (nids ns) -> qchain h ns -> qchain (upd h n x) ns.
Proof.
  induction ns as [|[a y] ns IH]; cbn [qchain nids List.map In fst]; auto.
  intros Hn (Ha & Hc). split; [rewrite upd_other; auto|apply IH; auto].
Qed.

Lemma qchain_last : forall h ns r x, qchain h (ns ++ [(r, x)]) -> h r = Some (mkq x None).
Proof.
  induction ns as [|[a y] ns IH]; cbn [app qchain]; intros r x H.
  - destruct H. auto.
  - destruct H. eauto.
Qed.

Lemma qchain_snoc : forall h ns r x n v,
  qchain h (ns ++ [(r, x)]) -> NoDup (nids (ns ++ [(r, x)])) -> ~ In n (nids (ns ++ [(r, x)])) ->
  qchain (upd (upd h n (Some (mkq v None))) r (Some (mkq x (Some n)))) ((ns ++ [(r, x)]) ++ [(n, v)]).
Proof.
  induction ns as [|[a y] ns IH]; intros r x n v Hc Hd Hn.
  - cbn [app qchain nhd] in *. cbn [nids List.map fst In] in Hn.
    split; [apply upd_same|]. split; auto.
    rewrite upd_other by (intro; subst; tauto). apply upd_same.
  - cbn [app qchain] in *. destruct Hc as (Ha & Hc).
    cbn [nids List.map fst] in Hd, Hn. inversion Hd as [|? ? Hna Hd']; subst.
    cbn [In] in Hn.
    split.
    + rewrite upd_other.
      * rewrite upd_other by (intro; subst; tauto). rewrite Ha. f_equal. f_equal.
        symmetry. apply nhd_snoc. destruct ns; discriminate.
      * intro; subst. apply Hna. unfold nids. rewrite map_app. apply in_or_app. right. left. reflexivity.
    + apply IH; auto.
Qed.

(* ---------------------------------------------------------------- representation invariant *)
Definition qrep (q : queue) (ns : nodes) : Prop :=
  qchain (qh q) ns /\ qfront q = nhd ns /\ qrear q = nlast ns /\
  qlength q = Z.of_nat (length ns) /\ NoDup (nids ns) /\
  Forall (fun n => (n < qnxt q)%nat) (nids ns) /\ (length ns <= qnxt q)%nat.

Lemma qrep_init : qrep queue_init [].
Proof. unfold qrep, queue_init. cbn. repeat split; auto; try constructor. Qed.

Lemma fresh_not_in : forall l n, Forall (fun m => (m < n)%nat) l -> ~ In n l.
Proof. intros l n F Hin. rewrite Forall_forall in F. specialize (F _ Hin). lia. Qed.

Lemma qrep_push : forall q ns v, qrep q ns -> qrep (q_push q v) (ns ++ [(qnxt q, v)]).
Proof.
  intros q ns v (Hc & Hf & Hr & Hl & Hd & Hlt & Hle).
  pose proof (fresh_not_in _ _ Hlt) as Hfresh.
  assert (NoDup (nids (ns ++ [(qnxt q, v)]))) as Hd'.
  { unfold nids in *. rewrite map_app. cbn [List.map fst].
    apply NoDup_snoc; auto. }
  assert (Forall (fun n => (n < S (qnxt q))%nat) (nids (ns ++ [(qnxt q, v)]))) as Hlt'.
  { unfold nids in *. rewrite map_app. apply Forall_app. split.
    - eapply Forall_impl; [|exact Hlt]. cbn. intros; lia.
    - constructor; [cbn; lia|constructor]. }
  assert (qlength q + 1 = Z.of_nat (length (ns ++ [(qnxt q, v)]))) as Hl'.
  { rewrite app_length. cbn [length]. lia. }
  assert (length (ns ++ [(qnxt q, v)]) <= S (qnxt q))%nat as Hle'.
  { rewrite app_length. cbn [length]. lia. }
  unfold q_push. destruct (snoc_cases ns) as [->|(ns0 & r & x & ->)].
  - cbn [nlast] in Hr. rewrite Hr. unfold qrep. cbn [qh qfront qrear qlength qnxt app qchain nhd nlast].
    repeat split; auto. apply upd_same.
  - rewrite nlast_snoc in Hr. rewrite Hr.
    unfold qrep. cbn [qh qfront qrear qlength qnxt].
    assert (r <> qnxt q) as Hne.
    { intro; subst. apply Hfresh. unfold nids. rewrite map_app. apply in_or_app. right. left. reflexivity. }
    unfold q_set_next. rewrite upd_other by auto. rewrite (qchain_last _ _ _ _ Hc). cbn [qdata].
    repeat split; auto.
    + apply qchain_snoc; auto.
    + rewrite Hf. symmetry. apply nhd_snoc. destruct ns0; discriminate.
    + rewrite nlast_snoc. reflexivity.
Qed.

Lemma qrep_pop_cons : forall q f x tl, qrep q ((f, x) :: tl) ->
  q_pop_guard q = Some f /\ q_pop_res q = x /\ qrep (q_pop q) tl.
Proof.
  intros q f x tl (Hc & Hf & Hr & Hl & Hd & Hlt & Hle).
  cbn [qchain] in Hc. destruct Hc as (Hn & Hc).
  assert (q_pop_guard q = Some f) as G.
  { unfold q_pop_guard. rewrite Hl, Hf. cbn [length nhd].
    destruct (Z.leb_spec (Z.of_nat (S (length tl))) 0); [lia|reflexivity]. }
  split; auto. split.
  - unfold q_pop_res. rewrite G. unfold q_data. rewrite Hn. reflexivity.
  - unfold q_pop. rewrite G. unfold q_next. rewrite Hn. cbn [qnext].
    cbn [nids List.map fst] in Hd, Hlt. inversion Hd; subst. inversion Hlt; subst.
    unfold qrep. cbn [qh qfront qrear qlength qnxt].
    repeat split; auto.
    + apply qchain_frame; auto.
    + destruct tl as [|[a y] tl']; cbn [nhd]; auto.
    + rewrite Hl. cbn [length]. lia.
    + cbn [length] in Hle. lia.
Qed.

Lemma qrep_pop_nil : forall q, qrep q [] -> q_pop_guard q = None.
Proof.
  intros q (Hc & Hf & Hr & Hl & _). unfold q_pop_guard. rewrite Hl. reflexivity.
Qed.

(* the free loop of clear / ~self(): frees every node once, front to rear *)
Lemma q_free_loop_chain : forall ns fuel h, (length ns <= fuel)%nat -> qchain h ns -> NoDup (nids ns) ->
  exists h', q_free_loop fuel h (nhd ns) = (h', None, List.map Free (nids ns)).
Proof.
  induction ns as [|[f x] tl IH]; intros fuel h Hfuel Hc Hd.
  - destruct fuel; cbn; eauto.
  - destruct fuel; [cbn in Hfuel; lia|].
    cbn [qchain] in Hc. destruct Hc as (Hn & Hc).
    cbn [nids List.map fst] in Hd. inversion Hd; subst.
    cbn [nhd q_free_loop]. unfold q_next at 1. rewrite Hn. cbn [qnext].
    destruct (IH fuel (upd h f None)) as (h' & E).
    + cbn [length] in Hfuel. lia.
    + apply qchain_frame; auto.
    + auto.
    + rewrite E. eexists. reflexivity.
Qed.

(* ---------------------------------------------------------------- Spec: a list, FIFO *)
Definition qs_step (l : list Z) (o : qop) : list Z :=
  match o with QPush v => l ++ [v] | QPop => tl l | QClear => [] | _ => l end.
Definition qs_res (l : list Z) (o : qop) : res :=
  match o with
  | QPop | QTop => RInt (hd 0 l)
  | QEmpty | QIsEmpty => RBool (match l with [] => true | _ => false end)
  | QSize => RInt (Z.of_nat (length l))
  | _ => RUnit
  end.
Fixpoint qs_run (ops : list qop) (l : list Z) : list Z :=
  match ops with [] => l | o :: r => qs_run r (qs_step l o) end.
Fixpoint qs_run_res (ops : list qop) (l : list Z) : list res :=
  match ops with [] => [] | o :: r => qs_res l o :: qs_run_res r (qs_step l o) end.

Lemma nvals_app : forall a b, nvals (a ++ b) = nvals a ++ nvals b.
Proof. intros. unfold nvals. apply map_app. Qed.

Lemma length_zero_bool : forall ns : nodes,
  (Z.of_nat (length ns) =? 0) = match nvals ns with [] => true | _ => false end.
Proof. destruct ns; reflexivity. Qed.

Lemma q_step_refines : forall q ns o live, qrep q ns -> Permutation live (nids ns) ->
  exists ns' live',
    qrep (q_step q o) ns' /\ nvals ns' = qs_step (nvals ns) o /\ q_res q o = qs_res (nvals ns) o /\
    replay live (q_log q o) = Some live' /\ Permutation live' (nids ns').
Proof.
  intros q ns o live R P.
  pose proof R as (Hc & Hf & Hr & Hl & Hd & Hlt & Hle).
  destruct o; cbn [q_step q_res q_log qs_step qs_res].
  - (* push *)
    exists (ns ++ [(qnxt q, v)]), (qnxt q :: live). split; [apply qrep_push; auto|].
    split; [apply nvals_app|]. split; auto. split.
    + apply replay_malloc. intro Hin. apply (fresh_not_in _ _ Hlt).
      eapply Permutation_in; [exact P|exact Hin].
    + unfold nids. rewrite map_app. cbn [List.map fst]. rewrite P.
      apply Permutation_cons_append.
  - (* pop *)
    destruct ns as [|[f x] tl].
    + rewrite (qrep_pop_nil q R). exists [], live. unfold q_pop, q_pop_res. rewrite (qrep_pop_nil q R).
      repeat split; auto.
    + destruct (qrep_pop_cons q f x tl R) as (G & Rs & R').
      rewrite G. destruct (replay_free f live (nids tl)) as (l1 & E1 & P1); [exact P|].
      exists tl, l1. split; [exact R'|]. split; [reflexivity|]. split; [rewrite Rs; reflexivity|].
      split; [exact E1|exact P1].
  - (* top *)
    exists ns, live. repeat split; auto.
    destruct ns as [|[f x] tl].
    + unfold q_pop_res. rewrite (qrep_pop_nil q R). reflexivity.
    + destruct (qrep_pop_cons q f x tl R) as (G & Rs & R'). rewrite Rs. reflexivity.
  - (* empty *)
    exists ns, live. repeat split; auto. rewrite Hl. f_equal. apply length_zero_bool.
  - (* size *)
    exists ns, live. repeat split; auto. rewrite Hl. unfold nvals. rewrite map_length. reflexivity.
  - (* clear *)
    destruct (q_free_loop_chain ns (qnxt q) (qh q) Hle Hc Hd) as (h' & E).
    rewrite <- Hf in E. rewrite E. cbn [snd].
    destruct (replay_free_list (nids ns) live []) as (l1 & E1 & P1); [rewrite app_nil_r; exact P|].
    exists [], l1. split.
    + unfold qrep. cbn. repeat split; auto; try constructor. lia.
    + repeat split; auto.
  - (* is_empty *)
    exists ns, live. repeat split; auto. rewrite Hl. f_equal. apply length_zero_bool.
Qed.

Lemma q_run_refines : forall ops q ns live, qrep q ns -> Permutation live (nids ns) ->
  exists ns' live',
    qrep (q_run ops q) ns' /\ nvals ns' = qs_run ops (nvals ns) /\
    q_run_res ops q = qs_run_res ops (nvals ns) /\
    replay live (q_run_log ops q) = Some live' /\ Permutation live' (nids ns').
Proof.
  induction ops as [|o ops IH]; intros q ns live R P; cbn [q_run qs_run q_run_res qs_run_res q_run_log].
  - exists ns, live. split; [exact R|]. repeat split; auto.
  - destruct (q_step_refines q ns o live R P) as (ns1 & l1 & R1 & V1 & Rs1 & E1 & P1).
    destruct (IH _ _ _ R1 P1) as (ns2 & l2 & R2 & V2 & Rs2 & E2 & P2).
    exists ns2, l2. rewrite V1 in *. split; [exact R2|]. split; [exact V2|]. split; [rewrite Rs1, Rs2; reflexivity|].
    split; [rewrite replay_app, E1; exact E2|exact P2].
Qed.

Lemma queue_refines_fifo_l : forall ops,
  q_run_res ops queue_init = qs_run_res ops [] /\
  exists ns, qrep (q_run ops queue_init) ns /\ nvals ns = qs_run ops [] /\
             qlength (q_run ops queue_init) = Z.of_nat (length (qs_run ops [])).
Proof.
  intros. destruct (q_run_refines ops queue_init [] [] qrep_init (Permutation_refl _))
    as (ns & live & R & V & Rs & _ & _).
  change (nvals []) with (@nil Z) in *.
  split; auto. exists ns. split; [exact R|]. split; [exact V|].
  destruct R as (_ & _ & _ & Hl & _). rewrite Hl, <- V. unfold nvals. rewrite map_length. reflexivity.
Qed.

Lemma queue_log_sound : forall ops,
  replay [] (q_run_log ops queue_init ++ q_dtor_log (q_run ops queue_init)) = Some [].
Proof.
  intros. destruct (q_run_refines ops queue_init [] [] qrep_init (Permutation_refl _))
    as (ns & live & R & _ & _ & E & P).
  rewrite replay_app, E. destruct R as (Hc & Hf & _ & _ & Hd & _ & Hle).
  unfold q_dtor_log.
  destruct (q_free_loop_chain ns _ _ Hle Hc Hd) as (h' & E2). rewrite <- Hf in E2. rewrite E2. cbn [snd].
  destruct (replay_free_list (nids ns) live []) as (l1 & E1 & P1); [rewrite app_nil_r; exact P|].
  rewrite E1. symmetry in P1. apply Permutation_nil in P1. subst. reflexivity.
Qed.
