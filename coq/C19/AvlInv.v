(* C19 - AVL invariant of the Map model: stored height = real height, |balance| <= 1, has_value set,
   preserved by rotate/rebalance/insert_to_node/remove_from_node; in-order contents unchanged by
   rotations; height bound fib (h+2) <= n+1. *)
From Coq Require Import ZArith List Bool Lia Arith.
From Cb Require Import C19.Model.
Import ListNotations.
Local Open Scope Z_scope.

(* ---------------------------------------------------------------- observations of a tree *)
Fixpoint elements (t : tree) : list (Z * Z) :=
  match t with Leaf => [] | Node l k v _ _ r _ => elements l ++ (k, v) :: elements r end.
Fixpoint ids (t : tree) : list nat :=
  match t with Leaf => [] | Node l _ _ _ _ r id => ids l ++ id :: ids r end.
Fixpoint size (t : tree) : nat :=
  match t with Leaf => O | Node l _ _ _ _ r _ => S (size l + size r) end.
Fixpoint rheight (t : tree) : nat :=
  match t with Leaf => O | Node l _ _ _ _ r _ => S (Nat.max (rheight l) (rheight r)) end.

(* the AVL invariant on STORED heights *)
Fixpoint avl (t : tree) : Prop :=
  match t with
  | Leaf => True
  | Node l _ _ hv h r _ =>
      avl l /\ avl r /\ h = 1 + Z.max (get_height l) (get_height r) /\
      -1 <= get_height l - get_height r <= 1 /\ hv = true
  end.

Lemma maxh_eq : forall a b, (if b >? a then b else a) = Z.max a b.
Proof. intros. destruct (Z.gtb_spec b a); lia. Qed.

Lemma avl_height_nonneg : forall t, avl t -> 0 <= get_height t.
Proof. induction t; cbn [avl get_height]; intros; [lia|]. destruct H as (Hl & Hr & Hh & _). specialize (IHt1 Hl). specialize (IHt2 Hr). lia. Qed.

Lemma avl_node_pos : forall l k v hv h r id, avl (Node l k v hv h r id) -> 1 <= h.
Proof. intros. cbn [avl] in H. destruct H as (Hl & Hr & Hh & _). apply avl_height_nonneg in Hl. apply avl_height_nonneg in Hr. lia. Qed.

Lemma height0_leaf : forall t, avl t -> get_height t = 0 -> t = Leaf.
Proof. destruct t; auto. intros H E. apply avl_node_pos in H. simpl in E. lia. Qed.

Lemma stored_height_is_real : forall t, avl t -> get_height t = Z.of_nat (rheight t).
Proof.
  induction t; cbn [avl get_height rheight]; intros; auto. destruct H as (Hl & Hr & Hh & _).
  rewrite Hh, (IHt1 Hl), (IHt2 Hr). lia.
Qed.

(* ---------------------------------------------------------------- rotations keep the in-order contents *)
Lemma elements_update_height : forall t, elements (update_height t) = elements t.
Proof. destruct t; reflexivity. Qed.
Lemma ids_update_height : forall t, ids (update_height t) = ids t.
Proof. destruct t; reflexivity. Qed.
Lemma size_update_height : forall t, size (update_height t) = size t.
Proof. destruct t; reflexivity. Qed.

Lemma elements_rotate_right : forall t, elements (rotate_right t) = elements t.
Proof.
  destruct t as [|x k v hv h r id]; auto. destruct x; auto.
  simpl. rewrite <- app_assoc. reflexivity.
Qed.
Lemma elements_rotate_left : forall t, elements (rotate_left t) = elements t.
Proof.
  destruct t as [|l k v hv h y id]; auto. destruct y; auto.
  simpl. rewrite <- app_assoc. reflexivity.
Qed.
Lemma ids_rotate_right : forall t, ids (rotate_right t) = ids t.
Proof.
  destruct t as [|x k v hv h r id]; auto. destruct x; auto.
  simpl. rewrite <- app_assoc. reflexivity.
Qed.
Lemma ids_rotate_left : forall t, ids (rotate_left t) = ids t.
Proof.
  destruct t as [|l k v hv h y id]; auto. destruct y; auto.
  simpl. rewrite <- app_assoc. reflexivity.
Qed.
Lemma size_rotate_right : forall t, size (rotate_right t) = size t.
Proof.
  destruct t as [|x k v hv h r id]; auto. destruct x; auto. simpl. lia.
Qed.
Lemma size_rotate_left : forall t, size (rotate_left t) = size t.
Proof.
  destruct t as [|l k v hv h y id]; auto. destruct y; auto. simpl. lia.
Qed.

Lemma rebalance_unfold : forall l k v hv h r id,
  rebalance (Node l k v hv h r id) =
  let h' := Z.max (get_height l) (get_height r) + 1 in
  if get_height l - get_height r >? 1 then
    match l with
    | Leaf => Node l k v hv h' r id
    | Node _ _ _ _ _ _ _ =>
        rotate_right (Node (if get_balance l <? 0 then rotate_left l else l) k v hv h' r id)
    end
  else if get_height l - get_height r <? -1 then
    match r with
    | Leaf => Node l k v hv h' r id
    | Node _ _ _ _ _ _ _ =>
        rotate_left (Node l k v hv h' (if get_balance r >? 0 then rotate_right r else r) id)
    end
  else Node l k v hv h' r id.
Proof. intros. unfold rebalance. cbn [update_height]. rewrite maxh_eq. reflexivity. Qed.

Lemma rebalance_node : forall l k v hv h r id, exists l' k' v' hv' h' r' id',
  rebalance (Node l k v hv h r id) = Node l' k' v' hv' h' r' id'.
Proof.
  intros. rewrite rebalance_unfold. cbv zeta.
  destruct (get_height l - get_height r >? 1).
  - destruct l as [|ll lk lv lhv lh lr lid]; [repeat eexists|].
    destruct (get_balance (Node ll lk lv lhv lh lr lid) <? 0).
    + destruct lr; simpl; repeat eexists.
    + simpl; repeat eexists.
  - destruct (get_height l - get_height r <? -1); [|repeat eexists].
    destruct r as [|rl rk rv rhv rh rr rid]; [repeat eexists|].
    destruct (get_balance (Node rl rk rv rhv rh rr rid) >? 0).
    + destruct rl; simpl; repeat eexists.
    + simpl; repeat eexists.
Qed.

Lemma elements_rebalance : forall t, elements (rebalance t) = elements t.
Proof.
  destruct t as [|l k v hv h r id]; auto.
  rewrite rebalance_unfold. cbv zeta.
  destruct (get_height l - get_height r >? 1).
  - destruct l as [|ll lk lv lhv lh lr lid]; auto.
    rewrite elements_rotate_right. destruct (get_balance (Node ll lk lv lhv lh lr lid) <? 0); auto.
    change (elements (Node ?a k v hv ?hh r id)) with (elements a ++ (k, v) :: elements r).
    rewrite elements_rotate_left. reflexivity.
  - destruct (get_height l - get_height r <? -1); auto.
    destruct r as [|rl rk rv rhv rh rr rid]; auto.
    rewrite elements_rotate_left. destruct (get_balance (Node rl rk rv rhv rh rr rid) >? 0); auto.
    change (elements (Node l k v hv ?hh ?a id)) with (elements l ++ (k, v) :: elements a).
    rewrite elements_rotate_right. reflexivity.
Qed.
Lemma ids_rebalance : forall t, ids (rebalance t) = ids t.
Proof.
  destruct t as [|l k v hv h r id]; auto.
  rewrite rebalance_unfold. cbv zeta.
  destruct (get_height l - get_height r >? 1).
  - destruct l as [|ll lk lv lhv lh lr lid]; auto.
    rewrite ids_rotate_right. destruct (get_balance (Node ll lk lv lhv lh lr lid) <? 0); auto.
    change (ids (Node ?a k v hv ?hh r id)) with (ids a ++ id :: ids r).
    rewrite ids_rotate_left. reflexivity.
  - destruct (get_height l - get_height r <? -1); auto.
    destruct r as [|rl rk rv rhv rh rr rid]; auto.
    rewrite ids_rotate_left. destruct (get_balance (Node rl rk rv rhv rh rr rid) >? 0); auto.
    change (ids (Node l k v hv ?hh ?a id)) with (ids l ++ id :: ids a).
    rewrite ids_rotate_right. reflexivity.
Qed.
Lemma size_elements : forall t, size t = length (elements t).
Proof. induction t; simpl; auto. rewrite app_length. simpl. lia. Qed.
Lemma size_ids : forall t, size t = length (ids t).
Proof. induction t; simpl; auto. rewrite app_length. simpl. lia. Qed.

(* ---------------------------------------------------------------- rebalance restores the invariant *)
Ltac RED := repeat (cbn [rotate_left rotate_right update_height get_height avl get_balance]; rewrite ?maxh_eq).
Lemma rebalance_avl : forall l k v hv h r id,
  avl l -> avl r -> hv = true -> -2 <= get_height l - get_height r <= 2 ->
  let t' := rebalance (Node l k v hv h r id) in
  avl t' /\
  (-1 <= get_height l - get_height r <= 1 -> get_height t' = 1 + Z.max (get_height l) (get_height r)) /\
  (get_height l - get_height r = 2 -> get_height t' = get_height l \/ get_height t' = get_height l + 1) /\
  (get_height r - get_height l = 2 -> get_height t' = get_height r \/ get_height t' = get_height r + 1).
Proof.
  intros l k v hv h r id Hl Hr Hhv Hd. cbv zeta.
  pose proof (avl_height_nonneg _ Hl) as Pl. pose proof (avl_height_nonneg _ Hr) as Pr.
  rewrite rebalance_unfold. cbv zeta.
  destruct (Z.gtb_spec (get_height l - get_height r) 1) as [B1|B1].
  - (* left heavy *)
    destruct l as [|ll lk lv lhv lh lr lid]; [cbn [get_height avl] in *; lia|].
    cbn [avl] in Hl. destruct Hl as (Hll & Hlr & Hlh & Hlb & Hlhv).
    pose proof (avl_height_nonneg _ Hll) as Pll. pose proof (avl_height_nonneg _ Hlr) as Plr.
    cbn [get_height] in *. cbn [get_balance get_height].
    destruct (Z.ltb_spec (get_height ll - get_height lr) 0) as [B2|B2].
    + (* left-right: lr is a node *)
      destruct lr as [|lrl lrk lrv lrhv lrh lrr lrid]; [cbn [get_height avl] in *; lia|].
      cbn [avl] in Hlr. destruct Hlr as (Hlrl & Hlrr & Hlrh & Hlrb & Hlrhv).
      pose proof (avl_height_nonneg _ Hlrl). pose proof (avl_height_nonneg _ Hlrr).
      cbn [get_height] in *. RED.
      repeat split; auto; try lia.
    + RED. repeat split; auto; try lia.
  - destruct (Z.ltb_spec (get_height l - get_height r) (-1)) as [B3|B3].
    + destruct r as [|rl rk rv rhv rh rr rid]; [cbn [get_height avl] in *; lia|].
      cbn [avl] in Hr. destruct Hr as (Hrl & Hrr & Hrh & Hrb & Hrhv).
      pose proof (avl_height_nonneg _ Hrl) as Prl. pose proof (avl_height_nonneg _ Hrr) as Prr.
      cbn [get_height] in *. cbn [get_balance get_height].
      destruct (Z.gtb_spec (get_height rl - get_height rr) 0) as [B4|B4].
      * destruct rl as [|rll rlk rlv rlhv rlh rlr rlid]; [cbn [get_height avl] in *; lia|].
        cbn [avl] in Hrl. destruct Hrl as (Hrll & Hrlr & Hrlh & Hrlb & Hrlhv).
        pose proof (avl_height_nonneg _ Hrll). pose proof (avl_height_nonneg _ Hrlr).
        cbn [get_height] in *. RED.
        repeat split; auto; try lia.
      * RED. repeat split; auto; try lia.
    + RED. repeat split; auto; try lia.
Qed.

(* ---------------------------------------------------------------- insert_to_node *)
Lemma insert_avl : forall nid key value t, avl t ->
  avl (insert_to_node nid t key value) /\
  (get_height (insert_to_node nid t key value) = get_height t \/
   get_height (insert_to_node nid t key value) = get_height t + 1).
Proof.
  intros nid key value. induction t as [|l IHl k v hv h r IHr id]; intros Ht.
  - cbn [insert_to_node avl get_height]. repeat split; auto; lia.
  - cbn [avl] in Ht. destruct Ht as (Hl & Hr & Hh & Hb & Hhv).
    cbn [insert_to_node].
    destruct (key =? k).
    { cbn [avl get_height]. repeat split; auto; lia. }
    destruct (key <? k).
    + destruct (IHl Hl) as (Al & Hgt).
      pose proof (rebalance_avl (insert_to_node nid l key value) k v hv h r id Al Hr Hhv) as R.
      cbv zeta in R. destruct R as (Ra & R1 & R2 & R3); [lia|].
      split; auto. cbn [get_height]. lia.
    + destruct (IHr Hr) as (Ar & Hgt).
      pose proof (rebalance_avl l k v hv h (insert_to_node nid r key value) id Hl Ar Hhv) as R.
      cbv zeta in R. destruct R as (Ra & R1 & R2 & R3); [lia|].
      split; auto. cbn [get_height]. lia.
Qed.

(* ---------------------------------------------------------------- remove_from_node *)
Lemma min_node_hv : forall t dk dv dhv, avl t -> dhv = true ->
  snd (min_node t dk dv dhv) = true.
Proof.
  induction t as [|l IHl k v hv h r IHr id]; intros; cbn [min_node]; auto.
  cbn [avl] in H. destruct H as (Hl & _ & _ & _ & Hhv). apply IHl; auto.
Qed.

Lemma remove_avl : forall t key, avl t ->
  avl (remove_from_node t key) /\
  (get_height (remove_from_node t key) = get_height t \/
   get_height (remove_from_node t key) = get_height t - 1).
Proof.
  induction t as [|l IHl k v hv h r IHr id]; intros key Ht.
  - cbn [remove_from_node avl get_height]. repeat split; auto; lia.
  - pose proof Ht as Ht0. cbn [avl] in Ht. destruct Ht as (Hl & Hr & Hh & Hb & Hhv).
    pose proof (avl_height_nonneg _ Hl) as Pl. pose proof (avl_height_nonneg _ Hr) as Pr.
    cbn [remove_from_node].
    destruct (key <? k).
    { destruct (IHl key Hl) as (Al & Hgt).
      pose proof (rebalance_avl (remove_from_node l key) k v hv h r id Al Hr Hhv) as R.
      cbv zeta in R. destruct R as (Ra & R1 & R2 & R3); [lia|].
      split; auto. cbn [get_height]. lia. }
    destruct (key >? k).
    { destruct (IHr key Hr) as (Ar & Hgt).
      pose proof (rebalance_avl l k v hv h (remove_from_node r key) id Hl Ar Hhv) as R.
      cbv zeta in R. destruct R as (Ra & R1 & R2 & R3); [lia|].
      split; auto. cbn [get_height]. lia. }
    destruct l as [|ll lk lv lhv lh lr lid].
    { split; auto. cbn [get_height] in *. lia. }
    destruct r as [|rl rk rv rhv rh rr rid].
    { split; auto. pose proof (avl_node_pos _ _ _ _ _ _ _ Hl). cbn [get_height] in *. lia. }
    remember (Node ll lk lv lhv lh lr lid) as l.
    remember (Node rl rk rv rhv rh rr rid) as r.
    pose proof (min_node_hv r k v hv Hr Hhv) as Hm.
    destruct (min_node r k v hv) as [[sk sv] shv]. cbn [snd] in Hm.
    destruct (IHr sk Hr) as (Ar & Hgt).
    pose proof (rebalance_avl l sk sv shv h (remove_from_node r sk) id Hl Ar Hm) as R.
    cbv zeta in R. destruct R as (Ra & R1 & R2 & R3); [lia|].
    split; auto. cbn [get_height]. lia.
Qed.

(* ---------------------------------------------------------------- the height bound *)
Fixpoint fib (n : nat) : nat :=
  match n with
  | O => O
  | S m => match m with O => 1%nat | S p => (fib m + fib p)%nat end
  end.

Lemma fib_SS : forall n, fib (S (S n)) = (fib (S n) + fib n)%nat.
Proof. reflexivity. Qed.

Lemma fib_mono_S : forall n, (fib n <= fib (S n))%nat.
Proof.
  induction n; [simpl; lia|]. rewrite fib_SS. lia.
Qed.
Lemma fib_mono : forall a b, (a <= b)%nat -> (fib a <= fib b)%nat.
Proof.
  induction 1; auto. etransitivity; [eassumption|apply fib_mono_S].
Qed.

(* balance on REAL heights *)
Fixpoint rbalanced (t : tree) : Prop :=
  match t with
  | Leaf => True
  | Node l _ _ _ _ r _ =>
      rbalanced l /\ rbalanced r /\
      (rheight l <= S (rheight r))%nat /\ (rheight r <= S (rheight l))%nat
  end.

Lemma avl_rbalanced : forall t, avl t -> rbalanced t.
Proof.
  induction t as [|l IHl k v hv h r IHr id]; cbn [avl rbalanced]; auto.
  intros (Hl & Hr & Hh & Hb & _).
  rewrite (stored_height_is_real _ Hl), (stored_height_is_real _ Hr) in Hb.
  repeat split; auto; lia.
Qed.

Lemma rbalanced_fib : forall t, rbalanced t -> (fib (rheight t + 2) <= size t + 1)%nat.
Proof.
  induction t as [|l IHl k v hv h r IHr id]; cbn [rbalanced rheight size]; intros.
  - simpl. lia.
  - destruct H as (Hl & Hr & B1 & B2). specialize (IHl Hl). specialize (IHr Hr).
    destruct (Nat.le_ge_cases (rheight l) (rheight r)) as [C|C].
    + rewrite (Nat.max_r _ _ C).
      replace (S (rheight r) + 2)%nat with (S (S (rheight r + 1))) by lia.
      rewrite fib_SS. replace (S (rheight r + 1)) with (rheight r + 2)%nat by lia.
      assert (fib (rheight r + 1) <= fib (rheight l + 2))%nat by (apply fib_mono; lia).
      lia.
    + rewrite (Nat.max_l _ _ C).
      replace (S (rheight l) + 2)%nat with (S (S (rheight l + 1))) by lia.
      rewrite fib_SS. replace (S (rheight l + 1)) with (rheight l + 2)%nat by lia.
      assert (fib (rheight l + 1) <= fib (rheight r + 2))%nat by (apply fib_mono; lia).
      lia.
Qed.

Lemma avl_height_fib_l : forall t, avl t ->
  (fib (Z.to_nat (get_height t) + 2) <= size t + 1)%nat.
Proof.
  intros. rewrite (stored_height_is_real _ H), Nat2Z.id.
  apply rbalanced_fib, avl_rbalanced, H.
Qed.
