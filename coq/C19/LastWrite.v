(* C19 - "a read returns the latest write": the meaning of a Map history stated without the finite-map
   spec, as the last write to the key in the history (insert / remove / try_remove / clear), and the
   proof that get / contains of the AVL implementation model return exactly that. Proofs only; the
   theorems are restated in Properties_C19_lastwrite.v. *)
From Coq Require Import ZArith List Bool Lia.
From Cb Require Import C19.Model C19.AvlInv C19.AvlRefine.
Import ListNotations.
Local Open Scope Z_scope.

(* what the history says about key k: [acc] is what was known before the history *)
Fixpoint last_write (k : Z) (ops : list mop) (acc : option Z) : option Z :=
  match ops with
  | [] => acc
  | MInsert k' v :: r => last_write k r (if k =? k' then Some v else acc)
  | MRemove k' :: r | MTryRemove k' :: r => last_write k r (if k =? k' then None else acc)
  | MClear :: r => last_write k r None
  | _ :: r => last_write k r acc
  end.

Lemma sorted_fm_step s o : sorted s -> sorted (fm_step s o).
Proof.
  intro S; destruct o; cbn [fm_step]; auto using sorted_ins_list, sorted_del_list.
  exact I.
Qed.

Lemma assoc_fm_run k : forall ops s, sorted s -> assoc k (fm_run ops s) = last_write k ops (assoc k s).
Proof.
  induction ops as [|o ops IH]; intros s S; cbn [fm_run last_write]; [reflexivity|].
  rewrite (IH _ (sorted_fm_step s o S)).
  destruct o; cbn [fm_step]; try reflexivity.
  - now rewrite assoc_ins_list.
  - now rewrite assoc_del_list.
  - now rewrite assoc_del_list.
Qed.

Lemma map_inv_run : forall ops m, map_inv m -> map_inv (m_run ops m).
Proof.
  induction ops as [|o ops IH]; intros m I; cbn [m_run]; [exact I|].
  apply IH, map_inv_step, I.
Qed.

Lemma read_latest_write ops k d :
  let m := m_run ops map_init in
  get_loop (root m) k d = (match last_write k ops None with Some v => v | None => d end) /\
  contains_loop (root m) k = is_some (last_write k ops None).
Proof.
  cbv zeta.
  destruct (map_inv_run ops map_init map_inv_init) as (A & B & _).
  destruct (run_refines ops map_init map_inv_init) as (E & _).
  rewrite get_assoc, contains_assoc by assumption.
  rewrite E. cbn [map_init root elements].
  rewrite (assoc_fm_run k ops [] I). cbn [assoc]. split; reflexivity.
Qed.

Lemma last_write_app k a b acc : last_write k (a ++ b) acc = last_write k b (last_write k a acc).
Proof.
  revert acc; induction a as [|o a IH]; intro acc; cbn [app last_write]; [reflexivity|].
  destruct o; apply IH.
Qed.

(* reads do not write *)
Definition is_read (o : mop) : bool :=
  match o with MGet _ _ | MContains _ | MSize | MIsEmpty | MHeight => true | _ => false end.

Lemma last_write_reads k ops acc : forallb is_read ops = true -> last_write k ops acc = acc.
Proof.
  revert acc; induction ops as [|o ops IH]; intros acc H; cbn [last_write]; [reflexivity|].
  cbn [forallb] in H; apply andb_prop in H; destruct H as [Ho H].
  destruct o; try discriminate Ho; apply IH, H.
Qed.

(* user-level corollaries: for every earlier history [h] and every run of reads / writes to OTHER keys
   [mid] in between *)
Definition other_key (k : Z) (o : mop) : bool :=
  match o with
  | MInsert k' _ | MRemove k' | MTryRemove k' => negb (k =? k')
  | MClear => false
  | _ => true
  end.

Lemma last_write_other k ops acc : forallb (other_key k) ops = true -> last_write k ops acc = acc.
Proof.
  revert acc; induction ops as [|o ops IH]; intros acc H; cbn [last_write]; [reflexivity|].
  cbn [forallb] in H; apply andb_prop in H; destruct H as [Ho H].
  destruct o; cbn [other_key] in Ho; try discriminate Ho;
    try (apply negb_true_iff in Ho; rewrite Ho); apply IH, H.
Qed.

Lemma insert_then_get h k v mid d : forallb (other_key k) mid = true ->
  let m := m_run (h ++ MInsert k v :: mid) map_init in
  get_loop (root m) k d = v /\ contains_loop (root m) k = true.
Proof.
  intro H; cbv zeta.
  destruct (read_latest_write (h ++ MInsert k v :: mid) k d) as [G C]; cbv zeta in G, C.
  rewrite G, C, last_write_app. cbn [last_write]. rewrite Z.eqb_refl, last_write_other by exact H.
  split; reflexivity.
Qed.

Lemma remove_then_get h k mid d : forallb (other_key k) mid = true ->
  let m := m_run (h ++ MRemove k :: mid) map_init in
  get_loop (root m) k d = d /\ contains_loop (root m) k = false.
Proof.
  intro H; cbv zeta.
  destruct (read_latest_write (h ++ MRemove k :: mid) k d) as [G C]; cbv zeta in G, C.
  rewrite G, C, last_write_app. cbn [last_write]. rewrite Z.eqb_refl, last_write_other by exact H.
  split; reflexivity.
Qed.

Lemma clear_then_get h k mid d : forallb (other_key k) mid = true ->
  let m := m_run (h ++ MClear :: mid) map_init in
  get_loop (root m) k d = d /\ contains_loop (root m) k = false.
Proof.
  intro H; cbv zeta.
  destruct (read_latest_write (h ++ MClear :: mid) k d) as [G C]; cbv zeta in G, C.
  rewrite G, C, last_write_app. cbn [last_write]. rewrite last_write_other by exact H.
  split; reflexivity.
Qed.
