(* C19 - lemmas about the malloc/free event-log checker [replay] (shared by Map, Queue, Vector). *)
From Coq Require Import ZArith List Bool Lia Arith Permutation.
From Cb Require Import C19.Model.
Import ListNotations.

Lemma mem_In : forall x l, mem x l = true <-> In x l.
Proof.
  induction l as [|y l IH]; cbn [mem In]; [split; [discriminate|tauto]|].
  rewrite orb_true_iff, IH, Nat.eqb_eq. split; intros [H|H]; auto.
Qed.
Lemma mem_notIn : forall x l, mem x l = false <-> ~ In x l.
Proof.
  intros. rewrite <- mem_In. destruct (mem x l); split; intros H; try congruence; try (intro; congruence).
Qed.

Lemma remove1_perm : forall x l, In x l -> Permutation (x :: remove1 x l) l.
Proof.
  induction l as [|y l IH]; cbn [In remove1]; [tauto|].
  intros H. destruct (Nat.eqb_spec x y).
  - subst. reflexivity.
  - destruct H as [H|H]; [congruence|]. rewrite perm_swap. constructor. apply IH, H.
Qed.

Lemma replay_app : forall a b live,
  replay live (a ++ b) = match replay live a with Some l' => replay l' b | None => None end.
Proof.
  induction a as [|e a IH]; intros; cbn [app replay]; auto.
  destruct e; destruct (mem n live); auto.
Qed.

(* freeing a live block *)
Lemma replay_free : forall x live rest, Permutation live (x :: rest) ->
  exists live', replay live [Free x] = Some live' /\ Permutation live' rest.
Proof.
  intros x live rest P. cbn [replay].
  assert (In x live) as Hin by (eapply Permutation_in; [symmetry; exact P|left; auto]).
  rewrite (proj2 (mem_In x live) Hin). eexists. split; [reflexivity|].
  apply Permutation_cons_inv with (a := x). rewrite remove1_perm; auto.
Qed.

(* allocating a block that is not live *)
Lemma replay_malloc : forall x live, ~ In x live -> replay live [Malloc x] = Some (x :: live).
Proof. intros. cbn [replay]. rewrite (proj2 (mem_notIn x live) H). reflexivity. Qed.

(* freeing a list of distinct live blocks one after the other *)
Lemma replay_free_list : forall xs live rest, Permutation live (xs ++ rest) ->
  exists live', replay live (List.map Free xs) = Some live' /\ Permutation live' rest.
Proof.
  induction xs as [|x xs IH]; intros live rest P; cbn [List.map app] in *.
  - exists live. split; auto.
  - change (Free x :: List.map Free xs) with ([Free x] ++ List.map Free xs).
    rewrite replay_app. destruct (replay_free x live (xs ++ rest) P) as (l1 & E1 & P1).
    rewrite E1. apply IH, P1.
Qed.
