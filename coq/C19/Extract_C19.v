(* Extraction of the C19 models to OCaml (ExtrOcamlBasic + ExtrOcamlString only; nat/Z stay inductive). *)
From Coq Require Import Extraction ExtrOcamlBasic ExtrOcamlString.
From Cb Require Import C19.Model C19.LinkedModel.
Extraction Language OCaml.
Extraction "C19/c19_model.ml" map_init m_step m_res m_log m_dtor_log
  queue_init q_step q_res q_log q_dtor_log
  vector_init v_step v_res v_log v_dtor_log replay.
