(* C19 - the pointer-level Vector model (doubly linked list, LinkedModel.v) refines a list:
   push/pop at both ends, at, find, delete_at, sort, clear; malloc/free log sound. *)
From Coq Require Import ZArith List Bool Lia Arith Permutation Sorted.
From Cb Require Import C19.Model C19.LinkedModel C19.Log C19.QueueProofs C19.SortProofs.
Import ListNotations.
Local Open Scope Z_scope.

Definition nhd_or (e : option nat) (ns : nodes) : option nat :=
  match ns with [] => e | (m, _) :: _ => Some m end.
Definition nlast_or (p : option nat) (ns : nodes) : option nat :=
  match nlast ns with Some n => Some n | None => p end.

Lemma nhd_or_None : forall ns, nhd_or None ns = nhd ns.
Proof. destruct ns as [|[a y] ns]; reflexivity. Qed.
Lemma nlast_nonempty : forall ns : nodes, ns <> [] -> exists m, nlast ns = Some m.
Proof.
  induction ns as [|[a y] ns IH]; [congruence|]. intros _. cbn [nlast].
  destruct ns as [|p ns']; [eauto|]. apply IH. discriminate.
Qed.
Lemma nlast_or_cons : forall p n x tl, nlast_or p ((n, x) :: tl) = nlast_or (Some n) tl.
Proof.
  intros. unfold nlast_or. cbn [nlast]. destruct tl as [|q tl']; [reflexivity|].
  destruct (nlast_nonempty (q :: tl')) as (m & E); [discriminate|]. rewrite E. reflexivity.
Qed.
Lemma nlast_or_snoc : forall p ns r x, nlast_or p (ns ++ [(r, x)]) = Some r.
Proof. intros. unfold nlast_or. rewrite nlast_snoc. reflexivity. Qed.
Lemma nlast_or_None : forall ns, nlast_or None ns = nlast ns.
Proof. intros. unfold nlast_or. destruct (nlast ns); reflexivity. Qed.
Lemma nhd_or_app : forall e a b, nhd_or e (a ++ b) = nhd_or (nhd_or e b) a.
Proof. destruct a as [|[n x] a]; reflexivity. Qed.

(* ---------------------------------------------------------------- doubly linked segment *)
Fixpoint dseg (h : nat -> option vnode) (p : option nat) (ns : nodes) (e : option nat) : Prop :=
  match ns with
  | [] => True
  | (n, x) :: tl => h n = Some (mkv p (nhd_or e tl) x) /\ dseg h (Some n) tl e
  end.

Lemma dseg_frame : forall h n x ns p e, ~ In n (nids ns) -> dseg h p ns e -> dseg (upd h n x) p ns e.
Proof.
  induction ns as [|[a y] ns IH]; cbn [dseg nids List.map In fst]; auto.
  intros p e Hn (Ha & Hc). split; [rewrite upd_other; auto|apply IH; auto].
Qed.

Lemma dseg_app : forall h a b p e,
  dseg h p (a ++ b) e <-> dseg h p a (nhd_or e b) /\ dseg h (nlast_or p a) b e.
Proof.
  induction a as [|[n x] a IH]; intros b p e.
  - cbn [app dseg]. unfold nlast_or. cbn [nlast]. tauto.
  - cbn [app dseg]. rewrite nlast_or_cons, IH, nhd_or_app. tauto.
Qed.

Lemma nids_app : forall a b, nids (a ++ b) = nids a ++ nids b.
Proof. intros. unfold nids. apply map_app. Qed.

Lemma dseg_set_next_last : forall h p a r x e e', dseg h p (a ++ [(r, x)]) e -> ~ In r (nids a) ->
  dseg (v_set_next h r e') p (a ++ [(r, x)]) e'.
Proof.
  intros h p a r x e e' H Hn. apply dseg_app in H. destruct H as (Ha & Hr).
  cbn [dseg nhd_or] in Hr. destruct Hr as (Hr & _).
  unfold v_set_next. rewrite Hr. cbn [vprev vdata].
  apply dseg_app. split.
  - apply dseg_frame; auto.
  - cbn [dseg nhd_or]. split; auto. apply upd_same.
Qed.

Lemma dseg_set_prev_first : forall h p f x tl e p', dseg h p ((f, x) :: tl) e -> ~ In f (nids tl) ->
  dseg (v_set_prev h f p') p' ((f, x) :: tl) e.
Proof.
  intros h p f x tl e p' (Hf & Ht) Hn. unfold v_set_prev. rewrite Hf. cbn [vnext vdata].
  cbn [dseg]. split; [apply upd_same|apply dseg_frame; auto].
Qed.

Lemma dseg_lookup_first : forall h p f x tl e, dseg h p ((f, x) :: tl) e ->
  v_data h (Some f) = x /\ v_next h (Some f) = nhd_or e tl /\ v_prev h (Some f) = p.
Proof. intros h p f x tl e (Hf & _). unfold v_data, v_next, v_prev. rewrite Hf. auto. Qed.

(* ---------------------------------------------------------------- representation invariant *)
Definition vrep (s : vector) (ns : nodes) : Prop :=
  dseg (vh s) None ns None /\ vfront s = nhd ns /\ vback s = nlast ns /\
  vlength s = Z.of_nat (length ns) /\ NoDup (nids ns) /\
  Forall (fun n => (n < vnxt s)%nat) (nids ns) /\ (length ns <= vnxt s)%nat.

Lemma vrep_init : vrep vector_init [].
Proof. unfold vrep, vector_init. cbn. repeat split; auto; try constructor. Qed.

Lemma nodup_snoc_inv : forall (a : list nat) r, NoDup (a ++ [r]) -> ~ In r a /\ NoDup a.
Proof.
  intros a r H. apply NoDup_remove in H. rewrite app_nil_r in H. tauto.
Qed.

Lemma in_nids_snoc : forall a r x, In r (nids (a ++ [(r, x)])).
Proof. intros. rewrite nids_app. apply in_or_app. right. left. reflexivity. Qed.

Lemma vrep_push_back : forall s ns v, vrep s ns -> vrep (v_push_back s v) (ns ++ [(vnxt s, v)]).
Proof.
  intros s ns v (Hc & Hf & Hb & Hl & Hd & Hlt & Hle).
  pose proof (fresh_not_in _ _ Hlt) as Hfresh.
  assert (NoDup (nids (ns ++ [(vnxt s, v)]))) as Hd'.
  { rewrite nids_app. cbn [nids List.map fst]. apply NoDup_snoc; auto. }
  assert (Forall (fun n => (n < S (vnxt s))%nat) (nids (ns ++ [(vnxt s, v)]))) as Hlt'.
  { rewrite nids_app. apply Forall_app. split.
    - eapply Forall_impl; [|exact Hlt]. cbn. intros; lia.
    - constructor; [cbn; lia|constructor]. }
  assert (vlength s + 1 = Z.of_nat (length (ns ++ [(vnxt s, v)]))) as Hl'.
  { rewrite app_length. cbn [length]. lia. }
  assert (length (ns ++ [(vnxt s, v)]) <= S (vnxt s))%nat as Hle'.
  { rewrite app_length. cbn [length]. lia. }
  unfold v_push_back. destruct (snoc_cases ns) as [->|(a & r & x & ->)].
  - cbn [nlast nhd] in Hb, Hf. rewrite Hb, Hf. unfold vrep. cbn [vh vfront vback vlength vnxt app dseg nhd nlast nhd_or].
    repeat split; auto. apply upd_same.
  - rewrite nlast_snoc in Hb. rewrite Hb.
    assert (r <> vnxt s) as Hne by (intro; subst; apply Hfresh, in_nids_snoc).
    rewrite nids_app in Hd. cbn [nids List.map fst] in Hd. apply nodup_snoc_inv in Hd. destruct Hd as (Hra & Hda).
    unfold vrep. cbn [vh vfront vback vlength vnxt].
    split.
    { apply dseg_app. split.
      - cbn [nhd_or]. eapply dseg_set_next_last; auto. apply dseg_frame; [exact Hfresh|exact Hc].
      - rewrite nlast_or_snoc. cbn [dseg nhd_or]. split; auto.
        unfold v_set_next. rewrite upd_other by auto.
        apply dseg_app in Hc. destruct Hc as (_ & (Hr & _)). rewrite Hr.
        rewrite upd_other by auto. apply upd_same. }
    split.
    { rewrite Hf. destruct a as [|[a0 y0] a']; reflexivity. }
    split; [rewrite nlast_snoc; reflexivity|].
    repeat split; auto.
Qed.

Lemma vrep_push_front : forall s ns v, vrep s ns -> vrep (v_push_front s v) ((vnxt s, v) :: ns).
Proof.
  intros s ns v (Hc & Hf & Hb & Hl & Hd & Hlt & Hle).
  pose proof (fresh_not_in _ _ Hlt) as Hfresh.
  assert (NoDup (nids ((vnxt s, v) :: ns))) as Hd' by (cbn [nids List.map fst]; constructor; auto).
  assert (Forall (fun n => (n < S (vnxt s))%nat) (nids ((vnxt s, v) :: ns))) as Hlt'.
  { cbn [nids List.map fst]. constructor; [lia|]. eapply Forall_impl; [|exact Hlt]. cbn. intros; lia. }
  assert (vlength s + 1 = Z.of_nat (length ((vnxt s, v) :: ns))) as Hl' by (cbn [length]; lia).
  assert (length ((vnxt s, v) :: ns) <= S (vnxt s))%nat as Hle' by (cbn [length]; lia).
  unfold v_push_front. destruct ns as [|[f x] tl].
  - cbn [nlast nhd] in Hb, Hf. rewrite Hb, Hf. unfold vrep. cbn [vh vfront vback vlength vnxt dseg nhd nlast nhd_or].
    repeat split; auto. apply upd_same.
  - cbn [nhd] in Hf. rewrite Hf.
    assert (f <> vnxt s) as Hne by (intro; subst; apply Hfresh; left; reflexivity).
    cbn [nids List.map fst] in Hd. inversion Hd as [|? ? Hft Hdt]; subst.
    unfold vrep. cbn [vh vfront vback vlength vnxt].
    split.
    { cbn [dseg nhd_or]. split.
      - unfold v_set_prev. rewrite upd_other by auto. destruct Hc as (Hfh & _). rewrite Hfh.
        rewrite upd_other by auto. apply upd_same.
      - apply dseg_set_prev_first with (p := None); auto. apply dseg_frame; [exact Hfresh|exact Hc]. }
    split; [reflexivity|].
    split.
    { rewrite Hb. destruct (nlast_nonempty ((f, x) :: tl)) as (m & E); [discriminate|].
      rewrite E. change (nlast ((vnxt s, v) :: (f, x) :: tl)) with (nlast ((f, x) :: tl)). auto. }
    repeat split; auto.
Qed.

Lemma vrep_pop_front : forall s f x tl, vrep s ((f, x) :: tl) -> vrep (v_pop_front s) tl.
Proof.
  intros s f x tl (Hc & Hf & Hb & Hl & Hd & Hlt & Hle).
  cbn [nhd] in Hf. unfold v_pop_front. rewrite Hf.
  destruct (dseg_lookup_first _ _ _ _ _ _ Hc) as (_ & Hn & _). rewrite Hn.
  cbn [nids List.map fst] in Hd, Hlt. inversion Hd as [|? ? Hft Hdt]; subst. inversion Hlt; subst.
  destruct Hc as (Hfh & Ht).
  assert (vlength s - 1 = Z.of_nat (length tl)) as Hl' by (cbn [length] in Hl; lia).
  assert (length tl <= vnxt s)%nat as Hle' by (cbn [length] in Hle; lia).
  destruct tl as [|[g y] tl']; cbn [nhd_or].
  - unfold vrep. cbn. repeat split; auto; try constructor.
  - unfold vrep. cbn [vh vfront vback vlength vnxt].
    split.
    { apply dseg_frame; auto. apply dseg_set_prev_first with (p := Some f); auto.
      cbn [nids List.map fst] in Hdt. inversion Hdt; auto. }
    split; [reflexivity|].
    split; [rewrite Hb; reflexivity|].
    repeat split; auto.
Qed.

Lemma vrep_pop_back : forall s a r x, vrep s (a ++ [(r, x)]) -> vrep (v_pop_back s) a.
Proof.
  intros s a r x (Hc & Hf & Hb & Hl & Hd & Hlt & Hle).
  rewrite nlast_snoc in Hb. unfold v_pop_back. rewrite Hb.
  rewrite nids_app in Hd, Hlt. cbn [nids List.map fst] in Hd, Hlt.
  apply nodup_snoc_inv in Hd. destruct Hd as (Hra & Hda).
  apply Forall_app in Hlt. destruct Hlt as (Hlta & _).
  assert (vlength s - 1 = Z.of_nat (length a)) as Hl' by (rewrite app_length in Hl; cbn [length] in Hl; lia).
  assert (length a <= vnxt s)%nat as Hle' by (rewrite app_length in Hle; cbn [length] in Hle; lia).
  apply dseg_app in Hc. destruct Hc as (Ha & (Hr & _)). cbn [nhd_or] in Ha.
  unfold v_prev. rewrite Hr. cbn [vprev]. rewrite nlast_or_None.
  destruct (snoc_cases a) as [->|(a0 & p & y & ->)].
  - cbn [nlast]. unfold vrep. cbn. repeat split; auto; try constructor.
  - rewrite nlast_snoc. unfold vrep. cbn [vh vfront vback vlength vnxt].
    pose proof Hda as Hda'.
    rewrite nids_app in Hda, Hra. cbn [nids List.map fst] in Hda, Hra.
    apply nodup_snoc_inv in Hda. destruct Hda as (Hpa & Hda0).
    split.
    { apply dseg_frame; auto.
      - rewrite nids_app. cbn [nids List.map fst]. exact Hra.
      - eapply dseg_set_next_last; eauto. }
    split.
    { rewrite Hf. destruct a0 as [|[c z] a0']; reflexivity. }
    split; [rewrite nlast_snoc; reflexivity|].
    repeat split; auto.
Qed.

(* ---------------------------------------------------------------- walking: at, find, delete_at *)
Lemma walk_dseg : forall h ns p e i, dseg h p ns e -> (i <= length ns)%nat ->
  v_walk h (nhd_or e ns) i = nhd_or e (skipn i ns).
Proof.
  induction ns as [|[n x] tl IH]; intros p e i H Hi.
  - cbn [length] in Hi. assert (i = O) by lia. subst. reflexivity.
  - destruct i as [|j]; [reflexivity|].
    cbn [nhd_or v_walk skipn]. destruct (dseg_lookup_first _ _ _ _ _ _ H) as (_ & Hn & _). rewrite Hn.
    destruct H as (_ & Ht). apply (IH _ _ _ Ht). cbn [length] in Hi. lia.
Qed.

Lemma split_at : forall (ns : nodes) k, (k < length ns)%nat ->
  exists a c x b, ns = a ++ (c, x) :: b /\ length a = k.
Proof.
  induction ns as [|[n y] tl IH]; intros k Hk; [cbn in Hk; lia|].
  destruct k as [|k].
  - exists [], n, y, tl. split; reflexivity.
  - destruct (IH k) as (a & c & x & b & E & L); [cbn [length] in Hk; lia|].
    exists ((n, y) :: a), c, x, b. subst. split; reflexivity.
Qed.

Lemma skipn_length_app : forall A (a l : list A), skipn (length a) (a ++ l) = l.
Proof. induction a; intros; cbn; auto. Qed.
Lemma firstn_length_app : forall A (a l : list A), firstn (length a) (a ++ l) = a.
Proof. induction a; intros; cbn; auto. f_equal. auto. Qed.
Lemma nth_length_app : forall A (a : list A) x l d, nth (length a) (a ++ x :: l) d = x.
Proof. induction a; intros; cbn; auto. Qed.

Lemma nlast_app : forall (a b : nodes), b <> [] -> nlast (a ++ b) = nlast b.
Proof.
  induction a as [|[n x] a IH]; intros b Hb; auto.
  cbn [app nlast]. destruct (a ++ b) eqn:E.
  - destruct a; destruct b; try discriminate; congruence.
  - rewrite <- E. apply IH, Hb.
Qed.

Fixpoint find_from (l : list Z) (idx v : Z) : Z :=
  match l with [] => -1 | x :: tl => if x =? v then idx else find_from tl (idx + 1) v end.

Lemma find_loop_dseg : forall ns h p fuel idx v, dseg h p ns None -> (length ns <= fuel)%nat ->
  v_find_loop fuel h (nhd ns) idx v = find_from (nvals ns) idx v.
Proof.
  induction ns as [|[n x] tl IH]; intros h p fuel idx v H Hf.
  - destruct fuel; reflexivity.
  - destruct fuel as [|fu]; [cbn in Hf; lia|].
    cbn [nhd v_find_loop nvals List.map snd find_from].
    destruct (dseg_lookup_first _ _ _ _ _ _ H) as (Hd & Hn & _). rewrite Hd, Hn.
    destruct (x =? v); auto. rewrite nhd_or_None. destruct H as (_ & Ht).
    apply (IH _ _ _ _ _ Ht). cbn [length] in Hf. lia.
Qed.

Lemma nth_nvals : forall a c x b, nth (length a) (nvals (a ++ (c, x) :: b)) 0 = x.
Proof. induction a as [|[n y] a IH]; intros; cbn; auto. Qed.

Lemma vrep_at : forall s ns i, vrep s ns ->
  v_at s i = if (i <? 0) || (i >=? Z.of_nat (length ns)) then 0 else nth (Z.to_nat i) (nvals ns) 0.
Proof.
  intros s ns i (Hc & Hf & Hb & Hl & _). unfold v_at. rewrite Hl.
  destruct (Z.ltb_spec i 0); cbn [orb]; auto.
  rewrite Z.geb_leb. destruct (Z.leb_spec (Z.of_nat (length ns)) i); auto.
  assert (Z.to_nat i < length ns)%nat as Hk by lia.
  destruct (split_at ns _ Hk) as (a & c & x & b & E & L).
  rewrite Hf. subst ns. rewrite <- L. rewrite nth_nvals.
  rewrite <- nhd_or_None. rewrite (walk_dseg _ _ _ _ _ Hc) by (rewrite app_length; cbn [length]; lia).
  rewrite skipn_length_app. cbn [nhd_or].
  apply dseg_app in Hc. destruct Hc as (_ & Hcb).
  destruct (dseg_lookup_first _ _ _ _ _ _ Hcb) as (Hd & _).
  rewrite ?nhd_or_None. destruct (nhd (a ++ (c, x) :: b)) eqn:E; [exact Hd|]. destruct a as [|[? ?] ?]; discriminate.
Qed.

Lemma set_prev_as_upd : forall h g p x nx p', h g = Some (mkv p nx x) ->
  v_set_prev h g p' = upd h g (Some (mkv p' nx x)).
Proof. intros. unfold v_set_prev. rewrite H. reflexivity. Qed.
Lemma set_next_as_upd : forall h g p x nx n', h g = Some (mkv p nx x) ->
  v_set_next h g n' = upd h g (Some (mkv p n' x)).
Proof. intros. unfold v_set_next. rewrite H. reflexivity. Qed.

Lemma notin_app_r : forall (x : nat) a b, ~ In x (a ++ b) -> ~ In x b.
Proof. intros x a b H Hb. apply H. apply in_or_app. right. exact Hb. Qed.
Lemma notin_app_l : forall (x : nat) a b, ~ In x (a ++ b) -> ~ In x a.
Proof. intros x a b H Hb. apply H. apply in_or_app. left. exact Hb. Qed.

(* delete_at in the middle: predecessor and successor are relinked around the node *)
Lemma vrep_delete_mid : forall s a0 pl y c x g z b',
  vrep s ((a0 ++ [(pl, y)]) ++ (c, x) :: (g, z) :: b') ->
  vrep (v_delete_at s (Z.of_nat (length (a0 ++ [(pl, y)])))) ((a0 ++ [(pl, y)]) ++ (g, z) :: b') /\
  v_delete_log s (Z.of_nat (length (a0 ++ [(pl, y)]))) = [Free c].
Proof.
  intros s a0 pl y c x g z b'. set (a := a0 ++ [(pl, y)]). set (b := (g, z) :: b').
  intros (Hc & Hf & Hb & Hl & Hd & Hlt & Hle).
  assert (length a <> 0)%nat as Ha0 by (unfold a; rewrite app_length; cbn [length]; lia).
  assert (length (a ++ (c, x) :: b) = length a + 2 + length b')%nat as Hlen.
  { rewrite app_length. unfold b. cbn [length]. lia. }
  assert (v_walk (vh s) (vfront s) (Z.to_nat (Z.of_nat (length a))) = Some c) as Hw.
  { rewrite Nat2Z.id, Hf, <- nhd_or_None. rewrite (walk_dseg _ _ _ _ _ Hc) by lia.
    rewrite skipn_length_app. reflexivity. }
  unfold v_delete_at, v_delete_log. rewrite Hl, Hlen, Hw.
  destruct (Z.ltb_spec (Z.of_nat (length a)) 0); [lia|]. cbn [orb].
  rewrite Z.geb_leb. destruct (Z.leb_spec (Z.of_nat (length a + 2 + length b')) (Z.of_nat (length a))); [lia|].
  destruct (Z.eqb_spec (Z.of_nat (length a)) 0); [lia|].
  destruct (Z.eqb_spec (Z.of_nat (length a)) (Z.of_nat (length a + 2 + length b') - 1)); [lia|].
  split; [|reflexivity].
  (* heap facts *)
  apply dseg_app in Hc. destruct Hc as (Hca & Hcb).
  unfold a in Hcb at 1. rewrite nlast_or_snoc in Hcb.
  destruct (dseg_lookup_first _ _ _ _ _ _ Hcb) as (_ & Hnx & Hpv). rewrite Hnx, Hpv. unfold b at 1. cbn [nhd_or].
  destruct Hcb as (Hch & Hcbb). cbn [nhd_or] in Hca.
  rewrite nids_app in Hd. cbn [nids List.map fst] in Hd.
  pose proof (NoDup_remove_1 _ _ _ Hd) as Hd1. pose proof (NoDup_remove_2 _ _ _ Hd) as Hd2.
  fold (nids b) in Hd1, Hd2. fold (nids a) in Hd1, Hd2.
  assert (NoDup (nids a)) as Hda by (eapply NoDup_app_remove_r; exact Hd1).
  assert (NoDup (nids b)) as Hdb by (eapply NoDup_app_remove_l; exact Hd1).
  assert (~ In c (nids a)) as Hca_ by (eapply notin_app_l; exact Hd2).
  assert (~ In c (nids b)) as Hcb_ by (eapply notin_app_r; exact Hd2).
  assert (forall m, In m (nids a) -> ~ In m (nids b)) as Hdisj.
  { intros m Hma Hmb. clear - Hd1 Hma Hmb. induction (nids a) as [|q l IH]; [destruct Hma|].
    cbn [app] in Hd1. inversion Hd1; subst. destruct Hma as [->|Hma]; [|auto].
    apply H1. apply in_or_app. right. exact Hmb. }
  assert (In pl (nids a)) as Hpla by (unfold a; apply in_nids_snoc).
  assert (In g (nids b)) as Hgb by (left; reflexivity).
  assert (~ In pl (nids a0)) as Hpla0.
  { unfold a in Hda. rewrite nids_app in Hda. cbn [nids List.map fst] in Hda. apply nodup_snoc_inv in Hda. tauto. }
  assert (g <> pl) as Hgpl by (intro; subst; eapply Hdisj; eauto).
  assert (c <> pl) as Hcpl by (intro; subst; auto).
  assert (c <> g) as Hcg by (intro; subst; auto).
  (* the predecessor's and the successor's records *)
  unfold a in Hca. pose proof Hca as Hca'. apply dseg_app in Hca'. destruct Hca' as (_ & ((Hplh & _))).
  cbn [nhd_or] in Hplh. destruct Hcbb as (Hgh & Hgt).
  rewrite (set_next_as_upd _ _ _ _ _ _ Hplh).
  rewrite (set_prev_as_upd _ g (Some c) z (nhd_or None b')) by (rewrite upd_other; auto).
  unfold vrep. cbn [vh vfront vback vlength vnxt].
  split.
  { apply dseg_app. split.
    - cbn [nhd_or]. apply dseg_frame; [exact Hca_|]. apply dseg_frame; [fold a; eapply Hdisj' |].
      all: fail. }
Abort.
