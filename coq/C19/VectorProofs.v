(* C19 - the pointer-level Vector model (doubly linked list, LinkedModel.v) refines a list:
   push/pop at both ends, at, find, delete_at, sort, clear; malloc/free log sound. *)
From Coq Require Import ZArith List Bool Lia Arith Permutation Sorted.
From Cb Require Import C19.Model C19.LinkedModel C19.Log C19.QueueProofs C19.SortProofs.
Import ListNotations.
Local Open Scope Z_scope.

Definition nhd_or (e : option nat) (ns : nodes) : option nat :=
  match ns with [] => e | (m, _) :: _ => Some m end.
Definition nlast_or (p : option nat) (ns : nodes) : option nat :=
  match nlast ns with Some n => Some n | None => p end.

Lemma nhd_or_None : forall ns, nhd_or None ns = nhd ns.
Proof. destruct ns as [|[a y] ns]; reflexivity. Qed.
Lemma nlast_nonempty : forall ns : nodes, ns <> [] -> exists m, nlast ns = Some m.
Proof.
  induction ns as [|[a y] ns IH]; [congruence|]. intros _. cbn [nlast].
  destruct ns as [|p ns']; [eauto|]. apply IH. discriminate.
Qed.
Lemma nlast_or_cons : forall p n x tl, nlast_or p ((n, x) :: tl) = nlast_or (Some n) tl.
Proof.
  intros. unfold nlast_or. cbn [nlast]. destruct tl as [|q tl']; [reflexivity|].
  destruct (nlast_nonempty (q :: tl')) as (m & E); [discriminate|]. rewrite E. reflexivity.
Qed.
Lemma nlast_or_snoc : forall p ns r x, nlast_or p (ns ++ [(r, x)]) = Some r.
Proof. intros. unfold nlast_or. rewrite nlast_snoc. reflexivity. Qed.
Lemma nlast_or_None : forall ns, nlast_or None ns = nlast ns.
Proof. intros. unfold nlast_or. destruct (nlast ns); reflexivity. Qed.
Lemma nhd_or_app : forall e a b, nhd_or e (a ++ b) = nhd_or (nhd_or e b) a.
Proof. destruct a as [|[n x] a]; reflexivity. Qed.

(* ---------------------------------------------------------------- doubly linked segment *)
Fixpoint dseg (h : nat -> option vnode) (p : option nat) (ns : nodes) (e : option nat) : Prop :=
  match ns with
  | [] => True
  | (n, x) :: tl => h n = Some (mkv p (nhd_or e tl) x) /\ dseg h (Some n) tl e
  end.

Lemma dseg_frame : forall h n x ns p e, ~ In n (nids ns) -> dseg h p ns e -> dseg (upd h n x) p ns e.
Proof.
  induction ns as [|[a y] ns IH]; cbn [dseg nids List.map In fst]; auto.
  intros p e Hn (Ha & Hc). split; [rewrite upd_other; auto|apply IH; auto].
Qed.

Lemma dseg_app : forall h a b p e,
  dseg h p (a ++ b) e <-> dseg h p a (nhd_or e b) /\ dseg h (nlast_or p a) b e.
Proof.
  induction a as [|[n x] a IH]; intros b p e.
  - cbn [app dseg]. unfold nlast_or. cbn [nlast]. tauto.
  - cbn [app dseg]. rewrite nlast_or_cons, IH, nhd_or_app. tauto.
Qed.

Lemma nids_app : forall a b, nids (a ++ b) = nids a ++ nids b.
Proof. intros. unfold nids. apply map_app. Qed.

Lemma dseg_set_next_last : forall h p a r x e e', dseg h p (a ++ [(r, x)]) e -> ~ In r (nids a) ->
  dseg (v_set_next h r e') p (a ++ [(r, x)]) e'.
Proof.
  intros h p a r x e e' H Hn. apply dseg_app in H. destruct H as (Ha & Hr).
  cbn [dseg nhd_or] in Hr. destruct Hr as (Hr & _).
  unfold v_set_next. rewrite Hr. cbn [vprev vdata].
  apply dseg_app. split.
  - apply dseg_frame; auto.
  - cbn [dseg nhd_or]. split; auto. apply upd_same.
Qed.

Lemma dseg_set_prev_first : forall h p f x tl e p', dseg h p ((f, x) :: tl) e -> ~ In f (nids tl) ->
  dseg (v_set_prev h f p') p' ((f, x) :: tl) e.
Proof.
  intros h p f x tl e p' (Hf & Ht) Hn. unfold v_set_prev. rewrite Hf. cbn [vnext vdata].
  cbn [dseg]. split; [apply upd_same|apply dseg_frame; auto].
Qed.

Lemma dseg_lookup_first : forall h p f x tl e, dseg h p ((f, x) :: tl) e ->
  v_data h (Some f) = x /\ v_next h (Some f) = nhd_or e tl /\ v_prev h (Some f) = p.
Proof. intros h p f x tl e (Hf & _). unfold v_data, v_next, v_prev. rewrite Hf. auto. Qed.

(* ---------------------------------------------------------------- representation invariant *)
Definition vrep (s : vector) (ns : nodes) : Prop :=
  dseg (vh s) None ns None /\ vfront s = nhd ns /\ vback s = nlast ns /\
  vlength s = Z.of_nat (length ns) /\ NoDup (nids ns) /\
  Forall (fun n => (n < vnxt s)%nat) (nids ns) /\ (length ns <= vnxt s)%nat.

Lemma vrep_init : vrep vector_init [].
Proof. unfold vrep, vector_init. cbn. repeat split; auto; try constructor. Qed.

Lemma nodup_snoc_inv : forall (a : list nat) r, NoDup (a ++ [r]) -> ~ In r a /\ NoDup a.
Proof.
  intros a r H. apply NoDup_remove in H. rewrite app_nil_r in H. tauto.
Qed.

Lemma in_nids_snoc : forall a r x, In r (nids (a ++ [(r, x)])).
Proof. intros. rewrite nids_app. apply in_or_app. right. left. reflexivity. Qed.

Lemma vrep_push_back : forall s ns v, vrep s ns -> vrep (v_push_back s v) (ns ++ [(vnxt s, v)]).
Proof.
  intros s ns v (Hc & Hf & Hb & Hl & Hd & Hlt & Hle).
  pose proof (fresh_not_in _ _ Hlt) as Hfresh.
  assert (NoDup (nids (ns ++ [(vnxt s, v)]))) as Hd'.
  { rewrite nids_app. cbn [nids List.map fst]. apply NoDup_snoc; auto. }
  assert (Forall (fun n => (n < S (vnxt s))%nat) (nids (ns ++ [(vnxt s, v)]))) as Hlt'.
  { rewrite nids_app. apply Forall_app. split.
    - eapply Forall_impl; [|exact Hlt]. cbn. intros; lia.
    - constructor; [cbn; lia|constructor]. }
  assert (vlength s + 1 = Z.of_nat (length (ns ++ [(vnxt s, v)]))) as Hl'.
  { rewrite app_length. cbn [length]. lia. }
  assert (length (ns ++ [(vnxt s, v)]) <= S (vnxt s))%nat as Hle'.
  { rewrite app_length. cbn [length]. lia. }
  unfold v_push_back. destruct (snoc_cases ns) as [->|(a & r & x & ->)].
  - cbn [nlast nhd] in Hb, Hf. rewrite Hb, Hf. unfold vrep. cbn [vh vfront vback vlength vnxt app dseg nhd nlast nhd_or].
    repeat split; auto. apply upd_same.
  - rewrite nlast_snoc in Hb. rewrite Hb.
    assert (r <> vnxt s) as Hne by (intro; subst; apply Hfresh, in_nids_snoc).
    rewrite nids_app in Hd. cbn [nids List.map fst] in Hd. apply nodup_snoc_inv in Hd. destruct Hd as (Hra & Hda).
    unfold vrep. cbn [vh vfront vback vlength vnxt].
    split.
    { apply dseg_app. split.
      - cbn [nhd_or]. eapply dseg_set_next_last; auto. apply dseg_frame; [exact Hfresh|exact Hc].
      - rewrite nlast_or_snoc. cbn [dseg nhd_or]. split; auto.
        unfold v_set_next. rewrite upd_other by auto.
        apply dseg_app in Hc. destruct Hc as (_ & (Hr & _)). rewrite Hr.
        rewrite upd_other by auto. apply upd_same. }
    split.
    { rewrite Hf. destruct a as [|[a0 y0] a']; reflexivity. }
    split; [rewrite nlast_snoc; reflexivity|].
    repeat split; auto.
Qed.

Lemma vrep_push_front : forall s ns v, vrep s ns -> vrep (v_push_front s v) ((vnxt s, v) :: ns).
Proof.
  intros s ns v (Hc & Hf & Hb & Hl & Hd & Hlt & Hle).
  pose proof (fresh_not_in _ _ Hlt) as Hfresh.
  assert (NoDup (nids ((vnxt s, v) :: ns))) as Hd' by (cbn [nids List.map fst]; constructor; auto).
  assert (Forall (fun n => (n < S (vnxt s))%nat) (nids ((vnxt s, v) :: ns))) as Hlt'.
  { cbn [nids List.map fst]. constructor; [lia|]. eapply Forall_impl; [|exact Hlt]. cbn. intros; lia. }
  assert (vlength s + 1 = Z.of_nat (length ((vnxt s, v) :: ns))) as Hl' by (cbn [length]; lia).
  assert (length ((vnxt s, v) :: ns) <= S (vnxt s))%nat as Hle' by (cbn [length]; lia).
  unfold v_push_front. destruct ns as [|[f x] tl].
  - cbn [nlast nhd] in Hb, Hf. rewrite Hb, Hf. unfold vrep. cbn [vh vfront vback vlength vnxt dseg nhd nlast nhd_or].
    repeat split; auto. apply upd_same.
  - cbn [nhd] in Hf. rewrite Hf.
    assert (f <> vnxt s) as Hne by (intro; subst; apply Hfresh; left; reflexivity).
    cbn [nids List.map fst] in Hd. inversion Hd as [|? ? Hft Hdt]; subst.
    unfold vrep. cbn [vh vfront vback vlength vnxt].
    split.
    { cbn [dseg nhd_or]. split.
      - unfold v_set_prev. rewrite upd_other by auto. destruct Hc as (Hfh & _). rewrite Hfh.
        rewrite upd_other by auto. apply upd_same.
      - apply dseg_set_prev_first with (p := None); auto. apply dseg_frame; [exact Hfresh|exact Hc]. }
    split; [reflexivity|].
    split.
    { rewrite Hb. destruct (nlast_nonempty ((f, x) :: tl)) as (m & E); [discriminate|].
      rewrite E. change (nlast ((vnxt s, v) :: (f, x) :: tl)) with (nlast ((f, x) :: tl)). auto. }
    repeat split; auto.
Qed.

Lemma vrep_pop_front : forall s f x tl, vrep s ((f, x) :: tl) -> vrep (v_pop_front s) tl.
Proof.
  intros s f x tl (Hc & Hf & Hb & Hl & Hd & Hlt & Hle).
  cbn [nhd] in Hf. unfold v_pop_front. rewrite Hf.
  destruct (dseg_lookup_first _ _ _ _ _ _ Hc) as (_ & Hn & _). rewrite Hn.
  cbn [nids List.map fst] in Hd, Hlt. inversion Hd as [|? ? Hft Hdt]; subst. inversion Hlt; subst.
  destruct Hc as (Hfh & Ht).
  assert (vlength s - 1 = Z.of_nat (length tl)) as Hl' by (cbn [length] in Hl; lia).
  assert (length tl <= vnxt s)%nat as Hle' by (cbn [length] in Hle; lia).
  destruct tl as [|[g y] tl']; cbn [nhd_or].
  - unfold vrep. cbn. repeat split; auto; try constructor.
  - unfold vrep. cbn [vh vfront vback vlength vnxt].
    split.
    { apply dseg_frame; auto. apply dseg_set_prev_first with (p := Some f); auto.
      cbn [nids List.map fst] in Hdt. inversion Hdt; auto. }
    split; [reflexivity|].
    split; [rewrite Hb; reflexivity|].
    repeat split; auto.
Qed.

Lemma vrep_pop_back : forall s a r x, vrep s (a ++ [(r, x)]) -> vrep (v_pop_back s) a.
Proof.
  intros s a r x (Hc & Hf & Hb & Hl & Hd & Hlt & Hle).
  rewrite nlast_snoc in Hb. unfold v_pop_back. rewrite Hb.
  rewrite nids_app in Hd, Hlt. cbn [nids List.map fst] in Hd, Hlt.
  apply nodup_snoc_inv in Hd. destruct Hd as (Hra & Hda).
  apply Forall_app in Hlt. destruct Hlt as (Hlta & _).
  assert (vlength s - 1 = Z.of_nat (length a)) as Hl' by (rewrite app_length in Hl; cbn [length] in Hl; lia).
  assert (length a <= vnxt s)%nat as Hle' by (rewrite app_length in Hle; cbn [length] in Hle; lia).
  apply dseg_app in Hc. destruct Hc as (Ha & (Hr & _)). cbn [nhd_or] in Ha.
  unfold v_prev. rewrite Hr. cbn [vprev]. rewrite nlast_or_None.
  destruct (snoc_cases a) as [->|(a0 & p & y & ->)].
  - cbn [nlast]. unfold vrep. cbn. repeat split; auto; try constructor.
  - rewrite nlast_snoc. unfold vrep. cbn [vh vfront vback vlength vnxt].
    pose proof Hda as Hda'.
    rewrite nids_app in Hda, Hra. cbn [nids List.map fst] in Hda, Hra.
    apply nodup_snoc_inv in Hda. destruct Hda as (Hpa & Hda0).
    split.
    { apply dseg_frame; auto.
      - rewrite nids_app. cbn [nids List.map fst]. exact Hra.
      - eapply dseg_set_next_last; eauto. }
    split.
    { rewrite Hf. destruct a0 as [|[c z] a0']; reflexivity. }
    split; [rewrite nlast_snoc; reflexivity|].
    repeat split; auto.
Qed.

(* ---------------------------------------------------------------- walking: at, find, delete_at *)
Lemma walk_dseg : forall h ns p e i, dseg h p ns e -> (i <= length ns)%nat ->
  v_walk h (nhd_or e ns) i = nhd_or e (skipn i ns).
Proof.
  induction ns as [|[n x] tl IH]; intros p e i H Hi.
  - cbn [length] in Hi. assert (i = O) by lia. subst. reflexivity.
  - destruct i as [|j]; [reflexivity|].
    cbn [nhd_or v_walk skipn]. destruct (dseg_lookup_first _ _ _ _ _ _ H) as (_ & Hn & _). rewrite Hn.
    destruct H as (_ & Ht). apply (IH _ _ _ Ht). cbn [length] in Hi. lia.
Qed.

Lemma split_at : forall (ns : nodes) k, (k < length ns)%nat ->
  exists a c x b, ns = a ++ (c, x) :: b /\ length a = k.
Proof.
  induction ns as [|[n y] tl IH]; intros k Hk; [cbn in Hk; lia|].
  destruct k as [|k].
  - exists [], n, y, tl. split; reflexivity.
  - destruct (IH k) as (a & c & x & b & E & L); [cbn [length] in Hk; lia|].
    exists ((n, y) :: a), c, x, b. subst. split; reflexivity.
Qed.

Lemma skipn_length_app : forall A (a l : list A), skipn (length a) (a ++ l) = l.
Proof. induction a; intros; cbn; auto. Qed.
Lemma firstn_length_app : forall A (a l : list A), firstn (length a) (a ++ l) = a.
Proof. induction a; intros; cbn; auto. f_equal. auto. Qed.
Lemma nth_length_app : forall A (a : list A) x l d, nth (length a) (a ++ x :: l) d = x.
Proof. induction a; intros; cbn; auto. Qed.

Lemma nlast_app : forall (a b : nodes), b <> [] -> nlast (a ++ b) = nlast b.
Proof.
  induction a as [|[n x] a IH]; intros b Hb; auto.
  cbn [app nlast]. destruct (a ++ b) eqn:E.
  - destruct a; destruct b; try discriminate; congruence.
  - rewrite <- E. apply IH, Hb.
Qed.

Fixpoint find_from (l : list Z) (idx v : Z) : Z :=
  match l with [] => -1 | x :: tl => if x =? v then idx else find_from tl (idx + 1) v end.

Lemma find_loop_dseg : forall ns h p fuel idx v, dseg h p ns None -> (length ns <= fuel)%nat ->
  v_find_loop fuel h (nhd ns) idx v = find_from (nvals ns) idx v.
Proof.
  induction ns as [|[n x] tl IH]; intros h p fuel idx v H Hf.
  - destruct fuel; reflexivity.
  - destruct fuel as [|fu]; [cbn in Hf; lia|].
    cbn [nhd v_find_loop nvals List.map snd find_from].
    destruct (dseg_lookup_first _ _ _ _ _ _ H) as (Hd & Hn & _). rewrite Hd, Hn.
    destruct (x =? v); auto. rewrite nhd_or_None. destruct H as (_ & Ht).
    apply (IH _ _ _ _ _ Ht). cbn [length] in Hf. lia.
Qed.

Lemma nth_nvals : forall a c x b, nth (length a) (nvals (a ++ (c, x) :: b)) 0 = x.
Proof. induction a as [|[n y] a IH]; intros; cbn; auto. Qed.

Lemma vrep_at : forall s ns i, vrep s ns ->
  v_at s i = if (i <? 0) || (i >=? Z.of_nat (length ns)) then 0 else nth (Z.to_nat i) (nvals ns) 0.
Proof.
  intros s ns i (Hc & Hf & Hb & Hl & _). unfold v_at. rewrite Hl.
  destruct (Z.ltb_spec i 0); cbn [orb]; auto.
  rewrite Z.geb_leb. destruct (Z.leb_spec (Z.of_nat (length ns)) i); auto.
  assert (Z.to_nat i < length ns)%nat as Hk by lia.
  destruct (split_at ns _ Hk) as (a & c & x & b & E & L).
  rewrite Hf. subst ns. rewrite <- L. rewrite nth_nvals.
  rewrite <- nhd_or_None. rewrite (walk_dseg _ _ _ _ _ Hc) by (rewrite app_length; cbn [length]; lia).
  rewrite skipn_length_app. cbn [nhd_or].
  apply dseg_app in Hc. destruct Hc as (_ & Hcb).
  destruct (dseg_lookup_first _ _ _ _ _ _ Hcb) as (Hd & _).
  rewrite ?nhd_or_None. destruct (nhd (a ++ (c, x) :: b)) eqn:E; [exact Hd|]. destruct a as [|[? ?] ?]; discriminate.
Qed.

Lemma set_prev_as_upd : forall h g p x nx p', h g = Some (mkv p nx x) ->
  v_set_prev h g p' = upd h g (Some (mkv p' nx x)).
Proof. intros. unfold v_set_prev. rewrite H. reflexivity. Qed.
Lemma set_next_as_upd : forall h g p x nx n', h g = Some (mkv p nx x) ->
  v_set_next h g n' = upd h g (Some (mkv p n' x)).
Proof. intros. unfold v_set_next. rewrite H. reflexivity. Qed.

Lemma notin_app_r : forall (x : nat) a b, ~ In x (a ++ b) -> ~ In x b.
Proof. intros x a b H Hb. apply H. apply in_or_app. right. exact Hb. Qed.
Lemma notin_app_l : forall (x : nat) a b, ~ In x (a ++ b) -> ~ In x a.
Proof. intros x a b H Hb. apply H. apply in_or_app. left. exact Hb. Qed.

Lemma nodup_app_inv : forall (a b : list nat), NoDup (a ++ b) ->
  NoDup a /\ NoDup b /\ (forall m, In m a -> ~ In m b).
Proof.
  induction a as [|q a IH]; intros b H; cbn [app] in H.
  - repeat split; auto. constructor.
  - inversion H as [|? ? Hq Hr]; subst. destruct (IH _ Hr) as (Ha & Hb & Hdis).
    repeat split; auto.
    + constructor; auto. eapply notin_app_l; exact Hq.
    + intros m [->|Hm]; [eapply notin_app_r; exact Hq|auto].
Qed.

(* delete_at in the middle: predecessor and successor are relinked around the node *)
Lemma vrep_delete_mid : forall s a0 pl y c x g z b',
  vrep s ((a0 ++ [(pl, y)]) ++ (c, x) :: (g, z) :: b') ->
  vrep (v_delete_at s (Z.of_nat (length (a0 ++ [(pl, y)])))) ((a0 ++ [(pl, y)]) ++ (g, z) :: b') /\
  v_delete_log s (Z.of_nat (length (a0 ++ [(pl, y)]))) = [Free c].
Proof.
  intros s a0 pl y c x g z b'. remember (a0 ++ [(pl, y)]) as a eqn:Ea. remember ((g, z) :: b') as b eqn:Eb.
  intros (Hc & Hf & Hb & Hl & Hd & Hlt & Hle).
  assert (length a <> 0)%nat as Ha0 by (subst a; rewrite app_length; cbn [length]; lia).
  assert (length (a ++ (c, x) :: b) = length a + 2 + length b')%nat as Hlen.
  { rewrite app_length. subst b. cbn [length]. lia. }
  assert (v_walk (vh s) (vfront s) (Z.to_nat (Z.of_nat (length a))) = Some c) as Hw.
  { rewrite Nat2Z.id, Hf, <- nhd_or_None. rewrite (walk_dseg _ _ _ _ _ Hc) by lia.
    rewrite skipn_length_app. reflexivity. }
  unfold v_delete_at, v_delete_log. rewrite Hl, Hlen, Hw.
  destruct (Z.ltb_spec (Z.of_nat (length a)) 0); [lia|]. cbn [orb].
  rewrite Z.geb_leb. destruct (Z.leb_spec (Z.of_nat (length a + 2 + length b')) (Z.of_nat (length a))); [lia|].
  destruct (Z.eqb_spec (Z.of_nat (length a)) 0); [lia|].
  destruct (Z.eqb_spec (Z.of_nat (length a)) (Z.of_nat (length a + 2 + length b') - 1)); [lia|].
  split; [|reflexivity].
  (* distinctness facts *)
  rewrite nids_app in Hd. cbn [nids List.map fst] in Hd. fold (nids b) in Hd. fold (nids a) in Hd.
  pose proof (NoDup_remove_1 _ _ _ Hd) as Hd1. pose proof (NoDup_remove_2 _ _ _ Hd) as Hd2.
  destruct (nodup_app_inv _ _ Hd1) as (Hda & Hdb & Hdisj).
  assert (~ In c (nids a)) as Hca_ by (eapply notin_app_l; exact Hd2).
  assert (~ In c (nids b)) as Hcb_ by (eapply notin_app_r; exact Hd2).
  assert (In pl (nids a)) as Hpla by (subst a; apply in_nids_snoc).
  assert (In g (nids b)) as Hgb by (subst b; left; reflexivity).
  assert (~ In pl (nids a0)) as Hpla0.
  { subst a. rewrite nids_app in Hda. cbn [nids List.map fst] in Hda. apply nodup_snoc_inv in Hda. tauto. }
  assert (~ In g (nids b')) as Hgb'.
  { subst b. cbn [nids List.map fst] in Hdb. inversion Hdb; auto. }
  assert (g <> pl) as Hgpl by (intro; subst g; eapply Hdisj; eauto).
  assert (c <> pl) as Hcpl by (intro; subst c; auto).
  assert (c <> g) as Hcg by (intro; subst c; auto).
  (* heap facts *)
  apply dseg_app in Hc. destruct Hc as (Hca & Hcb). cbn [nhd_or] in Hca.
  assert (nlast_or None a = Some pl) as Hla by (subst a; apply nlast_or_snoc).
  rewrite Hla in Hcb.
  destruct (dseg_lookup_first _ _ _ _ _ _ Hcb) as (_ & Hnx & Hpv). rewrite Hnx, Hpv.
  destruct Hcb as (Hch & Hcbb).
  assert (nhd_or None b = Some g) as Hnb by (subst b; reflexivity). rewrite Hnb.
  assert (vh s pl = Some (mkv (nlast_or None a0) (Some c) y)) as Hplh.
  { subst a. apply dseg_app in Hca. destruct Hca as (_ & (Hplh & _)). exact Hplh. }
  assert (vh s g = Some (mkv (Some c) (nhd_or None b') z)) as Hgh.
  { subst b. destruct Hcbb as (Hgh & _). exact Hgh. }
  rewrite (set_next_as_upd _ _ _ _ _ _ Hplh).
  rewrite (set_prev_as_upd _ g (Some c) z (nhd_or None b')) by (rewrite upd_other; auto).
  unfold vrep. cbn [vh vfront vback vlength vnxt].
  split.
  { apply dseg_app. split.
    - rewrite Hnb. apply dseg_frame; [exact Hca_|]. apply dseg_frame; [intro Hg; eapply Hdisj; eauto|].
      rewrite <- (set_next_as_upd _ _ _ _ _ _ Hplh). subst a.
      eapply dseg_set_next_last; eauto.
    - rewrite Hla. apply dseg_frame; [exact Hcb_|].
      assert (dseg (upd (vh s) pl (Some (mkv (nlast_or None a0) (Some g) y))) (Some c) b None) as Hb1.
      { apply dseg_frame; auto. }
      subst b. rewrite <- (set_prev_as_upd _ g (Some c) z (nhd_or None b')) by (rewrite upd_other; auto).
      apply dseg_set_prev_first with (p := Some c); auto. }
  split.
  { rewrite Hf. subst a. destruct a0 as [|[? ?] ?]; reflexivity. }
  split.
  { rewrite Hb. rewrite !nlast_app by (subst b; discriminate). subst b. reflexivity. }
  split; [rewrite app_length in *; subst b; cbn [length] in *; lia|].
  split; [rewrite nids_app; exact Hd1|].
  split.
  { rewrite nids_app in *. cbn [nids List.map fst] in Hlt. apply Forall_app in Hlt. destruct Hlt as (L1 & L2).
    inversion L2; subst. apply Forall_app. split; auto. }
  rewrite app_length in *. subst b. cbn [length] in *. lia.
Qed.

(* delete_at at any valid index k: ns = a ++ (c,x) :: b with |a| = k *)
Lemma vrep_delete_at : forall s a c x b, vrep s (a ++ (c, x) :: b) ->
  vrep (v_delete_at s (Z.of_nat (length a))) (a ++ b) /\
  v_delete_log s (Z.of_nat (length a)) = [Free c].
Proof.
  intros s a c x b R. pose proof R as (Hc & Hf & Hb & Hl & Hd & Hlt & Hle).
  destruct a as [|[f0 x0] a'].
  - (* index 0: pop_front *)
    cbn [app length] in *. unfold v_delete_at, v_delete_log. rewrite Hl. cbn [length].
    change (Z.of_nat 0) with 0. cbn [Z.ltb Z.compare orb].
    rewrite Z.geb_leb. destruct (Z.leb_spec (Z.of_nat (S (length b))) 0); [lia|].
    cbn [Z.eqb]. split; [apply (vrep_pop_front s c x b R)|]. rewrite Hf. reflexivity.
  - destruct b as [|[g z] b'].
    + (* last index: pop_back *)
      unfold v_delete_at, v_delete_log. rewrite Hl, app_length. cbn [length].
      destruct (Z.ltb_spec (Z.of_nat (S (length a'))) 0); [lia|]. cbn [orb].
      rewrite Z.geb_leb. destruct (Z.leb_spec (Z.of_nat (S (length a') + 1)) (Z.of_nat (S (length a')))); [lia|].
      destruct (Z.eqb_spec (Z.of_nat (S (length a'))) 0); [lia|].
      destruct (Z.eqb_spec (Z.of_nat (S (length a'))) (Z.of_nat (S (length a') + 1) - 1)); [|lia].
      rewrite app_nil_r. split; [apply (vrep_pop_back s _ c x R)|].
      rewrite Hb, nlast_snoc. reflexivity.
    + destruct (snoc_cases ((f0, x0) :: a')) as [E|(a0 & pl & y & E)]; [discriminate|].
      rewrite E in *. apply vrep_delete_mid with (x := x). exact R.
Qed.

Lemma nvals_firstn_skipn : forall a c x b,
  firstn (length a) (nvals (a ++ (c, x) :: b)) ++ skipn (S (length a)) (nvals (a ++ (c, x) :: b)) = nvals (a ++ b).
Proof.
  induction a as [|[n y] a IH]; intros; cbn [app length nvals List.map snd firstn skipn]; auto.
  f_equal. apply IH.
Qed.

(* ---------------------------------------------------------------- sort *)
Lemma collect_dseg : forall ns h p e, dseg h p ns e -> v_collect (length ns) h (nhd_or e ns) = nids ns.
Proof.
  induction ns as [|[n x] tl IH]; intros h p e H; [reflexivity|].
  cbn [length nhd_or v_collect nids List.map fst].
  destruct (dseg_lookup_first _ _ _ _ _ _ H) as (_ & Hn & _). rewrite Hn.
  destruct H as (_ & Ht). f_equal. apply (IH _ _ _ Ht).
Qed.

Lemma keys_dseg : forall ns h p e, dseg h p ns e ->
  List.map (fun n => v_data h (Some n)) (nids ns) = nvals ns.
Proof.
  induction ns as [|[n x] tl IH]; intros h p e H; [reflexivity|].
  cbn [nids nvals List.map fst snd].
  destruct (dseg_lookup_first _ _ _ _ _ _ H) as (Hd & _). rewrite Hd. f_equal.
  destruct H as (_ & Ht). apply (IH _ _ _ Ht).
Qed.

Lemma set_links_other : forall h n p nx m, m <> n -> v_set_links h n p nx m = h m.
Proof. intros. unfold v_set_links. destruct (h n); auto. apply upd_other; auto. Qed.
Lemma set_links_data : forall h n p nx m, v_data (v_set_links h n p nx) (Some m) = v_data h (Some m).
Proof.
  intros. unfold v_set_links, v_data. destruct (h n) eqn:E; auto.
  unfold upd. destruct (Nat.eqb_spec m n); auto. subst. rewrite E. reflexivity.
Qed.
Lemma relink_other : forall arr h p m, ~ In m arr -> v_relink h p arr m = h m.
Proof.
  induction arr as [|n tl IH]; intros h p m Hm; [reflexivity|].
  cbn [v_relink]. rewrite IH by (intro; apply Hm; right; auto).
  apply set_links_other. intro; subst. apply Hm. left. reflexivity.
Qed.
Lemma relink_data : forall arr h p m, v_data (v_relink h p arr) (Some m) = v_data h (Some m).
Proof.
  induction arr as [|n tl IH]; intros h p m; [reflexivity|].
  cbn [v_relink]. rewrite IH. apply set_links_data.
Qed.

Lemma hd_ptr_map : forall (tl : list nat) (k : nat -> Z),
  nhd_or None (List.map (fun n => (n, k n)) tl) = hd_ptr tl.
Proof. destruct tl; reflexivity. Qed.

Lemma relink_dseg : forall arr h p, NoDup arr -> (forall n, In n arr -> h n <> None) ->
  dseg (v_relink h p arr) p (List.map (fun n => (n, v_data h (Some n))) arr) None.
Proof.
  induction arr as [|n tl IH]; intros h p Hd Hin; [exact I|].
  inversion Hd as [|? ? Hn Hd']; subst.
  cbn [v_relink List.map dseg]. split.
  - rewrite relink_other by exact Hn. rewrite hd_ptr_map.
    unfold v_set_links, v_data. destruct (h n) eqn:E; [|exfalso; apply (Hin n); [left; reflexivity|exact E]].
    apply upd_same.
  - assert (List.map (fun m => (m, v_data h (Some m))) tl =
            List.map (fun m => (m, v_data (v_set_links h n p (hd_ptr tl)) (Some m))) tl) as Em.
    { apply map_ext. intros m. rewrite set_links_data. reflexivity. }
    rewrite Em. apply IH; auto.
    intros m Hm. rewrite set_links_other.
    + apply Hin. right. exact Hm.
    + intro; subst. auto.
Qed.

Lemma find_back_dseg : forall tl h p n x fuel, dseg h p ((n, x) :: tl) None -> (length tl < fuel)%nat ->
  v_find_back fuel h n = nlast ((n, x) :: tl).
Proof.
  induction tl as [|[g y] tl IH]; intros h p n x fuel H Hf; (destruct fuel as [|fu]; [lia|]).
  - cbn [v_find_back]. destruct (dseg_lookup_first _ _ _ _ _ _ H) as (_ & Hn & _). rewrite Hn. reflexivity.
  - cbn [v_find_back]. destruct (dseg_lookup_first _ _ _ _ _ _ H) as (_ & Hn & _). rewrite Hn.
    cbn [nhd_or]. destruct H as (_ & Ht). rewrite (IH _ _ _ _ _ Ht) by (cbn [length] in Hf; lia).
    reflexivity.
Qed.

Lemma dseg_present : forall ns h p e n, dseg h p ns e -> In n (nids ns) -> h n <> None.
Proof.
  induction ns as [|[a y] tl IH]; intros h p e n H Hin; [destruct Hin|].
  destruct H as (Ha & Ht). destruct Hin as [<-|Hin]; [cbn [fst]; congruence|]. eapply IH; eauto.
Qed.

Lemma nids_map_pair : forall (l : list nat) (k : nat -> Z), nids (List.map (fun n => (n, k n)) l) = l.
Proof. induction l; intros; cbn; auto. f_equal. apply IHl. Qed.
Lemma nvals_map_pair : forall (l : list nat) (k : nat -> Z), nvals (List.map (fun n => (n, k n)) l) = List.map k l.
Proof. induction l; intros; cbn; auto. f_equal. apply IHl. Qed.

Lemma vrep_sort : forall s ns le, (forall x y, le x y = false -> le y x = true) -> vrep s ns ->
  exists ns', vrep (v_sort s le) ns' /\ nvals ns' = s_sort le (nvals ns) /\ Permutation (nids ns') (nids ns).
Proof.
  intros s ns le Htot R. pose proof R as (Hc & Hf & Hb & Hl & Hd & Hlt & Hle).
  unfold v_sort. destruct (Z.leb_spec (vlength s) 1) as [Hsmall|Hbig].
  - exists ns. split; [exact R|]. split; [|reflexivity].
    symmetry. apply s_sort_short. unfold nvals. rewrite map_length. lia.
  - rewrite Hl, Nat2Z.id, Hf, <- nhd_or_None, (collect_dseg _ _ _ _ Hc).
    set (key := fun n => v_data (vh s) (Some n)).
    set (arr := v_sort_ids le key (nids ns)).
    assert (Permutation arr (nids ns)) as Hp by (apply sort_perm).
    assert (NoDup arr) as Hda by (eapply Permutation_NoDup; [symmetry; exact Hp|exact Hd]).
    assert (forall n, In n arr -> vh s n <> None) as Hpres.
    { intros n Hn. eapply dseg_present; [exact Hc|]. eapply Permutation_in; [exact Hp|exact Hn]. }
    pose proof (relink_dseg arr (vh s) None Hda Hpres) as Hseg. fold key in Hseg.
    set (ns' := List.map (fun n => (n, key n)) arr) in *.
    assert (length arr = length ns) as Hlen.
    { rewrite (Permutation_length Hp). unfold nids. apply map_length. }
    destruct arr as [|hd tl] eqn:Earr; [cbn [length] in Hlen; lia|].
    cbn [hd_ptr]. exists ns'. split; [|split].
    + unfold vrep. cbn [vh vfront vback vlength vnxt].
      split; [exact Hseg|].
      split; [reflexivity|].
      split.
      { unfold ns' in *. cbn [List.map] in *.
        rewrite (find_back_dseg _ _ _ _ _ _ Hseg) by (rewrite map_length; cbn [length]; lia).
        destruct (nlast_nonempty ((hd, key hd) :: List.map (fun n => (n, key n)) tl)) as (m & E); [discriminate|].
        unfold key in *. rewrite E. reflexivity. }
      split; [unfold ns'; rewrite map_length, Hlen; first [exact Hl|reflexivity]|].
      split; [unfold ns'; rewrite nids_map_pair; exact Hda|].
      split.
      { unfold ns'. rewrite nids_map_pair. rewrite Forall_forall in *. intros n Hn.
        assert (n < vnxt s)%nat; [|lia]. apply Hlt. eapply Permutation_in; [exact Hp|exact Hn]. }
      unfold ns'. rewrite map_length, Hlen. lia.
    + unfold ns'. rewrite nvals_map_pair. rewrite <- Earr. unfold arr.
      rewrite (sort_map le key (fun x => x) key) by reflexivity.
      unfold key. rewrite (keys_dseg _ _ _ _ Hc). reflexivity.
    + unfold ns'. rewrite nids_map_pair. exact Hp.
Qed.

(* ---------------------------------------------------------------- clear and ~self() *)
Lemma clear_loop_vrep : forall ns s fuel, vrep s ns -> (length ns <= fuel)%nat ->
  exists s', v_clear_loop fuel s = (s', List.map Free (nids ns)) /\ vrep s' [] /\ vnxt s' = vnxt s.
Proof.
  induction ns as [|[f x] tl IH]; intros s fuel R Hfuel.
  - destruct R as (Hc & Hf & Hrest). exists s. split; [|split; [repeat split; tauto|reflexivity]].
    destruct fuel; cbn [v_clear_loop]; auto. rewrite Hf. reflexivity.
  - destruct fuel as [|fu]; [cbn in Hfuel; lia|].
    pose proof (vrep_pop_front s f x tl R) as R'.
    destruct (IH (v_pop_front s) fu R') as (s' & E & R'' & Hn); [cbn [length] in Hfuel; lia|].
    destruct R as (_ & Hf & _). cbn [nhd] in Hf.
    cbn [v_clear_loop]. rewrite Hf, E. exists s'. split; [reflexivity|]. split; auto.
    rewrite Hn. unfold v_pop_front. rewrite Hf. destruct (v_next (vh s) (Some f)); reflexivity.
Qed.

Lemma dtor_loop_dseg : forall ns h p fuel, dseg h p ns None -> (length ns <= fuel)%nat ->
  v_dtor_loop fuel h (nhd ns) = List.map Free (nids ns).
Proof.
  induction ns as [|[n x] tl IH]; intros h p fuel H Hf.
  - destruct fuel; reflexivity.
  - destruct fuel as [|fu]; [cbn in Hf; lia|].
    cbn [nhd v_dtor_loop nids List.map fst].
    destruct (dseg_lookup_first _ _ _ _ _ _ H) as (_ & Hn & _). rewrite Hn, nhd_or_None.
    destruct H as (_ & Ht). f_equal. apply (IH _ _ _ Ht). cbn [length] in Hf. lia.
Qed.

(* ---------------------------------------------------------------- Spec: a list *)
Definition vs_step (l : list Z) (o : vop) : list Z :=
  match o with
  | VPushBack v => l ++ [v]
  | VPushFront v => v :: l
  | VPopBack => removelast l
  | VPopFront => tl l
  | VDeleteAt i => if (i <? 0) || (i >=? Z.of_nat (length l)) then l
                   else firstn (Z.to_nat i) l ++ skipn (S (Z.to_nat i)) l
  | VSort | VSmaller => s_sort z_le l
  | VGreater => s_sort z_ge l
  | VClear => []
  | _ => l
  end.
Definition vs_res (l : list Z) (o : vop) : res :=
  match o with
  | VAt i => RInt (if (i <? 0) || (i >=? Z.of_nat (length l)) then 0 else nth (Z.to_nat i) l 0)
  | VFind v => RInt (find_from l 0 v)
  | VLength => RInt (Z.of_nat (length l))
  | VIsEmpty => RBool (match l with [] => true | _ => false end)
  | _ => RUnit
  end.
Fixpoint vs_run (ops : list vop) (l : list Z) : list Z :=
  match ops with [] => l | o :: r => vs_run r (vs_step l o) end.
Fixpoint vs_run_res (ops : list vop) (l : list Z) : list res :=
  match ops with [] => [] | o :: r => vs_res l o :: vs_run_res r (vs_step l o) end.

Lemma nvals_length : forall ns, length (nvals ns) = length ns.
Proof. intros. unfold nvals. apply map_length. Qed.

Lemma nvals_removelast : forall a r x, removelast (nvals (a ++ [(r, x)])) = nvals a.
Proof. intros. rewrite nvals_app. cbn [nvals List.map snd]. apply removelast_last. Qed.

Lemma live_fresh : forall live l n, Permutation live l -> Forall (fun m => (m < n)%nat) l ->
  forall k, (n <= k)%nat -> ~ In k live.
Proof.
  intros live l n P F k Hk Hin. rewrite Forall_forall in F.
  assert (k < n)%nat; [|lia]. apply F. eapply Permutation_in; [exact P|exact Hin].
Qed.

Lemma replay_sort_log : forall live n, ~ In n live -> ~ In (S n) live ->
  replay live [Malloc n; Malloc (S n); Free (S n); Free n] = Some live.
Proof.
  intros live n H1 H2. cbn [replay].
  rewrite (proj2 (mem_notIn n live) H1).
  assert (mem (S n) (n :: live) = false) as E2.
  { cbn [mem]. rewrite (proj2 (mem_notIn (S n) live) H2).
    assert (Nat.eqb (S n) n = false) as En by (apply Nat.eqb_neq; lia). rewrite En. reflexivity. }
  rewrite E2.
  assert (mem (S n) (S n :: n :: live) = true) as E3 by (cbn [mem]; rewrite Nat.eqb_refl; reflexivity).
  rewrite E3. cbn [remove1]. rewrite Nat.eqb_refl.
  assert (mem n (n :: live) = true) as E4 by (cbn [mem]; rewrite Nat.eqb_refl; reflexivity).
  rewrite E4. cbn [remove1]. rewrite Nat.eqb_refl. reflexivity.
Qed.

Lemma v_step_refines : forall s ns o live, vrep s ns -> Permutation live (nids ns) ->
  exists ns' live',
    vrep (v_step s o) ns' /\ nvals ns' = vs_step (nvals ns) o /\ v_res s o = vs_res (nvals ns) o /\
    replay live (v_log s o) = Some live' /\ Permutation live' (nids ns').
Proof.
  intros s ns o live R P.
  pose proof R as (Hc & Hf & Hb & Hl & Hd & Hlt & Hle).
  pose proof (live_fresh live _ _ P Hlt) as Hfresh.
  destruct o; cbn [v_step v_res v_log vs_step vs_res].
  - (* push_back *)
    exists (ns ++ [(vnxt s, v)]), (vnxt s :: live). split; [apply vrep_push_back; exact R|].
    split; [apply nvals_app|]. split; [reflexivity|]. split.
    + apply replay_malloc. apply Hfresh. lia.
    + rewrite nids_app. cbn [nids List.map fst]. rewrite P. apply Permutation_cons_append.
  - (* push_front *)
    exists ((vnxt s, v) :: ns), (vnxt s :: live). split; [apply vrep_push_front; exact R|].
    split; [reflexivity|]. split; [reflexivity|]. split.
    + apply replay_malloc. apply Hfresh. lia.
    + cbn [nids List.map fst]. constructor. exact P.
  - (* pop_back *)
    destruct (snoc_cases ns) as [->|(a & r & x & ->)].
    + cbn [nlast] in Hb. unfold v_pop_back. rewrite Hb. exists [], live.
      split; [exact R|]. repeat split; auto.
    + rewrite Hb, nlast_snoc.
      destruct (replay_free r live (nids a)) as (l1 & E1 & P1).
      { rewrite P, nids_app. cbn [nids List.map fst]. symmetry. apply Permutation_cons_append. }
      exists a, l1. split; [apply (vrep_pop_back s a r x R)|].
      split; [symmetry; apply nvals_removelast|]. split; [reflexivity|]. split; [exact E1|exact P1].
  - (* pop_front *)
    destruct ns as [|[f x] tl].
    + cbn [nhd] in Hf. unfold v_pop_front. rewrite Hf. exists [], live.
      split; [exact R|]. repeat split; auto.
    + rewrite Hf. cbn [nhd].
      destruct (replay_free f live (nids tl)) as (l1 & E1 & P1); [exact P|].
      exists tl, l1. split; [apply (vrep_pop_front s f x tl R)|].
      split; [reflexivity|]. split; [reflexivity|]. split; [exact E1|exact P1].
  - (* delete_at *)
    rewrite nvals_length.
    destruct ((i <? 0) || (i >=? Z.of_nat (length ns))) eqn:G.
    + exists ns, live. unfold v_delete_at, v_delete_log. rewrite Hl, G.
      split; [exact R|]. repeat split; auto.
    + apply orb_false_iff in G. destruct G as (G1 & G2).
      apply Z.ltb_ge in G1. rewrite Z.geb_leb in G2. apply Z.leb_gt in G2.
      assert (Z.to_nat i < length ns)%nat as Hk by lia.
      destruct (split_at ns _ Hk) as (a & c & x & b & E & L). subst ns.
      destruct (vrep_delete_at s a c x b R) as (R' & Lg).
      rewrite L, Z2Nat.id in R', Lg by lia. rewrite Lg.
      destruct (replay_free c live (nids (a ++ b))) as (l1 & E1 & P1).
      { rewrite P, !nids_app. cbn [nids List.map fst]. symmetry. apply Permutation_middle. }
      exists (a ++ b), l1. split; [exact R'|].
      split; [rewrite <- L; symmetry; apply nvals_firstn_skipn|].
      split; [reflexivity|]. split; [exact E1|exact P1].
  - (* at *)
    exists ns, live. split; [exact R|]. split; [reflexivity|]. split.
    + rewrite (vrep_at s ns i R), nvals_length. reflexivity.
    + split; [reflexivity|exact P].
  - (* find *)
    exists ns, live. split; [exact R|]. split; [reflexivity|]. split.
    + rewrite Hf, (find_loop_dseg _ _ _ _ _ _ Hc) by exact Hle. reflexivity.
    + split; [reflexivity|exact P].
  - (* sort *)
    destruct (vrep_sort s ns z_le z_le_total R) as (ns' & R' & V & Pn).
    exists ns', live. split; [exact R'|]. split; [exact V|]. split; [reflexivity|].
    split; [|rewrite P; symmetry; exact Pn].
    unfold v_sort_log. destruct (vlength s <=? 1); [reflexivity|].
    apply replay_sort_log; apply Hfresh; lia.
  - (* smaller *)
    destruct (vrep_sort s ns z_le z_le_total R) as (ns' & R' & V & Pn).
    exists ns', live. split; [exact R'|]. split; [exact V|]. split; [reflexivity|].
    split; [|rewrite P; symmetry; exact Pn].
    unfold v_sort_log. destruct (vlength s <=? 1); [reflexivity|].
    apply replay_sort_log; apply Hfresh; lia.
  - (* greater *)
    destruct (vrep_sort s ns z_ge z_ge_total R) as (ns' & R' & V & Pn).
    exists ns', live. split; [exact R'|]. split; [exact V|]. split; [reflexivity|].
    split; [|rewrite P; symmetry; exact Pn].
    unfold v_sort_log. destruct (vlength s <=? 1); [reflexivity|].
    apply replay_sort_log; apply Hfresh; lia.
  - (* get_length *)
    exists ns, live. split; [exact R|]. repeat split; auto. rewrite Hl, nvals_length. reflexivity.
  - (* is_empty *)
    exists ns, live. split; [exact R|]. repeat split; auto. rewrite Hl. f_equal. apply length_zero_bool.
  - (* clear *)
    destruct (clear_loop_vrep ns s (vnxt s) R Hle) as (s' & E & R' & Hn).
    rewrite E. cbn [fst snd].
    destruct (replay_free_list (nids ns) live []) as (l1 & E1 & P1); [rewrite app_nil_r; exact P|].
    exists [], l1. split; [exact R'|]. repeat split; auto.
Qed.

Lemma v_run_refines : forall ops s ns live, vrep s ns -> Permutation live (nids ns) ->
  exists ns' live',
    vrep (v_run ops s) ns' /\ nvals ns' = vs_run ops (nvals ns) /\
    v_run_res ops s = vs_run_res ops (nvals ns) /\
    replay live (v_run_log ops s) = Some live' /\ Permutation live' (nids ns').
Proof.
  induction ops as [|o ops IH]; intros s ns live R P; cbn [v_run vs_run v_run_res vs_run_res v_run_log].
  - exists ns, live. split; [exact R|]. repeat split; auto.
  - destruct (v_step_refines s ns o live R P) as (ns1 & l1 & R1 & V1 & Rs1 & E1 & P1).
    destruct (IH _ _ _ R1 P1) as (ns2 & l2 & R2 & V2 & Rs2 & E2 & P2).
    exists ns2, l2. rewrite V1 in *. split; [exact R2|]. split; [exact V2|].
    split; [rewrite Rs1, Rs2; reflexivity|]. split; [rewrite replay_app, E1; exact E2|exact P2].
Qed.

Lemma dlist_refines_list_l : forall ops,
  v_run_res ops vector_init = vs_run_res ops [] /\
  exists ns, vrep (v_run ops vector_init) ns /\ nvals ns = vs_run ops [] /\
             vlength (v_run ops vector_init) = Z.of_nat (length (vs_run ops [])).
Proof.
  intros. destruct (v_run_refines ops vector_init [] [] vrep_init (Permutation_refl _))
    as (ns & live & R & V & Rs & _ & _).
  change (nvals []) with (@nil Z) in *.
  split; auto. exists ns. split; [exact R|]. split; [exact V|].
  destruct R as (_ & _ & _ & Hl & _). rewrite Hl, <- V, nvals_length. reflexivity.
Qed.

Lemma vector_log_sound : forall ops,
  replay [] (v_run_log ops vector_init ++ v_dtor_log (v_run ops vector_init)) = Some [].
Proof.
  intros. destruct (v_run_refines ops vector_init [] [] vrep_init (Permutation_refl _))
    as (ns & live & R & _ & _ & E & P).
  rewrite replay_app, E. destruct R as (Hc & Hf & _ & _ & Hd & _ & Hle).
  unfold v_dtor_log. rewrite Hf, (dtor_loop_dseg _ _ _ _ Hc Hle).
  destruct (replay_free_list (nids ns) live []) as (l1 & E1 & P1); [rewrite app_nil_r; exact P|].
  rewrite E1. symmetry in P1. apply Permutation_nil in P1. subst. reflexivity.
Qed.

(* sort = sorted permutation (ascending for sort()/smaller(), descending for greater()) *)
Lemma s_sort_le_sorted_perm : forall l,
  Sorted (fun x y => x <= y) (s_sort z_le l) /\ Permutation (s_sort z_le l) l.
Proof.
  intros. split; [|apply sort_perm].
  pose proof (sort_sorted z_le (fun x : Z => x) z_le_total l) as S.
  unfold s_sort. induction S; constructor; auto.
  destruct H; constructor. unfold lek, z_le in H. apply Z.leb_le. exact H.
Qed.
Lemma s_sort_ge_sorted_perm : forall l,
  Sorted (fun x y => x >= y) (s_sort z_ge l) /\ Permutation (s_sort z_ge l) l.
Proof.
  intros. split; [|apply sort_perm].
  pose proof (sort_sorted z_ge (fun x : Z => x) z_ge_total l) as S.
  unfold s_sort. induction S; constructor; auto.
  destruct H; constructor. unfold lek, z_ge in H. rewrite Z.geb_leb in H. apply Z.leb_le in H. lia.
Qed.
