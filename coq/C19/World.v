(* C19 - several containers in one program: the world is a list of container states, an operation
   addresses one of them.  In the model a container's results depend only on the operations addressed
   to it (the interleaving with other containers is irrelevant); the correspondence runs check that
   the interpreter agrees with this on programs that interleave containers of several types. *)
From Coq Require Import ZArith List Bool Lia Arith.
From Cb Require Import C19.Model C19.LinkedModel.
Import ListNotations.

Inductive cont := CMap (m : map) | CQue (q : queue) | CVec (v : vector).
Inductive cop := OMap (o : mop) | OQue (o : qop) | OVec (o : vop).

Definition c_step (c : cont) (o : cop) : cont :=
  match c, o with
  | CMap m, OMap o => CMap (m_step m o)
  | CQue q, OQue o => CQue (q_step q o)
  | CVec v, OVec o => CVec (v_step v o)
  | _, _ => c
  end.
Definition c_res (c : cont) (o : cop) : res :=
  match c, o with
  | CMap m, OMap o => m_res m o
  | CQue q, OQue o => q_res q o
  | CVec v, OVec o => v_res v o
  | _, _ => RUnit
  end.
Fixpoint c_run (ops : list cop) (c : cont) : cont :=
  match ops with [] => c | o :: r => c_run r (c_step c o) end.
Fixpoint c_run_res (ops : list cop) (c : cont) : list res :=
  match ops with [] => [] | o :: r => c_res c o :: c_run_res r (c_step c o) end.

Definition world := list cont.
Fixpoint w_step (w : world) (i : nat) (o : cop) : world :=
  match w with
  | [] => []
  | c :: r => match i with O => c_step c o :: r | S j => c :: w_step r j o end
  end.
Definition w_res (w : world) (i : nat) (o : cop) : res :=
  match nth_error w i with Some c => c_res c o | None => RUnit end.
Fixpoint w_run (ops : list (nat * cop)) (w : world) : world :=
  match ops with [] => w | (i, o) :: r => w_run r (w_step w i o) end.
Fixpoint w_run_res (ops : list (nat * cop)) (w : world) : list (nat * res) :=
  match ops with [] => [] | (i, o) :: r => (i, w_res w i o) :: w_run_res r (w_step w i o) end.

(* the operations addressed to container i, and the results reported for it *)
Definition proj_ops (i : nat) (ops : list (nat * cop)) : list cop :=
  List.map snd (filter (fun p => Nat.eqb (fst p) i) ops).
Definition proj_res (i : nat) (rs : list (nat * res)) : list res :=
  List.map snd (filter (fun p => Nat.eqb (fst p) i) rs).

Lemma nth_w_step : forall w j o i,
  nth_error (w_step w j o) i =
  if Nat.eqb j i then option_map (fun c => c_step c o) (nth_error w i) else nth_error w i.
Proof.
  induction w as [|c r IH]; intros j o i.
  - cbn [w_step]. destruct i; destruct (Nat.eqb j _); reflexivity.
  - cbn [w_step]. destruct j as [|j]; destruct i as [|i]; cbn [nth_error Nat.eqb option_map]; auto.
Qed.

Lemma world_independent : forall ops w i c, nth_error w i = Some c ->
  nth_error (w_run ops w) i = Some (c_run (proj_ops i ops) c) /\
  proj_res i (w_run_res ops w) = c_run_res (proj_ops i ops) c.
Proof.
  induction ops as [|[j o] ops IH]; intros w i c H.
  - cbn. auto.
  - cbn [w_run w_run_res proj_ops proj_res filter fst List.map].
    pose proof (nth_w_step w j o i) as N. rewrite H in N.
    destruct (Nat.eqb_spec j i) as [->|Hne].
    + cbn [option_map] in N. destruct (IH _ _ _ N) as (A & B).
      cbn [List.map snd c_run c_run_res]. split; [exact A|].
      unfold w_res. rewrite H. f_equal. exact B.
    + destruct (IH _ _ _ N) as (A & B). split; [exact A|exact B].
Qed.
