(* C19 - property theorems only: a Map read returns the latest write, for every history of operations
   (no bound on length, keys or tree shape). Statements are about the Mech model of stdlib/std/map.cb
   (Model.v: the AVL insert / remove with rotations, get / contains loops); proofs in LastWrite.v. *)
From Coq Require Import ZArith List Bool.
From Cb Require Import C19.Model C19.AvlInv C19.AvlRefine C19.LastWrite.
Import ListNotations.
Local Open Scope Z_scope.

(* get(k, d) / contains(k) after ANY history return exactly what the last write to k in that history
   says (insert k v -> v; remove / try_remove k or clear -> absent), whatever rotations happened *)
Theorem map_read_returns_latest_write : forall ops k d,
  let m := m_run ops map_init in
  get_loop (root m) k d = (match last_write k ops None with Some v => v | None => d end) /\
  contains_loop (root m) k = is_some (last_write k ops None).
Proof. exact read_latest_write. Qed.
Print Assumptions map_read_returns_latest_write.

(* after any history h: insert k v, then any reads and any writes to other keys, then get k = v *)
Theorem map_insert_then_get : forall h k v mid d, forallb (other_key k) mid = true ->
  let m := m_run (h ++ MInsert k v :: mid) map_init in
  get_loop (root m) k d = v /\ contains_loop (root m) k = true.
Proof. exact insert_then_get. Qed.
Print Assumptions map_insert_then_get.

Theorem map_remove_then_get : forall h k mid d, forallb (other_key k) mid = true ->
  let m := m_run (h ++ MRemove k :: mid) map_init in
  get_loop (root m) k d = d /\ contains_loop (root m) k = false.
Proof. exact remove_then_get. Qed.
Print Assumptions map_remove_then_get.

Theorem map_clear_then_get : forall h k mid d, forallb (other_key k) mid = true ->
  let m := m_run (h ++ MClear :: mid) map_init in
  get_loop (root m) k d = d /\ contains_loop (root m) k = false.
Proof. exact clear_then_get. Qed.
Print Assumptions map_clear_then_get.

(* reads leave what the history says about every key unchanged *)
Theorem map_reads_do_not_write : forall k ops acc, forallb is_read ops = true -> last_write k ops acc = acc.
Proof. exact last_write_reads. Qed.
Print Assumptions map_reads_do_not_write.

(* non-vacuity: a history with rotations (ascending inserts), an overwrite, a removal, a clear *)
Example latest_write_somewhere :
  let h := [MInsert 1 10; MInsert 2 20; MInsert 3 30; MInsert 4 40; MInsert 5 50; MInsert 3 31; MRemove 2] in
  forallb (other_key 3) [MGet 1 0; MInsert 6 60; MRemove 1] = true /\
  get_loop (root (m_run h map_init)) 3 (-1) = 31 /\
  get_loop (root (m_run h map_init)) 2 (-1) = -1 /\
  get_loop (root (m_run (h ++ [MClear; MInsert 7 70]) map_init)) 3 (-1) = -1 /\
  get_height (root (m_run h map_init)) = 3.
Proof. vm_compute. repeat split; reflexivity. Qed.
