(* C19 - the bottom-up merge sort of vector.cb (v_merge / v_merge_pairs / v_merge_all / v_sort_ids of
   LinkedModel.v): the result is a permutation of the input, sorted by key, for every total [le];
   the fuel (= length) always suffices; sorting commutes with key-preserving maps (so that sorting
   node pointers by their data and sorting the data values give the same value sequence). *)
From Coq Require Import ZArith List Bool Lia Arith Permutation Sorted.
From Cb Require Import C19.Model C19.LinkedModel.
Import ListNotations.

Section Sort.
  Context {A : Type} (le : Z -> Z -> bool) (key : A -> Z).
  Hypothesis le_total : forall x y, le x y = false -> le y x = true.

  Definition lek (x y : A) : Prop := le (key x) (key y) = true.

  Lemma merge_nil_r : forall a, v_merge le key a [] = a.
  Proof. destruct a; reflexivity. Qed.

  Lemma merge_perm : forall a b, Permutation (v_merge le key a b) (a ++ b).
  Proof.
    induction a as [|x a IHa]; intros b; [destruct b; reflexivity|].
    induction b as [|y b IHb]; [rewrite merge_nil_r, app_nil_r; reflexivity|].
    cbn [v_merge]. destruct (le (key x) (key y)).
    - cbn [app]. constructor. apply IHa.
    - etransitivity; [constructor; exact IHb|]. cbn [app].
      rewrite perm_swap. constructor. apply Permutation_middle.
  Qed.

  Lemma merge_hdrel : forall z a b, HdRel lek z a -> HdRel lek z b -> HdRel lek z (v_merge le key a b).
  Proof.
    intros z a b Ha Hb. destruct a as [|x a]; [destruct b; auto|].
    destruct b as [|y b]; [rewrite merge_nil_r; auto|].
    cbn [v_merge]. inversion Ha; inversion Hb; subst.
    destruct (le (key x) (key y)); constructor; auto.
  Qed.

  Lemma merge_sorted : forall a b, Sorted lek a -> Sorted lek b -> Sorted lek (v_merge le key a b).
  Proof.
    induction a as [|x a IHa]; intros b Sa Sb; [destruct b; auto|].
    induction b as [|y b IHb]; [rewrite merge_nil_r; auto|].
    cbn [v_merge]. inversion Sa as [|? ? Sa' Ha]; inversion Sb as [|? ? Sb' Hb]; subst.
    destruct (le (key x) (key y)) eqn:E.
    - constructor; [apply IHa; auto|]. apply merge_hdrel; auto; try (constructor; exact E).
    - constructor; [apply IHb; auto|].
      change (HdRel lek y (v_merge le key (x :: a) b)).
      apply merge_hdrel; auto; try (constructor; apply le_total, E).
  Qed.

  Lemma pairs_sorted : forall runs, Forall (Sorted lek) runs -> Forall (Sorted lek) (v_merge_pairs le key runs).
  Proof.
    fix IH 1. intros [|a [|b rest]] F; cbn [v_merge_pairs]; auto.
    inversion F as [|? ? Sa F']; inversion F' as [|? ? Sb F'']; subst.
    constructor; [apply merge_sorted; auto|apply IH; auto].
  Qed.
  Lemma pairs_perm : forall runs, Permutation (concat (v_merge_pairs le key runs)) (concat runs).
  Proof.
    fix IH 1. intros [|a [|b rest]]; cbn [v_merge_pairs concat]; auto.
    rewrite app_assoc. apply Permutation_app; [apply merge_perm|apply IH].
  Qed.
  Lemma pairs_length : forall runs, (length (v_merge_pairs le key runs) <= length runs)%nat.
  Proof.
    fix IH 1. intros [|a [|b rest]]; cbn [v_merge_pairs length]; auto.
    specialize (IH rest). lia.
  Qed.

  Lemma all_sorted : forall fuel runs, Forall (Sorted lek) runs -> Forall (Sorted lek) (v_merge_all fuel le key runs).
  Proof.
    induction fuel as [|f IH]; intros runs F; cbn [v_merge_all]; auto.
    destruct runs as [|a [|b rest]]; auto. apply IH, pairs_sorted, F.
  Qed.
  Lemma all_perm : forall fuel runs, Permutation (concat (v_merge_all fuel le key runs)) (concat runs).
  Proof.
    induction fuel as [|f IH]; intros runs; cbn [v_merge_all]; auto.
    destruct runs as [|a [|b rest]]; auto. rewrite IH. apply pairs_perm.
  Qed.
  (* the fuel suffices: at most one run is left *)
  Lemma all_single : forall fuel runs, (length runs <= S fuel)%nat ->
    (length (v_merge_all fuel le key runs) <= 1)%nat.
  Proof.
    induction fuel as [|f IH]; intros runs L; cbn [v_merge_all]; auto.
    destruct runs as [|a [|b rest]]; cbn [length]; try lia.
    apply IH. cbn [v_merge_pairs length] in *. pose proof (pairs_length rest). lia.
  Qed.

  Lemma concat_singletons : forall l : list A, concat (List.map (fun n => [n]) l) = l.
  Proof. induction l; cbn; congruence. Qed.

  Lemma sort_perm : forall arr, Permutation (v_sort_ids le key arr) arr.
  Proof.
    intros. unfold v_sort_ids. rewrite all_perm. rewrite concat_singletons. reflexivity.
  Qed.
  Lemma sort_sorted : forall arr, Sorted lek (v_sort_ids le key arr).
  Proof.
    intros. unfold v_sort_ids.
    set (runs := List.map (fun n => [n]) arr).
    assert (Forall (Sorted lek) runs) as F.
    { unfold runs. clear. induction arr; cbn; constructor; auto. }
    assert (length runs <= S (length arr))%nat as L by (unfold runs; rewrite map_length; lia).
    pose proof (all_sorted (length arr) runs F) as F'.
    pose proof (all_single (length arr) runs L) as L'.
    destruct (v_merge_all (length arr) le key runs) as [|r [|r2 rest]]; cbn [concat length] in *.
    - constructor.
    - rewrite app_nil_r. inversion F'; auto.
    - lia.
  Qed.
End Sort.

(* sorting commutes with a key-preserving map *)
Section SortMap.
  Context {A B : Type} (le : Z -> Z -> bool) (key : A -> Z) (key' : B -> Z) (f : A -> B).

  Lemma merge_map : forall a b, (forall x, In x (a ++ b) -> key' (f x) = key x) ->
    List.map f (v_merge le key a b) = v_merge le key' (List.map f a) (List.map f b).
  Proof.
    induction a as [|x a IHa]; intros b H; [destruct b; reflexivity|].
    induction b as [|y b IHb]; [cbn [List.map]; rewrite !merge_nil_r; reflexivity|].
    cbn [v_merge List.map].
    assert (le (key' (f x)) (key' (f y)) = le (key x) (key y)) as El.
    { rewrite (H x) by (left; reflexivity).
      rewrite (H y) by (apply in_or_app; right; left; reflexivity). reflexivity. }
    rewrite El.
    destruct (le (key x) (key y)).
    - cbn [List.map]. f_equal. rewrite IHa; [reflexivity|].
      intros z Hz. apply H. right. exact Hz.
    - cbn [List.map]. f_equal.
      change (List.map f (v_merge le key (x :: a) b) = v_merge le key' (List.map f (x :: a)) (List.map f b)).
      apply IHb.
      intros z Hz. apply H. apply in_app_or in Hz. apply in_or_app. destruct Hz as [Hz|Hz]; [left; exact Hz|right; right; exact Hz].
  Qed.

  Lemma pairs_map : forall runs, (forall x, In x (concat runs) -> key' (f x) = key x) ->
    List.map (List.map f) (v_merge_pairs le key runs) = v_merge_pairs le key' (List.map (List.map f) runs).
  Proof.
    fix IH 1. intros [|a [|b rest]] H; cbn [v_merge_pairs List.map]; auto.
    f_equal.
    - apply merge_map. intros x Hx. apply H. cbn [concat]. rewrite app_assoc. apply in_or_app. left. exact Hx.
    - apply IH. intros x Hx. apply H. cbn [concat]. apply in_or_app. right. apply in_or_app. right. exact Hx.
  Qed.

  Lemma all_map : forall fuel runs, (forall x, In x (concat runs) -> key' (f x) = key x) ->
    List.map (List.map f) (v_merge_all fuel le key runs) = v_merge_all fuel le key' (List.map (List.map f) runs).
  Proof.
    induction fuel as [|fu IH]; intros runs H; cbn [v_merge_all]; auto.
    destruct runs as [|a [|b rest]]; auto.
    cbn [List.map]. rewrite IH.
    - rewrite pairs_map; [reflexivity|exact H].
    - intros x Hx. apply H. eapply Permutation_in; [apply pairs_perm|exact Hx].
  Qed.

  Lemma sort_map : forall arr, (forall x, In x arr -> key' (f x) = key x) ->
    List.map f (v_sort_ids le key arr) = v_sort_ids le key' (List.map f arr).
  Proof.
    intros arr H. unfold v_sort_ids. rewrite concat_map, all_map.
    - rewrite map_length. f_equal. f_equal. rewrite !map_map. reflexivity.
    - intros x Hx. apply H. rewrite concat_singletons in Hx. exact Hx.
  Qed.
End SortMap.

(* the two orders used by vector.cb *)
Lemma z_le_total : forall x y, z_le x y = false -> z_le y x = true.
Proof. unfold z_le. intros. apply Z.leb_le. apply Z.leb_gt in H. lia. Qed.
Lemma z_ge_total : forall x y, z_ge x y = false -> z_ge y x = true.
Proof.
  unfold z_ge. intros. rewrite Z.geb_leb in *. apply Z.leb_le. apply Z.leb_gt in H. lia.
Qed.

(* Spec-level sort on values: the same function with the identity key *)
Definition s_sort (le : Z -> Z -> bool) (l : list Z) : list Z := v_sort_ids le (fun x => x) l.

Lemma s_sort_short : forall le l, (length l <= 1)%nat -> s_sort le l = l.
Proof.
  intros le [|x [|y l]] H; try reflexivity. cbn [length] in H. lia.
Qed.
