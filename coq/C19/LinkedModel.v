(* C19 - Mech models of stdlib/std/queue.cb (singly linked queue with front/rear) and
   stdlib/std/vector.cb (doubly linked list with front/back, bottom-up merge sort on an array of node
   pointers), at POINTER level: a heap maps malloc blocks (nat) to nodes, the container records hold
   optional block names exactly like the void* fields of the Cb structs.  Reading a field through a
   dangling or null pointer yields null / 0 (the code would crash; the invariants proved in
   QueueProofs.v / VectorProofs.v show it never happens).  Loops carry fuel; the proofs show the fuel
   given is sufficient.  No proofs in this file. *)
From Coq Require Import ZArith List Bool.
From Cb Require Import C19.Model.
Import ListNotations.
Local Open Scope Z_scope.

Definition upd {A} (h : nat -> option A) (n : nat) (x : option A) : nat -> option A :=
  fun m => if Nat.eqb m n then x else h m.

(* ================================================================ Queue<T> (queue.cb) *)
(* QueueNode<T> layout: [T data][void* next] *)
Record qnode := mkq { qdata : Z; qnext : option nat }.
Record queue := mkqueue { qh : nat -> option qnode; qfront : option nat; qrear : option nat;
                          qlength : Z; qnxt : nat }.
Definition queue_init : queue := mkqueue (fun _ => None) None None 0 0.   (* self() *)

Definition q_next (h : nat -> option qnode) (p : nat) : option nat :=
  match h p with Some nd => qnext nd | None => None end.
Definition q_data (h : nat -> option qnode) (p : nat) : Z :=
  match h p with Some nd => qdata nd | None => 0 end.
Definition q_set_next (h : nat -> option qnode) (p : nat) (x : option nat) : nat -> option qnode :=
  match h p with Some nd => upd h p (Some (mkq (qdata nd) x)) | None => h end.

Inductive qop := QPush (v : Z) | QPop | QTop | QEmpty | QSize | QClear | QIsEmpty.

(* queue.cb:53 push *)
Definition q_push (q : queue) (value : Z) : queue :=
  let n := qnxt q in
  let h1 := upd (qh q) n (Some (mkq value None)) in           (* array_set(node_mem,0,value); *next_ptr = nullptr *)
  match qrear q with
  | None => mkqueue h1 (Some n) (Some n) (qlength q + 1) (S n)
  | Some r => mkqueue (q_set_next h1 r (Some n)) (qfront q) (Some n) (qlength q + 1) (S n)
  end.

(* queue.cb:105 pop: guard length <= 0 || front == nullptr returns a zero value *)
Definition q_pop_guard (q : queue) : option nat :=
  if qlength q <=? 0 then None else qfront q.
Definition q_pop (q : queue) : queue :=
  match q_pop_guard q with
  | None => q
  | Some f =>
      let next := q_next (qh q) f in
      mkqueue (upd (qh q) f None) next
              (match next with None => None | Some _ => qrear q end)
              (qlength q - 1) (qnxt q)
  end.
Definition q_pop_res (q : queue) : Z :=
  match q_pop_guard q with None => 0 | Some f => q_data (qh q) f end.

(* queue.cb:160 clear / :202 ~self(): while (front != nullptr) { next = front->next; free(front); front = next; } *)
Fixpoint q_free_loop (fuel : nat) (h : nat -> option qnode) (front : option nat)
  : (nat -> option qnode) * option nat * list event :=
  match fuel with
  | O => (h, front, [])
  | S f =>
      match front with
      | None => (h, None, [])
      | Some p =>
          let '(h', fr, lg) := q_free_loop f (upd h p None) (q_next h p) in
          (h', fr, Free p :: lg)
      end
  end.

Definition q_step (q : queue) (o : qop) : queue :=
  match o with
  | QPush v => q_push q v
  | QPop => q_pop q
  | QClear =>
      let '(h', fr, _) := q_free_loop (qnxt q) (qh q) (qfront q) in
      mkqueue h' fr None 0 (qnxt q)
  | _ => q
  end.
Definition q_res (q : queue) (o : qop) : res :=
  match o with
  | QPop | QTop => RInt (q_pop_res q)
  | QEmpty | QIsEmpty => RBool (qlength q =? 0)
  | QSize => RInt (qlength q)
  | _ => RUnit
  end.
Definition q_log (q : queue) (o : qop) : list event :=
  match o with
  | QPush _ => [Malloc (qnxt q)]
  | QPop => match q_pop_guard q with None => [] | Some f => [Free f] end
  | QClear => snd (q_free_loop (qnxt q) (qh q) (qfront q))
  | _ => []
  end.
Definition q_dtor_log (q : queue) : list event := snd (q_free_loop (qnxt q) (qh q) (qfront q)).

Fixpoint q_run (ops : list qop) (q : queue) : queue :=
  match ops with [] => q | o :: r => q_run r (q_step q o) end.
Fixpoint q_run_res (ops : list qop) (q : queue) : list res :=
  match ops with [] => [] | o :: r => q_res q o :: q_run_res r (q_step q o) end.
Fixpoint q_run_log (ops : list qop) (q : queue) : list event :=
  match ops with [] => [] | o :: r => q_log q o ++ q_run_log r (q_step q o) end.

(* ================================================================ Vector<T> (vector.cb) *)
(* node layout: [prev][next][data] *)
Record vnode := mkv { vprev : option nat; vnext : option nat; vdata : Z }.
Record vector := mkvector { vh : nat -> option vnode; vfront : option nat; vback : option nat;
                            vlength : Z; vnxt : nat }.
Definition vector_init : vector := mkvector (fun _ => None) None None 0 0.

Definition v_next (h : nat -> option vnode) (p : option nat) : option nat :=
  match p with Some n => match h n with Some nd => vnext nd | None => None end | None => None end.
Definition v_prev (h : nat -> option vnode) (p : option nat) : option nat :=
  match p with Some n => match h n with Some nd => vprev nd | None => None end | None => None end.
Definition v_data (h : nat -> option vnode) (p : option nat) : Z :=
  match p with Some n => match h n with Some nd => vdata nd | None => 0 end | None => 0 end.
Definition v_set_next (h : nat -> option vnode) (p : nat) (x : option nat) : nat -> option vnode :=
  match h p with Some nd => upd h p (Some (mkv (vprev nd) x (vdata nd))) | None => h end.
Definition v_set_prev (h : nat -> option vnode) (p : nat) (x : option nat) : nat -> option vnode :=
  match h p with Some nd => upd h p (Some (mkv x (vnext nd) (vdata nd))) | None => h end.

Inductive vop :=
| VPushBack (v : Z) | VPushFront (v : Z) | VPopBack | VPopFront | VDeleteAt (i : Z) | VAt (i : Z)
| VFind (v : Z) | VSort | VSmaller | VGreater | VLength | VIsEmpty | VClear.

(* vector.cb:102 push_back *)
Definition v_push_back (s : vector) (value : Z) : vector :=
  let n := vnxt s in
  let h1 := upd (vh s) n (Some (mkv (vback s) None value)) in
  let h2 := match vback s with Some b => v_set_next h1 b (Some n) | None => h1 end in
  mkvector h2 (match vfront s with None => Some n | Some f => Some f end) (Some n) (vlength s + 1) (S n).
(* vector.cb:137 push_front *)
Definition v_push_front (s : vector) (value : Z) : vector :=
  let n := vnxt s in
  let h1 := upd (vh s) n (Some (mkv None (vfront s) value)) in
  let h2 := match vfront s with Some f => v_set_prev h1 f (Some n) | None => h1 end in
  mkvector h2 (Some n) (match vback s with None => Some n | Some b => Some b end) (vlength s + 1) (S n).
(* vector.cb:172 pop_back *)
Definition v_pop_back (s : vector) : vector :=
  match vback s with
  | None => s
  | Some b =>
      match v_prev (vh s) (Some b) with
      | Some p => mkvector (upd (v_set_next (vh s) p None) b None) (vfront s) (Some p) (vlength s - 1) (vnxt s)
      | None => mkvector (upd (vh s) b None) None None (vlength s - 1) (vnxt s)
      end
  end.
(* vector.cb:198 pop_front *)
Definition v_pop_front (s : vector) : vector :=
  match vfront s with
  | None => s
  | Some f =>
      match v_next (vh s) (Some f) with
      | Some nx => mkvector (upd (v_set_prev (vh s) nx None) f None) (Some nx) (vback s) (vlength s - 1) (vnxt s)
      | None => mkvector (upd (vh s) f None) None None (vlength s - 1) (vnxt s)
      end
  end.
(* the walk "while (i < index) current = current->next" *)
Fixpoint v_walk (h : nat -> option vnode) (cur : option nat) (i : nat) : option nat :=
  match i with O => cur | S j => v_walk h (v_next h cur) j end.
(* vector.cb:224 delete_at *)
Definition v_delete_at (s : vector) (index : Z) : vector :=
  if (index <? 0) || (index >=? vlength s) then s
  else if index =? 0 then v_pop_front s
  else if index =? vlength s - 1 then v_pop_back s
  else
    match v_walk (vh s) (vfront s) (Z.to_nat index) with
    | None => s                                                   (* null dereference in the code *)
    | Some c =>
        let prev_node := v_prev (vh s) (Some c) in
        let next_node := v_next (vh s) (Some c) in
        let h1 := match prev_node with Some p => v_set_next (vh s) p next_node | None => vh s end in
        let h2 := match next_node with Some nx => v_set_prev h1 nx prev_node | None => h1 end in
        mkvector (upd h2 c None) (vfront s) (vback s) (vlength s - 1) (vnxt s)
    end.
(* vector.cb:271 at *)
Definition v_at (s : vector) (index : Z) : Z :=
  if (index <? 0) || (index >=? vlength s) then 0
  else match vfront s with
       | None => 0
       | Some _ => v_data (vh s) (v_walk (vh s) (vfront s) (Z.to_nat index))
       end.
(* vector.cb:294 find *)
Fixpoint v_find_loop (fuel : nat) (h : nat -> option vnode) (cur : option nat) (index value : Z) : Z :=
  match fuel with
  | O => -1
  | S f =>
      match cur with
      | None => -1
      | Some _ => if v_data h cur =? value then index else v_find_loop f h (v_next h cur) (index + 1) value
      end
  end.

(* ---- sort (vector.cb:329 sort(nullptr), :501 merge_sort_internal) ---- *)
(* step 1: node pointers into node_array, "while (current != nullptr && idx < length)" *)
Fixpoint v_collect (fuel : nat) (h : nat -> option vnode) (cur : option nat) : list nat :=
  match fuel with
  | O => []
  | S f => match cur with None => [] | Some n => n :: v_collect f h (v_next h cur) end
  end.
(* the inner merge loop of two adjacent chunks; left_first = le left_data right_data (stable).
   Polymorphic in the element type so that the Spec can use the very same function on values. *)
Fixpoint v_merge {A} (le : Z -> Z -> bool) (key : A -> Z) (a : list A) : list A -> list A :=
  fix aux (b : list A) : list A :=
    match a, b with
    | [], _ => b
    | _, [] => a
    | x :: a', y :: b' => if le (key x) (key y) then x :: v_merge le key a' b else y :: aux b'
    end.
(* one pass "while (start < length)": the chunks of width current_size are kept as a list of runs *)
Fixpoint v_merge_pairs {A} (le : Z -> Z -> bool) (key : A -> Z) (runs : list (list A)) : list (list A) :=
  match runs with
  | a :: b :: rest => v_merge le key a b :: v_merge_pairs le key rest
  | _ => runs
  end.
(* "while (current_size < length) { pass; current_size *= 2 }": more than one run left <=> current_size < length *)
Fixpoint v_merge_all {A} (fuel : nat) (le : Z -> Z -> bool) (key : A -> Z) (runs : list (list A)) : list (list A) :=
  match fuel with
  | O => runs
  | S f => match runs with
           | [] | [_] => runs
           | _ => v_merge_all f le key (v_merge_pairs le key runs)
           end
  end.
Definition v_sort_ids {A} (le : Z -> Z -> bool) (key : A -> Z) (arr : list A) : list A :=
  concat (v_merge_all (length arr) le key (List.map (fun n => [n]) arr)).
(* step 3: rebuild prev/next from the sorted array *)
Definition v_set_links (h : nat -> option vnode) (n : nat) (p nx : option nat) : nat -> option vnode :=
  match h n with Some nd => upd h n (Some (mkv p nx (vdata nd))) | None => h end.
Definition hd_ptr (l : list nat) : option nat := match l with [] => None | n :: _ => Some n end.
Fixpoint v_relink (h : nat -> option vnode) (prev : option nat) (arr : list nat) : nat -> option vnode :=
  match arr with
  | [] => h
  | n :: tl => v_relink (v_set_links h n prev (hd_ptr tl)) (Some n) tl
  end.
(* "back = last node reached from new_head" *)
Fixpoint v_find_back (fuel : nat) (h : nat -> option vnode) (cur : nat) : option nat :=
  match fuel with
  | O => None
  | S f => match v_next h (Some cur) with None => Some cur | Some nx => v_find_back f h nx end
  end.
Definition v_sort (s : vector) (le : Z -> Z -> bool) : vector :=
  if vlength s <=? 1 then s
  else
    let arr := v_collect (Z.to_nat (vlength s)) (vh s) (vfront s) in
    let sorted := v_sort_ids le (fun n => v_data (vh s) (Some n)) arr in
    let h' := v_relink (vh s) None sorted in
    match hd_ptr sorted with
    | None => mkvector h' None (vback s) (vlength s) (S (S (vnxt s)))
    | Some hd =>
        let b := match v_find_back (S (length sorted)) h' hd with Some b => Some b | None => vback s end in
        mkvector h' (Some hd) b (vlength s) (S (S (vnxt s)))
    end.
(* node_array = malloc; temp_array = malloc; ...; free(temp_array); free(node_array) *)
Definition v_sort_log (s : vector) : list event :=
  if vlength s <=? 1 then []
  else [Malloc (vnxt s); Malloc (S (vnxt s)); Free (S (vnxt s)); Free (vnxt s)].

(* vector.cb:686 clear: while (front != nullptr) pop_front() *)
Fixpoint v_clear_loop (fuel : nat) (s : vector) : vector * list event :=
  match fuel with
  | O => (s, [])
  | S f =>
      match vfront s with
      | None => (s, [])
      | Some p => let '(s', lg) := v_clear_loop f (v_pop_front s) in (s', Free p :: lg)
      end
  end.
(* vector.cb:703 ~self() *)
Fixpoint v_dtor_loop (fuel : nat) (h : nat -> option vnode) (cur : option nat) : list event :=
  match fuel with
  | O => []
  | S f => match cur with None => [] | Some p => Free p :: v_dtor_loop f h (v_next h cur) end
  end.

Definition z_le (a b : Z) : bool := a <=? b.
Definition z_ge (a b : Z) : bool := a >=? b.

Definition v_step (s : vector) (o : vop) : vector :=
  match o with
  | VPushBack v => v_push_back s v
  | VPushFront v => v_push_front s v
  | VPopBack => v_pop_back s
  | VPopFront => v_pop_front s
  | VDeleteAt i => v_delete_at s i
  | VSort | VSmaller => v_sort s z_le
  | VGreater => v_sort s z_ge
  | VClear => fst (v_clear_loop (vnxt s) s)
  | _ => s
  end.
Definition v_res (s : vector) (o : vop) : res :=
  match o with
  | VAt i => RInt (v_at s i)
  | VFind v => RInt (v_find_loop (vnxt s) (vh s) (vfront s) 0 v)
  | VLength => RInt (vlength s)
  | VIsEmpty => RBool (vlength s =? 0)
  | _ => RUnit
  end.
Definition v_delete_log (s : vector) (index : Z) : list event :=
  if (index <? 0) || (index >=? vlength s) then []
  else if index =? 0 then match vfront s with Some f => [Free f] | None => [] end
  else if index =? vlength s - 1 then match vback s with Some b => [Free b] | None => [] end
  else match v_walk (vh s) (vfront s) (Z.to_nat index) with Some c => [Free c] | None => [] end.
Definition v_log (s : vector) (o : vop) : list event :=
  match o with
  | VPushBack _ | VPushFront _ => [Malloc (vnxt s)]
  | VPopBack => match vback s with Some b => [Free b] | None => [] end
  | VPopFront => match vfront s with Some f => [Free f] | None => [] end
  | VDeleteAt i => v_delete_log s i
  | VSort | VSmaller | VGreater => v_sort_log s
  | VClear => snd (v_clear_loop (vnxt s) s)
  | _ => []
  end.
Definition v_dtor_log (s : vector) : list event := v_dtor_loop (vnxt s) (vh s) (vfront s).

Fixpoint v_run (ops : list vop) (s : vector) : vector :=
  match ops with [] => s | o :: r => v_run r (v_step s o) end.
Fixpoint v_run_res (ops : list vop) (s : vector) : list res :=
  match ops with [] => [] | o :: r => v_res s o :: v_run_res r (v_step s o) end.
Fixpoint v_run_log (ops : list vop) (s : vector) : list event :=
  match ops with [] => [] | o :: r => v_log s o ++ v_run_log r (v_step s o) end.
