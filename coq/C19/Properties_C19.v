(* C19 - property theorems only.  Statements are about the Mech models of stdlib/std/map.cb
   (Model.v), queue.cb and vector.cb (LinkedModel.v); proofs are in the lemma files. *)
From Coq Require Import ZArith List Bool Permutation Sorted.
From Cb Require Import C19.Model C19.LinkedModel C19.AvlInv C19.AvlRefine C19.Log C19.MapLog
  C19.QueueProofs C19.SortProofs C19.VectorProofs C19.World.
Import ListNotations.
Local Open Scope Z_scope.

(* ---------------------------------------------------------------- Map<K,V> *)

(* The AVL invariant - stored height = 1 + max of the children's stored heights (hence = real height),
   |balance| <= 1, has_value set - and the BST order (in-order keys strictly increasing) hold in the
   empty map and are preserved by every operation, hence after every history. *)
Theorem avl_inv_preserved : forall ops,
  let m := m_run ops map_init in
  avl (root m) /\ bst (root m) /\ get_height (root m) = Z.of_nat (rheight (root m)).
Proof.
  intros ops m. destruct (map_inv_run ops map_init map_inv_init) as (A & B & _).
  repeat split; auto. apply stored_height_is_real, A.
Qed.
Print Assumptions avl_inv_preserved.

(* one step, any state satisfying the invariant (insert and remove in particular) *)
Theorem avl_inv_step : forall m o, map_inv m -> map_inv (m_step m o).
Proof. exact map_inv_step. Qed.
Print Assumptions avl_inv_step.

(* Refinement: after any history the in-order contents are exactly what the finite-map Spec (sorted
   association list with ordered insertion / deletion) holds, and every result the Mech produced
   (get, contains, try_remove, size, is_empty) is the Spec's; get_tree_height obeys the AVL bound. *)
Theorem avl_refines_fmap : forall ops,
  elements (root (m_run ops map_init)) = fm_run ops [] /\
  fm_all_ok ops [] (m_run_res ops map_init).
Proof. intros. exact (run_refines ops map_init map_inv_init). Qed.
Print Assumptions avl_refines_fmap.

(* the Spec really is a finite map: lookup after insert / remove, keys unique *)
Theorem fmap_spec_laws : forall (s : fmap), sorted s -> forall k v k',
  assoc k' (ins_list k v s) = (if k' =? k then Some v else assoc k' s) /\
  assoc k' (del_list k s) = (if k' =? k then None else assoc k' s) /\
  sorted (ins_list k v s) /\ sorted (del_list k s) /\ NoDup (List.map fst s).
Proof.
  intros s S k v k'. repeat split.
  - apply assoc_ins_list.
  - apply assoc_del_list, S.
  - apply sorted_ins_list, S.
  - apply sorted_del_list, S.
  - apply sorted_NoDup_keys, S.
Qed.
Print Assumptions fmap_spec_laws.

(* size() = number of live entries = number of nodes, after any history *)
Theorem count_is_cardinal : forall ops,
  let m := m_run ops map_init in
  count m = Z.of_nat (length (elements (root m))) /\
  length (elements (root m)) = size (root m) /\
  NoDup (List.map fst (elements (root m))).
Proof.
  intros ops m. destruct (map_inv_run ops map_init map_inv_init) as (A & B & C).
  repeat split; auto. - symmetry. apply size_elements. - apply sorted_NoDup_keys, B.
Qed.
Print Assumptions count_is_cardinal.

(* height bound: an AVL tree of (stored) height h has at least fib(h+2)-1 nodes, i.e.
   h <= log_phi(n+2) - 1.33 < 1.4405 log2(n+2) *)
Theorem avl_height_fib : forall t, avl t ->
  (fib (Z.to_nat (get_height t) + 2) <= size t + 1)%nat.
Proof. exact avl_height_fib_l. Qed.
Print Assumptions avl_height_fib.

Theorem avl_height_fib_any_history : forall ops,
  let m := m_run ops map_init in
  (fib (Z.to_nat (get_height (root m)) + 2) <= Z.to_nat (count m) + 1)%nat.
Proof.
  intros ops m. destruct (map_inv_run ops map_init map_inv_init) as (A & B & C).
  subst m. rewrite C, Nat2Z.id, <- size_elements. apply avl_height_fib_l, A.
Qed.
Print Assumptions avl_height_fib_any_history.

(* release: the log of any history never frees a block that is not live (no double free, no invalid
   free), the live blocks are exactly the nodes of the tree, and after ~self() nothing is live *)
Theorem map_each_node_freed_once : forall ops,
  (exists live, replay [] (m_run_log ops map_init) = Some live /\
                Permutation live (ids (root (m_run ops map_init)))) /\
  replay [] (m_run_log ops map_init ++ m_dtor_log (m_run ops map_init)) = Some [].
Proof. exact map_log_sound. Qed.
Print Assumptions map_each_node_freed_once.

(* non-vacuity: a concrete history with a double rotation, a two-child removal and rebalancing *)
Example map_example :
  let ops := [MInsert 3 30; MInsert 1 10; MInsert 2 20; MInsert 5 50; MInsert 4 40; MRemove 2; MGet 4 0; MHeight; MSize] in
  m_run_res ops map_init = [RUnit; RUnit; RUnit; RUnit; RUnit; RUnit; RInt 40; RInt 3; RInt 4] /\
  elements (root (m_run ops map_init)) = [(1, 10); (3, 30); (4, 40); (5, 50)].
Proof. vm_compute. split; reflexivity. Qed.

(* ---------------------------------------------------------------- Queue<T> *)

(* Refinement: the pointer-level queue (heap of nodes, front/rear/length) returns, for every history,
   exactly what a FIFO list returns; the heap always represents that list (chain from front, rear =
   last node) and length = number of live elements. *)
Theorem queue_refines_fifo : forall ops,
  q_run_res ops queue_init = qs_run_res ops [] /\
  exists ns, qrep (q_run ops queue_init) ns /\ nvals ns = qs_run ops [] /\
             qlength (q_run ops queue_init) = Z.of_nat (length (qs_run ops [])).
Proof. exact queue_refines_fifo_l. Qed.
Print Assumptions queue_refines_fifo.

Theorem queue_each_node_freed_once : forall ops,
  replay [] (q_run_log ops queue_init ++ q_dtor_log (q_run ops queue_init)) = Some [].
Proof. exact queue_log_sound. Qed.
Print Assumptions queue_each_node_freed_once.

(* ---------------------------------------------------------------- Vector<T> *)

(* Refinement: the doubly linked list with front/back/length (push/pop at both ends, at, find,
   delete_at, sort/smaller/greater, clear) returns, for every history, what the list Spec returns; the
   heap always represents that list in both directions; length = number of live elements. *)
Theorem dlist_refines_list : forall ops,
  v_run_res ops vector_init = vs_run_res ops [] /\
  exists ns, vrep (v_run ops vector_init) ns /\ nvals ns = vs_run ops [] /\
             vlength (v_run ops vector_init) = Z.of_nat (length (vs_run ops [])).
Proof. exact dlist_refines_list_l. Qed.
Print Assumptions dlist_refines_list.

(* the Spec's sort (the same bottom-up merge as the code, on values) yields the sorted permutation *)
Theorem sort_is_sorted_permutation : forall l,
  (Sorted (fun x y => x <= y) (s_sort z_le l) /\ Permutation (s_sort z_le l) l) /\
  (Sorted (fun x y => x >= y) (s_sort z_ge l) /\ Permutation (s_sort z_ge l) l).
Proof. intros. split; [apply s_sort_le_sorted_perm|apply s_sort_ge_sorted_perm]. Qed.
Print Assumptions sort_is_sorted_permutation.

(* one sort step at pointer level: same nodes, relinked; values = sorted values *)
Theorem vector_sort_relinks_same_nodes : forall s ns, vrep s ns ->
  exists ns', vrep (v_sort s z_le) ns' /\ nvals ns' = s_sort z_le (nvals ns) /\
              Permutation (nids ns') (nids ns).
Proof. intros. apply vrep_sort; [exact z_le_total|assumption]. Qed.
Print Assumptions vector_sort_relinks_same_nodes.

Theorem vector_each_node_freed_once : forall ops,
  replay [] (v_run_log ops vector_init ++ v_dtor_log (v_run ops vector_init)) = Some [].
Proof. exact vector_log_sound. Qed.
Print Assumptions vector_each_node_freed_once.

(* ---------------------------------------------------------------- several containers *)

(* In a program that interleaves operations on several containers (of any kinds), the state and the
   results of container i are those of running the operations addressed to i alone. *)
Theorem containers_independent : forall ops w i c, nth_error w i = Some c ->
  nth_error (w_run ops w) i = Some (c_run (proj_ops i ops) c) /\
  proj_res i (w_run_res ops w) = c_run_res (proj_ops i ops) c.
Proof. exact world_independent. Qed.
Print Assumptions containers_independent.

Example vector_example :
  let ops := [VPushBack 5; VPushFront 4; VPushBack 1; VPushBack 4; VSort; VAt 0; VAt 3; VDeleteAt 1; VFind 5; VGreater; VAt 0; VLength] in
  v_run_res ops vector_init =
  [RUnit; RUnit; RUnit; RUnit; RUnit; RInt 1; RInt 5; RUnit; RInt 2; RUnit; RInt 5; RInt 3].
Proof. vm_compute. reflexivity. Qed.
Example queue_example :
  q_run_res [QPush 7; QPush 8; QPop; QTop; QSize; QPop; QPop; QEmpty] queue_init =
  [RUnit; RUnit; RInt 7; RInt 8; RInt 1; RInt 8; RInt 0; RBool true].
Proof. vm_compute. reflexivity. Qed.
