(* C19 - property theorems only.  Statements are about the Mech models of stdlib/std/map.cb
   (Model.v), queue.cb and vector.cb (LinkedModel.v); proofs are in the lemma files. *)
From Coq Require Import ZArith List Bool Permutation.
From Cb Require Import C19.Model C19.AvlInv C19.AvlRefine C19.Log C19.MapLog.
Import ListNotations.
Local Open Scope Z_scope.

(* ---------------------------------------------------------------- Map<K,V> *)

(* The AVL invariant - stored height = 1 + max of the children's stored heights (hence = real height),
   |balance| <= 1, has_value set - and the BST order (in-order keys strictly increasing) hold in the
   empty map and are preserved by every operation, hence after every history. *)
Theorem avl_inv_preserved : forall ops,
  let m := m_run ops map_init in
  avl (root m) /\ bst (root m) /\ get_height (root m) = Z.of_nat (rheight (root m)).
Proof.
  intros ops m. destruct (map_inv_run ops map_init map_inv_init) as (A & B & _).
  repeat split; auto. apply stored_height_is_real, A.
Qed.
Print Assumptions avl_inv_preserved.

(* one step, any state satisfying the invariant (insert and remove in particular) *)
Theorem avl_inv_step : forall m o, map_inv m -> map_inv (m_step m o).
Proof. exact map_inv_step. Qed.
Print Assumptions avl_inv_step.

(* Refinement: after any history the in-order contents are exactly what the finite-map Spec (sorted
   association list with ordered insertion / deletion) holds, and every result the Mech produced
   (get, contains, try_remove, size, is_empty) is the Spec's; get_tree_height obeys the AVL bound. *)
Theorem avl_refines_fmap : forall ops,
  elements (root (m_run ops map_init)) = fm_run ops [] /\
  fm_all_ok ops [] (m_run_res ops map_init).
Proof. intros. exact (run_refines ops map_init map_inv_init). Qed.
Print Assumptions avl_refines_fmap.

(* the Spec really is a finite map: lookup after insert / remove, keys unique *)
Theorem fmap_spec_laws : forall (s : fmap), sorted s -> forall k v k',
  assoc k' (ins_list k v s) = (if k' =? k then Some v else assoc k' s) /\
  assoc k' (del_list k s) = (if k' =? k then None else assoc k' s) /\
  sorted (ins_list k v s) /\ sorted (del_list k s) /\ NoDup (List.map fst s).
Proof.
  intros s S k v k'. repeat split.
  - apply assoc_ins_list.
  - apply assoc_del_list, S.
  - apply sorted_ins_list, S.
  - apply sorted_del_list, S.
  - apply sorted_NoDup_keys, S.
Qed.
Print Assumptions fmap_spec_laws.

(* size() = number of live entries = number of nodes, after any history *)
Theorem count_is_cardinal : forall ops,
  let m := m_run ops map_init in
  count m = Z.of_nat (length (elements (root m))) /\
  length (elements (root m)) = size (root m) /\
  NoDup (List.map fst (elements (root m))).
Proof.
  intros ops m. destruct (map_inv_run ops map_init map_inv_init) as (A & B & C).
  repeat split; auto. - symmetry. apply size_elements. - apply sorted_NoDup_keys, B.
Qed.
Print Assumptions count_is_cardinal.

(* height bound: an AVL tree of (stored) height h has at least fib(h+2)-1 nodes, i.e.
   h <= log_phi(n+2) - 1.33 < 1.4405 log2(n+2) *)
Theorem avl_height_fib : forall t, avl t ->
  (fib (Z.to_nat (get_height t) + 2) <= size t + 1)%nat.
Proof. exact avl_height_fib_l. Qed.
Print Assumptions avl_height_fib.

Theorem avl_height_fib_any_history : forall ops,
  let m := m_run ops map_init in
  (fib (Z.to_nat (get_height (root m)) + 2) <= Z.to_nat (count m) + 1)%nat.
Proof.
  intros ops m. destruct (map_inv_run ops map_init map_inv_init) as (A & B & C).
  subst m. rewrite C, Nat2Z.id, <- size_elements. apply avl_height_fib_l, A.
Qed.
Print Assumptions avl_height_fib_any_history.

(* release: the log of any history never frees a block that is not live (no double free, no invalid
   free), the live blocks are exactly the nodes of the tree, and after ~self() nothing is live *)
Theorem map_each_node_freed_once : forall ops,
  (exists live, replay [] (m_run_log ops map_init) = Some live /\
                Permutation live (ids (root (m_run ops map_init)))) /\
  replay [] (m_run_log ops map_init ++ m_dtor_log (m_run ops map_init)) = Some [].
Proof. exact map_log_sound. Qed.
Print Assumptions map_each_node_freed_once.

(* non-vacuity: a concrete history with a double rotation, a two-child removal and rebalancing *)
Example map_example :
  let ops := [MInsert 3 30; MInsert 1 10; MInsert 2 20; MInsert 5 50; MInsert 4 40; MRemove 2; MGet 4 0; MHeight; MSize] in
  m_run_res ops map_init = [RUnit; RUnit; RUnit; RUnit; RUnit; RUnit; RInt 40; RInt 3; RInt 4] /\
  elements (root (m_run ops map_init)) = [(1, 10); (3, 30); (4, 40); (5, 50)].
Proof. vm_compute. split; reflexivity. Qed.
