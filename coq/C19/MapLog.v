(* C19 - event log of the Map model: the blocks named in the tree are exactly the live blocks of
   the log; no double free, no free of a block that is not live, nothing leaks after ~self(). *)
From Coq Require Import ZArith List Bool Lia Arith Permutation.
From Cb Require Import C19.Model C19.AvlInv C19.Log.
Import ListNotations.

Lemma perm_mid2 : forall (a : list nat) b x c, Permutation (a ++ b :: x :: c) (x :: a ++ b :: c).
Proof.
  intros. transitivity (a ++ x :: b :: c).
  - apply Permutation_app_head. apply perm_swap.
  - symmetry. apply Permutation_middle.
Qed.

Lemma insert_ids : forall nid key value t,
  (insert_log nid t key = [] /\ ids (insert_to_node nid t key value) = ids t) \/
  (insert_log nid t key = [Malloc nid] /\ Permutation (ids (insert_to_node nid t key value)) (nid :: ids t)).
Proof.
  intros nid key value. induction t as [|l IHl k v hv h r IHr id].
  - right. split; reflexivity.
  - cbn [insert_log insert_to_node]. destruct (key =? k)%Z; [left; split; reflexivity|].
    destruct (key <? k)%Z; rewrite ids_rebalance; cbn [ids].
    + destruct IHl as [(E & I)|(E & P)]; [left|right]; split; auto; [rewrite I; auto|].
      rewrite P. reflexivity.
    + destruct IHr as [(E & I)|(E & P)]; [left|right]; split; auto; [rewrite I; auto|].
      rewrite P. apply perm_mid2.
Qed.

Lemma remove_ids : forall t key,
  (remove_log t key = [] /\ ids (remove_from_node t key) = ids t) \/
  (exists x, remove_log t key = [Free x] /\ Permutation (ids t) (x :: ids (remove_from_node t key))).
Proof.
  induction t as [|l IHl k v hv h r IHr id]; intros key.
  - left. split; reflexivity.
  - cbn [remove_log remove_from_node].
    destruct (key <? k)%Z.
    { rewrite ids_rebalance; cbn [ids].
      destruct (IHl key) as [(E & I)|(x & E & P)]; [left|right].
      - split; auto. rewrite I; auto.
      - exists x. split; auto. rewrite P. reflexivity. }
    destruct (key >? k)%Z.
    { rewrite ids_rebalance; cbn [ids].
      destruct (IHr key) as [(E & I)|(x & E & P)]; [left|right].
      - split; auto. rewrite I; auto.
      - exists x. split; auto. rewrite P. apply perm_mid2. }
    destruct l as [|ll lk lv lhv lh lr lid].
    { right. exists id. split; reflexivity. }
    remember (Node ll lk lv lhv lh lr lid) as l.
    destruct r as [|rl rk rv rhv rh rr rid].
    { right. exists id. split; auto. cbn [ids].
      symmetry. apply Permutation_cons_append. }
    remember (Node rl rk rv rhv rh rr rid) as r.
    destruct (min_node r k v hv) as [[sk sv] shv].
    rewrite ids_rebalance; cbn [ids].
    destruct (IHr sk) as [(E & I)|(x & E & P)]; [left|right].
    + split; auto. rewrite I; auto.
    + exists x. split; auto. rewrite P. apply perm_mid2.
Qed.

Lemma free_all_nodes_replay : forall t live rest, Permutation live (ids t ++ rest) ->
  exists live', replay live (free_all_nodes t) = Some live' /\ Permutation live' rest.
Proof.
  induction t as [|l IHl k v hv h r IHr id]; intros live rest P.
  - exists live. split; auto.
  - cbn [free_all_nodes ids] in *. rewrite <- app_assoc in P. cbn [app] in P.
    destruct (IHl live (id :: ids r ++ rest) P) as (l1 & E1 & P1).
    rewrite replay_app, E1.
    assert (Permutation l1 (ids r ++ id :: rest)) as P1'.
    { rewrite P1. apply Permutation_cons_app. reflexivity. }
    destruct (IHr l1 (id :: rest) P1') as (l2 & E2 & P2).
    rewrite replay_app, E2. apply replay_free, P2.
Qed.

(* invariant tying a Map state to the live set of the log so far *)
Definition log_inv (m : map) (live : list nat) : Prop :=
  Permutation live (ids (root m)) /\ Forall (fun x => x < mnext m)%nat live.

Lemma log_inv_step : forall m o live, log_inv m live ->
  exists live', replay live (m_log m o) = Some live' /\ log_inv (m_step m o) live'.
Proof.
  intros m o live (P & F).
  assert (forall live', Permutation live' (ids (root m)) ->
            Forall (fun x => x < mnext m)%nat live') as Fall.
  { intros. rewrite Forall_forall in *. intros x Hx. apply F.
    eapply Permutation_in; [|exact Hx]. rewrite H. symmetry. exact P. }
  destruct o; cbn [m_log m_step]; try (exists live; split; [reflexivity|split; assumption]).
  - (* insert *)
    unfold m_insert, log_inv. cbn [root mnext].
    destruct (insert_ids (mnext m) k v (root m)) as [(E & I)|(E & Pm)]; rewrite E.
    + exists live. split; [reflexivity|]. rewrite I. split; auto.
      eapply Forall_impl; [|exact F]. cbn. intros; lia.
    + rewrite replay_malloc.
      * eexists. split; [reflexivity|]. split.
        -- rewrite Pm. constructor. exact P.
        -- constructor; [lia|]. eapply Forall_impl; [|exact F]. cbn. intros; lia.
      * intros Hin. rewrite Forall_forall in F. specialize (F _ Hin). lia.
  - (* remove *)
    unfold m_remove. destruct (contains_loop (root m) k).
    2:{ exists live; split; [reflexivity|split; assumption]. }
    unfold log_inv. cbn [root mnext].
    destruct (remove_ids (root m) k) as [(E & I)|(x & E & Pm)]; rewrite E.
    + exists live. split; [reflexivity|]. rewrite I. split; auto.
    + destruct (replay_free x live (ids (remove_from_node (root m) k))) as (l1 & E1 & P1).
      { rewrite P. exact Pm. }
      exists l1. split; auto. split; auto.
      rewrite Forall_forall in *. intros y Hy. apply F.
      eapply Permutation_in; [symmetry; exact P|]. eapply Permutation_in; [symmetry; exact Pm|].
      right. eapply Permutation_in; [exact P1|exact Hy].
  - (* try_remove *)
    unfold m_remove. destruct (contains_loop (root m) k).
    2:{ exists live; split; [reflexivity|split; assumption]. }
    unfold log_inv. cbn [root mnext].
    destruct (remove_ids (root m) k) as [(E & I)|(x & E & Pm)]; rewrite E.
    + exists live. split; [reflexivity|]. rewrite I. split; auto.
    + destruct (replay_free x live (ids (remove_from_node (root m) k))) as (l1 & E1 & P1).
      { rewrite P. exact Pm. }
      exists l1. split; auto. split; auto.
      rewrite Forall_forall in *. intros y Hy. apply F.
      eapply Permutation_in; [symmetry; exact P|]. eapply Permutation_in; [symmetry; exact Pm|].
      right. eapply Permutation_in; [exact P1|exact Hy].
  - (* clear *)
    destruct (free_all_nodes_replay (root m) live []) as (l1 & E1 & P1).
    { rewrite app_nil_r. exact P. }
    exists l1. split; auto. unfold log_inv. cbn [root mnext ids].
    symmetry in P1. apply Permutation_nil in P1. subst l1. split; auto.
Qed.

Lemma log_inv_run : forall ops m live, log_inv m live ->
  exists live', replay live (m_run_log ops m) = Some live' /\ log_inv (m_run ops m) live'.
Proof.
  induction ops as [|o ops IH]; intros m live I; cbn [m_run_log m_run].
  - exists live. split; auto.
  - destruct (log_inv_step m o live I) as (l1 & E1 & I1).
    destruct (IH _ _ I1) as (l2 & E2 & I2).
    exists l2. split; auto. rewrite replay_app, E1. exact E2.
Qed.

Lemma map_log_sound : forall ops,
  (exists live, replay [] (m_run_log ops map_init) = Some live /\
                Permutation live (ids (root (m_run ops map_init)))) /\
  replay [] (m_run_log ops map_init ++ m_dtor_log (m_run ops map_init)) = Some [].
Proof.
  intros ops.
  assert (log_inv map_init []) as I0 by (split; [reflexivity|constructor]).
  destruct (log_inv_run ops map_init [] I0) as (live & E & (P & F)).
  split; [exists live; split; auto|].
  rewrite replay_app, E. unfold m_dtor_log.
  destruct (free_all_nodes_replay (root (m_run ops map_init)) live []) as (l1 & E1 & P1).
  { rewrite app_nil_r. exact P. }
  rewrite E1. symmetry in P1. apply Permutation_nil in P1. subst. reflexivity.
Qed.
