(* C09 - proofs about the pointer / reference machine (ConstPtr.v): under a policy that makes every
   test, the pointer discipline is an invariant, protected slots keep their value for every script,
   const pointers keep their target, and the address of a protected object is only given to
   pointers to const. *)
From Coq Require Import List ZArith Bool Arith Lia.
From Cb Require Import C09.ConstPtr.
Import ListNotations.
Local Open Scope Z_scope.

Definition all_checked (pol : policy) : Prop := forall st, chk pol st = true.
Lemma spec_all_checked : all_checked spec. Proof. intros st. reflexivity. Qed.

(* a pointer that permits writes never points at something protected *)
Definition Inv (s : state) : Prop :=
  forall p pt t, nth_error (ptrs s) p = Some pt -> ppc pt = false -> ptgt pt = Some t -> tgt_prot s t = false.

Lemma inv_b_sound s : inv_b s = true -> Inv s.
Proof.
  unfold inv_b, Inv. intros H p pt t Hp Hc Ht. rewrite forallb_forall in H.
  specialize (H pt (nth_error_In _ _ Hp)). unfold ptr_ok in H. rewrite Hc, Ht in H. cbn in H.
  destruct (tgt_prot s t); [discriminate|reflexivity].
Qed.

(* ------------------------------------------------------------------ list updates *)
Lemma upd_nth_length {A} n (f : A -> A) l : length (upd_nth n f l) = length l.
Proof. revert n; induction l as [|x r IH]; intros [|n]; cbn; auto. Qed.
Lemma nth_error_upd_same {A} n (f : A -> A) l : nth_error (upd_nth n f l) n = option_map f (nth_error l n).
Proof. revert n; induction l as [|x r IH]; intros [|n]; cbn; auto. Qed.
Lemma nth_error_upd_other {A} n m (f : A -> A) l : n <> m -> nth_error (upd_nth n f l) m = nth_error l m.
Proof. revert n m; induction l as [|x r IH]; intros [|n] [|m] H; cbn; auto; congruence. Qed.
Lemma map_upd_nth {A B} (g : A -> B) (f : A -> A) n l : (forall a, g (f a) = g a) -> map g (upd_nth n f l) = map g l.
Proof. intros H. revert n; induction l as [|x r IH]; intros [|n]; cbn; auto; congruence. Qed.
Lemma nth_error_map' {A B} (g : A -> B) l n : nth_error (map g l) n = option_map g (nth_error l n).
Proof. revert n; induction l as [|x r IH]; intros [|n]; cbn; auto. Qed.
Lemma nth_error_snoc {A} (l : list A) a p x : nth_error (l ++ [a]) p = Some x -> nth_error l p = Some x \/ x = a.
Proof.
  intros H. destruct (Nat.lt_ge_cases p (length l)) as [Hl|Hl].
  - rewrite nth_error_app1 in H by exact Hl. auto.
  - rewrite nth_error_app2 in H by exact Hl. destruct (p - length l)%nat as [|[|k]]; cbn in H; try discriminate.
    injection H as <-. auto.
Qed.

(* ------------------------------------------------------------------ what never changes: the signature *)
Definition osig (ob : obj) := (oshape ob, oconst ob, omconst ob, length (ovals ob)).
Definition sig (s : state) := map osig (objs s).

Lemma sig_write s o k v : sig (write_slot s o k v) = sig s.
Proof.
  unfold sig, write_slot; cbn. apply map_upd_nth. intros a. unfold osig, set_vals; cbn.
  rewrite upd_nth_length. reflexivity.
Qed.
Lemma sig_store pol st s o k v : sig (store pol st s o k v) = sig s.
Proof. unfold store. destruct (eff pol st); [apply sig_write|reflexivity]. Qed.

Lemma sig_nth s s' o ob : sig s' = sig s -> nth_error (objs s) o = Some ob ->
  exists ob', nth_error (objs s') o = Some ob' /\ osig ob' = osig ob.
Proof.
  intros H Ho. assert (E : nth_error (sig s') o = nth_error (sig s) o) by (rewrite H; reflexivity).
  unfold sig in E. rewrite !nth_error_map', Ho in E. destruct (nth_error (objs s') o) as [ob'|]; cbn in E; [|discriminate].
  exists ob'. split; congruence.
Qed.
Lemma slot_prot_sig a b k : osig a = osig b -> slot_prot a k = slot_prot b k.
Proof. unfold osig, slot_prot. intros [= _ -> -> _]. reflexivity. Qed.
Lemma tgt_prot_sig s s' t : sig s' = sig s -> tgt_prot s' t = tgt_prot s t.
Proof.
  intros H. assert (E : forall o, option_map osig (nth_error (objs s') o) = option_map osig (nth_error (objs s) o)).
  { intros o. rewrite <- !nth_error_map'. fold (sig s') (sig s). rewrite H. reflexivity. }
  destruct t as [o|o k]; cbn; specialize (E o);
    destruct (nth_error (objs s') o) as [a|], (nth_error (objs s) o) as [b|]; cbn in E; try discriminate; auto.
  - unfold osig in E. congruence.
  - apply slot_prot_sig. congruence.
Qed.

Lemma Inv_transfer s s' : sig s' = sig s -> ptrs s' = ptrs s -> Inv s -> Inv s'.
Proof.
  intros Hs Hp H p pt t Hn Hc Ht. rewrite Hp in Hn. rewrite (tgt_prot_sig _ _ _ Hs). eapply H; eauto.
Qed.

Lemma no_cmember_nth ob k : has_cmember ob = false -> nth k (omconst ob) false = false.
Proof.
  unfold has_cmember. generalize (omconst ob). intros l; revert k; induction l as [|b r IH]; intros [|k]; cbn; auto.
  - intros H. apply orb_false_iff in H. tauto.
  - intros H. apply orb_false_iff in H. apply IH. tauto.
Qed.

(* ------------------------------------------------------------------ one step *)
Lemma step_sig pol s x s' : step pol s x = Ok s' -> sig s' = sig s.
Proof.
  destruct x as [f o k u|o vs|pc cc [src|]|p src|f p m u|param rc o k u|src u|f p d]; cbn [step].
  - destruct (nth_error (objs s) o) as [ob|]; [|discriminate]. destruct (nth_error (ovals ob) k); [|discriminate].
    destruct (_ && _); [discriminate|]. intros [= <-]. apply sig_store.
  - destruct (nth_error (objs s) o) as [ob|] eqn:Eo; [|discriminate].
    destruct (Nat.eqb (length vs) (length (ovals ob))) eqn:El; cbn [negb]; [|discriminate].
    destruct (_ && _); [discriminate|]. destruct (_ && _); [discriminate|]. intros [= <-].
    unfold sig; cbn. apply Nat.eqb_eq in El.
    clear -El Eo. revert o Eo. generalize (objs s). intros l; induction l as [|a r IH]; intros [|o]; cbn; auto.
    + intros [= ->]. unfold osig, set_vals; cbn. rewrite El. reflexivity.
    + intros H. rewrite (IH o H). reflexivity.
  - destruct (src_target s src); [|discriminate]. destruct (acq_check _ _ _ _ _); [discriminate|]. intros [= <-]. reflexivity.
  - intros [= <-]. reflexivity.
  - destruct (nth_error (ptrs s) p) as [pt|]; [|discriminate]. destruct (src_target s src); [|discriminate].
    destruct (_ && _); [discriminate|]. destruct (acq_check _ _ _ _ _); [discriminate|]. intros [= <-]. reflexivity.
  - destruct (nth_error (ptrs s) p) as [pt|]; [|discriminate].
    destruct (store_slot _ _ _) as [[o k']|]; [|discriminate].
    destruct (nth_error (objs s) o) as [ob|]; [|discriminate]. destruct (nth_error (ovals ob) k'); [|discriminate].
    destruct (_ && _); [discriminate|]. destruct (_ && _); [discriminate|]. intros [= <-]. apply sig_store.
  - destruct (nth_error (objs s) o) as [ob|]; [|discriminate]. destruct (nth_error (ovals ob) k); [|discriminate].
    destruct (_ && _); [discriminate|]. destruct (_ && _); [discriminate|]. intros [= <-]. apply sig_write.
  - destruct (src_target s src) as [[[o|o k]|]|]; try discriminate.
    destruct (read_slot s o k); [|discriminate]. destruct (acq_check _ _ _ _ _); [discriminate|]. intros [= <-]. apply sig_write.
  - destruct (nth_error (ptrs s) p) as [pt|]; [|discriminate]. destruct (ptgt pt) as [[o|o k]|]; try discriminate.
    destruct (nth_error (objs s) o) as [ob|]; [|discriminate]. destruct (oshape ob); try discriminate.
    destruct (_ || _); [discriminate|]. destruct (_ && _); [discriminate|]. intros [= <-]. reflexivity.
Qed.

Lemma acq_ok pol s md pc src : all_checked pol -> acq_check pol s md pc src = None -> pc = false -> src_const s src = false.
Proof.
  intros Ha. unfold acq_check. rewrite Ha. intros H ->. cbn in H. destruct (src_const s src); [discriminate|reflexivity].
Qed.

Lemma src_target_unprot s src tg t : Inv s -> src_target s src = Some tg -> src_const s src = false -> tg = Some t -> tgt_prot s t = false.
Proof.
  intros HI. destruct src as [t0|q]; cbn.
  - destruct (valid_tgt s t0); [|discriminate]. intros [= <-] H [= <-]. exact H.
  - destruct (nth_error (ptrs s) q) as [pq|] eqn:Eq; [|discriminate]. intros [= <-] Hc Ht. eapply HI; eauto.
Qed.

Lemma step_inv pol s x s' : all_checked pol -> Inv s -> step pol s x = Ok s' -> Inv s'.
Proof.
  intros Ha HI Hs. assert (Hsig := step_sig _ _ _ _ Hs).
  destruct x as [f o k u|o vs|pc cc [src|]|p src|f p m u|param rc o k u|src u|f p d]; cbn [step] in Hs.
  - apply (Inv_transfer s); auto.
    destruct (nth_error (objs s) o) as [ob|]; [|discriminate]. destruct (nth_error (ovals ob) k); [|discriminate].
    destruct (_ && _); [discriminate|]. injection Hs as <-. unfold store. destruct (eff _ _); reflexivity.
  - apply (Inv_transfer s); auto.
    destruct (nth_error (objs s) o) as [ob|]; [|discriminate]. destruct (negb _); [discriminate|].
    destruct (_ && _); [discriminate|]. destruct (_ && _); [discriminate|]. injection Hs as <-. reflexivity.
  - destruct (src_target s src) as [tg|] eqn:Et; [|discriminate].
    destruct (acq_check pol s ADecl pc src) eqn:Ea; [discriminate|]. injection Hs as <-.
    intros p pt t Hn Hc Ht. cbn [ptrs] in Hn. rewrite (tgt_prot_sig _ _ _ Hsig).
    apply nth_error_snoc in Hn as [Hn| ->]; [eapply HI; eauto|]. cbn in Hc, Ht. subst pc.
    eapply src_target_unprot; eauto. eapply acq_ok; eauto.
  - injection Hs as <-. intros p pt t Hn Hc Ht. cbn [ptrs] in Hn. rewrite (tgt_prot_sig _ _ _ Hsig).
    apply nth_error_snoc in Hn as [Hn| ->]; [eapply HI; eauto|]. cbn in Ht. discriminate.
  - destruct (nth_error (ptrs s) p) as [pt0|] eqn:Ep; [|discriminate]. destruct (src_target s src) as [tg|] eqn:Et; [|discriminate].
    destruct (_ && _); [discriminate|]. destruct (acq_check pol s AAssign (ppc pt0) src) eqn:Ea; [discriminate|]. injection Hs as <-.
    intros q pt t Hn Hc Ht. cbn [ptrs] in Hn. rewrite (tgt_prot_sig _ _ _ Hsig).
    destruct (Nat.eq_dec p q) as [<-|Hne].
    + rewrite nth_error_upd_same, Ep in Hn. cbn in Hn. injection Hn as <-. cbn in Hc, Ht.
      eapply src_target_unprot; eauto. eapply acq_ok; eauto.
    + rewrite nth_error_upd_other in Hn by exact Hne. eapply HI; eauto.
  - apply (Inv_transfer s); auto.
    destruct (nth_error (ptrs s) p) as [pt|]; [|discriminate].
    destruct (store_slot _ _ _) as [[o k']|]; [|discriminate].
    destruct (nth_error (objs s) o) as [ob|]; [|discriminate]. destruct (nth_error (ovals ob) k'); [|discriminate].
    destruct (_ && _); [discriminate|]. destruct (_ && _); [discriminate|]. injection Hs as <-.
    unfold store. destruct (eff _ _); reflexivity.
  - apply (Inv_transfer s); auto.
    destruct (nth_error (objs s) o) as [ob|]; [|discriminate]. destruct (nth_error (ovals ob) k); [|discriminate].
    destruct (_ && _); [discriminate|]. destruct (_ && _); [discriminate|]. injection Hs as <-. reflexivity.
  - apply (Inv_transfer s); auto.
    destruct (src_target s src) as [[[o|o k]|]|]; try discriminate.
    destruct (read_slot s o k); [|discriminate]. destruct (acq_check _ _ _ _ _); [discriminate|]. injection Hs as <-. reflexivity.
  - destruct (nth_error (ptrs s) p) as [pt0|] eqn:Ep; [|discriminate]. destruct (ptgt pt0) as [[o|o k]|] eqn:Et0; try discriminate.
    destruct (nth_error (objs s) o) as [ob|] eqn:Eo; [|discriminate]. destruct (oshape ob); try discriminate.
    destruct (has_cmember ob) eqn:Ecm; [discriminate|]. cbn [orb] in Hs.
    destruct (negb _); [discriminate|]. destruct (_ && _); [discriminate|]. injection Hs as <-.
    intros q pt t Hn Hc Ht. cbn [ptrs] in Hn. rewrite (tgt_prot_sig _ _ _ Hsig).
    destruct (Nat.eq_dec p q) as [<-|Hne].
    + rewrite nth_error_upd_same, Ep in Hn. cbn in Hn. injection Hn as <-. cbn in Hc, Ht. injection Ht as <-.
      assert (H0 := HI p pt0 (TSlot o k) Ep Hc Et0). cbn in H0 |- *. rewrite Eo in *. unfold slot_prot in *.
      apply orb_false_iff in H0 as [-> _]. cbn. apply no_cmember_nth. exact Ecm.
    + rewrite nth_error_upd_other in Hn by exact Hne. eapply HI; eauto.
Qed.

Lemma read_write_other s o k v o' k' : (o, k) <> (o', k') -> read_slot (write_slot s o k v) o' k' = read_slot s o' k'.
Proof.
  intros Hne. unfold read_slot, write_slot; cbn. destruct (Nat.eq_dec o o') as [<-|Ho].
  - rewrite nth_error_upd_same. destruct (nth_error (objs s) o) as [ob|]; cbn; [|reflexivity].
    apply nth_error_upd_other. congruence.
  - rewrite nth_error_upd_other by exact Ho. reflexivity.
Qed.

(* a write to an unprotected slot does not touch a protected one *)
Lemma write_keeps s o k v ob o' k' ob' :
  nth_error (objs s) o = Some ob -> slot_prot ob k = false ->
  nth_error (objs s) o' = Some ob' -> slot_prot ob' k' = true ->
  read_slot (write_slot s o k v) o' k' = read_slot s o' k'.
Proof. intros Ho Hp Ho' Hp'. apply read_write_other. intros [= -> ->]. congruence. Qed.
Lemma store_keeps pol st s o k v ob o' k' ob' :
  nth_error (objs s) o = Some ob -> slot_prot ob k = false ->
  nth_error (objs s) o' = Some ob' -> slot_prot ob' k' = true ->
  read_slot (store pol st s o k v) o' k' = read_slot s o' k'.
Proof. intros. unfold store. destruct (eff pol st); [eapply write_keeps; eauto|reflexivity]. Qed.

Lemma step_prot pol s x s' o' k' ob' : all_checked pol -> Inv s -> step pol s x = Ok s' ->
  nth_error (objs s) o' = Some ob' -> slot_prot ob' k' = true -> read_slot s' o' k' = read_slot s o' k'.
Proof.
  intros Ha HI Hs Ho' Hp'.
  destruct x as [f o k u|o vs|pc cc [src|]|p src|f p m u|param rc o k u|src u|f p d]; cbn [step] in Hs.
  - destruct (nth_error (objs s) o) as [ob|] eqn:Eo; [|discriminate]. destruct (nth_error (ovals ob) k); [|discriminate].
    rewrite Ha in Hs. cbn [andb] in Hs. destruct (slot_prot ob k) eqn:Ep; [discriminate|]. injection Hs as <-.
    eapply store_keeps; eauto.
  - destruct (nth_error (objs s) o) as [ob|] eqn:Eo; [|discriminate]. destruct (negb _); [discriminate|].
    rewrite !Ha in Hs. cbn [andb] in Hs. destruct (oconst ob) eqn:Ec; [discriminate|].
    destruct (has_cmember ob) eqn:Ecm; [discriminate|]. injection Hs as <-.
    unfold read_slot; cbn. destruct (Nat.eq_dec o o') as [<-|Hne].
    + exfalso. rewrite Eo in Ho'. injection Ho' as <-. unfold slot_prot in Hp'. rewrite Ec, no_cmember_nth in Hp' by exact Ecm. discriminate.
    + rewrite nth_error_upd_other by exact Hne. reflexivity.
  - destruct (src_target s src); [|discriminate]. destruct (acq_check _ _ _ _ _); [discriminate|]. injection Hs as <-. reflexivity.
  - injection Hs as <-. reflexivity.
  - destruct (nth_error (ptrs s) p) as [pt|]; [|discriminate]. destruct (src_target s src); [|discriminate].
    destruct (_ && _); [discriminate|]. destruct (acq_check _ _ _ _ _); [discriminate|]. injection Hs as <-. reflexivity.
  - destruct (nth_error (ptrs s) p) as [pt|] eqn:Ep; [|discriminate].
    destruct (store_slot (ptgt pt) (pform_member f) m) as [[o k2]|] eqn:Ess; [|discriminate].
    destruct (nth_error (objs s) o) as [ob|] eqn:Eo; [|discriminate]. destruct (nth_error (ovals ob) k2); [|discriminate].
    rewrite !Ha in Hs. cbn [andb] in Hs. destruct (ppc pt) eqn:Epc; [discriminate|].
    assert (Hun : slot_prot ob k2 = false).
    { unfold store_slot in Ess. destruct (ptgt pt) as [[o0|o0 k0]|] eqn:Et; try discriminate; destruct (pform_member f) eqn:Em; try discriminate;
        injection Ess as <- <-.
      - assert (H0 := HI p pt (TObj o0) Ep Epc Et). cbn in H0. rewrite Eo in H0. unfold slot_prot. rewrite H0. cbn.
        rewrite andb_true_r in Hs. cbn in Hs. destruct (nth m (omconst ob) false); [discriminate|reflexivity].
      - assert (H0 := HI p pt (TSlot o0 k0) Ep Epc Et). cbn in H0. rewrite Eo in H0. exact H0. }
    destruct (_ && _); [discriminate|]. injection Hs as <-. eapply store_keeps; eauto.
  - destruct (nth_error (objs s) o) as [ob|] eqn:Eo; [|discriminate]. destruct (nth_error (ovals ob) k); [|discriminate].
    rewrite !Ha in Hs. cbn [andb] in Hs. destruct rc; cbn [negb andb] in Hs.
    + rewrite andb_false_r in Hs. discriminate.
    + rewrite andb_true_r in Hs. destruct (slot_prot ob k) eqn:Ep; [discriminate|]. injection Hs as <-. eapply write_keeps; eauto.
  - destruct (src_target s src) as [[[o|o k]|]|] eqn:Et; try discriminate.
    destruct (read_slot s o k) eqn:Er; [|discriminate]. destruct (acq_check pol s AArg false src) eqn:Ea; [discriminate|]. injection Hs as <-.
    assert (Hun : tgt_prot s (TSlot o k) = false).
    { eapply src_target_unprot; eauto. eapply acq_ok; eauto. }
    cbn in Hun. unfold read_slot in Er. destruct (nth_error (objs s) o) as [ob|] eqn:Eo; [|discriminate]. eapply write_keeps; eauto.
  - destruct (nth_error (ptrs s) p) as [pt|]; [|discriminate]. destruct (ptgt pt) as [[o|o k]|]; try discriminate.
    destruct (nth_error (objs s) o) as [ob|]; [|discriminate]. destruct (oshape ob); try discriminate.
    destruct (_ || _); [discriminate|]. destruct (_ && _); [discriminate|]. injection Hs as <-. reflexivity.
Qed.

(* a const pointer is the same pointer after any accepted step *)
Lemma step_cptr pol s x s' p pt : all_checked pol -> step pol s x = Ok s' ->
  nth_error (ptrs s) p = Some pt -> pcc pt = true -> nth_error (ptrs s') p = Some pt.
Proof.
  intros Ha Hs Hp Hc.
  destruct x as [f o k u|o vs|pc cc [src|]|q src|f q m u|param rc o k u|src u|f q d]; cbn [step] in Hs.
  - destruct (nth_error (objs s) o) as [ob|]; [|discriminate]. destruct (nth_error (ovals ob) k); [|discriminate].
    destruct (_ && _); [discriminate|]. injection Hs as <-. unfold store. destruct (eff _ _); exact Hp.
  - destruct (nth_error (objs s) o) as [ob|]; [|discriminate]. destruct (negb _); [discriminate|].
    destruct (_ && _); [discriminate|]. destruct (_ && _); [discriminate|]. injection Hs as <-. exact Hp.
  - destruct (src_target s src); [|discriminate]. destruct (acq_check _ _ _ _ _); [discriminate|]. injection Hs as <-.
    cbn. rewrite nth_error_app1; [exact Hp|]. apply nth_error_Some. congruence.
  - injection Hs as <-. cbn. rewrite nth_error_app1; [exact Hp|]. apply nth_error_Some. congruence.
  - destruct (nth_error (ptrs s) q) as [pt0|] eqn:Eq; [|discriminate]. destruct (src_target s src); [|discriminate].
    rewrite Ha in Hs. cbn [andb] in Hs. destruct (pcc pt0) eqn:E0; [discriminate|].
    destruct (acq_check _ _ _ _ _); [discriminate|]. injection Hs as <-. cbn.
    rewrite nth_error_upd_other; [exact Hp|]. intros ->. congruence.
  - destruct (nth_error (ptrs s) q) as [pt0|]; [|discriminate].
    destruct (store_slot _ _ _) as [[o k']|]; [|discriminate].
    destruct (nth_error (objs s) o) as [ob|]; [|discriminate]. destruct (nth_error (ovals ob) k'); [|discriminate].
    destruct (_ && _); [discriminate|]. destruct (_ && _); [discriminate|]. injection Hs as <-. unfold store. destruct (eff _ _); exact Hp.
  - destruct (nth_error (objs s) o) as [ob|]; [|discriminate]. destruct (nth_error (ovals ob) k); [|discriminate].
    destruct (_ && _); [discriminate|]. destruct (_ && _); [discriminate|]. injection Hs as <-. exact Hp.
  - destruct (src_target s src) as [[[o|o k]|]|]; try discriminate.
    destruct (read_slot s o k); [|discriminate]. destruct (acq_check _ _ _ _ _); [discriminate|]. injection Hs as <-. exact Hp.
  - destruct (nth_error (ptrs s) q) as [pt0|] eqn:Eq; [|discriminate]. destruct (ptgt pt0) as [[o|o k]|]; try discriminate.
    destruct (nth_error (objs s) o) as [ob|]; [|discriminate]. destruct (oshape ob); try discriminate.
    destruct (_ || _); [discriminate|]. rewrite Ha in Hs. cbn [andb] in Hs. destruct (pcc pt0) eqn:E0; [discriminate|].
    injection Hs as <-. cbn. rewrite nth_error_upd_other; [exact Hp|]. intros ->. congruence.
Qed.

(* ------------------------------------------------------------------ whole scripts *)
Lemma const_slots_immutable_l pol : all_checked pol -> forall ops i s o k ob,
  Inv s -> nth_error (objs s) o = Some ob -> slot_prot ob k = true ->
  read_slot (fst (run_from pol i s ops)) o k = read_slot s o k.
Proof.
  intros Ha. induction ops as [|x r IH]; intros i s o k ob HI Ho Hp; cbn [run_from]; [reflexivity|].
  destruct (step pol s x) as [s'| |] eqn:Es; [|reflexivity|reflexivity].
  destruct (sig_nth s s' o ob (step_sig _ _ _ _ Es) Ho) as (ob' & Ho' & Hsg).
  rewrite (IH (S i) s' o k ob'); [eapply step_prot; eauto|eapply step_inv; eauto|exact Ho'|].
  rewrite (slot_prot_sig _ _ _ Hsg). exact Hp.
Qed.

Lemma run_inv_l pol : all_checked pol -> forall ops i s, Inv s -> Inv (fst (run_from pol i s ops)).
Proof.
  intros Ha. induction ops as [|x r IH]; intros i s HI; cbn [run_from]; [exact HI|].
  destruct (step pol s x) as [s'| |] eqn:Es; [|exact HI|exact HI]. apply IH. eapply step_inv; eauto.
Qed.

Lemma const_ptr_not_reseated_l pol : all_checked pol -> forall ops i s p pt,
  nth_error (ptrs s) p = Some pt -> pcc pt = true -> nth_error (ptrs (fst (run_from pol i s ops))) p = Some pt.
Proof.
  intros Ha. induction ops as [|x r IH]; intros i s p pt Hp Hc; cbn [run_from]; [exact Hp|].
  destruct (step pol s x) as [s'| |] eqn:Es; [|exact Hp|exact Hp]. apply IH; [|exact Hc]. eapply step_cptr; eauto.
Qed.

(* ------------------------------------------------------------------ the individual rules *)
Lemma addr_of_const_needs_const_ptr_l pol s t : all_checked pol -> valid_tgt s t = true -> tgt_prot s t = true ->
  (forall cc, exists st, step pol s (OPtrNew false cc (Some (PAddr t))) = Rejected st) /\
  (forall p pt, nth_error (ptrs s) p = Some pt -> ppc pt = false -> exists st, step pol s (OPtrSet p (PAddr t)) = Rejected st) /\
  (forall u, step pol s (OPtrCall (PAddr t) u) = Stuck \/ exists st, step pol s (OPtrCall (PAddr t) u) = Rejected st) /\
  (forall cc, exists s', step pol s (OPtrNew true cc (Some (PAddr t))) = Ok s').
Proof.
  intros Ha Hv Hp. repeat split.
  - intros cc. cbn [step src_target]. rewrite Hv. unfold acq_check. rewrite Ha. cbn [src_const]. rewrite Hp. cbn. eauto.
  - intros p pt Hn Hc. cbn [step src_target]. rewrite Hn, Hv. rewrite Ha. cbn [andb].
    destruct (pcc pt); [eauto|]. unfold acq_check. rewrite Ha, Hc. cbn [src_const]. rewrite Hp. cbn. eauto.
  - intros u. cbn [step src_target]. rewrite Hv. destruct t as [o|o k]; [left; reflexivity|].
    destruct (read_slot s o k); [|left; reflexivity]. right. unfold acq_check. rewrite Ha. cbn [src_const]. rewrite Hp. cbn. eauto.
  - intros cc. cbn [step src_target]. rewrite Hv. unfold acq_check. cbn [negb]. rewrite andb_false_r. eauto.
Qed.

Lemma ptc_no_write_l pol s p pt : all_checked pol -> nth_error (ptrs s) p = Some pt -> ppc pt = true ->
  (forall f m u, step pol s (OPtrStore f p m u) = Stuck \/ exists st, step pol s (OPtrStore f p m u) = Rejected st) /\
  (forall cc, exists st, step pol s (OPtrNew false cc (Some (PCopy p))) = Rejected st) /\
  (forall u, step pol s (OPtrCall (PCopy p) u) = Stuck \/ exists st, step pol s (OPtrCall (PCopy p) u) = Rejected st).
Proof.
  intros Ha Hn Hc. repeat split.
  - intros f m u. cbn [step]. rewrite Hn. destruct (store_slot _ _ _) as [[o k']|]; [|auto].
    destruct (nth_error (objs s) o) as [ob|]; [|auto]. destruct (nth_error (ovals ob) k'); [|auto].
    rewrite Ha, Hc. cbn. eauto.
  - intros cc. cbn [step src_target]. rewrite Hn. unfold acq_check. rewrite Ha. cbn [src_const]. rewrite Hn, Hc. cbn. eauto.
  - intros u. cbn [step src_target]. rewrite Hn. destruct (ptgt pt) as [[o|o k]|]; auto.
    destruct (read_slot s o k); [|auto]. right. unfold acq_check. rewrite Ha. cbn [src_const]. rewrite Hn, Hc. cbn. eauto.
Qed.

(* every direct mutation form of a protected slot *)
Lemma direct_mutation_rejected_l pol s o k ob : all_checked pol ->
  nth_error (objs s) o = Some ob -> slot_prot ob k = true -> (k < length (ovals ob))%nat ->
  (forall f u, exists st, step pol s (ODirect f o k u) = Rejected st) /\
  (forall param rc u, exists st, step pol s (ORef param rc o k u) = Rejected st) /\
  (oconst ob = true -> forall vs, step pol s (OWhole o vs) = Stuck \/ step pol s (OWhole o vs) = Rejected SWholeConst).
Proof.
  intros Ha Ho Hp Hk. apply nth_error_Some in Hk. destruct (nth_error (ovals ob) k) as [old|] eqn:Ek; [|congruence]. repeat split.
  - intros f u. cbn [step]. rewrite Ho, Ek, Ha, Hp. cbn. eauto.
  - intros param rc u. cbn [step]. rewrite Ho, Ek, !Ha, Hp. cbn. destruct rc; cbn; eauto.
  - intros Hc vs. cbn [step]. rewrite Ho. destruct (negb _); [auto|]. rewrite Ha, Hc. cbn. auto.
Qed.
