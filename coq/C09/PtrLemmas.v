(* C09 - proofs about the pointer / reference machine (ConstPtr.v): under a policy that makes every
   test, the pointer discipline is an invariant, protected slots keep their value for every script,
   const pointers keep their target, and the address of a protected object is only given to
   pointers to const. *)
From Coq Require Import List ZArith Bool Arith Lia.
From Cb Require Import C09.ConstPtr.
Import ListNotations.
Local Open Scope Z_scope.

Definition all_checked (pol : policy) : Prop := forall st, chk pol st = true.
Lemma spec_all_checked : all_checked spec. Proof. intros st. reflexivity. Qed.

(* a handle that permits writes (declared non-const) was not derived from anything const (pointers, references) and,
   when nothing up its chain is const, does not point at something protected *)
Definition Inv (s : state) : Prop :=
  forall p pt, nth_error (ptrs s) p = Some pt -> ppc pt = false ->
    (is_alias pt = false -> pp1 pt = false /\ ppd pt = false) /\
    (pp1 pt = false -> ppd pt = false -> forall t, ptgt pt = Some t -> tgt_prot s t = false).

Lemma inv_b_sound s : inv_b s = true -> Inv s.
Proof.
  unfold inv_b, Inv. intros H p pt Hp Hc. rewrite forallb_forall in H.
  specialize (H pt (nth_error_In _ _ Hp)). unfold ptr_ok, unprot in H. rewrite Hc in H. cbn [orb] in H.
  destruct (is_alias pt); split.
  - discriminate.
  - intros H1 H2 t Ht. rewrite H1, H2, Ht in H. cbn in H. destruct (tgt_prot s t); [discriminate|reflexivity].
  - intros _. apply andb_true_iff in H as [H _]. destruct (pp1 pt), (ppd pt); try discriminate; auto.
  - intros _ _ t Ht. apply andb_true_iff in H as [_ H]. rewrite Ht in H. destruct (tgt_prot s t); [discriminate|reflexivity].
Qed.

Lemma Inv_writable s p pt : Inv s -> nth_error (ptrs s) p = Some pt -> ppc pt = false -> is_alias pt = false ->
  hconst pt = false /\ forall t, ptgt pt = Some t -> tgt_prot s t = false.
Proof.
  intros HI Hp Hc Ha. destruct (HI p pt Hp Hc) as [H1 H2]. destruct (H1 Ha) as [E1 E2].
  split; [unfold hconst; rewrite Hc, E1, E2; reflexivity|auto].
Qed.
Lemma is_ptr_not_alias pt : is_ptr pt = true -> is_alias pt = false.
Proof. unfold is_ptr, is_alias. destruct (pkind pt); congruence. Qed.

(* ------------------------------------------------------------------ list updates *)
Lemma upd_nth_length {A} n (f : A -> A) l : length (upd_nth n f l) = length l.
Proof. revert n; induction l as [|x r IH]; intros [|n]; cbn; auto. Qed.
Lemma nth_error_upd_same {A} n (f : A -> A) l : nth_error (upd_nth n f l) n = option_map f (nth_error l n).
Proof. revert n; induction l as [|x r IH]; intros [|n]; cbn; auto. Qed.
Lemma nth_error_upd_other {A} n m (f : A -> A) l : n <> m -> nth_error (upd_nth n f l) m = nth_error l m.
Proof. revert n m; induction l as [|x r IH]; intros [|n] [|m] H; cbn; auto; congruence. Qed.
Lemma map_upd_nth {A B} (g : A -> B) (f : A -> A) n l : (forall a, g (f a) = g a) -> map g (upd_nth n f l) = map g l.
Proof. intros H. revert n; induction l as [|x r IH]; intros [|n]; cbn; auto; congruence. Qed.
Lemma nth_error_map' {A B} (g : A -> B) l n : nth_error (map g l) n = option_map g (nth_error l n).
Proof. revert n; induction l as [|x r IH]; intros [|n]; cbn; auto. Qed.
Lemma nth_error_snoc {A} (l : list A) a p x : nth_error (l ++ [a]) p = Some x -> nth_error l p = Some x \/ x = a.
Proof.
  intros H. destruct (Nat.lt_ge_cases p (length l)) as [Hl|Hl].
  - rewrite nth_error_app1 in H by exact Hl. auto.
  - rewrite nth_error_app2 in H by exact Hl. destruct (p - length l)%nat as [|[|k]]; cbn in H; try discriminate.
    injection H as <-. auto.
Qed.

(* ------------------------------------------------------------------ what never changes: the signature *)
Definition osig (ob : obj) := (oshape ob, oconst ob, omconst ob, length (ovals ob)).
Definition sig (s : state) := map osig (objs s).

Lemma sig_write s o k v : sig (write_slot s o k v) = sig s.
Proof.
  unfold sig, write_slot; cbn. apply map_upd_nth. intros a. unfold osig, set_vals; cbn.
  rewrite upd_nth_length. reflexivity.
Qed.
Lemma sig_store pol st s o k v : sig (store pol st s o k v) = sig s.
Proof. unfold store. destruct (eff pol st); [apply sig_write|reflexivity]. Qed.

Lemma sig_nth s s' o ob : sig s' = sig s -> nth_error (objs s) o = Some ob ->
  exists ob', nth_error (objs s') o = Some ob' /\ osig ob' = osig ob.
Proof.
  intros H Ho. assert (E : nth_error (sig s') o = nth_error (sig s) o) by (rewrite H; reflexivity).
  unfold sig in E. rewrite !nth_error_map', Ho in E. destruct (nth_error (objs s') o) as [ob'|]; cbn in E; [|discriminate].
  exists ob'. split; congruence.
Qed.
Lemma slot_prot_sig a b k : osig a = osig b -> slot_prot a k = slot_prot b k.
Proof. unfold osig, slot_prot. intros [= _ -> -> _]. reflexivity. Qed.
Lemma tgt_prot_sig s s' t : sig s' = sig s -> tgt_prot s' t = tgt_prot s t.
Proof.
  intros H. assert (E : forall o, option_map osig (nth_error (objs s') o) = option_map osig (nth_error (objs s) o)).
  { intros o. rewrite <- !nth_error_map'. fold (sig s') (sig s). rewrite H. reflexivity. }
  destruct t as [o|o k]; cbn; specialize (E o);
    destruct (nth_error (objs s') o) as [a|], (nth_error (objs s) o) as [b|]; cbn in E; try discriminate; auto.
  - unfold osig in E. congruence.
  - apply slot_prot_sig. congruence.
Qed.

Lemma Inv_transfer s s' : sig s' = sig s -> ptrs s' = ptrs s -> Inv s -> Inv s'.
Proof.
  intros Hs Hp H p pt Hn Hc. rewrite Hp in Hn. destruct (H p pt Hn Hc) as [H1 H2]. split; [exact H1|].
  intros E1 E2 t Ht. rewrite (tgt_prot_sig _ _ _ Hs). eauto.
Qed.

Lemma no_cmember_nth ob k : has_cmember ob = false -> nth k (omconst ob) false = false.
Proof.
  unfold has_cmember. generalize (omconst ob). intros l; revert k; induction l as [|b r IH]; intros [|k]; cbn; auto.
  - intros H. apply orb_false_iff in H. tauto.
  - intros H. apply orb_false_iff in H. apply IH. tauto.
Qed.

Lemma sig_mark b s : sig (mark b s) = sig s. Proof. reflexivity. Qed.
Lemma sig_add s h : sig (add_handle s h) = sig s. Proof. reflexivity. Qed.
Lemma sig_set_ptrs s ps : sig (set_ptrs s ps) = sig s. Proof. reflexivity. Qed.
Lemma sig_whole s o ob vs g : nth_error (objs s) o = Some ob -> Nat.eqb (length vs) (length (ovals ob)) = true ->
  sig {| objs := upd_nth o (set_vals vs) (objs s); ptrs := ptrs s; gbad := g |} = sig s.
Proof.
  intros Eo El. unfold sig; cbn. apply Nat.eqb_eq in El.
  revert o Eo. generalize (objs s). intros l; induction l as [|a r IH]; intros [|o]; cbn; auto.
  - intros [= ->]. unfold osig, set_vals; cbn. rewrite El. reflexivity.
  - intros H. rewrite (IH o H). reflexivity.
Qed.

(* case analysis of one step: destruct every match / if of the hypothesis, drop the refused and stuck branches *)
Ltac des H :=
  repeat match type of H with
         | context [match ?x with _ => _ end] => let E := fresh "E" in destruct x eqn:E; try discriminate H
         | context [if ?x then _ else _] => let E := fresh "E" in destruct x eqn:E; try discriminate H
         end.

(* ------------------------------------------------------------------ one step *)
Lemma step_sig pol s x s' : step pol s x = Ok s' -> sig s' = sig s.
Proof.
  intros Hs. destruct x as [f o k u|o vs|pc cc [src|]|p src|f p m u|param rc o k u|src u|f p d|par rc [o|h]|f h m u|h vs|pc src|h];
    cbn [step] in Hs.
  - des Hs; injection Hs as <-; apply sig_store.
  - des Hs. injection Hs as <-. match goal with H : negb (Nat.eqb _ _) = false |- _ => apply negb_false_iff in H end. eapply sig_whole; eauto.
  - des Hs; injection Hs as <-; reflexivity.
  - injection Hs as <-; reflexivity.
  - des Hs; injection Hs as <-; reflexivity.
  - des Hs; injection Hs as <-; rewrite sig_mark; apply sig_store.
  - des Hs; injection Hs as <-; rewrite sig_mark; apply sig_write.
  - des Hs; injection Hs as <-; rewrite sig_mark; apply sig_write.
  - des Hs; injection Hs as <-; reflexivity.
  - des Hs; injection Hs as <-; reflexivity.
  - des Hs; injection Hs as <-; reflexivity.
  - des Hs; injection Hs as <-; rewrite ?sig_mark; apply sig_write.
  - des Hs; injection Hs as <-; rewrite ?sig_mark;
      match goal with H : negb (Nat.eqb _ _) || _ = false |- _ => apply orb_false_iff in H as [H _]; apply negb_false_iff in H end;
      eapply sig_whole; eauto.
  - des Hs; injection Hs as <-; reflexivity.
  - des Hs; injection Hs as <-; reflexivity.
Qed.

(* what [Inv] says about one handle *)
Definition hok (s : state) (pt : ptr) : Prop :=
  ppc pt = false ->
    (is_alias pt = false -> pp1 pt = false /\ ppd pt = false) /\
    (pp1 pt = false -> ppd pt = false -> forall t, ptgt pt = Some t -> tgt_prot s t = false).
Lemma Inv_hok s : Inv s <-> (forall p pt, nth_error (ptrs s) p = Some pt -> hok s pt).
Proof. unfold Inv, hok. split; intros H p pt Hp; apply (H p pt Hp). Qed.

Lemma hok_sig s s' pt : sig s' = sig s -> hok s pt -> hok s' pt.
Proof.
  intros Hs H Hc. destruct (H Hc) as [H1 H2]. split; [exact H1|]. intros E1 E2 t Ht. rewrite (tgt_prot_sig _ _ _ Hs). eauto.
Qed.

Lemma Inv_add s h : Inv s -> hok s h -> Inv (add_handle s h).
Proof.
  intros HI Hh. apply Inv_hok. intros p pt Hn. cbn [ptrs add_handle] in Hn.
  apply (hok_sig s); [reflexivity|]. apply nth_error_snoc in Hn as [Hn| ->]; [|exact Hh].
  apply (proj1 (Inv_hok s) HI p pt Hn).
Qed.

Lemma Inv_upd s p f : Inv s -> (forall pt, nth_error (ptrs s) p = Some pt -> hok s (f pt)) -> Inv (set_ptrs s (upd_nth p f (ptrs s))).
Proof.
  intros HI Hf. apply Inv_hok. intros q pt Hn. cbn [ptrs set_ptrs] in Hn. apply (hok_sig s); [reflexivity|].
  destruct (Nat.eq_dec p q) as [<-|Hne].
  - rewrite nth_error_upd_same in Hn. destruct (nth_error (ptrs s) p) as [pt0|] eqn:Ep; cbn in Hn; [|discriminate].
    injection Hn as <-. auto.
  - rewrite nth_error_upd_other in Hn by exact Hne. apply (proj1 (Inv_hok s) HI q pt Hn).
Qed.

Lemma acq_ok pol s md pc src : all_checked pol -> acq_check pol s md pc src = None -> pc = false -> src_const s src = false.
Proof.
  intros Ha. unfold acq_check. rewrite Ha. intros H ->. cbn in H. destruct (src_const s src); [discriminate|reflexivity].
Qed.

(* a source that is not const gives a clean value: not derived from anything const, not pointing at anything protected *)
Lemma src_clean s src tg : Inv s -> src_target s src = Some tg -> src_const s src = false ->
  src_taint s src = false /\ forall t, tg = Some t -> tgt_prot s t = false.
Proof.
  intros HI. destruct src as [t0|q]; cbn.
  - destruct (valid_tgt s t0); [|discriminate]. intros [= <-] H. split; [exact H|]. intros t [= <-]. exact H.
  - destruct (nth_error (ptrs s) q) as [pq|] eqn:Eq; [|discriminate]. destruct (is_ptr pq) eqn:Ek; [|discriminate].
    intros [= <-] Hc. destruct (Inv_writable s q pq HI Eq Hc (is_ptr_not_alias _ Ek)) as [H1 H2]. split; auto.
Qed.

Lemma hok_new_ptr pol s md pc cc par src tg : all_checked pol -> Inv s -> src_target s src = Some tg ->
  acq_check pol s md pc src = None -> hok s (mk_ptr tg pc cc par (src_taint s src)).
Proof.
  intros Ha HI Et Ea Hc. cbn in Hc. subst pc.
  destruct (src_clean s src tg HI Et (acq_ok _ _ _ _ _ Ha Ea eq_refl)) as [H1 H2]. cbn. rewrite H1. repeat split; auto.
Qed.

Lemma step_inv pol s x s' : all_checked pol -> Inv s -> step pol s x = Ok s' -> Inv s'.
Proof.
  intros Ha HI Hs. assert (Hsig := step_sig _ _ _ _ Hs).
  destruct x as [f o k u|o vs|pc cc [src|]|p src|f p m u|param rc o k u|src u|f p d|par rc [o|h]|f h m u|h vs|pc src|h];
    cbn [step] in Hs.
  - apply (Inv_transfer s); auto. des Hs; injection Hs as <-; unfold store; destruct (eff _ _); reflexivity.
  - apply (Inv_transfer s); auto. des Hs; injection Hs as <-; reflexivity.
  - destruct (src_target s src) as [tg|] eqn:Et; [|discriminate].
    destruct (acq_check pol s ADecl pc src) eqn:Ea; [discriminate|]. injection Hs as <-.
    apply Inv_add; [exact HI|]. eapply hok_new_ptr; eauto.
  - injection Hs as <-. apply Inv_add; [exact HI|]. intros _. cbn. repeat split; auto. discriminate.
  - destruct (nth_error (ptrs s) p) as [pt0|] eqn:Ep; [|discriminate]. destruct (src_target s src) as [tg|] eqn:Et; [|discriminate].
    destruct (negb (is_ptr pt0)) eqn:Ek; [discriminate|]. destruct (_ && _); [discriminate|].
    destruct (acq_check pol s AAssign (ppc pt0) src) eqn:Ea; [discriminate|]. injection Hs as <-.
    apply Inv_upd; [exact HI|]. intros pt Hpt. rewrite Ep in Hpt. injection Hpt as <-.
    intros Hc. cbn in Hc. destruct (src_clean s src tg HI Et (acq_ok _ _ _ _ _ Ha Ea Hc)) as [H1 H2].
    cbn. rewrite H1. repeat split; auto.
  - apply (Inv_transfer s); auto. des Hs; injection Hs as <-; unfold store; destruct (eff _ _); reflexivity.
  - apply (Inv_transfer s); auto. des Hs; injection Hs as <-; reflexivity.
  - apply (Inv_transfer s); auto. des Hs; injection Hs as <-; reflexivity.
  - destruct (nth_error (ptrs s) p) as [pt0|] eqn:Ep; [|discriminate]. destruct (negb (is_ptr pt0)) eqn:Ek; [discriminate|].
    destruct (ptgt pt0) as [[o|o k]|] eqn:Et0; try discriminate.
    destruct (nth_error (objs s) o) as [ob|] eqn:Eo; [|discriminate]. destruct (oshape ob); try discriminate.
    destruct (has_cmember ob) eqn:Ecm; [discriminate|]. cbn [orb] in Hs.
    des Hs. injection Hs as <-.
    apply Inv_upd; [exact HI|]. intros pt Hpt. rewrite Ep in Hpt. injection Hpt as <-.
    intros Hc. cbn in Hc. apply negb_false_iff in Ek.
    destruct (Inv_writable s p pt0 HI Ep Hc (is_ptr_not_alias _ Ek)) as [H1 H2].
    unfold hconst in H1. rewrite Hc in H1. cbn in H1. apply orb_false_iff in H1 as [E1 E2].
    cbn. rewrite E1. repeat split; auto. intros _ _ t [= <-].
    specialize (H2 _ Et0). cbn in H2 |- *. rewrite Eo in *. unfold slot_prot in *.
    apply orb_false_iff in H2 as [-> _]. cbn. apply no_cmember_nth. exact Ecm.
  - (* OHRef from a bare variable *)
    destruct (nth_error (objs s) o) as [ob|] eqn:Eo; [|discriminate]. destruct (oshape ob) eqn:Esh.
    + destruct (negb (valid_tgt s (ref_tgt ob o))); [discriminate|]. rewrite Ha in Hs. cbn [andb] in Hs.
      destruct (tgt_prot s (ref_tgt ob o) && negb rc) eqn:Ec; [destruct par; discriminate|].
      assert (Hs' : s' = add_handle s (mk_ref (ref_tgt ob o) rc par (tgt_prot s (ref_tgt ob o)))) by (destruct par; congruence).
      subst s'. apply Inv_add; [exact HI|]. intros Hc. cbn in Hc. subst rc. rewrite andb_true_r in Ec. cbn. rewrite Ec.
      repeat split; auto. intros _ _ t [= <-]. exact Ec.
    + destruct (negb par); [discriminate|]. injection Hs as <-. apply Inv_add; [exact HI|]. intros Hc. cbn.
      split; [discriminate|]. intros E1 _ t [= <-]. cbn. rewrite Eo. exact E1.
    + destruct (negb (valid_tgt s (ref_tgt ob o))); [discriminate|]. rewrite Ha in Hs. cbn [andb] in Hs.
      destruct (tgt_prot s (ref_tgt ob o) && negb rc) eqn:Ec; [destruct par; discriminate|].
      assert (Hs' : s' = add_handle s (mk_ref (ref_tgt ob o) rc par (tgt_prot s (ref_tgt ob o)))) by (destruct par; congruence).
      subst s'. apply Inv_add; [exact HI|]. intros Hc. cbn in Hc. subst rc. rewrite andb_true_r in Ec. cbn. rewrite Ec.
      repeat split; auto. intros _ _ t [= <-]. exact Ec.
  - (* OHRef through a reference / alias *)
    destruct (nth_error (ptrs s) h) as [hp|] eqn:Eh; [|discriminate].
    destruct (pkind hp) eqn:Ek; try discriminate; destruct (ptgt hp) as [t|] eqn:Et; try discriminate.
    + rewrite Ha in Hs. cbn [andb] in Hs. destruct ((ppc hp || tgt_prot s t) && negb rc) eqn:Ec; [discriminate|].
      injection Hs as <-. apply Inv_add; [exact HI|]. intros Hc. cbn in Hc. subst rc. rewrite andb_true_r in Ec.
      apply orb_false_iff in Ec as [Ec1 Ec2].
      assert (Hal : is_alias hp = false) by (unfold is_alias; rewrite Ek; reflexivity).
      destruct (Inv_writable s h hp HI Eh Ec1 Hal) as [H1 H2]. cbn. rewrite H1, Ec2. repeat split; auto.
      intros _ _ t' [= <-]. exact Ec2.
    + destruct (negb par); [discriminate|]. injection Hs as <-. apply Inv_add; [exact HI|]. intros Hc. cbn.
      split; [discriminate|]. intros E1 E2 t' [= <-]. apply orb_false_iff in E2 as [E2 E3].
      destruct (HI h hp Eh E1) as [_ H2]. auto.
  - apply (Inv_transfer s); auto. des Hs; injection Hs as <-; reflexivity.
  - apply (Inv_transfer s); auto. des Hs; injection Hs as <-; reflexivity.
  - destruct (src_target s src) as [tg|] eqn:Et; [|discriminate].
    destruct (acq_check pol s AArg pc src) eqn:Ea; [discriminate|]. injection Hs as <-.
    apply Inv_add; [exact HI|]. eapply hok_new_ptr; eauto.
  - destruct (nth_error (ptrs s) h) as [hp|] eqn:Eh; [|discriminate]. des Hs. injection Hs as <-.
    apply Inv_upd; [exact HI|]. intros pt Hpt. rewrite Eh in Hpt. injection Hpt as <-.
    intros Hc. cbn in Hc. destruct (HI h hp Eh Hc) as [H1 H2]. cbn. split; [exact H1|exact H2].
Qed.

Lemma read_write_other s o k v o' k' : (o, k) <> (o', k') -> read_slot (write_slot s o k v) o' k' = read_slot s o' k'.
Proof.
  intros Hne. unfold read_slot, write_slot; cbn. destruct (Nat.eq_dec o o') as [<-|Ho].
  - rewrite nth_error_upd_same. destruct (nth_error (objs s) o) as [ob|]; cbn; [|reflexivity].
    apply nth_error_upd_other. congruence.
  - rewrite nth_error_upd_other by exact Ho. reflexivity.
Qed.

(* a write to an unprotected slot does not touch a protected one *)
Lemma write_keeps s o k v ob o' k' ob' :
  nth_error (objs s) o = Some ob -> slot_prot ob k = false ->
  nth_error (objs s) o' = Some ob' -> slot_prot ob' k' = true ->
  read_slot (write_slot s o k v) o' k' = read_slot s o' k'.
Proof. intros Ho Hp Ho' Hp'. apply read_write_other. intros [= -> ->]. congruence. Qed.
Lemma store_keeps pol st s o k v ob o' k' ob' :
  nth_error (objs s) o = Some ob -> slot_prot ob k = false ->
  nth_error (objs s) o' = Some ob' -> slot_prot ob' k' = true ->
  read_slot (store pol st s o k v) o' k' = read_slot s o' k'.
Proof. intros. unfold store. destruct (eff pol st); [eapply write_keeps; eauto|reflexivity]. Qed.
Lemma read_mark b s o k : read_slot (mark b s) o k = read_slot s o k. Proof. reflexivity. Qed.
Lemma whole_keeps s o vs g ob o' k' ob' :
  nth_error (objs s) o = Some ob -> oconst ob = false -> has_cmember ob = false ->
  nth_error (objs s) o' = Some ob' -> slot_prot ob' k' = true ->
  read_slot {| objs := upd_nth o (set_vals vs) (objs s); ptrs := ptrs s; gbad := g |} o' k' = read_slot s o' k'.
Proof.
  intros Eo Ec Ecm Ho' Hp'. unfold read_slot; cbn. destruct (Nat.eq_dec o o') as [<-|Hne].
  - exfalso. rewrite Eo in Ho'. injection Ho' as <-. unfold slot_prot in Hp'. rewrite Ec, no_cmember_nth in Hp' by exact Ecm. discriminate.
  - rewrite nth_error_upd_other by exact Hne. reflexivity.
Qed.

Lemma ref_store_check_none t ob hp : ref_store_check t ob hp = None -> ppc hp = false.
Proof. unfold ref_store_check. destruct t; [destruct (oconst ob); [discriminate|]|]; destruct (ppc hp); congruence. Qed.

Lemma step_prot pol s x s' o' k' ob' : all_checked pol -> Inv s -> step pol s x = Ok s' ->
  nth_error (objs s) o' = Some ob' -> slot_prot ob' k' = true -> read_slot s' o' k' = read_slot s o' k'.
Proof.
  intros Ha HI Hs Ho' Hp'.
  destruct x as [f o k u|o vs|pc cc [src|]|p src|f p m u|param rc o k u|src u|f p d|par rc [o|h]|f h m u|h vs|pc src|h];
    cbn [step] in Hs.
  - destruct (nth_error (objs s) o) as [ob|] eqn:Eo; [|discriminate]. destruct (nth_error (ovals ob) k); [|discriminate].
    rewrite Ha in Hs. cbn [andb] in Hs. destruct (slot_prot ob k) eqn:Ep; [discriminate|]. injection Hs as <-.
    eapply store_keeps; eauto.
  - destruct (nth_error (objs s) o) as [ob|] eqn:Eo; [|discriminate]. destruct (negb _); [discriminate|].
    rewrite !Ha in Hs. cbn [andb] in Hs. destruct (oconst ob) eqn:Ec; [discriminate|].
    destruct (has_cmember ob) eqn:Ecm; [discriminate|]. injection Hs as <-. eapply whole_keeps; eauto.
  - des Hs; injection Hs as <-; reflexivity.
  - injection Hs as <-. reflexivity.
  - des Hs; injection Hs as <-; reflexivity.
  - destruct (nth_error (ptrs s) p) as [pt|] eqn:Ep; [|discriminate]. destruct (negb (is_ptr pt)) eqn:Ek; [discriminate|].
    apply negb_false_iff in Ek.
    destruct (store_slot (ptgt pt) (pform_member f) m) as [[o k2]|] eqn:Ess; [|discriminate].
    destruct (nth_error (objs s) o) as [ob|] eqn:Eo; [|discriminate]. destruct (nth_error (ovals ob) k2); [|discriminate].
    rewrite !Ha in Hs. cbn [andb] in Hs. destruct (ppc pt) eqn:Epc; [discriminate|].
    destruct (Inv_writable s p pt HI Ep Epc (is_ptr_not_alias _ Ek)) as [_ HT].
    assert (Hun : slot_prot ob k2 = false).
    { unfold store_slot in Ess. destruct (ptgt pt) as [[o0|o0 k0]|] eqn:Et; try discriminate; destruct (pform_member f) eqn:Em; try discriminate;
        injection Ess as <- <-.
      - assert (H0 := HT _ eq_refl). cbn in H0. rewrite Eo in H0. unfold slot_prot. rewrite H0. cbn.
        rewrite andb_true_r in Hs. cbn in Hs. destruct (nth m (omconst ob) false); [discriminate|reflexivity].
      - assert (H0 := HT _ eq_refl). cbn in H0. rewrite Eo in H0. exact H0. }
    destruct (_ && _); [discriminate|]. injection Hs as <-. rewrite read_mark. eapply store_keeps; eauto.
  - destruct (nth_error (objs s) o) as [ob|] eqn:Eo; [|discriminate]. destruct (nth_error (ovals ob) k); [|discriminate].
    rewrite !Ha in Hs. cbn [andb] in Hs. destruct rc; cbn [negb andb] in Hs.
    + rewrite andb_false_r in Hs. discriminate.
    + rewrite andb_true_r in Hs. destruct (slot_prot ob k) eqn:Ep; [discriminate|]. injection Hs as <-. rewrite read_mark. eapply write_keeps; eauto.
  - destruct (src_target s src) as [[[o|o k]|]|] eqn:Et; try discriminate.
    destruct (read_slot s o k) eqn:Er; [|discriminate]. destruct (acq_check pol s AArg false src) eqn:Ea; [discriminate|]. injection Hs as <-.
    destruct (src_clean s src _ HI Et (acq_ok _ _ _ _ _ Ha Ea eq_refl)) as [_ HT].
    assert (Hun := HT _ eq_refl). cbn in Hun. unfold read_slot in Er. destruct (nth_error (objs s) o) as [ob|] eqn:Eo; [|discriminate].
    rewrite read_mark. eapply write_keeps; eauto.
  - des Hs; injection Hs as <-; reflexivity.
  - des Hs; injection Hs as <-; reflexivity.
  - des Hs; injection Hs as <-; reflexivity.
  - (* store through a reference / an array parameter *)
    destruct (nth_error (ptrs s) h) as [hp|] eqn:Eh; [|discriminate].
    destruct (pkind hp) eqn:Ek; try discriminate; destruct (ptgt hp) as [t|] eqn:Et; try discriminate.
    + assert (Hal : is_alias hp = false) by (unfold is_alias; rewrite Ek; reflexivity).
      destruct f; try discriminate;
      (destruct (nth_error (objs s) (tgt_obj t)) as [ob|] eqn:Eo; [|discriminate];
       destruct (nth_error (ovals ob) _) eqn:Ev; [|discriminate];
       rewrite !Ha in Hs; cbn [andb] in Hs;
       destruct (nth _ (omconst ob) false) eqn:Emc; [discriminate|];
       destruct (ref_store_check t ob hp) as [st|] eqn:Erc; [rewrite Ha in Hs; discriminate|]; injection Hs as <-; rewrite read_mark;
       destruct (Inv_writable s h hp HI Eh (ref_store_check_none _ _ _ Erc) Hal) as [_ HT];
       assert (Etp := HT _ Et);
       eapply write_keeps; eauto;
       destruct t as [o0|o0 k0]; cbn in Etp, Eo |- *; rewrite Eo in Etp; [unfold slot_prot; rewrite Etp, Emc; reflexivity|exact Etp]).
    + destruct t as [o|o k]; [|discriminate]. destruct (nth_error (objs s) o) as [ob|] eqn:Eo; [|discriminate].
      destruct (nth_error (ovals ob) m) eqn:Ev; [|discriminate].
      destruct (alias_site false f hp) as [st|] eqn:Eas; [rewrite Ha in Hs; discriminate|].
      rewrite Ha in Hs. cbn [andb] in Hs. destruct (nth m (omconst ob) false) eqn:Emc; [discriminate|]. injection Hs as <-.
      unfold alias_site in Eas. destruct (ppc hp) eqn:E0; [discriminate|]. destruct (pp1 hp) eqn:E1; [discriminate|].
      destruct (ppd hp) eqn:E2; [discriminate|].
      destruct (HI h hp Eh E0) as [_ HT]. assert (H0 := HT E1 E2 _ Et). cbn in H0. rewrite Eo in H0.
      eapply write_keeps; eauto. unfold slot_prot. rewrite H0, Emc. reflexivity.
  - destruct (nth_error (ptrs s) h) as [hp|] eqn:Eh; [|discriminate].
    destruct (pkind hp) eqn:Ek; try discriminate; destruct (ptgt hp) as [[o|o k]|] eqn:Et; try discriminate.
    destruct (nth_error (objs s) o) as [ob|] eqn:Eo; [|discriminate].
    destruct (negb (Nat.eqb (length vs) (length (ovals ob))) || has_cmember ob) eqn:El; [discriminate|].
    apply orb_false_iff in El as [_ Ecm].
    destruct (alias_site true FAssign hp) as [st|] eqn:Eas; [rewrite Ha in Hs; discriminate|]. injection Hs as <-.
    unfold alias_site in Eas. destruct (ppc hp) eqn:E0; [discriminate|]. destruct (pp1 hp) eqn:E1; [discriminate|].
    destruct (ppd hp) eqn:E2; [discriminate|].
    destruct (HI h hp Eh E0) as [_ HT]. assert (H0 := HT E1 E2 _ Et). cbn in H0. rewrite Eo in H0.
    eapply whole_keeps; eauto.
  - des Hs; injection Hs as <-; reflexivity.
  - des Hs; injection Hs as <-; reflexivity.
Qed.

(* a const pointer / a reference / an array parameter still refers to the same thing after any accepted step *)
Definition same_handle (a b : ptr) : Prop := ptgt b = ptgt a /\ pcc b = true /\ ppc b = ppc a /\ pkind b = pkind a.
Lemma same_handle_refl a : pcc a = true -> same_handle a a. Proof. unfold same_handle; auto. Qed.

Lemma nth_error_add {A} (l : list A) a p x : nth_error l p = Some x -> nth_error (l ++ [a]) p = Some x.
Proof. intros H. rewrite nth_error_app1; [exact H|]. apply nth_error_Some. congruence. Qed.

Lemma step_cptr pol s x s' p pt : all_checked pol -> step pol s x = Ok s' ->
  nth_error (ptrs s) p = Some pt -> pcc pt = true -> exists pt', nth_error (ptrs s') p = Some pt' /\ same_handle pt pt'.
Proof.
  intros Ha Hs Hp Hc. assert (R := same_handle_refl pt Hc).
  destruct x as [f o k u|o vs|pc cc [src|]|q src|f q m u|param rc o k u|src u|f q d|par rc [o|h]|f h m u|h vs|pc src|h];
    cbn [step] in Hs.
  - des Hs; injection Hs as <-; exists pt; split; auto; unfold store; destruct (eff _ _); exact Hp.
  - des Hs; injection Hs as <-; exists pt; split; auto.
  - des Hs; injection Hs as <-; exists pt; split; auto; apply nth_error_add; exact Hp.
  - injection Hs as <-; exists pt; split; auto; apply nth_error_add; exact Hp.
  - destruct (nth_error (ptrs s) q) as [pt0|] eqn:Eq; [|discriminate]. destruct (src_target s src); [|discriminate].
    destruct (negb (is_ptr pt0)); [discriminate|].
    rewrite Ha in Hs. cbn [andb] in Hs. destruct (pcc pt0) eqn:E0; [discriminate|].
    destruct (acq_check _ _ _ _ _); [discriminate|]. injection Hs as <-. exists pt. split; auto. cbn.
    rewrite nth_error_upd_other; [exact Hp|]. intros ->. congruence.
  - des Hs; injection Hs as <-; exists pt; split; auto; unfold store; destruct (eff _ _); exact Hp.
  - des Hs; injection Hs as <-; exists pt; split; auto.
  - des Hs; injection Hs as <-; exists pt; split; auto.
  - destruct (nth_error (ptrs s) q) as [pt0|] eqn:Eq; [|discriminate]. destruct (negb (is_ptr pt0)); [discriminate|].
    destruct (ptgt pt0) as [[o|o k]|]; try discriminate.
    destruct (nth_error (objs s) o) as [ob|]; [|discriminate]. destruct (oshape ob); try discriminate.
    destruct (_ || _); [discriminate|]. rewrite Ha in Hs. cbn [andb] in Hs. destruct (pcc pt0) eqn:E0; [discriminate|].
    injection Hs as <-. exists pt. split; auto. cbn. rewrite nth_error_upd_other; [exact Hp|]. intros ->. congruence.
  - des Hs; injection Hs as <-; exists pt; split; auto; apply nth_error_add; exact Hp.
  - des Hs; injection Hs as <-; exists pt; split; auto; apply nth_error_add; exact Hp.
  - des Hs; injection Hs as <-; exists pt; split; auto.
  - des Hs; injection Hs as <-; exists pt; split; auto.
  - des Hs; injection Hs as <-; exists pt; split; auto; apply nth_error_add; exact Hp.
  - destruct (nth_error (ptrs s) h) as [hp|] eqn:Eh; [|discriminate]. des Hs. injection Hs as <-. cbn.
    destruct (Nat.eq_dec h p) as [->|Hne].
    + rewrite nth_error_upd_same, Hp. cbn. eexists; split; [reflexivity|]. unfold same_handle, set_mat; cbn. auto.
    + rewrite nth_error_upd_other by exact Hne. exists pt; auto.
Qed.

(* ghost: under a policy that makes every test no store is ever carried out through a const view or through a handle
   derived from something const *)
Lemma step_gbad pol s x s' : all_checked pol -> Inv s -> step pol s x = Ok s' -> gbad s' = gbad s.
Proof.
  intros Ha HI Hs.
  destruct x as [f o k u|o vs|pc cc [src|]|p src|f p m u|param rc o k u|src u|f p d|par rc [o|h]|f h m u|h vs|pc src|h];
    cbn [step] in Hs.
  - des Hs; injection Hs as <-; unfold store; destruct (eff _ _); reflexivity.
  - des Hs; injection Hs as <-; reflexivity.
  - des Hs; injection Hs as <-; reflexivity.
  - injection Hs as <-; reflexivity.
  - des Hs; injection Hs as <-; reflexivity.
  - destruct (nth_error (ptrs s) p) as [pt|] eqn:Ep; [|discriminate]. destruct (negb (is_ptr pt)) eqn:Ek; [discriminate|].
    apply negb_false_iff in Ek. destruct (store_slot _ _ _) as [[o k2]|]; [|discriminate].
    destruct (nth_error (objs s) o) as [ob|]; [|discriminate]. destruct (nth_error (ovals ob) k2); [|discriminate].
    rewrite !Ha in Hs. cbn [andb] in Hs. destruct (ppc pt) eqn:Epc; [discriminate|].
    destruct (Inv_writable s p pt HI Ep Epc (is_ptr_not_alias _ Ek)) as [Hh _].
    destruct (_ && _); [discriminate|]. injection Hs as <-. cbn. rewrite Hh, orb_false_r. unfold store. destruct (eff _ _); reflexivity.
  - destruct (nth_error (objs s) o) as [ob|]; [|discriminate]. destruct (nth_error (ovals ob) k); [|discriminate].
    rewrite !Ha in Hs. cbn [andb] in Hs. destruct rc; cbn [negb andb] in Hs.
    + rewrite andb_false_r in Hs. discriminate.
    + des Hs. injection Hs as <-. cbn. apply orb_false_r.
  - destruct (src_target s src) as [[[o|o k]|]|] eqn:Et; try discriminate.
    destruct (read_slot s o k); [|discriminate]. destruct (acq_check pol s AArg false src) eqn:Ea; [discriminate|]. injection Hs as <-.
    destruct (src_clean s src _ HI Et (acq_ok _ _ _ _ _ Ha Ea eq_refl)) as [HT _]. cbn. rewrite HT. apply orb_false_r.
  - des Hs; injection Hs as <-; reflexivity.
  - des Hs; injection Hs as <-; reflexivity.
  - des Hs; injection Hs as <-; reflexivity.
  - destruct (nth_error (ptrs s) h) as [hp|] eqn:Eh; [|discriminate].
    destruct (pkind hp) eqn:Ek; try discriminate; destruct (ptgt hp) as [t|] eqn:Et; try discriminate.
    + assert (Hal : is_alias hp = false) by (unfold is_alias; rewrite Ek; reflexivity).
      destruct f; try discriminate;
      (destruct (nth_error (objs s) (tgt_obj t)) as [ob|]; [|discriminate];
       destruct (nth_error (ovals ob) _); [|discriminate];
       rewrite !Ha in Hs; cbn [andb] in Hs;
       destruct (nth _ (omconst ob) false); [discriminate|];
       destruct (ref_store_check t ob hp) as [st|] eqn:Erc; [rewrite Ha in Hs; discriminate|];
       destruct (Inv_writable s h hp HI Eh (ref_store_check_none _ _ _ Erc) Hal) as [Hh _];
       injection Hs as <-; cbn; rewrite Hh; apply orb_false_r).
    + destruct t as [o|o k]; [|discriminate]. destruct (nth_error (objs s) o) as [ob|]; [|discriminate].
      destruct (nth_error (ovals ob) m); [|discriminate].
      destruct (alias_site false f hp) as [st|]; [rewrite Ha in Hs; discriminate|].
      des Hs; injection Hs as <-; reflexivity.
  - destruct (nth_error (ptrs s) h) as [hp|] eqn:Eh; [|discriminate].
    destruct (pkind hp); try discriminate; destruct (ptgt hp) as [[o|o k]|]; try discriminate.
    destruct (nth_error (objs s) o) as [ob|]; [|discriminate]. destruct (_ || _); [discriminate|].
    destruct (alias_site true FAssign hp) as [st|]; [rewrite Ha in Hs; discriminate|]. injection Hs as <-. reflexivity.
  - des Hs; injection Hs as <-; reflexivity.
  - des Hs; injection Hs as <-; reflexivity.
Qed.

(* ------------------------------------------------------------------ whole scripts *)
Lemma const_slots_immutable_l pol : all_checked pol -> forall ops i s o k ob,
  Inv s -> nth_error (objs s) o = Some ob -> slot_prot ob k = true ->
  read_slot (fst (run_from pol i s ops)) o k = read_slot s o k.
Proof.
  intros Ha. induction ops as [|x r IH]; intros i s o k ob HI Ho Hp; cbn [run_from]; [reflexivity|].
  destruct (step pol s x) as [s'| |] eqn:Es; [|reflexivity|reflexivity].
  destruct (sig_nth s s' o ob (step_sig _ _ _ _ Es) Ho) as (ob' & Ho' & Hsg).
  rewrite (IH (S i) s' o k ob'); [eapply step_prot; eauto|eapply step_inv; eauto|exact Ho'|].
  rewrite (slot_prot_sig _ _ _ Hsg). exact Hp.
Qed.

Lemma run_inv_l pol : all_checked pol -> forall ops i s, Inv s -> Inv (fst (run_from pol i s ops)).
Proof.
  intros Ha. induction ops as [|x r IH]; intros i s HI; cbn [run_from]; [exact HI|].
  destruct (step pol s x) as [s'| |] eqn:Es; [|exact HI|exact HI]. apply IH. eapply step_inv; eauto.
Qed.

Lemma const_ptr_not_reseated_l pol : all_checked pol -> forall ops i s p pt,
  nth_error (ptrs s) p = Some pt -> pcc pt = true ->
  exists pt', nth_error (ptrs (fst (run_from pol i s ops))) p = Some pt' /\ same_handle pt pt'.
Proof.
  intros Ha. induction ops as [|x r IH]; intros i s p pt Hp Hc; cbn [run_from]; [exists pt; split; auto using same_handle_refl|].
  destruct (step pol s x) as [s'| |] eqn:Es; [|exists pt; split; auto using same_handle_refl|exists pt; split; auto using same_handle_refl].
  destruct (step_cptr _ _ _ _ _ _ Ha Es Hp Hc) as (pt1 & H1 & (E1 & E2 & E3 & E4)).
  destruct (IH (S i) s' p pt1 H1 E2) as (pt2 & H2 & (F1 & F2 & F3 & F4)).
  exists pt2. split; [exact H2|]. unfold same_handle. repeat split; congruence.
Qed.

Lemma no_store_through_const_view_l pol : all_checked pol -> forall ops i s, Inv s -> gbad (fst (run_from pol i s ops)) = gbad s.
Proof.
  intros Ha. induction ops as [|x r IH]; intros i s HI; cbn [run_from]; [reflexivity|].
  destruct (step pol s x) as [s'| |] eqn:Es; [|reflexivity|reflexivity].
  rewrite IH by (eapply step_inv; eauto). eapply step_gbad; eauto.
Qed.

(* ------------------------------------------------------------------ the individual rules *)
Lemma addr_of_const_needs_const_ptr_l pol s t : all_checked pol -> valid_tgt s t = true -> tgt_prot s t = true ->
  (forall cc, exists st, step pol s (OPtrNew false cc (Some (PAddr t))) = Rejected st) /\
  (forall p pt, nth_error (ptrs s) p = Some pt -> is_ptr pt = true -> ppc pt = false -> exists st, step pol s (OPtrSet p (PAddr t)) = Rejected st) /\
  (forall u, step pol s (OPtrCall (PAddr t) u) = Stuck \/ exists st, step pol s (OPtrCall (PAddr t) u) = Rejected st) /\
  (exists st, step pol s (OPtrParam false (PAddr t)) = Rejected st) /\
  (forall cc, exists s', step pol s (OPtrNew true cc (Some (PAddr t))) = Ok s') /\
  (exists s', step pol s (OPtrParam true (PAddr t)) = Ok s').
Proof.
  intros Ha Hv Hp. repeat split.
  - intros cc. cbn [step src_target]. rewrite Hv. unfold acq_check. rewrite Ha. cbn [src_const]. rewrite Hp. cbn. eauto.
  - intros p pt Hn Hk Hc. cbn [step src_target]. rewrite Hn, Hv, Hk. cbn [negb]. rewrite Ha. cbn [andb].
    destruct (pcc pt); [eauto|]. unfold acq_check. rewrite Ha, Hc. cbn [src_const]. rewrite Hp. cbn. eauto.
  - intros u. cbn [step src_target]. rewrite Hv. destruct t as [o|o k]; [left; reflexivity|].
    destruct (read_slot s o k); [|left; reflexivity]. right. unfold acq_check. rewrite Ha. cbn [src_const]. rewrite Hp. cbn. eauto.
  - cbn [step src_target]. rewrite Hv. unfold acq_check. rewrite Ha. cbn [src_const]. rewrite Hp. cbn. eauto.
  - intros cc. cbn [step src_target]. rewrite Hv. unfold acq_check. cbn [negb]. rewrite andb_false_r. eauto.
  - cbn [step src_target]. rewrite Hv. unfold acq_check. cbn [negb]. rewrite andb_false_r. eauto.
Qed.

(* a pointer to const (variable or parameter): no store form goes through it, it cannot be copied into a pointer that permits
   writes, nor passed on to a `T*` parameter *)
Lemma ptc_no_write_l pol s p pt : all_checked pol -> nth_error (ptrs s) p = Some pt -> is_ptr pt = true -> ppc pt = true ->
  (forall f m u, step pol s (OPtrStore f p m u) = Stuck \/ exists st, step pol s (OPtrStore f p m u) = Rejected st) /\
  (forall cc, exists st, step pol s (OPtrNew false cc (Some (PCopy p))) = Rejected st) /\
  (forall u, step pol s (OPtrCall (PCopy p) u) = Stuck \/ exists st, step pol s (OPtrCall (PCopy p) u) = Rejected st) /\
  (exists st, step pol s (OPtrParam false (PCopy p)) = Rejected st) /\
  (forall q pq, nth_error (ptrs s) q = Some pq -> is_ptr pq = true -> ppc pq = false -> exists st, step pol s (OPtrSet q (PCopy p)) = Rejected st).
Proof.
  intros Ha Hn Hk Hc. repeat split.
  - intros f m u. cbn [step]. rewrite Hn, Hk. cbn [negb]. destruct (store_slot _ _ _) as [[o k']|]; [|auto].
    destruct (nth_error (objs s) o) as [ob|]; [|auto]. destruct (nth_error (ovals ob) k'); [|auto].
    rewrite Ha, Hc. cbn. eauto.
  - intros cc. cbn [step src_target]. rewrite Hn, Hk. unfold acq_check. rewrite Ha. cbn [src_const]. rewrite Hn, Hc. cbn. eauto.
  - intros u. cbn [step src_target]. rewrite Hn, Hk. destruct (ptgt pt) as [[o|o k]|]; auto.
    destruct (read_slot s o k); [|auto]. right. unfold acq_check. rewrite Ha. cbn [src_const]. rewrite Hn, Hc. cbn. eauto.
  - cbn [step src_target]. rewrite Hn, Hk. unfold acq_check. rewrite Ha. cbn [src_const]. rewrite Hn, Hc. cbn. eauto.
  - intros q pq Hq Hkq Hcq. cbn [step src_target]. rewrite Hq, Hn, Hk, Hkq. cbn [negb]. rewrite Ha. cbn [andb].
    destruct (pcc pq); [eauto|]. unfold acq_check. rewrite Ha, Hcq. cbn [src_const]. rewrite Hn, Hc. cbn. eauto.
Qed.

(* a reference to const (local or parameter): no store goes through it and no reference that permits writes can be bound
   through it, neither locally nor as the argument of a further call *)
Lemma cref_no_write_l pol s h hp : all_checked pol -> nth_error (ptrs s) h = Some hp -> pkind hp = HRef -> ppc hp = true ->
  (forall f m u, step pol s (OHStore f h m u) = Stuck \/ exists st, step pol s (OHStore f h m u) = Rejected st) /\
  (forall par, step pol s (OHRef par false (HVia h)) = Stuck \/ exists st, step pol s (OHRef par false (HVia h)) = Rejected st).
Proof.
  intros Ha Hn Hk Hc. split.
  - intros f m u. cbn [step]. rewrite Hn, Hk. destruct (ptgt hp) as [t|]; [|auto]. destruct f; auto;
      (destruct (nth_error (objs s) (tgt_obj t)) as [ob|]; [|auto]; destruct (nth_error (ovals ob) _); [|auto];
       assert (E : exists st, ref_store_check t ob hp = Some st)
         by (unfold ref_store_check; rewrite Hc; destruct t; [destruct (oconst ob)|]; eauto);
       destruct E as (st & ->); rewrite !Ha; cbn [andb]; destruct (nth _ (omconst ob) false); eauto).
  - intros par. cbn [step]. rewrite Hn, Hk. destruct (ptgt hp) as [t|]; [|auto]. rewrite Ha, Hc. cbn. eauto.
Qed.

(* an array parameter with a const anywhere up its chain (itself, what it was bound to, further up): no store goes through
   it, and the same holds for every array parameter bound through it *)
Lemma alias_no_write_l pol s h hp : all_checked pol -> nth_error (ptrs s) h = Some hp -> pkind hp = HAlias -> hconst hp = true ->
  (forall f m u, step pol s (OHStore f h m u) = Stuck \/ exists st, step pol s (OHStore f h m u) = Rejected st) /\
  (forall vs, step pol s (OHWhole h vs) = Stuck \/ exists st, step pol s (OHWhole h vs) = Rejected st) /\
  (forall rc s', step pol s (OHRef true rc (HVia h)) = Ok s' ->
     exists hp', nth_error (ptrs s') (length (ptrs s)) = Some hp' /\ pkind hp' = HAlias /\ hconst hp' = true /\ ptgt hp' = ptgt hp).
Proof.
  intros Ha Hn Hk Hc.
  assert (Has : forall w f, exists st, alias_site w f hp = Some st).
  { intros w f. unfold alias_site. unfold hconst in Hc. destruct (ppc hp); [eauto|]. destruct (pp1 hp); [eauto|].
    destruct (ppd hp); [eauto|discriminate]. }
  repeat split.
  - intros f m u. cbn [step]. rewrite Hn, Hk. destruct (ptgt hp) as [[o|o k]|]; auto.
    destruct (nth_error (objs s) o) as [ob|]; [|auto]. destruct (nth_error (ovals ob) m); [|auto].
    destruct (Has false f) as (st & ->). rewrite Ha. eauto.
  - intros vs. cbn [step]. rewrite Hn, Hk. destruct (ptgt hp) as [[o|o k]|]; auto.
    destruct (nth_error (objs s) o) as [ob|]; [|auto]. destruct (_ || _); [auto|].
    destruct (Has true FAssign) as (st & ->). rewrite Ha. eauto.
  - intros rc s' Hs. cbn [step] in Hs. rewrite Hn, Hk in Hs. destruct (ptgt hp) as [t|] eqn:Et; [|discriminate].
    cbn in Hs. injection Hs as <-. eexists. split; [cbn; rewrite nth_error_app2, Nat.sub_diag by auto; reflexivity|].
    cbn. repeat split. unfold hconst in *. cbn. destruct rc, (ppc hp), (pp1 hp), (ppd hp); cbn in *; congruence.
Qed.

(* every direct mutation form of a protected slot *)
Lemma direct_mutation_rejected_l pol s o k ob : all_checked pol ->
  nth_error (objs s) o = Some ob -> slot_prot ob k = true -> (k < length (ovals ob))%nat ->
  (forall f u, exists st, step pol s (ODirect f o k u) = Rejected st) /\
  (forall param rc u, exists st, step pol s (ORef param rc o k u) = Rejected st) /\
  (oconst ob = true -> forall vs, step pol s (OWhole o vs) = Stuck \/ step pol s (OWhole o vs) = Rejected SWholeConst).
Proof.
  intros Ha Ho Hp Hk. apply nth_error_Some in Hk. destruct (nth_error (ovals ob) k) as [old|] eqn:Ek; [|congruence]. repeat split.
  - intros f u. cbn [step]. rewrite Ho, Ek, Ha, Hp. cbn. eauto.
  - intros param rc u. cbn [step]. rewrite Ho, Ek, !Ha, Hp. cbn. destruct rc; cbn; eauto.
  - intros Hc vs. cbn [step]. rewrite Ho. destruct (negb _); [auto|]. rewrite Ha, Hc. cbn. auto.
Qed.

(* no reference that permits writes is bound to a protected bare variable, locally or as an argument *)
Lemma bind_const_rejected_l pol s o ob : all_checked pol -> nth_error (objs s) o = Some ob -> oshape ob <> Arr ->
  tgt_prot s (ref_tgt ob o) = true ->
  forall par, step pol s (OHRef par false (HObj o)) = Stuck \/ exists st, step pol s (OHRef par false (HObj o)) = Rejected st.
Proof.
  intros Ha Ho Hsh Hp par. cbn [step]. rewrite Ho.
  destruct (oshape ob) eqn:Es; [|congruence|]; (destruct (negb (valid_tgt s (ref_tgt ob o))); [auto|]; rewrite Ha, Hp; cbn; eauto).
Qed.
