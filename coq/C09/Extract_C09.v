(* Extraction of the C09 pointer / reference machine and matrix to OCaml (ExtrOcamlBasic + ExtrOcamlString only). *)
From Coq Require Import Extraction ExtrOcamlBasic ExtrOcamlString.
From Cb Require Import C09.ConstPtr C09.Model C09.Paths C09.PathModel.
Extraction Language OCaml.
Extraction "C09/c09_model.ml" step run trace spec mech all_but all_sites mech_chk mech_eff scenario witness verdict_of
  all_kinds all_paths inv_b breaks
  ref_chain alias_chain ptr_chain lists_upto ref_alpha ptr_alpha alias_finals all_proots proot_forms chain_expect mk_ptr
  pstep prun ptrace pspec pmech pall_but all_psites site_occurs pwitness ptwin set_cases sub_cases placements all_groots placed graph
  leaf_paths node_paths steps classify sclassify exec_set exec_sub lv_of lpath root_of cells get set_reasons sub_reasons pbreaks.
