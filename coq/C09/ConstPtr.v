(* C09 - pointers, references and const: a small machine for what CbCore (coq/Lang) does not have.
   Objects are scalars, arrays and structs of integer slots with a const flag on the object and on
   individual struct members; pointers carry the two flags of the implementation's Variable
   (is_pointee_const = `const T*`, is_pointer_const = `T* const`).  Every operation is carried out by
   one executor of the implementation and each executor has its own const test - or lacks it.  A
   [policy] says which tests exist ([chk]) and which executors actually write ([eff]); [spec] has
   every test, [mech] has the tests of the pinned code (read from the files named next to each
   site).  Definitions only; proofs in PtrLemmas.v. *)
From Coq Require Import List ZArith Bool Arith.
Import ListNotations.
Local Open Scope Z_scope.

(* ------------------------------------------------------------------ check sites *)
Inductive site :=
| SAssignVar        (* x = v            managers/variables/assignment.cpp:56 is_const && is_assigned *)
| SCompoundVar      (* x op= v          same guard (compound assignment is desugared by the parser) *)
| SIncDecVar        (* x++ --x          evaluator/operators/incdec.cpp variable branch: is_const && is_assigned (since c8a1652) *)
| SElemStore        (* a[i] = v         managers/variables/assignment.cpp:342 *)
| SElemCompound     (* a[i] op= v *)
| SElemIncDec       (* a[i]++           incdec.cpp array branch (since c8a1652) *)
| SMemberStore      (* s.m = v          executors/assignments/member_assignment.cpp:182/:226/:456/:470 *)
| SMemberCompound   (* s.m op= v *)
| SMemberIncDec     (* s.m++            incdec.cpp member branch (since c8a1652; an accepted s.m++ writes since 51b5af9) *)
| SWholeConst       (* a = [..], s = t  on a const array / struct *)
| SWholeMemberConst (* s = t            where struct s has a const member *)
| SDerefStore       (* *p = v           simple_assignment.cpp:100 check_const_pointer_modification *)
| SDerefIncDec      (* ( *p)++          incdec.cpp dereference branch: is_pointee_const (since c8a1652) *)
| SDerefExprStore   (* *(p + 0) = v     the helper only looks at a bare pointer variable *)
| SDerefMember      (* ( *p).m = v      member_assignment.cpp:92 / :357 *)
| SArrowStore       (* p->m = v         member_assignment.cpp execute_arrow_assignment: check_const_pointer_modification (since 29cf056) *)
| SPtrMemberConst   (* ( *p).m / p->m   where m is a const member of the pointee *)
| SAddrAssign       (* p = &x           simple_assignment.cpp:1198 *)
| SAddrDecl         (* T* p = &x        managers/variables/declaration.cpp pointer initialiser (since 8c94aff; the older test in
                                        executors/declarations/variable_declaration.cpp:699 is not on this path) *)
| SAddrSubAssign    (* p = &a[i], &s.m  operand is not a bare variable: not looked at *)
| SAddrSubDecl      (* T* p = &a[i] *)
| SAddrArg          (* f(&x)            evaluator/functions/call_impl.cpp:5561 only looks at variables *)
| SPtrCopyAssign    (* q = p            p is `const T*`, q is `T*` *)
| SPtrCopyDecl      (* T* q = p *)
| SPtrCopyArg       (* f(p)             call_impl.cpp:5610 *)
| SRefParam         (* f(x), T& r       call_impl.cpp reference parameter binding (since a242434) *)
| SRefLocal         (* T& r = x         managers/variables/initialization.cpp (since 38104c4) *)
| SConstRefStore    (* r = v            where r is `const T&` *)
| SReseatAssign     (* p = ..           simple_assignment.cpp:966 check_const_pointer_reassignment *)
| SReseatCompound   (* p += n           same path *)
| SReseatIncDec     (* p++ --p          incdec.cpp pointer branch: is_pointer_const (since a842ca6) *)
(* ---- derivation chains: handles derived from handles, across call boundaries *)
| SRefLocalViaLocal (* T& r = h;        h a local reference, referent protected: managers/variables/initialization.cpp
                                        handle_reference_variable tests the DEREFERENCED target (since 38104c4) *)
| SRefLocalViaParam (* T& r = h;        h a reference parameter, referent protected: same test (the parameter variable itself
                                        carries no is_const, so only the dereferenced target can refuse) *)
| SRefLocalCRef     (* T& r = h;        h is `const T&`, referent itself not protected: not tested *)
| SRefParamViaLocal (* f(h), T& param   h a local `const T&`: call_impl.cpp tests the NAMED variable's is_const (since a242434) *)
| SRefParamViaParam (* f(h), T& param   h a `const T&` PARAMETER: parameter references are created without is_const: not tested *)
| SRefMemberConst   (* r.m = v          m a const member, r a reference to the struct: structs/assignment.cpp *)
| SRefStructRead    (* r.m = v          r refers to a const struct and r.m has been read before: the member variable `r.m`
                                        created by the read inherited is_const *)
| SRefStructFresh   (* r.m = v          r refers to a const struct, nothing read through r yet: not tested *)
| SPtcParamStore    (* *p = v ..        p a `const T*` PARAMETER: the parser records no pointee const for parameters
                                        (type_utility_parser.cpp parseType leaves is_const false for pointer types) *)
| SPtrCopyArgParam  (* g(p), T* param   p a `const T*` parameter *)
| SAliasOwnConst    (* a[i] = v, a[i]++, a = [..]   a a `const T[n]` array parameter: operations.cpp assign_array_element_safe,
                                        incdec.cpp array branch *)
| SAliasParentStore (* a[i] = v / op=   array parameter bound to a const array or to a const array parameter:
                                        assign_array_element_safe resolves ONE level and tests it *)
| SAliasParentIncDec (* a[i]++          incdec.cpp array branch tests only the named variable *)
| SAliasParentWhole (* a = [..]         through an array parameter *)
| SAliasDeep.       (* any store        the const array / const array parameter is two or more calls up *)

Definition all_sites : list site :=
  [SAssignVar; SCompoundVar; SIncDecVar; SElemStore; SElemCompound; SElemIncDec; SMemberStore; SMemberCompound;
   SMemberIncDec; SWholeConst; SWholeMemberConst; SDerefStore; SDerefIncDec; SDerefExprStore; SDerefMember;
   SArrowStore; SPtrMemberConst; SAddrAssign; SAddrDecl; SAddrSubAssign; SAddrSubDecl; SAddrArg; SPtrCopyAssign;
   SPtrCopyDecl; SPtrCopyArg; SRefParam; SRefLocal; SConstRefStore; SReseatAssign; SReseatCompound; SReseatIncDec;
   SRefLocalViaLocal; SRefLocalViaParam; SRefLocalCRef; SRefParamViaLocal; SRefParamViaParam; SRefMemberConst; SRefStructRead; SRefStructFresh;
   SPtcParamStore; SPtrCopyArgParam; SAliasOwnConst; SAliasParentStore; SAliasParentIncDec; SAliasParentWhole; SAliasDeep].

Definition site_eqb (a b : site) : bool :=
  match a, b with
  | SAssignVar, SAssignVar | SCompoundVar, SCompoundVar | SIncDecVar, SIncDecVar | SElemStore, SElemStore
  | SElemCompound, SElemCompound | SElemIncDec, SElemIncDec | SMemberStore, SMemberStore
  | SMemberCompound, SMemberCompound | SMemberIncDec, SMemberIncDec | SWholeConst, SWholeConst
  | SWholeMemberConst, SWholeMemberConst | SDerefStore, SDerefStore | SDerefIncDec, SDerefIncDec
  | SDerefExprStore, SDerefExprStore | SDerefMember, SDerefMember | SArrowStore, SArrowStore
  | SPtrMemberConst, SPtrMemberConst | SAddrAssign, SAddrAssign | SAddrDecl, SAddrDecl
  | SAddrSubAssign, SAddrSubAssign | SAddrSubDecl, SAddrSubDecl | SAddrArg, SAddrArg
  | SPtrCopyAssign, SPtrCopyAssign | SPtrCopyDecl, SPtrCopyDecl | SPtrCopyArg, SPtrCopyArg
  | SRefParam, SRefParam | SRefLocal, SRefLocal | SConstRefStore, SConstRefStore
  | SReseatAssign, SReseatAssign | SReseatCompound, SReseatCompound | SReseatIncDec, SReseatIncDec
  | SRefLocalViaLocal, SRefLocalViaLocal | SRefLocalViaParam, SRefLocalViaParam | SRefLocalCRef, SRefLocalCRef
  | SRefParamViaLocal, SRefParamViaLocal | SRefParamViaParam, SRefParamViaParam | SRefMemberConst, SRefMemberConst
  | SRefStructRead, SRefStructRead | SRefStructFresh, SRefStructFresh
  | SPtcParamStore, SPtcParamStore | SPtrCopyArgParam, SPtrCopyArgParam | SAliasOwnConst, SAliasOwnConst
  | SAliasParentStore, SAliasParentStore | SAliasParentIncDec, SAliasParentIncDec | SAliasParentWhole, SAliasParentWhole
  | SAliasDeep, SAliasDeep => true
  | _, _ => false
  end.

Record policy := { chk : site -> bool; eff : site -> bool }.

(* the property: every test is made, every accepted store is carried out *)
Definition spec : policy := {| chk := fun _ => true; eff := fun _ => true |}.

(* the pinned implementation *)
(* the second and third rows are the tests added by the repairs c8a1652 (++/-- : IncDecVar, ElemIncDec,
   MemberIncDec, DerefIncDec), a842ca6 (ReseatIncDec), 8c94aff (AddrDecl), a242434 (RefParam),
   38104c4 (RefLocal), 29cf056 (ArrowStore) *)
Definition mech_chk (st : site) : bool :=
  match st with
  | SAssignVar | SCompoundVar | SElemStore | SElemCompound | SMemberStore | SMemberCompound | SWholeConst
  | SDerefStore | SDerefMember | SAddrAssign | SPtrCopyArg | SReseatAssign | SReseatCompound
  | SIncDecVar | SElemIncDec | SMemberIncDec | SDerefIncDec | SReseatIncDec
  | SAddrDecl | SRefParam | SRefLocal | SArrowStore
  | SRefLocalViaLocal | SRefLocalViaParam | SRefParamViaLocal | SRefMemberConst | SRefStructRead | SAliasOwnConst | SAliasParentStore => true
  | _ => false
  end.
(* every executor writes (until 51b5af9 an accepted `s.m++` lost its result: mech_eff SMemberIncDec was false) *)
Definition mech_eff (st : site) : bool := true.
Definition mech : policy := {| chk := mech_chk; eff := mech_eff |}.

(* every test but one *)
Definition all_but (st : site) : policy := {| chk := fun x => negb (site_eqb x st); eff := fun _ => true |}.

(* ------------------------------------------------------------------ state *)
Inductive shape := Scalar | Arr | Struct.
Record obj := { oshape : shape; oconst : bool; omconst : list bool; ovals : list Z }.
Inductive tgt := TObj (o : nat) | TSlot (o k : nat).      (* a whole struct / array, or one integer slot *)
(* Handles: pointers, references (`T&`, bound to a bare scalar or struct variable) and array parameters (`T[n] a`: an
   alias of a whole array; the implementation passes arrays by reference).
   ppc  declared const: `const T*`, `const T&`, `const T[n]`;   pcc  `T* const` (references and aliases: always);
   ppar the handle is a parameter of the function the script is in (the rest of the script runs in the callee);
   pp1  the handle's value was derived from something const one step up (address of a protected object, copy of a
        const handle, reference bound through a const reference; alias: bound to a const array or const array parameter);
   ppd  aliases only: something const two or more steps up.
   pp1 / ppd of pointers and references are GHOST: no test of any policy reads them; they only feed [gbad].
   pmat references to structs: a member has been READ through this reference before (the implementation then holds a
        member variable `r.m` that inherited the const of the struct referred to - only then does it refuse `r.m = v`). *)
Inductive hkind := HPtr | HRef | HAlias.
Record ptr := { ptgt : option tgt; ppc : bool; pcc : bool; pkind : hkind; ppar : bool; pp1 : bool; ppd : bool; pmat : bool }.
(* gbad: ghost - some store has been carried out through a handle that is const or derived from something const *)
Record state := { objs : list obj; ptrs : list ptr; gbad : bool }.

Definition hconst (pt : ptr) : bool := ppc pt || pp1 pt || ppd pt.
Definition is_ptr (pt : ptr) : bool := match pkind pt with HPtr => true | _ => false end.
Definition is_alias (pt : ptr) : bool := match pkind pt with HAlias => true | _ => false end.

Definition slot_prot (ob : obj) (k : nat) : bool := oconst ob || nth k (omconst ob) false.
Definition has_cmember (ob : obj) : bool := existsb (fun b => b) (omconst ob).
Definition tgt_prot (s : state) (t : tgt) : bool :=
  match t with
  | TObj o => match nth_error (objs s) o with Some ob => oconst ob | None => false end
  | TSlot o k => match nth_error (objs s) o with Some ob => slot_prot ob k | None => false end
  end.

Fixpoint upd_nth {A} (n : nat) (f : A -> A) (l : list A) : list A :=
  match l with
  | [] => []
  | x :: r => match n with O => f x :: r | S k => x :: upd_nth k f r end
  end.
Definition set_vals (vs : list Z) (ob : obj) : obj :=
  {| oshape := oshape ob; oconst := oconst ob; omconst := omconst ob; ovals := vs |}.
Definition write_slot (s : state) (o k : nat) (v : Z) : state :=
  {| objs := upd_nth o (fun ob => set_vals (upd_nth k (fun _ => v) (ovals ob)) ob) (objs s); ptrs := ptrs s; gbad := gbad s |}.
Definition read_slot (s : state) (o k : nat) : option Z :=
  match nth_error (objs s) o with Some ob => nth_error (ovals ob) k | None => None end.
(* re-seat a pointer; [d] = the new value comes from something const *)
Definition set_tgt (t : option tgt) (d : bool) (p : ptr) : ptr :=
  {| ptgt := t; ppc := ppc p; pcc := pcc p; pkind := pkind p; ppar := ppar p; pp1 := d; ppd := false; pmat := pmat p |}.
Definition mark (b : bool) (s : state) : state := {| objs := objs s; ptrs := ptrs s; gbad := gbad s || b |}.
Definition add_handle (s : state) (h : ptr) : state := {| objs := objs s; ptrs := ptrs s ++ [h]; gbad := gbad s |}.
Definition set_ptrs (s : state) (ps : list ptr) : state := {| objs := objs s; ptrs := ps; gbad := gbad s |}.
Definition set_mat (p : ptr) : ptr :=
  {| ptgt := ptgt p; ppc := ppc p; pcc := pcc p; pkind := pkind p; ppar := ppar p; pp1 := pp1 p; ppd := ppd p; pmat := true |}.
Definition mk_ptr (t : option tgt) (pc cc par d : bool) : ptr :=
  {| ptgt := t; ppc := pc; pcc := cc; pkind := HPtr; ppar := par; pp1 := d; ppd := false; pmat := false |}.
Definition mk_ref (t : tgt) (rc par d : bool) : ptr :=
  {| ptgt := Some t; ppc := rc; pcc := true; pkind := HRef; ppar := par; pp1 := d; ppd := false; pmat := false |}.
Definition mk_alias (t : tgt) (rc d1 dd : bool) : ptr :=
  {| ptgt := Some t; ppc := rc; pcc := true; pkind := HAlias; ppar := true; pp1 := d1; ppd := dd; pmat := false |}.

(* ------------------------------------------------------------------ operations *)
Inductive dform := FAssign | FCompound | FIncDec.                 (* =   op=   ++/-- *)
Inductive pform := PDeref | PDerefInc | PDerefExpr | PDerefMember | PArrow.
Inductive psrc := PAddr (t : tgt) | PCopy (q : nat).
Inductive hsrc := HObj (o : nat) | HVia (h : nat).               (* a bare variable / an existing reference or alias *)
Inductive amode := ADecl | AAssign | AArg.

Inductive op :=
| ODirect (f : dform) (o k : nat) (u : Z)            (* o / o[k] / o.mk   = u | += u | ++ (u = 1 or -1) *)
| OWhole (o : nat) (vs : list Z)                     (* o = [..] ; o = t *)
| OPtrNew (pc cc : bool) (src : option psrc)         (* [const] T* [const] p [= src]; *)
| OPtrSet (p : nat) (src : psrc)                     (* p = src; *)
| OPtrStore (f : pform) (p : nat) (m : nat) (u : Z)  (* *p = u; ( *p)++; *(p+0) = u; ( *p).mm = u; p->mm = u *)
| ORef (param rc : bool) (o k : nat) (u : Z)         (* bind a [const] T& (parameter or local) to o / o.mk and store through it *)
| OPtrCall (src : psrc) (u : Z)                      (* f(src) where f(T* q) { *q = u; } *)
| OPtrMove (f : dform) (p : nat) (d : Z)             (* p = p + d; p += d; p++ / p-- *)
(* derivation chains *)
| OHRef (par rc : bool) (src : hsrc)                 (* [const] T& r = src;   or  f(src) with f([const] T& r) / f([const] T[n] r):
                                                        the rest of the script is the body of f *)
| OHStore (f : dform) (h : nat) (m : nat) (u : Z)    (* r = u, r op= u; r.mm = u, r.mm op= u; a[m] = u, a[m] op= u, a[m]++ *)
| OHWhole (h : nat) (vs : list Z)                    (* a = [..] through an array parameter *)
| OPtrParam (pc : bool) (src : psrc)                 (* f(src) with f([const] T* p): the rest of the script is the body of f *)
| OHRead (h : nat).                                  (* println(r.m0, r.m1): the members are read through the reference r *)

Inductive res := Ok (s : state) | Rejected (st : site) | Stuck.

Definition newval (f : dform) (old u : Z) : Z := match f with FAssign => u | _ => old + u end.

Definition direct_site (sh : shape) (f : dform) : site :=
  match sh, f with
  | Scalar, FAssign => SAssignVar | Scalar, FCompound => SCompoundVar | Scalar, FIncDec => SIncDecVar
  | Arr, FAssign => SElemStore | Arr, FCompound => SElemCompound | Arr, FIncDec => SElemIncDec
  | Struct, FAssign => SMemberStore | Struct, FCompound => SMemberCompound | Struct, FIncDec => SMemberIncDec
  end.
Definition pform_site (f : pform) : site :=
  match f with PDeref => SDerefStore | PDerefInc => SDerefIncDec | PDerefExpr => SDerefExprStore
             | PDerefMember => SDerefMember | PArrow => SArrowStore end.
(* a `const T*` parameter has lost its const in the implementation, whatever the form of the store *)
Definition pstore_site (f : pform) (pt : ptr) : site := if ppar pt then SPtcParamStore else pform_site f.
Definition pform_member (f : pform) : bool := match f with PDerefMember | PArrow => true | _ => false end.
Definition pform_upd (f : pform) : dform := match f with PDerefInc => FIncDec | _ => FAssign end.
Definition move_site (f : dform) : site :=
  match f with FAssign => SReseatAssign | FCompound => SReseatCompound | FIncDec => SReseatIncDec end.

Definition valid_tgt (s : state) (t : tgt) : bool :=
  match t with
  | TObj o => match nth_error (objs s) o with Some ob => match oshape ob with Struct => true | _ => false end | None => false end
  | TSlot o k => match nth_error (objs s) o with Some ob => Nat.ltb k (length (ovals ob)) | None => false end
  end.
(* is `&designator` the address of a bare variable? *)
Definition bare_tgt (s : state) (t : tgt) : bool :=
  match t with
  | TObj _ => true
  | TSlot o _ => match nth_error (objs s) o with Some ob => match oshape ob with Scalar => true | _ => false end | None => false end
  end.
Definition src_param (s : state) (q : nat) : bool := match nth_error (ptrs s) q with Some pt => ppar pt | None => false end.
Definition acq_site (s : state) (md : amode) (src : psrc) : site :=
  match src, md with
  | PAddr t, ADecl => if bare_tgt s t then SAddrDecl else SAddrSubDecl
  | PAddr t, AAssign => if bare_tgt s t then SAddrAssign else SAddrSubAssign
  | PAddr _, AArg => SAddrArg
  | PCopy _, ADecl => SPtrCopyDecl
  | PCopy _, AAssign => SPtrCopyAssign
  | PCopy q, AArg => if src_param s q then SPtrCopyArgParam else SPtrCopyArg
  end.
(* the pointer value of a source; None = ill-formed (a reference is not a pointer: `&r` crashes the implementation) *)
Definition src_target (s : state) (src : psrc) : option (option tgt) :=
  match src with
  | PAddr t => if valid_tgt s t then Some (Some t) else None
  | PCopy q => match nth_error (ptrs s) q with Some pt => if is_ptr pt then Some (ptgt pt) else None | None => None end
  end.
(* would the source give write access to something protected / is it a pointer to const?  (what the tests read) *)
Definition src_const (s : state) (src : psrc) : bool :=
  match src with
  | PAddr t => tgt_prot s t
  | PCopy q => match nth_error (ptrs s) q with Some pt => ppc pt | None => false end
  end.
(* ghost: does the value come from something const, directly or further up? *)
Definition src_taint (s : state) (src : psrc) : bool :=
  match src with
  | PAddr t => tgt_prot s t
  | PCopy q => match nth_error (ptrs s) q with Some pt => hconst pt | None => false end
  end.
(* Some st = refused by the test at st *)
Definition acq_check (pol : policy) (s : state) (md : amode) (pc : bool) (src : psrc) : option site :=
  let st := acq_site s md src in
  if chk pol st && src_const s src && negb pc then Some st else None.

Definition store (pol : policy) (st : site) (s : state) (o k : nat) (v : Z) : state :=
  if eff pol st then write_slot s o k v else s.

(* the slot a store through a pointer goes to *)
Definition store_slot (t : option tgt) (member : bool) (m : nat) : option (nat * nat) :=
  match t, member with
  | Some (TSlot o k), false => Some (o, k)
  | Some (TObj o), true => Some (o, m)
  | _, _ => None
  end.

(* the referent of a reference / alias bound to the bare variable o *)
Definition ref_tgt (ob : obj) (o : nat) : tgt := match oshape ob with Scalar => TSlot o 0 | _ => TObj o end.
Definition tgt_obj (t : tgt) : nat := match t with TObj o => o | TSlot o _ => o end.
(* the test that refuses `[non-const] T& r = h` / `f(h)`: which one depends on where the reference is created, on what h
   is, and on why the binding is wrong *)
Definition via_site (par hpar tprot : bool) : site :=
  if par then (if hpar then SRefParamViaParam else SRefParamViaLocal)
  else if tprot then (if hpar then SRefLocalViaParam else SRefLocalViaLocal)
  else SRefLocalCRef.
(* the test that refuses a store through an array parameter: its own const, the const of what it was bound to, or further up *)
Definition alias_site (whole : bool) (f : dform) (pt : ptr) : option site :=
  if ppc pt then Some SAliasOwnConst
  else if pp1 pt then Some (if whole then SAliasParentWhole else match f with FIncDec => SAliasParentIncDec | _ => SAliasParentStore end)
  else if ppd pt then Some SAliasDeep
  else None.

(* the test that refuses a store through a reference: a member of a const struct is refused by the member's own
   variable - which only exists, with the struct's const, once the member has been read through this reference;
   everything else would need the reference's own const, which no executor looks at.  (A store through a reference to
   a scalar never looks at the referent.) *)
Definition ref_store_check (t : tgt) (ob : obj) (hp : ptr) : option site :=
  match t with
  | TObj _ => if oconst ob then Some (if pmat hp then SRefStructRead else SRefStructFresh)
              else if ppc hp then Some SConstRefStore else None
  | TSlot _ _ => if ppc hp then Some SConstRefStore else None
  end.

Definition step (pol : policy) (s : state) (x : op) : res :=
  match x with
  | ODirect f o k u =>
      match nth_error (objs s) o with
      | None => Stuck
      | Some ob =>
          match nth_error (ovals ob) k with
          | None => Stuck
          | Some old =>
              let st := direct_site (oshape ob) f in
              if chk pol st && slot_prot ob k then Rejected st
              else Ok (store pol st s o k (newval f old u))
          end
      end
  | OWhole o vs =>
      match nth_error (objs s) o with
      | None => Stuck
      | Some ob =>
          if negb (Nat.eqb (length vs) (length (ovals ob))) then Stuck
          else if chk pol SWholeConst && oconst ob then Rejected SWholeConst
          else if chk pol SWholeMemberConst && has_cmember ob then Rejected SWholeMemberConst
          else Ok {| objs := upd_nth o (set_vals vs) (objs s); ptrs := ptrs s; gbad := gbad s |}
      end
  | OPtrNew pc cc None => Ok (add_handle s (mk_ptr None pc cc false false))
  | OPtrNew pc cc (Some src) =>
      match src_target s src with
      | None => Stuck
      | Some tg =>
          match acq_check pol s ADecl pc src with
          | Some st => Rejected st
          | None => Ok (add_handle s (mk_ptr tg pc cc false (src_taint s src)))
          end
      end
  | OPtrSet p src =>
      match nth_error (ptrs s) p, src_target s src with
      | Some pt, Some tg =>
          if negb (is_ptr pt) then Stuck
          else if chk pol SReseatAssign && pcc pt then Rejected SReseatAssign
          else match acq_check pol s AAssign (ppc pt) src with
               | Some st => Rejected st
               | None => Ok (set_ptrs s (upd_nth p (set_tgt tg (src_taint s src)) (ptrs s)))
               end
      | _, _ => Stuck
      end
  | OPtrStore f p m u =>
      match nth_error (ptrs s) p with
      | None => Stuck
      | Some pt =>
          if negb (is_ptr pt) then Stuck else
          match store_slot (ptgt pt) (pform_member f) m with
          | None => Stuck
          | Some (o, k') =>
              match nth_error (objs s) o with
              | None => Stuck
              | Some ob =>
                  match nth_error (ovals ob) k' with
                  | None => Stuck
                  | Some old =>
                      let st := pstore_site f pt in
                      if chk pol st && ppc pt then Rejected st
                      else if pform_member f && chk pol SPtrMemberConst && nth k' (omconst ob) false then Rejected SPtrMemberConst
                      else Ok (mark (hconst pt) (store pol st s o k' (newval (pform_upd f) old u)))
                  end
              end
          end
      end
  | ORef param rc o k u =>
      match nth_error (objs s) o with
      | None => Stuck
      | Some ob =>
          match nth_error (ovals ob) k with
          | None => Stuck
          | Some _ =>
              let st := if param then SRefParam else SRefLocal in
              if chk pol st && slot_prot ob k && negb rc then Rejected st
              else if chk pol SConstRefStore && rc then Rejected SConstRefStore
              else Ok (mark rc (write_slot s o k u))
          end
      end
  | OPtrCall src u =>
      match src_target s src with
      | Some (Some (TSlot o k)) =>
          match read_slot s o k with
          | None => Stuck
          | Some _ =>
              match acq_check pol s AArg false src with
              | Some st => Rejected st
              | None => Ok (mark (src_taint s src) (write_slot s o k u))
              end
          end
      | _ => Stuck
      end
  | OPtrMove f p d =>
      match nth_error (ptrs s) p with
      | None => Stuck
      | Some pt =>
          if negb (is_ptr pt) then Stuck else
          match ptgt pt with
          | Some (TSlot o k) =>
              match nth_error (objs s) o with
              | None => Stuck
              | Some ob =>
                  let k' := Z.of_nat k + d in
                  match oshape ob with
                  | Arr =>
                      if has_cmember ob || negb ((0 <=? k') && (k' <? Z.of_nat (length (ovals ob)))) then Stuck
                      else if chk pol (move_site f) && pcc pt then Rejected (move_site f)
                      else Ok (set_ptrs s (upd_nth p (set_tgt (Some (TSlot o (Z.to_nat k'))) (pp1 pt)) (ptrs s)))
                  | _ => Stuck
                  end
              end
          | _ => Stuck
          end
      end
  | OHRef par rc (HObj o) =>
      match nth_error (objs s) o with
      | None => Stuck
      | Some ob =>
          match oshape ob with
          | Arr => (* `T[n]& r = a;` does not parse: arrays are aliased by array parameters only; the binding is never refused *)
              if negb par then Stuck else Ok (add_handle s (mk_alias (TObj o) rc (oconst ob) false))
          | _ =>
              let t := ref_tgt ob o in
              let st := if par then SRefParam else SRefLocal in
              if negb (valid_tgt s t) then Stuck
              else if chk pol st && tgt_prot s t && negb rc then Rejected st
              else Ok (add_handle s (mk_ref t rc par (tgt_prot s t)))
          end
      end
  | OHRef par rc (HVia h) =>
      match nth_error (ptrs s) h with
      | None => Stuck
      | Some hp =>
          match pkind hp, ptgt hp with
          | HAlias, Some t => if negb par then Stuck else Ok (add_handle s (mk_alias t rc (ppc hp) (pp1 hp || ppd hp)))
          | HRef, Some t =>
              let st := via_site par (ppar hp) (tgt_prot s t) in
              if chk pol st && (ppc hp || tgt_prot s t) && negb rc then Rejected st
              else Ok (add_handle s (mk_ref t rc par (hconst hp || tgt_prot s t)))
          | _, _ => Stuck
          end
      end
  | OHStore f h m u =>
      match nth_error (ptrs s) h with
      | None => Stuck
      | Some hp =>
          match pkind hp, ptgt hp with
          | HRef, Some t =>
              (* r++ / r.m++ are not implemented for references ("Type range error", "Undefined struct variable") *)
              match f with FIncDec => Stuck | _ =>
              let o := tgt_obj t in
              let k := match t with TSlot _ k0 => k0 | TObj _ => m end in
              match nth_error (objs s) o with
              | None => Stuck
              | Some ob =>
                  match nth_error (ovals ob) k with
                  | None => Stuck
                  | Some old =>
                      if chk pol SRefMemberConst && nth k (omconst ob) false then Rejected SRefMemberConst
                      else match ref_store_check t ob hp with
                           | Some st => if chk pol st then Rejected st else Ok (mark true (write_slot s o k (newval f old u)))
                           | None => Ok (mark (hconst hp) (write_slot s o k (newval f old u)))
                           end
                  end
              end end
          | HAlias, Some (TObj o) =>
              match nth_error (objs s) o with
              | None => Stuck
              | Some ob =>
                  match nth_error (ovals ob) m with
                  | None => Stuck
                  | Some old =>
                      match alias_site false f hp with
                      | Some st => if chk pol st then Rejected st
                                   else Ok (mark true (write_slot s o m (newval f old u)))
                      | None => if chk pol SRefMemberConst && nth m (omconst ob) false then Rejected SRefMemberConst
                                else Ok (write_slot s o m (newval f old u))
                      end
                  end
              end
          | _, _ => Stuck
          end
      end
  | OHWhole h vs =>
      match nth_error (ptrs s) h with
      | None => Stuck
      | Some hp =>
          match pkind hp, ptgt hp with
          | HAlias, Some (TObj o) =>
              match nth_error (objs s) o with
              | None => Stuck
              | Some ob =>
                  if negb (Nat.eqb (length vs) (length (ovals ob))) || has_cmember ob then Stuck
                  else match alias_site true FAssign hp with
                       | Some st => if chk pol st then Rejected st
                                    else Ok (mark true {| objs := upd_nth o (set_vals vs) (objs s); ptrs := ptrs s; gbad := gbad s |})
                       | None => Ok {| objs := upd_nth o (set_vals vs) (objs s); ptrs := ptrs s; gbad := gbad s |}
                       end
              end
          | _, _ => Stuck
          end
      end
  | OHRead h =>
      match nth_error (ptrs s) h with
      | None => Stuck
      | Some hp =>
          match pkind hp, ptgt hp with
          | HRef, Some (TObj _) => Ok (set_ptrs s (upd_nth h set_mat (ptrs s)))
          | _, _ => Stuck
          end
      end
  | OPtrParam pc src =>
      match src_target s src with
      | None => Stuck
      | Some tg =>
          match acq_check pol s AArg pc src with
          | Some st => Rejected st
          | None => Ok (add_handle s (mk_ptr tg pc false true (src_taint s src)))
          end
      end
  end.

(* a script runs until the first operation that is refused (the program ends with an error) *)
Inductive outcome := Done | RejectedAt (i : nat) (st : site) | StuckAt (i : nat).
Fixpoint run_from (pol : policy) (i : nat) (s : state) (ops : list op) : state * outcome :=
  match ops with
  | [] => (s, Done)
  | x :: r => match step pol s x with
              | Ok s' => run_from pol (S i) s' r
              | Rejected st => (s, RejectedAt i st)
              | Stuck => (s, StuckAt i)
              end
  end.
Definition run (pol : policy) (s : state) (ops : list op) : state * outcome := run_from pol 0 s ops.
(* all intermediate states, for the transcript *)
Fixpoint trace (pol : policy) (s : state) (ops : list op) : list state :=
  match ops with
  | [] => []
  | x :: r => match step pol s x with Ok s' => s' :: trace pol s' r | _ => [] end
  end.

(* ------------------------------------------------------------------ the handle discipline, decidable *)
(* a handle that permits writes was not derived from anything const and does not point at anything protected
   (pointers, references: declared non-const; array parameters: no const anywhere up the chain) *)
Definition unprot (s : state) (pt : ptr) : bool := match ptgt pt with Some t => negb (tgt_prot s t) | None => true end.
Definition ptr_ok (s : state) (pt : ptr) : bool :=
  ppc pt || (if is_alias pt then pp1 pt || ppd pt || unprot s pt else negb (pp1 pt || ppd pt) && unprot s pt).
Definition inv_b (s : state) : bool := forallb (ptr_ok s) (ptrs s).

(* observations used by the refutations: did a protected slot change / was a const pointer re-seated / was a store
   carried out through a const view? *)
Definition obj_changed (a b : obj) : bool :=
  existsb (fun k => slot_prot a k && negb (match nth_error (ovals a) k, nth_error (ovals b) k with
                                            | Some x, Some y => x =? y | _, _ => false end))
          (seq 0 (length (ovals a))).
Fixpoint zip {A B} (l : list A) (l' : list B) : list (A * B) :=
  match l, l' with a :: r, b :: r' => (a, b) :: zip r r' | _, _ => [] end.
Definition const_changed (s s' : state) : bool :=
  existsb (fun ab => obj_changed (fst ab) (snd ab)) (zip (objs s) (objs s')).
Definition tgt_eqb (a b : option tgt) : bool :=
  match a, b with
  | None, None => true
  | Some (TObj o), Some (TObj o') => Nat.eqb o o'
  | Some (TSlot o k), Some (TSlot o' k') => Nat.eqb o o' && Nat.eqb k k'
  | _, _ => false
  end.
Definition reseated (s s' : state) : bool :=
  existsb (fun ab => pcc (fst ab) && negb (tgt_eqb (ptgt (fst ab)) (ptgt (snd ab)))) (zip (ptrs s) (ptrs s')).
Definition breaks (pol : policy) (c : state * list op) : bool :=
  let s' := fst (run pol (fst c) (snd c)) in
  inv_b (fst c) && negb (gbad (fst c)) && (const_changed (fst c) s' || reseated (fst c) s' || gbad s').
