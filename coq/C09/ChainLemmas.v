(* C09 - derivation chains of ANY length: once a reference / an array parameter refers to something protected (or an
   array parameter has a const somewhere up its chain), every longer chain built on it ends in a refusal - however many
   further local references or calls it goes through.  (The finite sweeps of MatrixLemmas.v cover all chains of up to
   three links including the unprotected twins and the pointer chains.) *)
From Coq Require Import List ZArith Bool Arith Lia.
From Cb Require Import C09.ConstPtr C09.PtrLemmas C09.Model.
Import ListNotations.
Local Open Scope Z_scope.

Lemma nth_error_last {A} (l : list A) a : nth_error (l ++ [a]) (length l) = Some a.
Proof. rewrite nth_error_app2, Nat.sub_diag by auto. reflexivity. Qed.

Definition slot_of (t : tgt) (m : nat) : nat := match t with TSlot _ k0 => k0 | TObj _ => m end.

Lemma ref_store_rejected pol s n hp t f m u ob old i0 : all_checked pol ->
  nth_error (ptrs s) n = Some hp -> pkind hp = HRef -> ptgt hp = Some t -> tgt_prot s t = true -> ppc hp = true -> f <> FIncDec ->
  nth_error (objs s) (tgt_obj t) = Some ob -> nth_error (ovals ob) (slot_of t m) = Some old ->
  exists i st, snd (run_from pol i0 s [OHStore f n m u]) = RejectedAt i st.
Proof.
  intros Ha Hn Hk Ht Hp Hc Hf Ho Hv. cbn [run_from step]. rewrite Hn, Hk, Ht.
  assert (E : exists st, ref_store_check t ob hp = Some st)
    by (unfold ref_store_check; rewrite Hc; destruct t; [destruct (oconst ob)|]; eauto).
  destruct E as (st & E). unfold slot_of in Hv.
  destruct f; try congruence; rewrite Ho, Hv, E, !Ha; cbn [andb]; destruct (nth _ (omconst ob) false); cbn [snd]; eauto.
Qed.

Lemma ref_tail_rejected pol : all_checked pol -> forall ls s n hp t f m u rd i0 ob old,
  nth_error (ptrs s) n = Some hp -> length (ptrs s) = S n -> pkind hp = HRef -> ptgt hp = Some t ->
  tgt_prot s t = true -> ppc hp = true -> f <> FIncDec -> (rd = true -> exists o, t = TObj o) ->
  nth_error (objs s) (tgt_obj t) = Some ob -> nth_error (ovals ob) (slot_of t m) = Some old ->
  exists i st, snd (run_from pol i0 s (ref_links (S n) (HVia n) ls ++ (if rd then [OHRead (n + length ls)] else []) ++
                                         [OHStore f (n + length ls) m u])) = RejectedAt i st.
Proof.
  intros Ha. induction ls as [|[par rc] ls IH]; intros s n hp t f m u rd i0 ob old Hn Hl Hk Ht Hp Hc Hf Hrd Ho Hv.
  - cbn [ref_links length app]. rewrite Nat.add_0_r. destruct rd.
    + destruct (Hrd eq_refl) as (o & ->). cbn [app run_from]. cbn [step]. rewrite Hn, Hk, Ht.
      eapply ref_store_rejected with (hp := set_mat hp) (t := TObj o); eauto.
      cbn. rewrite nth_error_upd_same, Hn. reflexivity.
    + cbn [app]. eapply ref_store_rejected; eauto.
  - cbn [ref_links length app]. cbn [run_from]. cbn [step]. rewrite Hn, Hk, Ht, Ha, Hp, orb_true_r. cbn [andb].
    destruct rc; cbn [negb].
    + replace (n + S (length ls))%nat with (S n + length ls)%nat by lia.
      eapply (IH (add_handle s (mk_ref t true par (hconst hp || true))) (S n) (mk_ref t true par (hconst hp || true)) t f m u rd (S i0) ob old);
        try solve [reflexivity | assumption].
      * cbn [ptrs add_handle]. rewrite <- Hl. apply nth_error_last.
      * cbn [ptrs add_handle]. rewrite app_length. cbn. lia.
    + cbn [snd]. eauto.
Qed.

(* every chain of references (local or parameter, const or not, any number of links, with or without a read through the
   last one) that starts at a const scalar or const struct ends in a refusal *)
Lemma ref_chain_rejected_any_depth_l pol strct rd ls f : all_checked pol -> ls <> [] -> f <> FIncDec ->
  exists i st, snd (run pol (fst (ref_chain true strct rd ls f)) (snd (ref_chain true strct rd ls f))) = RejectedAt i st.
Proof.
  intros Ha Hne Hf. destruct ls as [|[par rc] ls]; [congruence|]. unfold ref_chain, run. cbn [fst snd ref_links length].
  replace (S (length ls) - 1)%nat with (0 + length ls)%nat by lia.
  destruct strct.
  - cbn [app run_from]. cbn [step]. cbn. rewrite !Ha. destruct rc; cbn.
    + assert (Hrd : (if (true && rd)%bool then [OHRead (length ls)] else []) = (if rd then [OHRead (0 + length ls)] else [])) by reflexivity.
      destruct par; (eapply (ref_tail_rejected pol Ha ls _ 0%nat _ (TObj 0)); cbn; eauto; try reflexivity).
    + destruct par; eauto.
  - cbn [app run_from]. cbn [step]. cbn. rewrite !Ha. destruct rc; cbn.
    + destruct par; (eapply (ref_tail_rejected pol Ha ls _ 0%nat _ (TSlot 0 0) f 0%nat 3 false); cbn; eauto; try reflexivity; try discriminate).
    + destruct par; eauto.
Qed.

(* array parameters *)
Lemma alias_tail_rejected pol : all_checked pol -> forall ls s n hp o ob fin i0,
  nth_error (ptrs s) n = Some hp -> length (ptrs s) = S n -> pkind hp = HAlias -> ptgt hp = Some (TObj o) -> hconst hp = true ->
  nth_error (objs s) o = Some ob -> has_cmember ob = false -> length (ovals ob) = 3%nat ->
  exists i st, snd (run_from pol i0 s (ref_links (S n) (HVia n) (map (fun rc => (true, rc)) ls) ++
                     [match fin with Some f => OHStore f (n + length ls) 1 1 | None => OHWhole (n + length ls) [4; 5; 6] end])) = RejectedAt i st.
Proof.
  intros Ha. induction ls as [|rc ls IH]; intros s n hp o ob fin i0 Hn Hl Hk Ht Hc Ho Hcm Hlen.
  - cbn [map ref_links length app]. rewrite Nat.add_0_r.
    destruct (alias_no_write_l pol s n hp Ha Hn Hk Hc) as (H1 & H2 & _). cbn [run_from].
    destruct fin as [f|].
    + destruct (H1 f 1%nat 1) as [E|(st & E)]; [|rewrite E; cbn [snd]; eauto]. exfalso. cbn [step] in E. rewrite Hn, Hk, Ht, Ho in E.
      destruct (ovals ob) as [|a [|b r]]; cbn in Hlen; try lia. cbn in E.
      destruct (alias_site false f hp); [destruct (chk pol s0)|destruct (_ && _)]; discriminate.
    + destruct (H2 [4; 5; 6]) as [E|(st & E)]; [|rewrite E; cbn [snd]; eauto]. exfalso. cbn [step] in E. rewrite Hn, Hk, Ht, Ho in E.
      cbn [length] in E. rewrite Hlen, Hcm in E. cbn in E. destruct (alias_site true FAssign hp); [destruct (chk pol s0)|]; discriminate.
  - cbn [map ref_links length app]. cbn [run_from]. cbn [step]. rewrite Hn, Hk, Ht. cbn [negb].
    replace (n + S (length ls))%nat with (S n + length ls)%nat by lia.
    eapply (IH (add_handle s (mk_alias (TObj o) rc (ppc hp) (pp1 hp || ppd hp))) (S n) (mk_alias (TObj o) rc (ppc hp) (pp1 hp || ppd hp)) o ob fin (S i0));
      try solve [reflexivity | assumption].
    + cbn [ptrs add_handle]. rewrite <- Hl. apply nth_error_last.
    + cbn [ptrs add_handle]. rewrite app_length. cbn. lia.
    + unfold hconst in *. cbn. destruct rc, (ppc hp), (pp1 hp), (ppd hp); cbn in *; congruence.
Qed.

(* every chain of array parameters (any number of calls, const or not) that starts at a const array ends in a refusal,
   whatever the final store: element =, op=, ++/--, whole-array assignment *)
Lemma alias_chain_rejected_any_depth_l pol ls fin : all_checked pol -> ls <> [] ->
  exists i st, snd (run pol (fst (alias_chain true ls fin)) (snd (alias_chain true ls fin))) = RejectedAt i st.
Proof.
  intros Ha Hne. destruct ls as [|rc ls]; [congruence|]. unfold alias_chain, run. cbn [fst snd map ref_links length].
  replace (S (length ls) - 1)%nat with (0 + length ls)%nat by lia.
  cbn [app run_from]. cbn [step]. cbn [st0 objs nth_error mk oshape negb].
  eapply (alias_tail_rejected pol Ha ls _ 0%nat _ 0%nat); cbn; eauto.
  unfold hconst. cbn. destruct rc; reflexivity.
Qed.
