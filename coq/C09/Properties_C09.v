(* C09 - property theorems only (proofs in C09/RefConst.v, C09/PtrLemmas.v, C09/MatrixLemmas.v).
   Part 1 is about Ref, the shared reference interpreter coq/Lang (const scalars and arrays: globals,
   locals, statics).  Part 2 is about the pointer / reference machine C09/ConstPtr.v under [spec]
   (every const test made) and under [mech] (the tests the pinned implementation makes). *)
From Coq Require Import List ZArith Bool Arith.
From Cb Require Import Lang.Syntax Lang.Sem Lang.Respect Lang.Theorems Lang.Print.
From Cb Require Import C09.RefConst C09.ConstPtr C09.PtrLemmas C09.Model C09.MatrixLemmas.
Import ListNotations.
Local Open Scope Z_scope.

(* ================================================================== Part 1: Ref *)

(* The one store primitive of Ref refuses a const target and leaves the state as it was. *)
Theorem const_write_rejected : forall x idx v s e,
  get_entry x s = Some e -> econst e = true -> m_write x idx v s = (Fail EConst, s).
Proof. exact const_write_rejected_l. Qed.
Print Assumptions const_write_rejected.

(* Every mutation form of CbCore (=, op=, ++/-- on a variable or an array element) applied to a
   visible const entry ends in an error and leaves the state unchanged; the plain stores fail with
   the const error itself (read-modify-write forms read first and may report the read / arithmetic
   error instead). *)
Theorem mutation_rejected : forall funcs k (m : mutation) s e,
  get_entry (mut_target m) s = Some e -> econst e = true ->
  (exists er, exec funcs (S (S (S k))) (mut_stmt m) s = (Fail er, s)) /\
  (mut_plain m = true -> exec funcs (S (S (S k))) (mut_stmt m) s = (Fail EConst, s)).
Proof. exact mutation_rejected_l. Qed.
Print Assumptions mutation_rejected.

(* ... with an arbitrary right-hand side: whatever it computes and does, the store is refused. *)
Theorem assign_rejected_general : forall funcs k x rhs s v s1 e,
  eval funcs k rhs s = (Val v, s1) -> get_entry x s1 = Some e -> econst e = true ->
  exec funcs (S k) (SAssign (LVar x) None rhs) s = (Fail EConst, s1).
Proof. exact assign_rejected_general_l. Qed.
Print Assumptions assign_rejected_general.

(* For every function table, fuel, expression / statement and start state: the stack has the same
   shape afterwards, every scope (globals, statics of each function, every block of every frame)
   still has all its old entries, and every entry that was const is the same entry. *)
Theorem const_immutable_run : forall funcs n,
  (forall e, respects cpres (eval funcs n e)) /\ (forall st, respects cpres (exec funcs n st)).
Proof. exact cpres_run_l. Qed.
Print Assumptions const_immutable_run.

(* what [cpres] gives for a const global (by name), a const local (by identity: frame, block and
   declaration index counted from the oldest) and a const static *)
Theorem const_global_immutable : forall s s' x e,
  cpres s s' -> sframes s <> [] -> assoc x (sglob s) = Some e -> econst e = true -> assoc x (sglob s') = Some e.
Proof. exact const_global_kept. Qed.
Print Assumptions const_global_immutable.

Theorem const_local_immutable : forall s s' fi si ei x e,
  cpres s s' -> local_at s fi si ei = Some (x, e) -> econst e = true -> local_at s' fi si ei = Some (x, e).
Proof. exact const_local_kept. Qed.
Print Assumptions const_local_immutable.

Theorem const_static_immutable : forall s s' f k x e,
  cpres s s' -> nth_old (statics_of f s) k = Some (x, e) -> econst e = true -> nth_old (statics_of f s') k = Some (x, e).
Proof. exact const_static_kept. Qed.
Print Assumptions const_static_immutable.

(* whole programs: a const global has its initial value in the final state of every run *)
Theorem const_global_immutable_program : forall fuel p s0 x e,
  init_state p = Some s0 -> assoc x (sglob s0) = Some e -> econst e = true ->
  assoc x (sglob (snd (exec_list (exec (pfuncs p) fuel) (pmain p) s0))) = Some e.
Proof.
  intros fuel p s0 x e Hi H Hc. eapply const_global_kept; [apply cpres_exec_list| |exact H|exact Hc].
  unfold init_state in Hi. destruct (init_globals (pglobals p) []); [|discriminate]. injection Hi as <-. discriminate.
Qed.
Print Assumptions const_global_immutable_program.

(* a refused store is the last thing the program does *)
Theorem rejected_store_ends_run : forall ex ss1 ss2 s s',
  exec_list ex ss1 s = (Fail EConst, s') -> exec_list ex (ss1 ++ ss2) s = (Fail EConst, s').
Proof. exact RefConst.rejected_store_ends_run. Qed.
Print Assumptions rejected_store_ends_run.

(* ================================================================== Part 2: pointers and references *)

(* the discipline "a pointer that permits writes never points at something protected" survives every script *)
Theorem ptr_discipline_invariant : forall pol, all_checked pol -> forall ops i s, Inv s -> Inv (fst (run_from pol i s ops)).
Proof. exact run_inv_l. Qed.
Print Assumptions ptr_discipline_invariant.

(* every protected slot (const object, member of a const struct, const member) has its initial value
   after every script of direct stores, whole-object assignments, pointer declarations / assignments /
   copies / arithmetic, stores through pointers, reference bindings and pointer arguments *)
Theorem const_slots_immutable : forall pol, all_checked pol -> forall ops i s o k ob,
  Inv s -> nth_error (objs s) o = Some ob -> slot_prot ob k = true ->
  read_slot (fst (run_from pol i s ops)) o k = read_slot s o k.
Proof. exact const_slots_immutable_l. Qed.
Print Assumptions const_slots_immutable.

Theorem const_ptr_not_reseated : forall pol, all_checked pol -> forall ops i s p pt,
  nth_error (ptrs s) p = Some pt -> pcc pt = true -> nth_error (ptrs (fst (run_from pol i s ops))) p = Some pt.
Proof. exact const_ptr_not_reseated_l. Qed.
Print Assumptions const_ptr_not_reseated.

(* the address of a protected object is refused at a declaration, an assignment and a call when the
   receiving pointer permits writes, and accepted by a pointer to const *)
Theorem addr_of_const_needs_const_ptr : forall pol s t, all_checked pol -> valid_tgt s t = true -> tgt_prot s t = true ->
  (forall cc, exists st, step pol s (OPtrNew false cc (Some (PAddr t))) = Rejected st) /\
  (forall p pt, nth_error (ptrs s) p = Some pt -> ppc pt = false -> exists st, step pol s (OPtrSet p (PAddr t)) = Rejected st) /\
  (forall u, step pol s (OPtrCall (PAddr t) u) = Stuck \/ exists st, step pol s (OPtrCall (PAddr t) u) = Rejected st) /\
  (forall cc, exists s', step pol s (OPtrNew true cc (Some (PAddr t))) = Ok s').
Proof. exact addr_of_const_needs_const_ptr_l. Qed.
Print Assumptions addr_of_const_needs_const_ptr.

(* nothing is stored through a pointer to const, and its constness cannot be dropped by a copy or a call *)
Theorem pointee_const_no_write : forall pol s p pt, all_checked pol -> nth_error (ptrs s) p = Some pt -> ppc pt = true ->
  (forall f m u, step pol s (OPtrStore f p m u) = Stuck \/ exists st, step pol s (OPtrStore f p m u) = Rejected st) /\
  (forall cc, exists st, step pol s (OPtrNew false cc (Some (PCopy p))) = Rejected st) /\
  (forall u, step pol s (OPtrCall (PCopy p) u) = Stuck \/ exists st, step pol s (OPtrCall (PCopy p) u) = Rejected st).
Proof. exact ptc_no_write_l. Qed.
Print Assumptions pointee_const_no_write.

Theorem direct_mutation_rejected : forall pol s o k ob, all_checked pol ->
  nth_error (objs s) o = Some ob -> slot_prot ob k = true -> (k < length (ovals ob))%nat ->
  (forall f u, exists st, step pol s (ODirect f o k u) = Rejected st) /\
  (forall param rc u, exists st, step pol s (ORef param rc o k u) = Rejected st) /\
  (oconst ob = true -> forall vs, step pol s (OWhole o vs) = Stuck \/ step pol s (OWhole o vs) = Rejected SWholeConst).
Proof. exact direct_mutation_rejected_l. Qed.
Print Assumptions direct_mutation_rejected.

(* each of the 31 tests is necessary: with all the others in place and this one missing, a script
   changes a protected slot or re-seats a const pointer *)
Theorem every_const_test_is_necessary : forall st, broken (all_but st) (fst (witness st)) (snd (witness st)).
Proof. exact site_necessary_l. Qed.
Print Assumptions every_const_test_is_necessary.

(* the matrix of the property: in every expressible cell (object kind x mutation path) the attempt is
   refused, and the same program without the qualifier runs and changes the value *)
Theorem matrix_rejected : forall k p c, scenario true k p = Some c -> Inv (fst c) /\ verdict_of spec c = VRejected.
Proof. exact matrix_spec_rejected_l. Qed.
Print Assumptions matrix_rejected.

Theorem matrix_twin_accepted : forall k p c, scenario false k p = Some c -> verdict_of spec c = VChanged.
Proof. exact matrix_twin_accepted_l. Qed.
Print Assumptions matrix_twin_accepted.

(* ------------------------------------------------------------------ the pinned implementation *)
(* the tests it makes do reject *)
Theorem mech_rejects_where_checked : forall st, mech_chk st = true -> verdict_of mech (witness st) = VRejected.
Proof. exact mech_checked_reject_l. Qed.
Print Assumptions mech_rejects_where_checked.

(* the nine tests added by the repairs c8a1652 (x++, a[i]++, s.m++, ( *p)++ on something const), a842ca6 (p++ on a
   T* const), 8c94aff (T* p = &c), a242434 (T& parameter), 38104c4 (T& r = c), 29cf056 (p->m = v through a
   const S* ): each is made now, refuses its witness, and nothing protected changes (formerly `_refuted`) *)
Theorem mech_repaired_tests_reject : forall st, In st repaired_sites ->
  mech_chk st = true /\ verdict_of mech (witness st) = VRejected /\ breaks mech (witness st) = false.
Proof. exact repaired_sites_reject_l. Qed.
Print Assumptions mech_repaired_tests_reject.

(* the matrix: the implementation refuses every expressible cell except nine; in particular all rows of the
   scalar kinds, const struct, global, parameter and const pointer, and the cells of DESIGN.md #16 #17 #18 *)
Theorem mech_matrix_rejected : forall k p c,
  scenario true k p = Some c -> ~ In (k, p) open_cells -> verdict_of mech c = VRejected.
Proof. exact mech_matrix_rejected_l. Qed.
Print Assumptions mech_matrix_rejected.

(* it still lacks 9 of the 31 tests ... *)
Theorem mech_missing_tests_refuted : mech_holes =
  [SWholeMemberConst; SDerefExprStore; SPtrMemberConst; SAddrSubAssign; SAddrSubDecl; SAddrArg; SPtrCopyAssign; SPtrCopyDecl;
   SConstRefStore].
Proof. exact mech_holes_list. Qed.
Print Assumptions mech_missing_tests_refuted.

(* ... and for each of them a script changes a const object: const_slots_immutable does not hold for the
   implementation as it is *)
Theorem mech_const_immutable_refuted : forall st, In st mech_value_holes -> broken mech (fst (witness st)) (snd (witness st)).
Proof. exact mech_refuted_l. Qed.
Print Assumptions mech_const_immutable_refuted.

(* in the matrix: 9 of the 111 expressible cells are still not refused (address of an element / member of a
   const aggregate, const members through the whole struct or an S*, pointer copies dropping the pointee const) *)
Theorem mech_matrix_refuted :
  n_applicable = 111%nat /\ mech_matrix_holes = open_cells /\
  forall kp, In kp open_cells -> exists c, scenario true (fst kp) (snd kp) = Some c /\ verdict_of mech c = VChanged.
Proof. split; [vm_compute; reflexivity|]. split; [exact mech_matrix_holes_list|exact mech_matrix_open_l]. Qed.
Print Assumptions mech_matrix_refuted.

(* ------------------------------------------------------------------ non-vacuity *)
Example const_global_program :
  let ti := {| base := TInt; uns := false |} in
  let p := {| pglobals := [ {| gcst := true; gty := ti; gname := 1%nat; gdims := []; ginit := [5] |} ]; pfuncs := [];
              pmain := [ SPrint true [EVar 1%nat]; SAssign (LVar 1%nat) (Some Add) (ENum 1); SPrint true [EVar 1%nat] ] |} in
  Print.run 50%nat p = ([OInt 5; ONl], Failed EConst).
Proof. vm_compute. reflexivity. Qed.

Example const_local_array_program :
  let ti := {| base := TInt; uns := false |} in
  let p := {| pglobals := []; pfuncs := [];
              pmain := [ SArr true ti 1%nat [3%nat] [ENum 1; ENum 2; ENum 3]; SPrint true [EIdx 1%nat [ENum 1]];
                         SIncDec false true (LIdx 1%nat [ENum 1]); SPrint true [EIdx 1%nat [ENum 1]] ] |} in
  Print.run 50%nat p = ([OInt 2; ONl], Failed EConst).
Proof. vm_compute. reflexivity. Qed.

Example spec_is_all_checked : all_checked spec.
Proof. exact spec_all_checked. Qed.
