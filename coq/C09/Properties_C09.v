(* C09 - property theorems only (proofs in C09/RefConst.v, C09/PtrLemmas.v, C09/MatrixLemmas.v).
   Part 1 is about Ref, the shared reference interpreter coq/Lang (const scalars and arrays: globals,
   locals, statics).  Part 2 is about the pointer / reference machine C09/ConstPtr.v under [spec]
   (every const test made) and under [mech] (the tests the pinned implementation makes). *)
From Coq Require Import List ZArith Bool Arith.
From Cb Require Import Lang.Syntax Lang.Sem Lang.Respect Lang.Theorems Lang.Print.
From Cb Require Import C09.RefConst C09.ConstPtr C09.PtrLemmas C09.Model C09.MatrixLemmas C09.ChainLemmas.
Import ListNotations.
Local Open Scope Z_scope.

(* ================================================================== Part 1: Ref *)

(* The one store primitive of Ref refuses a const target and leaves the state as it was. *)
Theorem const_write_rejected : forall x idx v s e,
  get_entry x s = Some e -> econst e = true -> m_write x idx v s = (Fail EConst, s).
Proof. exact const_write_rejected_l. Qed.
Print Assumptions const_write_rejected.

(* Every mutation form of CbCore (=, op=, ++/-- on a variable or an array element) applied to a
   visible const entry ends in an error and leaves the state unchanged; the plain stores fail with
   the const error itself (read-modify-write forms read first and may report the read / arithmetic
   error instead). *)
Theorem mutation_rejected : forall funcs k (m : mutation) s e,
  get_entry (mut_target m) s = Some e -> econst e = true ->
  (exists er, exec funcs (S (S (S k))) (mut_stmt m) s = (Fail er, s)) /\
  (mut_plain m = true -> exec funcs (S (S (S k))) (mut_stmt m) s = (Fail EConst, s)).
Proof. exact mutation_rejected_l. Qed.
Print Assumptions mutation_rejected.

(* ... with an arbitrary right-hand side: whatever it computes and does, the store is refused. *)
Theorem assign_rejected_general : forall funcs k x rhs s v s1 e,
  eval funcs k rhs s = (Val v, s1) -> get_entry x s1 = Some e -> econst e = true ->
  exec funcs (S k) (SAssign (LVar x) None rhs) s = (Fail EConst, s1).
Proof. exact assign_rejected_general_l. Qed.
Print Assumptions assign_rejected_general.

(* For every function table, fuel, expression / statement and start state: the stack has the same
   shape afterwards, every scope (globals, statics of each function, every block of every frame)
   still has all its old entries, and every entry that was const is the same entry. *)
Theorem const_immutable_run : forall funcs n,
  (forall e, respects cpres (eval funcs n e)) /\ (forall st, respects cpres (exec funcs n st)).
Proof. exact cpres_run_l. Qed.
Print Assumptions const_immutable_run.

(* what [cpres] gives for a const global (by name), a const local (by identity: frame, block and
   declaration index counted from the oldest) and a const static *)
Theorem const_global_immutable : forall s s' x e,
  cpres s s' -> sframes s <> [] -> assoc x (sglob s) = Some e -> econst e = true -> assoc x (sglob s') = Some e.
Proof. exact const_global_kept. Qed.
Print Assumptions const_global_immutable.

Theorem const_local_immutable : forall s s' fi si ei x e,
  cpres s s' -> local_at s fi si ei = Some (x, e) -> econst e = true -> local_at s' fi si ei = Some (x, e).
Proof. exact const_local_kept. Qed.
Print Assumptions const_local_immutable.

Theorem const_static_immutable : forall s s' f k x e,
  cpres s s' -> nth_old (statics_of f s) k = Some (x, e) -> econst e = true -> nth_old (statics_of f s') k = Some (x, e).
Proof. exact const_static_kept. Qed.
Print Assumptions const_static_immutable.

(* whole programs: a const global has its initial value in the final state of every run *)
Theorem const_global_immutable_program : forall fuel p s0 x e,
  init_state p = Some s0 -> assoc x (sglob s0) = Some e -> econst e = true ->
  assoc x (sglob (snd (exec_list (exec (pfuncs p) fuel) (pmain p) s0))) = Some e.
Proof.
  intros fuel p s0 x e Hi H Hc. eapply const_global_kept; [apply cpres_exec_list| |exact H|exact Hc].
  unfold init_state in Hi. destruct (init_globals (pglobals p) []); [|discriminate]. injection Hi as <-. discriminate.
Qed.
Print Assumptions const_global_immutable_program.

(* a refused store is the last thing the program does *)
Theorem rejected_store_ends_run : forall ex ss1 ss2 s s',
  exec_list ex ss1 s = (Fail EConst, s') -> exec_list ex (ss1 ++ ss2) s = (Fail EConst, s').
Proof. exact RefConst.rejected_store_ends_run. Qed.
Print Assumptions rejected_store_ends_run.

(* ================================================================== Part 2: pointers and references *)

(* the discipline "a pointer that permits writes never points at something protected" survives every script *)
Theorem ptr_discipline_invariant : forall pol, all_checked pol -> forall ops i s, Inv s -> Inv (fst (run_from pol i s ops)).
Proof. exact run_inv_l. Qed.
Print Assumptions ptr_discipline_invariant.

(* every protected slot (const object, member of a const struct, const member) has its initial value
   after every script of direct stores, whole-object assignments, pointer declarations / assignments /
   copies / arithmetic, stores through pointers, reference bindings and pointer arguments *)
Theorem const_slots_immutable : forall pol, all_checked pol -> forall ops i s o k ob,
  Inv s -> nth_error (objs s) o = Some ob -> slot_prot ob k = true ->
  read_slot (fst (run_from pol i s ops)) o k = read_slot s o k.
Proof. exact const_slots_immutable_l. Qed.
Print Assumptions const_slots_immutable.

(* a `T* const` pointer, a reference and an array parameter refer to the same thing after every script *)
Theorem const_ptr_not_reseated : forall pol, all_checked pol -> forall ops i s p pt,
  nth_error (ptrs s) p = Some pt -> pcc pt = true ->
  exists pt', nth_error (ptrs (fst (run_from pol i s ops))) p = Some pt' /\ same_handle pt pt'.
Proof. exact const_ptr_not_reseated_l. Qed.
Print Assumptions const_ptr_not_reseated.

(* "store through a pointer or reference derived from it is rejected": no script ever carries out a store through a
   handle that is const (const T*, const T&, const T[n] parameter) or that was derived - over any number of copies,
   re-bindings and calls - from a const handle or from the address of something protected (ghost flag [gbad]) *)
Theorem no_store_through_const_view : forall pol, all_checked pol -> forall ops i s, Inv s -> gbad (fst (run_from pol i s ops)) = gbad s.
Proof. exact no_store_through_const_view_l. Qed.
Print Assumptions no_store_through_const_view.

(* the address of a protected object is refused at a declaration, an assignment, as the argument of a call that stores
   and as the argument of a `T*` parameter when the receiving pointer permits writes; accepted by a pointer to const *)
Theorem addr_of_const_needs_const_ptr : forall pol s t, all_checked pol -> valid_tgt s t = true -> tgt_prot s t = true ->
  (forall cc, exists st, step pol s (OPtrNew false cc (Some (PAddr t))) = Rejected st) /\
  (forall p pt, nth_error (ptrs s) p = Some pt -> is_ptr pt = true -> ppc pt = false -> exists st, step pol s (OPtrSet p (PAddr t)) = Rejected st) /\
  (forall u, step pol s (OPtrCall (PAddr t) u) = Stuck \/ exists st, step pol s (OPtrCall (PAddr t) u) = Rejected st) /\
  (exists st, step pol s (OPtrParam false (PAddr t)) = Rejected st) /\
  (forall cc, exists s', step pol s (OPtrNew true cc (Some (PAddr t))) = Ok s') /\
  (exists s', step pol s (OPtrParam true (PAddr t)) = Ok s').
Proof. exact addr_of_const_needs_const_ptr_l. Qed.
Print Assumptions addr_of_const_needs_const_ptr.

(* nothing is stored through a pointer to const - variable or parameter -, and its constness cannot be dropped by a copy
   (declaration or assignment), by a call that stores, or by passing it on to a `T*` parameter of a further callee *)
Theorem pointee_const_no_write : forall pol s p pt, all_checked pol -> nth_error (ptrs s) p = Some pt -> is_ptr pt = true -> ppc pt = true ->
  (forall f m u, step pol s (OPtrStore f p m u) = Stuck \/ exists st, step pol s (OPtrStore f p m u) = Rejected st) /\
  (forall cc, exists st, step pol s (OPtrNew false cc (Some (PCopy p))) = Rejected st) /\
  (forall u, step pol s (OPtrCall (PCopy p) u) = Stuck \/ exists st, step pol s (OPtrCall (PCopy p) u) = Rejected st) /\
  (exists st, step pol s (OPtrParam false (PCopy p)) = Rejected st) /\
  (forall q pq, nth_error (ptrs s) q = Some pq -> is_ptr pq = true -> ppc pq = false -> exists st, step pol s (OPtrSet q (PCopy p)) = Rejected st).
Proof. exact ptc_no_write_l. Qed.
Print Assumptions pointee_const_no_write.

(* a reference to const - local or parameter -: no store goes through it, and no reference that permits writes is bound
   through it, neither by `T& r = cr;` nor by passing it to a `T&` parameter *)
Theorem const_ref_no_write : forall pol s h hp, all_checked pol -> nth_error (ptrs s) h = Some hp -> pkind hp = HRef -> ppc hp = true ->
  (forall f m u, step pol s (OHStore f h m u) = Stuck \/ exists st, step pol s (OHStore f h m u) = Rejected st) /\
  (forall par, step pol s (OHRef par false (HVia h)) = Stuck \/ exists st, step pol s (OHRef par false (HVia h)) = Rejected st).
Proof. exact cref_no_write_l. Qed.
Print Assumptions const_ref_no_write.

(* no reference that permits writes is bound to a protected scalar or struct variable *)
Theorem bind_const_rejected : forall pol s o ob, all_checked pol -> nth_error (objs s) o = Some ob -> oshape ob <> Arr ->
  tgt_prot s (ref_tgt ob o) = true ->
  forall par, step pol s (OHRef par false (HObj o)) = Stuck \/ exists st, step pol s (OHRef par false (HObj o)) = Rejected st.
Proof. exact bind_const_rejected_l. Qed.
Print Assumptions bind_const_rejected.

(* an array parameter with a const anywhere up its chain of calls (itself, the array or array parameter it was bound to,
   or further up): no element store, ++/-- or whole-array assignment goes through it, and every array parameter bound
   through it is in the same position *)
Theorem array_param_no_write : forall pol s h hp, all_checked pol -> nth_error (ptrs s) h = Some hp -> pkind hp = HAlias -> hconst hp = true ->
  (forall f m u, step pol s (OHStore f h m u) = Stuck \/ exists st, step pol s (OHStore f h m u) = Rejected st) /\
  (forall vs, step pol s (OHWhole h vs) = Stuck \/ exists st, step pol s (OHWhole h vs) = Rejected st) /\
  (forall rc s', step pol s (OHRef true rc (HVia h)) = Ok s' ->
     exists hp', nth_error (ptrs s') (length (ptrs s)) = Some hp' /\ pkind hp' = HAlias /\ hconst hp' = true /\ ptgt hp' = ptgt hp).
Proof. exact alias_no_write_l. Qed.
Print Assumptions array_param_no_write.

Theorem direct_mutation_rejected : forall pol s o k ob, all_checked pol ->
  nth_error (objs s) o = Some ob -> slot_prot ob k = true -> (k < length (ovals ob))%nat ->
  (forall f u, exists st, step pol s (ODirect f o k u) = Rejected st) /\
  (forall param rc u, exists st, step pol s (ORef param rc o k u) = Rejected st) /\
  (oconst ob = true -> forall vs, step pol s (OWhole o vs) = Stuck \/ step pol s (OWhole o vs) = Rejected SWholeConst).
Proof. exact direct_mutation_rejected_l. Qed.
Print Assumptions direct_mutation_rejected.

(* ------------------------------------------------------------------ derivation chains across call boundaries *)
(* object -> handle -> handle -> ... -> store.  [chain_statement c v]: the start state respects the discipline, the
   property's verdict is v, and where the implementation's verdict differs the refusing test is one it lacks.
   v = rejected as soon as the object or ANY link is const, changed otherwise (the twin). *)

(* references: every chain of 1..3 links, each a local `[const] T& r = ..;` or a `[const] T&` parameter of a further
   callee, from a scalar or a struct, with or without a read through the last reference, final store = or op= *)
Theorem ref_chain_matrix : forall cst strct rd ls f, ls <> [] -> (length ls <= 3)%nat -> f <> FIncDec ->
  chain_statement (ref_chain cst strct rd ls f) (chain_expect cst (map snd ls)).
Proof. exact ref_chain_matrix_l. Qed.
Print Assumptions ref_chain_matrix.

(* array parameters: every chain of 1..4 calls, final store a[i] = / op= / ++ / whole-array assignment *)
Theorem alias_chain_matrix : forall cst ls f, ls <> [] -> (length ls <= 4)%nat -> In f alias_finals ->
  chain_statement (alias_chain cst ls f) (chain_expect cst ls).
Proof. exact alias_chain_matrix_l. Qed.
Print Assumptions alias_chain_matrix.

(* pointers: every chain of 1..3 links, each acquired at a declaration, by assignment or as the `[const] T*` parameter
   of a further callee, from a scalar / array element / struct / struct member, every final store form *)
Theorem ptr_chain_matrix : forall cst r ls f, ls <> [] -> (length ls <= 3)%nat -> In f (proot_forms r) ->
  chain_statement (ptr_chain cst r ls f) (chain_expect cst (map snd ls)).
Proof. exact ptr_chain_matrix_l. Qed.
Print Assumptions ptr_chain_matrix.

(* chains of ANY length from a const scalar / struct (references) or a const array (array parameters) end in a refusal *)
Theorem ref_chain_rejected_any_depth : forall pol strct rd ls f, all_checked pol -> ls <> [] -> f <> FIncDec ->
  exists i st, snd (run pol (fst (ref_chain true strct rd ls f)) (snd (ref_chain true strct rd ls f))) = RejectedAt i st.
Proof. exact ref_chain_rejected_any_depth_l. Qed.
Print Assumptions ref_chain_rejected_any_depth.

Theorem alias_chain_rejected_any_depth : forall pol ls fin, all_checked pol -> ls <> [] ->
  exists i st, snd (run pol (fst (alias_chain true ls fin)) (snd (alias_chain true ls fin))) = RejectedAt i st.
Proof. exact alias_chain_rejected_any_depth_l. Qed.
Print Assumptions alias_chain_rejected_any_depth.

(* each of the 46 tests is necessary: with all the others in place and this one missing, a script changes a protected
   slot, re-seats a const pointer or carries out a store through a const view *)
Theorem every_const_test_is_necessary : forall st, broken (all_but st) (fst (witness st)) (snd (witness st)).
Proof. exact site_necessary_l. Qed.
Print Assumptions every_const_test_is_necessary.

(* the matrix of the property: in every expressible cell (object kind x mutation path) the attempt is
   refused, and the same program without the qualifier runs and changes the value *)
Theorem matrix_rejected : forall k p c, scenario true k p = Some c -> Inv (fst c) /\ verdict_of spec c = VRejected.
Proof. exact matrix_spec_rejected_l. Qed.
Print Assumptions matrix_rejected.

Theorem matrix_twin_accepted : forall k p c, scenario false k p = Some c -> verdict_of spec c = VChanged.
Proof. exact matrix_twin_accepted_l. Qed.
Print Assumptions matrix_twin_accepted.

(* ------------------------------------------------------------------ the pinned implementation *)
(* the tests it makes do reject *)
Theorem mech_rejects_where_checked : forall st, mech_chk st = true -> verdict_of mech (witness st) = VRejected.
Proof. exact mech_checked_reject_l. Qed.
Print Assumptions mech_rejects_where_checked.

(* the nine tests added by the repairs c8a1652 (x++, a[i]++, s.m++, ( *p)++ on something const), a842ca6 (p++ on a
   T* const), 8c94aff (T* p = &c), a242434 (T& parameter), 38104c4 (T& r = c), 29cf056 (p->m = v through a
   const S* ): each is made now, refuses its witness, and nothing protected changes (formerly `_refuted`) *)
Theorem mech_repaired_tests_reject : forall st, In st repaired_sites ->
  mech_chk st = true /\ verdict_of mech (witness st) = VRejected /\ breaks mech (witness st) = false.
Proof. exact repaired_sites_reject_l. Qed.
Print Assumptions mech_repaired_tests_reject.

(* the matrix: the implementation refuses every expressible cell except nine; in particular all rows of the
   scalar kinds, const struct, global, parameter and const pointer, and the cells of DESIGN.md #16 #17 #18 *)
Theorem mech_matrix_rejected : forall k p c,
  scenario true k p = Some c -> ~ In (k, p) open_cells -> verdict_of mech c = VRejected.
Proof. exact mech_matrix_rejected_l. Qed.
Print Assumptions mech_matrix_rejected.

(* it lacks 17 of the 46 tests (9 of the original 31, 8 of the 15 on derivation chains) ... *)
Theorem mech_missing_tests_refuted : mech_holes =
  [SWholeMemberConst; SDerefExprStore; SPtrMemberConst; SAddrSubAssign; SAddrSubDecl; SAddrArg; SPtrCopyAssign; SPtrCopyDecl;
   SConstRefStore; SRefLocalCRef; SRefParamViaParam; SRefStructFresh; SPtcParamStore; SPtrCopyArgParam;
   SAliasParentIncDec; SAliasParentWhole; SAliasDeep].
Proof. exact mech_holes_list. Qed.
Print Assumptions mech_missing_tests_refuted.

(* ... and for each of them a script changes a const object: const_slots_immutable does not hold for the
   implementation as it is *)
Theorem mech_const_immutable_refuted : forall st, In st mech_value_holes -> broken mech (fst (witness st)) (snd (witness st)).
Proof. exact mech_refuted_l. Qed.
Print Assumptions mech_const_immutable_refuted.

(* in the matrix: 9 of the 111 expressible cells are still not refused (address of an element / member of a
   const aggregate, const members through the whole struct or an S*, pointer copies dropping the pointee const) *)
Theorem mech_matrix_refuted :
  n_applicable = 111%nat /\ mech_matrix_holes = open_cells /\
  forall kp, In kp open_cells -> exists c, scenario true (fst kp) (snd kp) = Some c /\ verdict_of mech c = VChanged.
Proof. split; [vm_compute; reflexivity|]. split; [exact mech_matrix_holes_list|exact mech_matrix_open_l]. Qed.
Print Assumptions mech_matrix_refuted.

(* ------------------------------------------------------------------ non-vacuity *)
Example const_global_program :
  let ti := {| base := TInt; uns := false |} in
  let p := {| pglobals := [ {| gcst := true; gty := ti; gname := 1%nat; gdims := []; ginit := [5] |} ]; pfuncs := [];
              pmain := [ SPrint true [EVar 1%nat]; SAssign (LVar 1%nat) (Some Add) (ENum 1); SPrint true [EVar 1%nat] ] |} in
  Print.run 50%nat p = ([OInt 5; ONl], Failed EConst).
Proof. vm_compute. reflexivity. Qed.

Example const_local_array_program :
  let ti := {| base := TInt; uns := false |} in
  let p := {| pglobals := []; pfuncs := [];
              pmain := [ SArr true ti 1%nat [3%nat] [ENum 1; ENum 2; ENum 3]; SPrint true [EIdx 1%nat [ENum 1]];
                         SIncDec false true (LIdx 1%nat [ENum 1]); SPrint true [EIdx 1%nat [ENum 1]] ] |} in
  Print.run 50%nat p = ([OInt 2; ONl], Failed EConst).
Proof. vm_compute. reflexivity. Qed.

Example spec_is_all_checked : all_checked spec.
Proof. exact spec_all_checked. Qed.
