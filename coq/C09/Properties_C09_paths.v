(* C09 - property theorems about ACCESS PATHS into nested objects (proofs in C09/PathLemmas.v, C09/PathSweeps.v).
   The machine C09/Paths.v: a variable is a tree (scalars, arrays, structs, arrays of structs, any depth); `const` sits on
   the variable and on struct members; a store names its target by an l-value `x`, `e.m`, `e[i]` in any mix; [pspec]
   makes every const test, [pmech] the tests of the pinned implementation (one check site per path shape and reason). *)
From Coq Require Import List ZArith Bool Arith.
From Cb Require Import C09.Paths C09.PathLemmas C09.PathModel C09.PathSweeps.
Import ListNotations.
Local Open Scope Z_scope.

(* The walk that finds the variable whose const flag is tested (member_assignment.cpp nested branch: strip any mix of
   member accesses and subscripts) reaches the root of EVERY access path, and the child indices it passes are the path. *)
Theorem root_walk_finds_root : forall x p t, root_of (lv_of x p t) = x /\ lpath (lv_of x p t) = p.
Proof. exact root_walk_finds_root_l. Qed.
Print Assumptions root_walk_finds_root.

(* A walk that strips member accesses and then at most one subscript (enough for a.b.c and arr[i].b.c) finds the root
   exactly when no subscript comes after the first step: for c.items[i].v, c.in.items[i].v, m[i][j].v ... it finds
   nothing - and a test that is skipped when no root is found lets the store through. *)
Theorem narrow_walk_misses_subscript_after_first_step : forall p st x, length st = length p ->
  narrow_root (lv_from (LVar x) p st) = if existsb (fun b => b) (tl st) then None else Some x.
Proof. exact narrow_root_char. Qed.
Print Assumptions narrow_walk_misses_subscript_after_first_step.

(* Every scalar store (=, op=, ++/--) whose target is reached through a const variable or through a const member anywhere
   on the path is refused - whatever the depth and whatever mix of member accesses and subscripts the path is. *)
Theorem path_store_rejected : forall s e f u v old,
  nth_error s (root_of e) = Some v -> get (lpath e) (vtree v) = Some (TLeaf old) ->
  protected s (root_of e) (lpath e) = true -> exists st, pstep pspec s (OSet e f u) = PRejected st.
Proof. exact path_store_rejected_l. Qed.
Print Assumptions path_store_rejected.

(* ... and only then: without a const on the variable or on the way the same store is carried out on that cell. *)
Theorem path_store_accepted_without_const : forall s e f u v old,
  nth_error s (root_of e) = Some v -> get (lpath e) (vtree v) = Some (TLeaf old) ->
  protected s (root_of e) (lpath e) = false ->
  exists s', pstep pspec s (OSet e f u) = POk s' /\ cell s' (root_of e) (lpath e) = Some (pnewval f old u).
Proof. exact path_store_accepted_l. Qed.
Print Assumptions path_store_accepted_without_const.

(* A whole-sub-object store (struct variable, struct literal, array literal assigned to x, x.m, x.a[i], x[i] or deeper) is
   refused when the variable is const, a member on the way is const, or a const member lies INSIDE the overwritten part. *)
Theorem sub_store_rejected : forall s e lit src v sub n,
  nth_error s (root_of e) = Some v -> get (lpath e) (vtree v) = Some sub -> plain sub = false \/ (exists f, sub = TArr f) ->
  graft sub src = Some n ->
  vconst v || cpath (lpath e) (vtree v) || has_const sub = true ->
  exists st, pstep pspec s (OSub e lit src) = PRejected st.
Proof. exact sub_store_rejected_l. Qed.
Print Assumptions sub_store_rejected.

(* For every script of stores over any number of variables of any shape: every scalar cell that is protected (const
   variable, or a const member on the way to it) has its initial value afterwards. *)
Theorem path_cells_immutable : forall ops s s' oc x q z,
  prun pspec s ops = (s', oc) -> cell s x q = Some z -> protected s x q = true -> cell s' x q = Some z.
Proof. intros ops s s' oc x q z. exact (prun_spec_keeps ops 0 s s' oc x q z). Qed.
Print Assumptions path_cells_immutable.

(* Whatever tests a policy makes, stores change values only: which cells are protected is the same after every script
   (no store, accepted or not, can strip or add a const). *)
Theorem path_protection_invariant : forall pol ops s s' oc x q,
  prun pol s ops = (s', oc) -> protected s' x q = protected s x q.
Proof. intros pol ops s s' oc x q H. apply same_frame_protected. exact (prun_frame pol ops 0 s s' oc H). Qed.
Print Assumptions path_protection_invariant.

(* Each of the 79 tests (one per path shape x store form x reason) is needed: with all the others in place and this one
   missing its witness changes a protected cell; with all tests the witness is refused at that very site; the control
   twin without any const runs to the end. *)
Theorem every_path_test_is_necessary : forall st, site_occurs st = true ->
  rejected_at pspec (pwitness st) st /\ changes_protected (pall_but st) (pwitness st) /\
  snd (prun pspec (fst (ptwin st)) (snd (ptwin st))) = PDone.
Proof. exact every_path_test_is_necessary_l. Qed.
Print Assumptions every_path_test_is_necessary.

(* The policy of the pinned code: a test it makes refuses its witness at that site; a test it lacks lets the witness
   change a protected cell.  The 19 missing tests are listed (known findings). *)
Theorem pmech_rejects_where_checked : forall st, site_occurs st = true -> pmech st = true ->
  rejected_at pmech (pwitness st) st.
Proof. intros st H M. exact (proj1 (pmech_sites_l st H) M). Qed.
Print Assumptions pmech_rejects_where_checked.

Theorem pmech_missing_tests_refuted :
  pmech_missing =
    [PLast CRootIdx FSet; PLast CRootIdx FOp; PLast CMidIdx FSet; PLast CMidIdx FOp; PInner CChain; PInner CRootIdx; PInner CMidIdx;
     PSub SkWhole false RInStruct; PSub SkWhole false RInPlain; PSub SkWhole true RInPlain;
     PSub SkMember false RInStruct; PSub SkMember false RInPlain;
     PSub SkMemberElem false RInStruct; PSub SkMemberElem false RInPlain; PSub SkMemberElem true RInPlain;
     PSub SkRootElem false RInStruct; PSub SkRootElem false RInPlain;
     PSub SkRootElem true RInStruct; PSub SkRootElem true RInPlain] /\
  forall st, site_occurs st = true -> pmech st = false -> changes_protected pmech (pwitness st).
Proof. split; [exact pmech_missing_list | intros st H M; exact (proj2 (pmech_sites_l st H) M)]. Qed.
Print Assumptions pmech_missing_tests_refuted.

(* The universe the tie enumerates (8 object graphs x const on nothing / the variable / one member x every scalar cell
   x =, op=, ++  and every inner node x variable / literal source): under all tests a case is refused exactly when its
   target is protected, otherwise the store lands on that cell only; the code's policy gives the same verdict and the
   same values except where every applicable reason is a test it lacks. *)
Theorem path_universe_matrix :
  (forall c, In c universe_sets -> set_case_ok c = true) /\ (forall c, In c universe_subs -> sub_case_ok c = true).
Proof. exact (conj universe_sets_l universe_subs_l). Qed.
Print Assumptions path_universe_matrix.

Example path_hypotheses_satisfiable :
  let v := placed UO PlRoot 1 in
  let e := lv_of 0 [3; 1; 1]%nat (vtree v) in
  root_of e = 0%nat /\ get (lpath e) (vtree v) = Some (TLeaf 13) /\ protected [v] 0 (lpath e) = true /\
  narrow_root e = None /\ pstep pspec [v] (OSet e FSet 99) = PRejected (PRoot CMidIdx FSet).
Proof. vm_compute. repeat split. Qed.
