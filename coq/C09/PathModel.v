(* C09 - the object graphs over which access paths are enumerated, and one witness script per check site of Paths.v.
   Definitions only (sweeps in PathSweeps.v).  The Cb text of every graph is produced generically from the tree by
   harness/gen_c09_paths.py (struct types are synthesised from the shapes).

     struct I { int v; int w; };
     struct N { I in; int n; };
     struct O { int k; int[3] a; N in; N[2] items; };
     struct Q { O in; int z; };
   roots:  O x;  N x;  I x;  N[2] x;  I[2] x;  Q x;  I[2][2] x;  int[3] x;
   a [gflags] says which members are declared const. *)
From Coq Require Import List ZArith Bool Arith.
From Cb Require Import C09.Paths.
Import ListNotations.
Local Open Scope Z_scope.

Record gflags := { f_v : bool; f_in : bool; f_n : bool; f_k : bool; f_a : bool; f_oin : bool; f_items : bool; f_q : bool }.
Definition no_flags : gflags :=
  {| f_v := false; f_in := false; f_n := false; f_k := false; f_a := false; f_oin := false; f_items := false; f_q := false |}.
Inductive gflag := GV | GIn | GN | GK | GA | GOin | GItems | GQ.
Definition all_gflags := [GV; GIn; GN; GK; GA; GOin; GItems; GQ].
Definition one_flag (g : gflag) : gflags :=
  match g with
  | GV => {| f_v := true; f_in := false; f_n := false; f_k := false; f_a := false; f_oin := false; f_items := false; f_q := false |}
  | GIn => {| f_v := false; f_in := true; f_n := false; f_k := false; f_a := false; f_oin := false; f_items := false; f_q := false |}
  | GN => {| f_v := false; f_in := false; f_n := true; f_k := false; f_a := false; f_oin := false; f_items := false; f_q := false |}
  | GK => {| f_v := false; f_in := false; f_n := false; f_k := true; f_a := false; f_oin := false; f_items := false; f_q := false |}
  | GA => {| f_v := false; f_in := false; f_n := false; f_k := false; f_a := true; f_oin := false; f_items := false; f_q := false |}
  | GOin => {| f_v := false; f_in := false; f_n := false; f_k := false; f_a := false; f_oin := true; f_items := false; f_q := false |}
  | GItems => {| f_v := false; f_in := false; f_n := false; f_k := false; f_a := false; f_oin := false; f_items := true; f_q := false |}
  | GQ => {| f_v := false; f_in := false; f_n := false; f_k := false; f_a := false; f_oin := false; f_items := false; f_q := true |}
  end.

Definition f2 (c1 : bool) (t1 : tree) (c2 : bool) (t2 : tree) : forest := FCons c1 t1 (FCons c2 t2 FNil).
Definition ints (b : Z) (n : nat) : forest :=
  (fix go (k : nat) (v : Z) : forest := match k with O => FNil | S k' => FCons false (TLeaf v) (go k' (v + 1)) end) n b.

Definition gI (fl : gflags) (b : Z) : tree := TRec (f2 (f_v fl) (TLeaf b) false (TLeaf (b + 1))).
Definition gN (fl : gflags) (b : Z) : tree := TRec (f2 (f_in fl) (gI fl b) (f_n fl) (TLeaf (b + 2))).
Definition gO (fl : gflags) (b : Z) : tree :=
  TRec (FCons (f_k fl) (TLeaf b)
      (FCons (f_a fl) (TArr (ints (b + 1) 3))
      (FCons (f_oin fl) (gN fl (b + 4))
      (FCons (f_items fl) (TArr (f2 false (gN fl (b + 7)) false (gN fl (b + 10)))) FNil)))).
Definition gQ (fl : gflags) (b : Z) : tree := TRec (f2 (f_q fl) (gO fl b) false (TLeaf (b + 13))).
Definition gNs (fl : gflags) (b : Z) : tree := TArr (f2 false (gN fl b) false (gN fl (b + 3))).
Definition gIs (fl : gflags) (b : Z) : tree := TArr (f2 false (gI fl b) false (gI fl (b + 2))).
Definition gI2 (fl : gflags) (b : Z) : tree :=
  TArr (f2 false (TArr (f2 false (gI fl b) false (gI fl (b + 2)))) false (TArr (f2 false (gI fl (b + 4)) false (gI fl (b + 6))))).
Definition gInts (fl : gflags) (b : Z) : tree := TArr (ints b 3).

Inductive groot := UO | UN | UI | UNs | UIs | UQ | UI2 | UInts.
Definition all_groots := [UO; UN; UI; UNs; UIs; UQ; UI2; UInts].
Definition graph (g : groot) : gflags -> Z -> tree :=
  match g with UO => gO | UN => gN | UI => gI | UNs => gNs | UIs => gIs | UQ => gQ | UI2 => gI2 | UInts => gInts end.
(* the member flags that occur in a graph *)
Definition graph_flags (g : groot) : list gflag :=
  match g with
  | UO => [GV; GIn; GN; GK; GA; GOin; GItems]
  | UN | UNs => [GV; GIn; GN]
  | UI | UIs | UI2 => [GV]
  | UQ => [GV; GIn; GN; GK; GA; GOin; GItems; GQ]
  | UInts => []
  end.

(* a const placement: nothing / the variable / one member *)
Inductive placement := PlNone | PlRoot | PlMember (g : gflag).
Definition placements (g : groot) : list placement := PlNone :: PlRoot :: map PlMember (graph_flags g).
Definition placed (g : groot) (pl : placement) (b : Z) : pvar :=
  match pl with
  | PlNone => {| vconst := false; vtree := graph g no_flags b |}
  | PlRoot => {| vconst := true; vtree := graph g no_flags b |}
  | PlMember m => {| vconst := false; vtree := graph g (one_flag m) b |}
  end.

(* every case of the universe: a graph, a placement, a path and a store *)
Definition set_cases (g : groot) (pl : placement) : list (pstate * pop) :=
  let v := placed g pl 1 in
  flat_map (fun p => map (fun f => ([v], OSet (lv_of 0 p (vtree v)) f (match f with FSet => 77 | FOp => 5 | FInc => 1 end)))
                         all_sforms)
           (leaf_paths (vtree v)).
Definition sub_cases (g : groot) (pl : placement) : list (pstate * pop) :=
  let v := placed g pl 1 in
  flat_map (fun p => match get p (graph g no_flags 51) with
                     | Some src => map (fun lit => ([v], OSub (lv_of 0 p (vtree v)) lit src)) [false; true]
                     | None => []
                     end)
           (node_paths (vtree v)).

(* ------------------------------------------------------------------ one witness per check site *)
Definition wset (g : groot) (pl : placement) (p : path) (f : sform) : pstate * list pop :=
  let v := placed g pl 1 in ([v], [OSet (lv_of 0 p (vtree v)) f (match f with FSet => 77 | FOp => 5 | FInc => 1 end)]).
Definition wsub (g : groot) (pl : placement) (p : path) (lit : bool) : pstate * list pop :=
  let v := placed g pl 1 in
  ([v], [OSub (lv_of 0 p (vtree v)) lit (match get p (graph g no_flags 51) with Some t => t | None => TLeaf 0 end)]).

Definition cls_root (c : pcls) : groot * path :=
  match c with
  | CElem => (UInts, [1%nat])
  | CDirect => (UO, [0%nat])
  | CDirectElem => (UO, [1; 1]%nat)
  | CChain => (UO, [2; 1]%nat)             (* x.in.n *)
  | CRootIdx => (UNs, [1; 1]%nat)          (* x[1].n *)
  | CMidIdx => (UO, [3; 1; 1]%nat)         (* x.items[1].n *)
  | COther => (UQ, [0; 1; 1]%nat)          (* x.in.a[1] *)
  end.
Definition cls_last_flag (c : pcls) : gflag :=
  match c with CDirect => GK | CDirectElem => GA | COther => GA | _ => GN end.
Definition cls_inner (c : pcls) : groot * path * gflag :=
  match c with
  | CRootIdx => (UNs, [1; 0; 0]%nat, GIn)  (* x[1].in.v, `const I in;` *)
  | CMidIdx => (UO, [3; 1; 1]%nat, GItems) (* x.items[1].n, `const N[2] items;` *)
  | COther => (UQ, [0; 1; 1]%nat, GQ)      (* x.in.a[1], `const O in;` *)
  | _ => (UO, [2; 1]%nat, GOin)            (* x.in.n, `const N in;` *)
  end.
Definition kind_target (k : skind) : groot * path :=
  match k with
  | SkWhole => (UO, [])
  | SkMember => (UO, [2%nat])               (* x.in = t *)
  | SkMemberElem => (UO, [3; 1]%nat)        (* x.items[1] = t *)
  | SkRootElem => (UNs, [1%nat])            (* x[1] = t *)
  | SkDeep => (UQ, [0; 2]%nat)              (* x.in.in = t *)
  end.
Definition kind_reason (k : skind) (r : sreason) : placement :=
  match r with
  | RRoot => PlRoot
  | REdge => PlMember (match k with SkMember => GOin | SkMemberElem => GItems | _ => GQ end)
  | RInStruct => PlMember (match k with SkWhole => GOin | _ => GIn end)
  | RInPlain => PlMember GN
  end.

Definition pwitness (st : psite) : pstate * list pop :=
  match st with
  | PRoot c f => let '(g, p) := cls_root c in wset g PlRoot p f
  | PLast c f => let '(g, p) := cls_root c in wset g (PlMember (cls_last_flag c)) p f
  | PInner c => let '(g, p, m) := cls_inner c in wset g (PlMember m) p FSet
  | PSub k lit r => let '(g, p) := kind_target k in wsub g (kind_reason k r) p lit
  end.
(* the control twin: the same script with no const anywhere *)
Definition ptwin (st : psite) : pstate * list pop :=
  match st with
  | PRoot c f | PLast c f => let '(g, p) := cls_root c in wset g PlNone p f
  | PInner c => let '(g, p, _) := cls_inner c in wset g PlNone p FSet
  | PSub k lit _ => let '(g, p) := kind_target k in wsub g PlNone p lit
  end.

Definition poutcome_rejected_at (oc : poutcome) (st : psite) : bool :=
  match oc with PRejectedAt _ st' => psite_eqb st st' | _ => false end.
Definition poutcome_done (oc : poutcome) : bool := match oc with PDone => true | _ => false end.
Definition cells_of (s : pstate) : list Z := flat_map (fun v => cells (vtree v)) s.
Definition zlist_eqb (a b : list Z) : bool :=
  (fix go (a b : list Z) : bool :=
     match a, b with [] , [] => true | x :: r, y :: r' => (x =? y) && go r r' | _, _ => false end) a b.

(* the sites whose test the implementation lacks *)
Definition pmech_missing : list psite := filter (fun st => negb (pmech st)) all_psites.
