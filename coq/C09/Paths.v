(* C09 - access paths into nested objects.
   The machine of ConstPtr.v has flat objects (a struct is a list of integer slots).  This file models what it lacks: a
   variable is a TREE (struct of scalars / arrays / structs / arrays of structs, to any depth), `const` sits on the variable
   (the root) and on individual struct members (edges of the tree), and a store names its target by an ACCESS PATH - an
   l-value expression `x`, `e.m`, `e[i]` in any mix.  The implementation finds the variable whose const flag it tests by
   walking that expression (executors/assignments/member_assignment.cpp execute_member_assignment, nested branch :161-187)
   and picks the executor - and with it the const tests that are made - by the SHAPE of the path; both are explicit here
   ([root_of], [classify], one check site per shape and reason).  Definitions only; proofs in PathLemmas.v. *)
From Coq Require Import List ZArith Bool Arith.
Import ListNotations.
Local Open Scope Z_scope.

(* ------------------------------------------------------------------ nested values *)
(* [FCons c t r]: a child (struct member / array element) t; c = the member is declared `const` (array elements: false) *)
Inductive tree := TLeaf (z : Z) | TRec (f : forest) | TArr (f : forest)
with forest := FNil | FCons (c : bool) (t : tree) (r : forest).

Scheme tree_mind := Induction for tree Sort Prop
  with forest_mind := Induction for forest Sort Prop.
Combined Scheme tree_forest_ind from tree_mind, forest_mind.

Fixpoint fnth (f : forest) (i : nat) : option (bool * tree) :=
  match f with
  | FNil => None
  | FCons c t r => match i with O => Some (c, t) | S k => fnth r k end
  end.
Fixpoint fset (f : forest) (i : nat) (t' : tree) : forest :=
  match f with
  | FNil => FNil
  | FCons c t r => match i with O => FCons c t' r | S k => FCons c t (fset r k t') end
  end.
Fixpoint flen (f : forest) : nat := match f with FNil => O | FCons _ _ r => S (flen r) end.

(* the children of a node; the flag says whether a step into it is a subscript ([i]) or a member access (.m) *)
Definition kids (t : tree) : option (bool * forest) :=
  match t with TLeaf _ => None | TRec f => Some (false, f) | TArr f => Some (true, f) end.
Definition rebuild (t : tree) (f : forest) : tree :=
  match t with TRec _ => TRec f | TArr _ => TArr f | TLeaf z => TLeaf z end.

Definition path := list nat.

Fixpoint get (p : path) (t : tree) : option tree :=
  match p with
  | [] => Some t
  | i :: r => match kids t with
              | None => None
              | Some (_, f) => match fnth f i with None => None | Some (_, k) => get r k end
              end
  end.
Fixpoint put (p : path) (n : tree) (t : tree) : option tree :=
  match p with
  | [] => Some n
  | i :: r => match kids t with
              | None => None
              | Some (_, f) =>
                  match fnth f i with
                  | None => None
                  | Some (_, k) => match put r n k with None => None | Some k' => Some (rebuild t (fset f i k')) end
                  end
              end
  end.
(* the const flags of the edges along a path, and the kinds of its steps (true = subscript) *)
Fixpoint edges (p : path) (t : tree) : list bool :=
  match p with
  | [] => []
  | i :: r => match kids t with
              | None => []
              | Some (_, f) => match fnth f i with None => [] | Some (c, k) => c :: edges r k end
              end
  end.
Fixpoint steps (p : path) (t : tree) : list bool :=
  match p with
  | [] => []
  | i :: r => match kids t with
              | None => []
              | Some (ix, f) => match fnth f i with None => [] | Some (_, k) => ix :: steps r k end
              end
  end.
Definition cpath (p : path) (t : tree) : bool := existsb (fun b => b) (edges p t).

(* is a node "plain" (a scalar or an array of scalars) or does it contain structs? *)
Fixpoint all_leaves (f : forest) : bool :=
  match f with FNil => true | FCons _ (TLeaf _) r => all_leaves r | FCons _ _ _ => false end.
Definition plain (t : tree) : bool := match t with TLeaf _ => true | TArr f => all_leaves f | TRec _ => false end.
(* const members somewhere inside: of struct / struct-array type, of scalar / scalar-array type *)
Fixpoint in_struct (t : tree) : bool :=
  match t with TLeaf _ => false | TRec f | TArr f => fin_struct f end
with fin_struct (f : forest) : bool :=
  match f with FNil => false | FCons c t r => (c && negb (plain t)) || in_struct t || fin_struct r end.
Fixpoint in_plain (t : tree) : bool :=
  match t with TLeaf _ => false | TRec f | TArr f => fin_plain f end
with fin_plain (f : forest) : bool :=
  match f with FNil => false | FCons c t r => (c && plain t) || in_plain t || fin_plain r end.
Definition has_const (t : tree) : bool := in_struct t || in_plain t.

(* the values of [new] in the shape and with the flags of [old]; None = the shapes differ *)
Fixpoint graft (old new : tree) : option tree :=
  match old, new with
  | TLeaf _, TLeaf z => Some (TLeaf z)
  | TRec f, TRec g => match fgraft f g with Some h => Some (TRec h) | None => None end
  | TArr f, TArr g => match fgraft f g with Some h => Some (TArr h) | None => None end
  | _, _ => None
  end
with fgraft (f g : forest) : option forest :=
  match f, g with
  | FNil, FNil => Some FNil
  | FCons c t r, FCons _ t' r' =>
      match graft t t', fgraft r r' with Some a, Some b => Some (FCons c a b) | _, _ => None end
  | _, _ => None
  end.

(* all scalar cells, in declaration order (what an observation prints) *)
Fixpoint cells (t : tree) : list Z :=
  match t with TLeaf z => [z] | TRec f | TArr f => fcells f end
with fcells (f : forest) : list Z :=
  match f with FNil => [] | FCons _ t r => cells t ++ fcells r end.
Fixpoint leaf_paths (t : tree) : list path :=
  match t with TLeaf _ => [[]] | TRec f | TArr f => fpaths 0 f end
with fpaths (i : nat) (f : forest) : list path :=
  match f with FNil => [] | FCons _ t r => map (cons i) (leaf_paths t) ++ fpaths (S i) r end.
(* every node below the root that is not a scalar (targets of whole-sub-object stores) *)
Fixpoint node_paths (t : tree) : list path :=
  match t with TLeaf _ => [] | TRec f | TArr f => [] :: fnodes 0 f end
with fnodes (i : nat) (f : forest) : list path :=
  match f with FNil => [] | FCons _ t r => map (cons i) (node_paths t) ++ fnodes (S i) r end.

(* ------------------------------------------------------------------ l-values and the walk to the root *)
Inductive lv := LVar (x : nat) | LMem (e : lv) (m : nat) | LIdx (e : lv) (i : nat).

(* member_assignment.cpp:162  while (MEMBER_ACCESS or ARRAY_REF) root = root->left : strips any mix of the two *)
Fixpoint root_of (e : lv) : nat :=
  match e with LVar x => x | LMem e' _ => root_of e' | LIdx e' _ => root_of e' end.
(* the child indices from the root to the target (the kind of each step is fixed by the object: struct -> member) *)
Fixpoint lpath (e : lv) : path :=
  match e with LVar _ => [] | LMem e' m => lpath e' ++ [m] | LIdx e' i => lpath e' ++ [i] end.
(* the l-value that names child indices p of variable x in a tree of that shape *)
Fixpoint lv_from (e : lv) (p : path) (st : list bool) : lv :=
  match p, st with
  | i :: r, true :: sr => lv_from (LIdx e i) r sr
  | i :: r, _ :: sr => lv_from (LMem e i) r sr
  | i :: r, [] => lv_from (LMem e i) r []
  | [], _ => e
  end.
Definition lv_of (x : nat) (p : path) (t : tree) : lv := lv_from (LVar x) p (steps p t).

(* A narrower walk (what the code would do if it only expected `a.b.c` and `arr[i].b.c`): strip the member accesses,
   then at most one subscript.  PathLemmas.narrow_walk_incomplete: it misses the root of every path that has a subscript
   after a member access. *)
Fixpoint strip_members (e : lv) : lv := match e with LMem e' _ => strip_members e' | _ => e end.
Definition narrow_root (e : lv) : option nat :=
  match strip_members e with
  | LVar x => Some x
  | LIdx (LVar x) _ => Some x
  | _ => None
  end.

(* ------------------------------------------------------------------ check sites *)
Inductive sform := FSet | FOp | FInc.                          (* =   op=   ++/-- *)
(* the shape of a path to a scalar cell: which executor carries out the store
   CElem        x[i]                 int array variable (operations.cpp; also in ConstPtr.v)
   CDirect      x.m                  structs/assignment.cpp assign_struct_member; incdec.cpp member branch
   CDirectElem  x.a[i]               structs/assignment.cpp assign_struct_member_array_element
   CChain       x.a.b(.c ...)        member_assignment.cpp nested branch, only member accesses
   CRootIdx     x[i].a(.b ...)       member_assignment.cpp nested branch, subscript at the root
   CMidIdx      x.a[i].b(.c ...)     member_assignment.cpp nested branch, subscript in the middle of the chain
   COther       anything else (two subscripts, a subscript deeper down): not executable by the implementation *)
Inductive pcls := CElem | CDirect | CDirectElem | CChain | CRootIdx | CMidIdx | COther.
Definition all_mem (l : list bool) : bool := forallb negb l.
Definition classify (st : list bool) : pcls :=
  match st with
  | [true] => CElem
  | [false] => CDirect
  | [false; true] => CDirectElem
  | false :: false :: r => if all_mem r then CChain else COther
  | true :: false :: r => if all_mem r then CRootIdx else COther
  | false :: true :: false :: r => if all_mem r then CMidIdx else COther
  | _ => COther
  end.
(* whole-sub-object stores: x = ..; x.m = ..; x.a[i] = ..; x[i] = ..; deeper *)
Inductive skind := SkWhole | SkMember | SkMemberElem | SkRootElem | SkDeep.
(* (an ARRAY as the target - x.a = [..], x.items = t, x = arr - has no executor: SkDeep) *)
Definition sclassify (st : list bool) (sub : tree) : skind :=
  match st, sub with
  | [], TRec _ => SkWhole
  | [false], TRec _ => SkMember
  | [false; true], TRec _ => SkMemberElem
  | [true], TRec _ => SkRootElem
  | _, _ => SkDeep
  end.
(* why a whole-sub-object store must be refused: the variable is const; a member on the way to the target is const;
   a member of struct / struct-array type inside the target is const; a scalar / scalar-array member inside is const *)
Inductive sreason := RRoot | REdge | RInStruct | RInPlain.

Inductive psite :=
| PRoot (c : pcls) (f : sform)      (* the variable is const *)
| PLast (c : pcls) (f : sform)      (* the last member named by the path is a const member *)
| PInner (c : pcls)                 (* a member further up the path is const (of struct / array type) *)
| PSub (k : skind) (lit : bool) (r : sreason).   (* whole-sub-object store; lit: the source is a literal, else a variable *)

Definition sform_eqb (a b : sform) : bool :=
  match a, b with FSet, FSet | FOp, FOp | FInc, FInc => true | _, _ => false end.
Definition pcls_eqb (a b : pcls) : bool :=
  match a, b with
  | CElem, CElem | CDirect, CDirect | CDirectElem, CDirectElem | CChain, CChain | CRootIdx, CRootIdx | CMidIdx, CMidIdx
  | COther, COther => true
  | _, _ => false
  end.
Definition skind_eqb (a b : skind) : bool :=
  match a, b with
  | SkWhole, SkWhole | SkMember, SkMember | SkMemberElem, SkMemberElem | SkRootElem, SkRootElem | SkDeep, SkDeep => true
  | _, _ => false
  end.
Definition sreason_eqb (a b : sreason) : bool :=
  match a, b with RRoot, RRoot | REdge, REdge | RInStruct, RInStruct | RInPlain, RInPlain => true | _, _ => false end.
Definition psite_eqb (a b : psite) : bool :=
  match a, b with
  | PRoot c f, PRoot c' f' => pcls_eqb c c' && sform_eqb f f'
  | PLast c f, PLast c' f' => pcls_eqb c c' && sform_eqb f f'
  | PInner c, PInner c' => pcls_eqb c c'
  | PSub k l r, PSub k' l' r' => skind_eqb k k' && Bool.eqb l l' && sreason_eqb r r'
  | _, _ => false
  end.

Definition all_pcls := [CElem; CDirect; CDirectElem; CChain; CRootIdx; CMidIdx; COther].
Definition all_sforms := [FSet; FOp; FInc].
Definition all_skinds := [SkWhole; SkMember; SkMemberElem; SkRootElem; SkDeep].
Definition all_sreasons := [RRoot; REdge; RInStruct; RInPlain].
(* the sites that can occur: a path of one member has no member further up, an element of an int array variable no member
   at all; a whole-variable / root-element store has no member on the way *)
Definition site_occurs (st : psite) : bool :=
  match st with
  | PLast CElem _ | PInner CElem | PInner CDirect | PInner CDirectElem => false
  | PSub SkWhole _ REdge | PSub SkRootElem _ REdge => false
  | _ => true
  end.
Definition all_psites : list psite :=
  filter site_occurs
    (flat_map (fun c => map (PRoot c) all_sforms) all_pcls ++
     flat_map (fun c => map (PLast c) all_sforms) all_pcls ++
     map PInner all_pcls ++
     flat_map (fun k => flat_map (fun l => map (PSub k l) all_sreasons) [false; true]) all_skinds).

Definition ppolicy := psite -> bool.
Definition pspec : ppolicy := fun _ => true.
Definition pall_but (st : psite) : ppolicy := fun x => negb (psite_eqb x st).

(* What the implementation can execute at all (on NON-const objects; measured, see notes/C09.md "restrictions"): stores
   outside this envelope fail or are silently ignored for every operand, so there is nothing to compare there - the tie
   only demands that a const value does not change. *)
Definition exec_set (c : pcls) (f : sform) : bool :=
  match c, f with
  | CElem, _ | CDirect, _ => true
  | CDirectElem, FSet => true
  | CChain, FSet | CChain, FOp | CRootIdx, FSet | CRootIdx, FOp | CMidIdx, FSet | CMidIdx, FOp => true
  | _, _ => false
  end.
Definition exec_sub (k : skind) (lit : bool) : bool :=
  match k, lit with
  | SkWhole, _ => true
  | SkMember, false => true
  | SkMemberElem, _ | SkRootElem, _ => true
  | _, _ => false
  end.

(* the tests the pinned implementation makes (measured on the binary and read from the code named above):
   - the const of the VARIABLE is tested by every executor of a scalar store, whatever the shape of the path (the walk
     of the nested branch strips any mix of member accesses and subscripts);
   - the const of the LAST member is tested except when the path runs through an element of a struct array: for an
     element of a struct-array MEMBER (x.items[i].n) the first store after initialisation is carried out (the member
     variables of the element are created without `is_assigned`), for an element of a struct-array VARIABLE (x[i].n) every
     store is until a member of that element has been READ (the read materialises the element with its flags) - both
     are recorded as "test missing": the machine has no read history;
   - a const member further up the path (`const Inner in;`, `const Item[2] items;`) is never looked at;
   - whole-sub-object stores: see the table (assigning a struct VARIABLE / element / call result to an element of a struct
     array - x.items[i] = t, x[i] = t - tests the const of the array and of the variable it is a member of
     (Interpreter::assign_struct_to_array_element, since the repair of C09-struct-array-element-assign) but no const
     member inside the overwritten element; a struct literal assigned to an element of a struct-array member is tested
     like a declaration; x[i] = {..} on a const struct array tests the array's const only (simple_assignment.cpp)).
   Shapes outside [exec_set] / [exec_sub] have no executor; the entries there say `true` (nothing can be stored). *)
Definition pmech : ppolicy := fun st =>
  match st with
  | PRoot _ _ => true
  | PLast CMidIdx FSet | PLast CMidIdx FOp => false
  | PLast CRootIdx FSet | PLast CRootIdx FOp => false
  | PLast _ _ => true
  | PInner CChain | PInner CRootIdx | PInner CMidIdx => false
  | PInner _ => true
  | PSub SkWhole _ RRoot => true
  | PSub SkWhole true RInStruct => true
  | PSub SkWhole _ _ => false
  | PSub SkMember false RRoot | PSub SkMember false REdge => true
  | PSub SkMember false _ => false
  | PSub SkMember true _ => true
  | PSub SkMemberElem true RRoot | PSub SkMemberElem true REdge | PSub SkMemberElem true RInStruct => true
  | PSub SkMemberElem false RRoot | PSub SkMemberElem false REdge => true
  | PSub SkMemberElem _ _ => false
  | PSub SkRootElem _ RRoot => true
  | PSub SkRootElem _ _ => false
  | PSub SkDeep _ _ => true
  end.

(* ------------------------------------------------------------------ the machine *)
Record pvar := { vconst : bool; vtree : tree }.
Definition pstate := list pvar.

Inductive pop :=
| OSet (e : lv) (f : sform) (u : Z)              (* e = u;  e op= u;  e++ / e-- (u = 1 / -1):  e names a scalar cell *)
| OSub (e : lv) (lit : bool) (src : tree).       (* e = t; / e = {..}; / e = [..];  e names a struct or an array *)

Inductive pres := POk (s : pstate) | PRejected (st : psite) | PStuck.

Definition pnewval (f : sform) (old u : Z) : Z := match f with FSet => u | _ => old + u end.

Fixpoint upd_var (x : nat) (t : tree) (s : pstate) : pstate :=
  match s with
  | [] => []
  | v :: r => match x with O => {| vconst := vconst v; vtree := t |} :: r | S k => v :: upd_var k t r end
  end.

(* positions of the const members along the path *)
Fixpoint true_positions (i : nat) (l : list bool) : list nat :=
  match l with [] => [] | b :: r => (if b then [i] else []) ++ true_positions (S i) r end.
(* position of the last member access of a path (None: no member access) *)
Fixpoint last_member (i : nat) (st : list bool) : option nat :=
  match st with
  | [] => None
  | ix :: r => match last_member (S i) r with Some j => Some j | None => if ix then None else Some i end
  end.
(* every reason for which the store must be refused, each with the test that would refuse it *)
Definition set_reasons (v : pvar) (p : path) (f : sform) : list psite :=
  let st := steps p (vtree v) in
  let c := classify st in
  (if vconst v then [PRoot c f] else []) ++
  map (fun j => match last_member 0 st with
                | Some l => if Nat.eqb j l then PLast c f else PInner c
                | None => PInner c
                end) (true_positions 0 (edges p (vtree v))).
Definition sub_reasons (v : pvar) (p : path) (lit : bool) (sub : tree) : list psite :=
  let k := sclassify (steps p (vtree v)) sub in
  (if vconst v then [PSub k lit RRoot] else []) ++
  (if cpath p (vtree v) then [PSub k lit REdge] else []) ++
  (if in_struct sub then [PSub k lit RInStruct] else []) ++
  (if in_plain sub then [PSub k lit RInPlain] else []).

Definition pstep (pol : ppolicy) (s : pstate) (o : pop) : pres :=
  match o with
  | OSet e f u =>
      let x := root_of e in let p := lpath e in
      match nth_error s x with
      | None => PStuck
      | Some v =>
          match get p (vtree v) with
          | Some (TLeaf old) =>
              match find pol (set_reasons v p f) with
              | Some st => PRejected st
              | None => match put p (TLeaf (pnewval f old u)) (vtree v) with
                        | Some t' => POk (upd_var x t' s)
                        | None => PStuck
                        end
              end
          | _ => PStuck
          end
      end
  | OSub e lit src =>
      let x := root_of e in let p := lpath e in
      match nth_error s x with
      | None => PStuck
      | Some v =>
          match get p (vtree v) with
          | Some (TLeaf _) | None => PStuck
          | Some sub =>
              match graft sub src with
              | None => PStuck
              | Some n =>
                  match find pol (sub_reasons v p lit sub) with
                  | Some st => PRejected st
                  | None => match put p n (vtree v) with
                            | Some t' => POk (upd_var x t' s)
                            | None => PStuck
                            end
                  end
              end
          end
      end
  end.

Inductive poutcome := PDone | PRejectedAt (i : nat) (st : psite) | PStuckAt (i : nat).
Fixpoint prun_from (pol : ppolicy) (i : nat) (s : pstate) (ops : list pop) : pstate * poutcome :=
  match ops with
  | [] => (s, PDone)
  | o :: r => match pstep pol s o with
              | POk s' => prun_from pol (S i) s' r
              | PRejected st => (s, PRejectedAt i st)
              | PStuck => (s, PStuckAt i)
              end
  end.
Definition prun (pol : ppolicy) (s : pstate) (ops : list pop) : pstate * poutcome := prun_from pol 0 s ops.
Fixpoint ptrace (pol : ppolicy) (s : pstate) (ops : list pop) : list pstate :=
  match ops with
  | [] => []
  | o :: r => match pstep pol s o with POk s' => s' :: ptrace pol s' r | _ => [] end
  end.

(* ------------------------------------------------------------------ what the property protects *)
(* the scalar cell q of variable x, and whether it is protected: the variable is const or a member on the way is *)
Definition cell (s : pstate) (x : nat) (q : path) : option Z :=
  match nth_error s x with
  | Some v => match get q (vtree v) with Some (TLeaf z) => Some z | _ => None end
  | None => None
  end.
Definition protected (s : pstate) (x : nat) (q : path) : bool :=
  match nth_error s x with Some v => vconst v || cpath q (vtree v) | None => false end.

(* decidable observation for the refutations: some protected cell has another value *)
Definition var_changed (a b : pvar) : bool :=
  existsb (fun q => match get q (vtree a) with
                    | Some (TLeaf x) => (vconst a || cpath q (vtree a)) &&
                                       negb (match get q (vtree b) with Some (TLeaf y) => x =? y | _ => false end)
                    | _ => false
                    end)
          (leaf_paths (vtree a)).
Fixpoint pzip {A B} (l : list A) (l' : list B) : list (A * B) :=
  match l, l' with a :: r, b :: r' => (a, b) :: pzip r r' | _, _ => [] end.
Definition pconst_changed (s s' : pstate) : bool :=
  existsb (fun ab => var_changed (fst ab) (snd ab)) (pzip s s').
Definition pbreaks (pol : ppolicy) (c : pstate * list pop) : bool :=
  pconst_changed (fst c) (fst (prun pol (fst c) (snd c))).

(* well-formed values: array elements carry no const flag and all have the shape (incl. flags) of the first *)
Fixpoint skel (t : tree) : tree :=
  match t with TLeaf _ => TLeaf 0 | TRec f => TRec (fskel f) | TArr f => TArr (fskel f) end
with fskel (f : forest) : forest :=
  match f with FNil => FNil | FCons c t r => FCons c (skel t) (fskel r) end.
