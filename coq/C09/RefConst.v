(* C09 - const objects of the reference interpreter (coq/Lang) are immutable.
   Object identity in Ref: an entry is created by one declaration and lives at a fixed position
   counted from the OLD end of its scope (scopes only grow at the front), in a scope counted from
   the bottom of its frame, in a frame counted from the bottom of the stack; globals and the
   statics of a function are one scope each.  The relation [cpres] says: the stack has the same
   shape, every scope kept all its old entries (names included) and every entry that was const is
   literally the same entry.  It is respected by the three state-changing primitives and by the two
   brackets, hence (Lang.Respect) by every evaluation of every expression / statement for every fuel. *)
From Coq Require Import List ZArith Bool Arith Lia.
From Cb Require Import Lang.Syntax Lang.Sem Lang.Respect Lang.Theorems.
Import ListNotations.
Local Open Scope Z_scope.

(* ------------------------------------------------------------------ the relation *)
Definition ent_le (a b : ident * entry) : Prop :=
  fst a = fst b /\ (econst (snd a) = true -> snd b = snd a).
Definition scope_upd (sc sc' : scope) : Prop := Forall2 ent_le sc sc'.
Definition scope_le (sc sc' : scope) : Prop := exists l sc2, sc' = l ++ sc2 /\ scope_upd sc sc2.
Definition frame_le (f f' : frame) : Prop := ffn f = ffn f' /\ Forall2 scope_le (fscopes f) (fscopes f').
Definition glob_le (s s' : state) : Prop :=
  match sframes s with [] => scope_le (sglob s) (sglob s') | _ => scope_upd (sglob s) (sglob s') end.
Definition cpres (s s' : state) : Prop :=
  glob_le s s' /\ (forall f, scope_le (statics_of f s) (statics_of f s')) /\ Forall2 frame_le (sframes s) (sframes s').

(* ------------------------------------------------------------------ order properties *)
Lemma ent_le_refl a : ent_le a a. Proof. split; auto. Qed.
Lemma ent_le_trans a b c : ent_le a b -> ent_le b c -> ent_le a c.
Proof.
  intros [H1 H2] [H3 H4]. split; [congruence|]. intros Hc. specialize (H2 Hc).
  rewrite H2 in H4. rewrite H4; auto.
Qed.
Lemma Forall2_refl {A} (P : A -> A -> Prop) : (forall a, P a a) -> forall l, Forall2 P l l.
Proof. intros H l; induction l; constructor; auto. Qed.
Lemma Forall2_trans {A} (P : A -> A -> Prop) : (forall a b c, P a b -> P b c -> P a c) ->
  forall l1 l2 l3, Forall2 P l1 l2 -> Forall2 P l2 l3 -> Forall2 P l1 l3.
Proof.
  intros H l1 l2 l3 H12; revert l3; induction H12; intros l3 H23; inversion H23; subst; constructor; eauto.
Qed.
Lemma scope_upd_refl sc : scope_upd sc sc. Proof. apply Forall2_refl, ent_le_refl. Qed.
Lemma scope_upd_trans a b c : scope_upd a b -> scope_upd b c -> scope_upd a c.
Proof. apply Forall2_trans, ent_le_trans. Qed.
Lemma scope_upd_le a b : scope_upd a b -> scope_le a b.
Proof. intros H. exists [], b. split; auto. Qed.
Lemma scope_le_refl sc : scope_le sc sc. Proof. apply scope_upd_le, scope_upd_refl. Qed.
Lemma scope_le_trans a b c : scope_le a b -> scope_le b c -> scope_le a c.
Proof.
  intros (l1 & b2 & -> & H1) (l2 & c2 & -> & H2). unfold scope_upd in H2.
  apply Forall2_app_inv_l in H2 as (x & y & Hx & Hy & ->).
  exists (l2 ++ x), y. split; [rewrite app_assoc; reflexivity|]. eapply scope_upd_trans; eauto.
Qed.
Lemma frame_le_refl f : frame_le f f.
Proof. split; auto. apply Forall2_refl, scope_le_refl. Qed.
Lemma frame_le_trans a b c : frame_le a b -> frame_le b c -> frame_le a c.
Proof. intros [H1 H2] [H3 H4]. split; [congruence|]. eapply Forall2_trans; eauto. apply scope_le_trans. Qed.

Lemma cpres_refl s : cpres s s.
Proof.
  repeat split.
  - unfold glob_le. destruct (sframes s); [apply scope_le_refl|apply scope_upd_refl].
  - intros f. apply scope_le_refl.
  - apply Forall2_refl, frame_le_refl.
Qed.
Lemma cpres_trans a b c : cpres a b -> cpres b c -> cpres a c.
Proof.
  intros (G1 & S1 & F1) (G2 & S2 & F2). repeat split.
  - unfold glob_le in *. destruct (sframes a) as [|fa ra] eqn:Ea; destruct (sframes b) as [|fb rb] eqn:Eb;
      try (inversion F1; fail).
    + eapply scope_le_trans; eauto.
    + eapply scope_upd_trans; eauto.
  - intros f. eapply scope_le_trans; eauto.
  - eapply Forall2_trans; eauto. apply frame_le_trans.
Qed.

(* ------------------------------------------------------------------ updates of a non-const binding *)
Lemma assoc_set_upd x e e' (sc : scope) :
  assoc x sc = Some e -> econst e = false -> scope_upd sc (assoc_set x e' sc).
Proof.
  induction sc as [|[y b] r IH]; cbn [assoc assoc_set]; [discriminate|].
  destruct (Nat.eqb x y) eqn:E.
  - intros [= ->] Hc. constructor; [|apply scope_upd_refl]. split; [reflexivity|]. cbn. congruence.
  - intros H Hc. constructor; [apply ent_le_refl|apply IH; assumption].
Qed.

Lemma scopes_set_le x e e' ss :
  scopes_get x ss = Some e -> econst e = false -> Forall2 scope_le ss (scopes_set x e' ss).
Proof.
  induction ss as [|sc r IH]; cbn [scopes_get scopes_set]; [discriminate|].
  destruct (assoc x sc) as [e0|] eqn:E.
  - intros [= ->] Hc. constructor; [|apply Forall2_refl, scope_le_refl].
    apply scope_upd_le. eapply assoc_set_upd; eauto.
  - intros H Hc. constructor; [apply scope_le_refl|apply IH; assumption].
Qed.

Lemma assoc_assoc_set_same {A} x (a : A) l : assoc x l <> None -> assoc x (assoc_set x a l) = Some a.
Proof.
  induction l as [|[y b] r IH]; cbn [assoc assoc_set]; [congruence|].
  destruct (Nat.eqb x y) eqn:E; cbn [assoc]; rewrite E; auto.
Qed.
Lemma assoc_assoc_set_other {A} x y (a : A) l : x <> y -> assoc y (assoc_set x a l) = assoc y l.
Proof.
  intros Hn. induction l as [|[z b] r IH]; cbn [assoc assoc_set]; [reflexivity|].
  destruct (Nat.eqb x z) eqn:E; cbn [assoc].
  - apply Nat.eqb_eq in E. subst z. destruct (Nat.eqb y x) eqn:E2; [apply Nat.eqb_eq in E2; congruence|reflexivity].
  - rewrite IH. reflexivity.
Qed.

Lemma statics_set_same f sc s l :
  statics_of f {| sglob := sglob s; sframes := l; sstat := set_stat f sc (sstat s); sout := sout s |} = sc.
Proof.
  unfold statics_of, set_stat. cbn [sstat].
  destruct (assoc f (sstat s)) eqn:E.
  - rewrite assoc_assoc_set_same; [reflexivity|congruence].
  - cbn [assoc]. rewrite Nat.eqb_refl. reflexivity.
Qed.
Lemma statics_set_other f g sc s l : f <> g ->
  statics_of g {| sglob := sglob s; sframes := l; sstat := set_stat f sc (sstat s); sout := sout s |} = statics_of g s.
Proof.
  intros Hn. unfold statics_of, set_stat. cbn [sstat].
  destruct (assoc f (sstat s)) eqn:E.
  - rewrite assoc_assoc_set_other; auto.
  - cbn [assoc]. destruct (Nat.eqb g f) eqn:E2; [apply Nat.eqb_eq in E2; congruence|reflexivity].
Qed.

(* ------------------------------------------------------------------ the primitives respect cpres *)
Lemma glob_le_same s s' : sglob s' = sglob s -> glob_le s s'.
Proof. intros H. unfold glob_le. rewrite H. destruct (sframes s); [apply scope_le_refl|apply scope_upd_refl]. Qed.

Lemma put_entry_cpres x e e' s : get_entry x s = Some e -> econst e = false -> cpres s (put_entry x e' s).
Proof.
  unfold get_entry, put_entry. destruct (sframes s) as [|f fr] eqn:Ef.
  - intros H Hc. repeat split; cbn.
    + unfold glob_le. rewrite Ef. cbn. apply scope_upd_le. eapply assoc_set_upd; eauto.
    + intros g. apply scope_le_refl.
    + rewrite Ef. constructor.
  - destruct (scopes_get x (fscopes f)) as [e0|] eqn:Es.
    + intros [= ->] Hc. repeat split; cbn.
      * unfold glob_le. rewrite Ef. apply scope_upd_refl.
      * intros g. apply scope_le_refl.
      * rewrite Ef. constructor; [|apply Forall2_refl, frame_le_refl].
        split; [reflexivity|]. cbn. eapply scopes_set_le; eauto.
    + destruct (assoc x (statics_of (ffn f) s)) as [e0|] eqn:Et.
      * intros [= ->] Hc. repeat split.
        -- apply glob_le_same. reflexivity.
        -- intros g. destruct (Nat.eq_dec (ffn f) g) as [<-|Hn].
           ++ rewrite statics_set_same. apply scope_upd_le. eapply assoc_set_upd; eauto.
           ++ rewrite statics_set_other by exact Hn. apply scope_le_refl.
        -- cbn. rewrite Ef. apply Forall2_refl, frame_le_refl.
      * intros H Hc. repeat split; cbn.
        -- unfold glob_le. rewrite Ef. cbn. eapply assoc_set_upd; eauto.
        -- intros g. apply scope_le_refl.
        -- rewrite Ef. apply Forall2_refl, frame_le_refl.
Qed.

Lemma write_cpres x i v : respects cpres (m_write x i v).
Proof.
  intros s. unfold m_write. destruct (get_entry x s) as [e|] eqn:E; [|apply cpres_refl].
  destruct (econst e) eqn:Ec; [apply cpres_refl|].
  destruct (flat_index _ _ _); [|apply cpres_refl].
  destruct (coerce _ _); try apply cpres_refl. cbn [snd]. eapply put_entry_cpres; eauto.
Qed.

Lemma scope_le_cons a sc : scope_le sc (a :: sc).
Proof. exists [a], sc. split; [reflexivity|apply scope_upd_refl]. Qed.

Lemma declare_cpres sta cst t x d vs : respects cpres (m_declare sta cst t x d vs).
Proof.
  intros s. unfold m_declare. destruct (coerce_all t vs); try apply cpres_refl.
  destruct (sframes s) as [|f fr] eqn:Ef.
  - cbn [snd]. repeat split; cbn.
    + unfold glob_le. rewrite Ef. cbn. apply scope_le_cons.
    + intros g. apply scope_le_refl.
    + rewrite Ef. constructor.
  - destruct sta.
    + cbn [snd]. repeat split.
      * apply glob_le_same. reflexivity.
      * intros g. destruct (Nat.eq_dec (ffn f) g) as [<-|Hn].
        -- rewrite statics_set_same. apply scope_le_cons.
        -- rewrite statics_set_other by exact Hn. apply scope_le_refl.
      * cbn. rewrite Ef. apply Forall2_refl, frame_le_refl.
    + destruct (fscopes f) as [|sc scs] eqn:Esc; [apply cpres_refl|].
      cbn [snd]. repeat split; cbn.
      * unfold glob_le. rewrite Ef. apply scope_upd_refl.
      * intros g. apply scope_le_refl.
      * rewrite Ef. constructor; [|apply Forall2_refl, frame_le_refl].
        split; [reflexivity|]. cbn. rewrite Esc. constructor; [apply scope_le_cons|apply Forall2_refl, scope_le_refl].
Qed.

Lemma out_cpres o : respects cpres (m_out o).
Proof.
  intros s. cbn. repeat split.
  - apply glob_le_same. reflexivity.
  - intros g. apply scope_le_refl.
  - cbn. apply Forall2_refl, frame_le_refl.
Qed.

(* the brackets: inside, the stack is one scope / one frame higher; the exit removes exactly that *)
Lemma block_cpres A (m : M A) : respects cpres m -> respects cpres (m_push_scope ;;; finally m pop_scope_st).
Proof.
  intros Hm s. unfold bind, m_push_scope, finally.
  destruct (sframes s) as [|f fr] eqn:Ef; [apply cpres_refl|].
  set (s1 := {| sglob := sglob s; sframes := {| ffn := ffn f; fscopes := [] :: fscopes f |} :: fr; sstat := sstat s; sout := sout s |}).
  specialize (Hm s1). destruct (m s1) as [c s2]. cbn [snd] in *.
  destruct Hm as (G & S & F). cbn [sframes s1] in F.
  inversion F as [|? f2 ? fr2 [Hfn Hsc] Hfr E1 E2]; subst.
  cbn [fscopes] in Hsc. inversion Hsc as [|? sc0 ? rest H0 Hrest E3 E4]; subst.
  assert (Hst : forall g, statics_of g s1 = statics_of g s) by reflexivity.
  unfold pop_scope_st. rewrite <- E2. repeat split; cbn.
  - unfold glob_le in *. rewrite Ef. cbn [s1 sframes sglob] in G. exact G.
  - intros g. rewrite <- Hst. exact (S g).
  - rewrite Ef. constructor; [|exact Hfr]. split; [exact Hfn|]. cbn. rewrite <- E4. exact Hrest.
Qed.

Lemma frame_cpres A fn (m : M A) : respects cpres m -> respects cpres (m_push_frame fn ;;; finally m pop_frame_st).
Proof.
  intros Hm s. unfold bind, m_push_frame, finally.
  set (s1 := {| sglob := sglob s; sframes := {| ffn := fn; fscopes := [[]] |} :: sframes s; sstat := sstat s; sout := sout s |}).
  specialize (Hm s1). destruct (m s1) as [c s2]. cbn [snd] in *.
  destruct Hm as (G & S & F). cbn [sframes s1] in F.
  inversion F as [|? f2 ? fr2 Hf Hfr E1 E2]; subst.
  unfold pop_frame_st. rewrite <- E2. repeat split; cbn.
  - unfold glob_le in *. cbn [s1 sframes sglob] in G. destruct (sframes s); [apply scope_upd_le|]; exact G.
  - intros g. exact (S g).
  - exact Hfr.
Qed.

(* ------------------------------------------------------------------ the run theorem *)
Lemma cpres_run_l funcs n :
  (forall e, respects cpres (eval funcs n e)) /\ (forall st, respects cpres (exec funcs n st)).
Proof.
  apply eval_exec_respect.
  - exact cpres_refl.
  - exact cpres_trans.
  - exact write_cpres.
  - exact declare_cpres.
  - exact out_cpres.
  - exact block_cpres.
  - exact frame_cpres.
Qed.

Lemma cpres_exec_list funcs n ss s : cpres s (snd (exec_list (exec funcs n) ss s)).
Proof.
  apply (r_exec_list cpres cpres_refl cpres_trans (exec funcs n)). apply (proj2 (cpres_run_l funcs n)).
Qed.

(* ------------------------------------------------------------------ what cpres means for a const object *)
(* by name, for globals while a function is running (no global is declared then) *)
Lemma scope_upd_assoc sc sc' x e : scope_upd sc sc' -> assoc x sc = Some e -> econst e = true -> assoc x sc' = Some e.
Proof.
  induction 1 as [|[y a] [z b] r r' [Hn Hc] Hr IH]; cbn [assoc]; [discriminate|].
  cbn in Hn, Hc. subst z. destruct (Nat.eqb x y).
  - intros [= ->] Hk. rewrite (Hc Hk). reflexivity.
  - auto.
Qed.

Lemma const_global_kept s s' x e :
  cpres s s' -> sframes s <> [] -> assoc x (sglob s) = Some e -> econst e = true -> assoc x (sglob s') = Some e.
Proof.
  intros (G & _ & _) Hf. unfold glob_le in G. destruct (sframes s); [congruence|].
  apply scope_upd_assoc. exact G.
Qed.

(* by position (object identity) for every scope: the k-th oldest entry of a scope, if const, is
   still the k-th oldest entry of that scope *)
Definition nth_old {A} (l : list A) (k : nat) : option A := nth_error (rev l) k.

Lemma scope_upd_nth sc sc' k x e :
  scope_upd sc sc' -> nth_error sc k = Some (x, e) -> econst e = true -> nth_error sc' k = Some (x, e).
Proof.
  intros H; revert k; induction H as [|a b r r' [Hn Hc] Hr IH]; intros k; destruct k; cbn; try discriminate.
  - intros [= ->] Hk. destruct b as [z b]. cbn in Hc, Hn. subst z. rewrite (Hc Hk). reflexivity.
  - apply IH.
Qed.
Lemma Forall2_rev {A B} (P : A -> B -> Prop) l l' : Forall2 P l l' -> Forall2 P (rev l) (rev l').
Proof.
  induction 1; cbn; [constructor|]. apply Forall2_app; [assumption|]. constructor; [assumption|constructor].
Qed.
Lemma Forall2_len {A B} (P : A -> B -> Prop) l l' : Forall2 P l l' -> List.length l = List.length l'.
Proof. induction 1; cbn; congruence. Qed.
Lemma scope_le_nth_old sc sc' k x e :
  scope_le sc sc' -> nth_old sc k = Some (x, e) -> econst e = true -> nth_old sc' k = Some (x, e).
Proof.
  intros (l & sc2 & -> & H) Hk Hc. unfold nth_old in *. rewrite rev_app_distr.
  rewrite nth_error_app1.
  - eapply scope_upd_nth; eauto. apply Forall2_rev. exact H.
  - apply Forall2_rev in H. apply Forall2_len in H. rewrite <- H. apply nth_error_Some. congruence.
Qed.

(* position of a local object: frame [fi] from the bottom of the stack, scope [si] from the bottom of
   that frame, entry [ei] from the old end of that scope *)
Definition local_at (s : state) (fi si ei : nat) : option (ident * entry) :=
  match nth_old (sframes s) fi with
  | Some f => match nth_old (fscopes f) si with Some sc => nth_old sc ei | None => None end
  | None => None
  end.

Lemma Forall2_nth_old {A B} (P : A -> B -> Prop) l l' k a :
  Forall2 P l l' -> nth_old l k = Some a -> exists b, nth_old l' k = Some b /\ P a b.
Proof.
  intros H. apply Forall2_rev in H. unfold nth_old. revert k. induction H; intros k; destruct k; cbn; try discriminate.
  - intros [= ->]. eauto.
  - apply IHForall2.
Qed.

Lemma const_local_kept s s' fi si ei x e :
  cpres s s' -> local_at s fi si ei = Some (x, e) -> econst e = true -> local_at s' fi si ei = Some (x, e).
Proof.
  intros (_ & _ & F). unfold local_at.
  destruct (nth_old (sframes s) fi) as [f|] eqn:Ef; [|discriminate].
  destruct (Forall2_nth_old _ _ _ _ _ F Ef) as (f' & -> & _ & Hsc).
  destruct (nth_old (fscopes f) si) as [sc|] eqn:Es; [|discriminate].
  destruct (Forall2_nth_old _ _ _ _ _ Hsc Es) as (sc' & -> & Hle).
  apply scope_le_nth_old. exact Hle.
Qed.

Lemma const_static_kept s s' f k x e :
  cpres s s' -> nth_old (statics_of f s) k = Some (x, e) -> econst e = true -> nth_old (statics_of f s') k = Some (x, e).
Proof. intros (_ & S & _). apply scope_le_nth_old. apply S. Qed.

(* the stack has the same shape after any statement / expression: same number of frames, each with
   the same function and the same number of scopes *)
Lemma cpres_shape s s' : cpres s s' ->
  Forall2 (fun f f' => ffn f = ffn f' /\ List.length (fscopes f) = List.length (fscopes f')) (sframes s) (sframes s').
Proof.
  intros (_ & _ & F). induction F as [|f f' r r' [Hn Hs] Hr IH]; constructor; auto.
  split; [exact Hn|]. eapply Forall2_len; eauto.
Qed.

(* ------------------------------------------------------------------ every mutation form is rejected *)
Lemma const_write_rejected_l x idx v s e :
  get_entry x s = Some e -> econst e = true -> m_write x idx v s = (Fail EConst, s).
Proof. intros H Hc. unfold m_write. rewrite H, Hc. reflexivity. Qed.

(* the mutation forms of CbCore; operands are literals (an arbitrary right-hand side is covered by
   [assign_rejected_general] below) *)
Inductive mutation :=
| MAssign (x : ident) (v : Z)
| MCompound (x : ident) (o : binop) (v : Z)
| MIncDec (pre inc : bool) (x : ident)
| MElemAssign (a : ident) (idx : list Z) (v : Z)
| MElemCompound (a : ident) (idx : list Z) (o : binop) (v : Z)
| MElemIncDec (pre inc : bool) (a : ident) (idx : list Z).

Definition mut_target (m : mutation) : ident :=
  match m with
  | MAssign x _ | MCompound x _ _ | MIncDec _ _ x => x
  | MElemAssign a _ _ | MElemCompound a _ _ _ | MElemIncDec _ _ a _ => a
  end.
Definition mut_stmt (m : mutation) : stmt :=
  match m with
  | MAssign x v => SAssign (LVar x) None (ENum v)
  | MCompound x o v => SAssign (LVar x) (Some o) (ENum v)
  | MIncDec pre inc x => SIncDec pre inc (LVar x)
  | MElemAssign a idx v => SAssign (LIdx a (map ENum idx)) None (ENum v)
  | MElemCompound a idx o v => SAssign (LIdx a (map ENum idx)) (Some o) (ENum v)
  | MElemIncDec pre inc a idx => SIncDec pre inc (LIdx a (map ENum idx))
  end.
(* plain stores fail with the const error whatever the index; read-modify-write forms read first, so
   an out-of-bounds index or an undefined / zero-division operand is reported instead *)
Definition mut_plain (m : mutation) : bool :=
  match m with MAssign _ _ | MElemAssign _ _ _ => true | _ => false end.

Lemma eval_num funcs k z : eval funcs (S k) (ENum z) = ret z.
Proof. reflexivity. Qed.
Lemma eval_list_nums funcs k idx s : eval_list (eval funcs (S k)) (map ENum idx) s = (Val idx, s).
Proof.
  induction idx as [|i r IH]; cbn [map eval_list]; [reflexivity|].
  unfold bind at 1. rewrite eval_num. unfold ret at 1. unfold bind at 1. rewrite IH. reflexivity.
Qed.

Lemma read_keeps x idx s : exists c, m_read x idx s = (c, s).
Proof.
  unfold m_read. destruct (get_entry x s); [|eauto]. destruct (flat_index _ _ _); eauto.
Qed.

Lemma arith_val_or_fail o a b : (exists z, arith o a b = Val z) \/ (exists er, arith o a b = Fail er).
Proof.
  destruct o; unfold arith, chk;
    repeat match goal with |- context [if ?c then _ else _] => destruct c end; eauto.
Qed.

Lemma exec_assign_eq funcs k lv e : exec funcs (S k) (SAssign lv None e) =
  (v <- eval funcs k e ;; tg <- lval_target (eval funcs k) lv ;; m_write (fst tg) (snd tg) v).
Proof. reflexivity. Qed.
Lemma exec_compound_eq funcs k lv o e : exec funcs (S k) (SAssign lv (Some o) e) =
  (tg <- lval_target (eval funcs k) lv ;; old <- m_read (fst tg) (snd tg) ;; v <- eval funcs k e ;;
   r <- lift (arith o old v) ;; m_write (fst tg) (snd tg) r).
Proof. reflexivity. Qed.
Lemma exec_incdec_eq funcs k pre inc lv : exec funcs (S k) (SIncDec pre inc lv) =
  (tg <- lval_target (eval funcs k) lv ;; old <- m_read (fst tg) (snd tg) ;;
   r <- lift (arith (if inc then Add else Sub) old 1) ;; m_write (fst tg) (snd tg) r).
Proof. reflexivity. Qed.
Lemma target_var ev x s : lval_target ev (LVar x) s = (Val (x, []), s).
Proof. reflexivity. Qed.
Lemma target_idx funcs k a idx s : lval_target (eval funcs (S k)) (LIdx a (map ENum idx)) s = (Val (a, idx), s).
Proof. cbn [lval_target]. unfold bind. rewrite eval_list_nums. reflexivity. Qed.

(* read-modify-write on a const target: the read may fail, the arithmetic may fail, otherwise the
   write is refused; the state is the same in every case *)
Lemma rmw_rejected x idx o (rhs : M Z) s e :
  get_entry x s = Some e -> econst e = true -> (exists v, rhs s = (Val v, s)) ->
  exists er, (old <- m_read x idx ;; v <- rhs ;; r <- lift (arith o old v) ;; m_write x idx r) s = (Fail er, s).
Proof.
  intros H Hc [v Hv]. unfold bind. unfold m_read. rewrite H.
  destruct (flat_index (edims e) idx 0) as [z|]; [|eauto].
  rewrite Hv. unfold lift.
  match goal with |- context [arith ?oo ?aa ?bb] => destruct (arith_val_or_fail oo aa bb) as [[r ->]|[er ->]] end; [|eauto].
  rewrite (const_write_rejected_l x idx r s e H Hc). eauto.
Qed.

Lemma mutation_rejected_l funcs k m s e :
  get_entry (mut_target m) s = Some e -> econst e = true ->
  (exists er, exec funcs (S (S (S k))) (mut_stmt m) s = (Fail er, s)) /\
  (mut_plain m = true -> exec funcs (S (S (S k))) (mut_stmt m) s = (Fail EConst, s)).
Proof.
  intros H Hc. assert (W := fun idx v => const_write_rejected_l (mut_target m) idx v s e H Hc).
  destruct m as [x v|x o v|pre inc x|a idx v|a idx o v|pre inc a idx]; cbn [mut_target mut_stmt mut_plain] in *.
  - assert (E : exec funcs (S (S (S k))) (SAssign (LVar x) None (ENum v)) s = (Fail EConst, s)).
    { rewrite exec_assign_eq. unfold bind at 1. rewrite eval_num. unfold ret at 1.
      unfold bind. rewrite target_var. cbn [fst snd]. apply W. }
    split; eauto.
  - split; [|discriminate]. rewrite exec_compound_eq. unfold bind at 1. rewrite target_var. cbn [fst snd].
    apply rmw_rejected with (e := e); auto. exists v. rewrite eval_num. reflexivity.
  - split; [|discriminate]. rewrite exec_incdec_eq. unfold bind at 1. rewrite target_var. cbn [fst snd].
    destruct (rmw_rejected x [] (if inc then Add else Sub) (ret 1) s e H Hc) as [er Her]; [exists 1; reflexivity|].
    exists er. rewrite <- Her. reflexivity.
  - assert (E : exec funcs (S (S (S k))) (SAssign (LIdx a (map ENum idx)) None (ENum v)) s = (Fail EConst, s)).
    { rewrite exec_assign_eq. unfold bind at 1. rewrite eval_num. unfold ret at 1.
      unfold bind. rewrite target_idx. cbn [fst snd]. apply W. }
    split; eauto.
  - split; [|discriminate]. rewrite exec_compound_eq. unfold bind at 1. rewrite target_idx. cbn [fst snd].
    apply rmw_rejected with (e := e); auto. exists v. rewrite eval_num. reflexivity.
  - split; [|discriminate]. rewrite exec_incdec_eq. unfold bind at 1. rewrite target_idx. cbn [fst snd].
    destruct (rmw_rejected a idx (if inc then Add else Sub) (ret 1) s e H Hc) as [er Her]; [exists 1; reflexivity|].
    exists er. rewrite <- Her. reflexivity.
Qed.

(* arbitrary right-hand side: whatever it evaluates to (and whatever it did on the way), the store
   into a target that is const at that moment is refused and changes nothing further *)
Lemma assign_rejected_general_l funcs k x rhs s v s1 e :
  eval funcs k rhs s = (Val v, s1) -> get_entry x s1 = Some e -> econst e = true ->
  exec funcs (S k) (SAssign (LVar x) None rhs) s = (Fail EConst, s1).
Proof.
  intros He H Hc. rewrite exec_assign_eq. unfold bind. rewrite He. rewrite target_var. cbn [fst snd].
  apply const_write_rejected_l with (e := e); assumption.
Qed.

(* a rejected store is the last thing the program does *)
Lemma rejected_store_ends_run ex ss1 ss2 s s' :
  exec_list ex ss1 s = (Fail EConst, s') -> exec_list ex (ss1 ++ ss2) s = (Fail EConst, s').
Proof. apply error_cuts_run. Qed.
