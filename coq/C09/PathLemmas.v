(* C09 - proofs about the access-path machine of Paths.v. *)
From Coq Require Import List ZArith Bool Arith Lia.
From Cb Require Import C09.Paths.
Import ListNotations.
Local Open Scope Z_scope.

(* ------------------------------------------------------------------ forests *)
Lemma fnth_fset_same : forall f i c k k', fnth f i = Some (c, k) -> fnth (fset f i k') i = Some (c, k').
Proof.
  induction f as [|c0 t r IH]; intros i c k k' H; [discriminate|].
  destruct i; cbn in *; [now inversion H | eauto].
Qed.
Lemma fnth_fset_other : forall f i j k', i <> j -> fnth (fset f i k') j = fnth f j.
Proof.
  induction f as [|c0 t r IH]; intros i j k' H; [reflexivity|].
  destruct i, j; cbn; try reflexivity; [congruence | apply IH; congruence].
Qed.
Lemma kids_rebuild : forall t ix f g, kids t = Some (ix, f) -> kids (rebuild t g) = Some (ix, g).
Proof. destruct t; cbn; intros; congruence. Qed.

(* ------------------------------------------------------------------ get / put *)
Fixpoint prefixb (p q : path) : bool :=
  match p, q with
  | [], _ => true
  | i :: r, j :: r' => Nat.eqb i j && prefixb r r'
  | _ :: _, [] => false
  end.
Lemma prefixb_app : forall p q, prefixb p q = true -> exists r, q = p ++ r.
Proof.
  induction p as [|i r IH]; intros q H; [now exists q|].
  destruct q as [|j q']; [discriminate|]. cbn in H. apply andb_true_iff in H as [E H].
  apply Nat.eqb_eq in E as ->. destruct (IH _ H) as [x ->]. now exists x.
Qed.

Lemma get_put_same : forall p n t t', put p n t = Some t' -> get p t' = Some n.
Proof.
  induction p as [|i r IH]; intros n t t' H; cbn in *; [congruence|].
  destruct (kids t) as [[ix f]|] eqn:K; [|discriminate].
  destruct (fnth f i) as [[c k]|] eqn:F; [|discriminate].
  destruct (put r n k) as [k'|] eqn:P; [|discriminate]. inversion H; subst t'.
  rewrite (kids_rebuild _ _ _ _ K), (fnth_fset_same _ _ _ _ k' F). eauto.
Qed.

(* a store at p leaves every scalar cell alone whose path does not start with p *)
Lemma get_put_disjoint : forall p n t t' q z,
  put p n t = Some t' -> get q t = Some (TLeaf z) -> prefixb p q = false -> get q t' = Some (TLeaf z).
Proof.
  induction p as [|i r IH]; intros n t t' q z H G Pf; [discriminate|]. cbn in H.
  destruct (kids t) as [[ix f]|] eqn:K; [|discriminate].
  destruct (fnth f i) as [[c k]|] eqn:F; [|discriminate].
  destruct (put r n k) as [k'|] eqn:P; [|discriminate]. inversion H; subst t'. clear H.
  destruct q as [|j q'].
  - cbn in G. inversion G; subst t. discriminate.
  - cbn in G |- *. rewrite K in G. rewrite (kids_rebuild _ _ _ _ K).
    cbn in Pf. destruct (Nat.eqb i j) eqn:E.
    + apply Nat.eqb_eq in E as <-. rewrite F in G. rewrite (fnth_fset_same _ _ _ _ k' F). cbn in Pf. eauto.
    + apply Nat.eqb_neq in E. rewrite (fnth_fset_other _ _ _ _ E). exact G.
Qed.

Lemma get_app : forall p r t sub, get p t = Some sub -> get (p ++ r) t = get r sub.
Proof.
  induction p as [|i p IH]; intros r t sub H; cbn in *; [now inversion H|].
  destruct (kids t) as [[ix f]|]; [|discriminate]. destruct (fnth f i) as [[c k]|]; [|discriminate]. eauto.
Qed.
Lemma edges_app : forall p r t sub, get p t = Some sub -> edges (p ++ r) t = edges p t ++ edges r sub.
Proof.
  induction p as [|i p IH]; intros r t sub H; cbn in *; [now inversion H|].
  destruct (kids t) as [[ix f]|]; [|discriminate]. destruct (fnth f i) as [[c k]|]; [|discriminate].
  cbn. f_equal. eauto.
Qed.
Lemma get_leaf_end : forall r z t, get r (TLeaf z) = Some t -> r = [].
Proof. destruct r; cbn; intros; [reflexivity | discriminate]. Qed.

(* ------------------------------------------------------------------ the flags never change *)
Lemma edges_skel : forall p t, edges p (skel t) = edges p t.
Proof.
  assert (FN : forall f i, fnth (fskel f) i = match fnth f i with Some (c, k) => Some (c, skel k) | None => None end).
  { induction f as [|c t r IH]; intros i; [reflexivity|]. destruct i; cbn; [reflexivity | apply IH]. }
  induction p as [|i p IH]; intros t; [reflexivity|].
  destruct t as [z|f|f]; cbn; [reflexivity| |]; rewrite FN; destruct (fnth f i) as [[c k]|]; cbn; try reflexivity;
    now rewrite IH.
Qed.
Lemma steps_skel : forall p t, steps p (skel t) = steps p t.
Proof.
  assert (FN : forall f i, fnth (fskel f) i = match fnth f i with Some (c, k) => Some (c, skel k) | None => None end).
  { induction f as [|c t r IH]; intros i; [reflexivity|]. destruct i; cbn; [reflexivity | apply IH]. }
  induction p as [|i p IH]; intros t; [reflexivity|].
  destruct t as [z|f|f]; cbn; [reflexivity| |]; rewrite FN; destruct (fnth f i) as [[c k]|]; cbn; try reflexivity;
    now rewrite IH.
Qed.
Lemma fskel_fset : forall f i k k', fnth f i = Some k -> skel k' = skel (snd k) -> fskel (fset f i k') = fskel f.
Proof.
  induction f as [|c t r IH]; intros i k k' H E; [reflexivity|].
  destruct i; cbn in *.
  - inversion H; subst k. cbn in E. now rewrite E.
  - f_equal. eauto.
Qed.
Lemma skel_put : forall p n t t' old,
  get p t = Some old -> skel n = skel old -> put p n t = Some t' -> skel t' = skel t.
Proof.
  induction p as [|i p IH]; intros n t t' old G E H; cbn in *.
  - inversion G; inversion H; subst. exact E.
  - destruct (kids t) as [[ix f]|] eqn:K; [|discriminate].
    destruct (fnth f i) as [[c k]|] eqn:F; [|discriminate].
    destruct (put p n k) as [k'|] eqn:P; [|discriminate]. inversion H; subst t'.
    assert (S1 : skel k' = skel k) by eauto.
    assert (S2 : fskel (fset f i k') = fskel f) by (eapply fskel_fset; [exact F | exact S1]).
    destruct t; cbn in K; inversion K; subst; cbn; now rewrite S2.
Qed.
Lemma graft_skel : (forall old new n, graft old new = Some n -> skel n = skel old) /\
                   (forall f g h, fgraft f g = Some h -> fskel h = fskel f).
Proof.
  apply tree_forest_ind.
  - intros z new n H. destruct new; cbn in H; inversion H. reflexivity.
  - intros f IH new n H. destruct new as [|g|]; cbn in H; try discriminate.
    destruct (fgraft f g) eqn:E; [|discriminate]. inversion H. cbn. f_equal. eauto.
  - intros f IH new n H. destruct new as [| |g]; cbn in H; try discriminate.
    destruct (fgraft f g) eqn:E; [|discriminate]. inversion H. cbn. f_equal. eauto.
  - intros g h H. destruct g; cbn in H; inversion H. reflexivity.
  - intros c t IHt r IHr g h H. destruct g as [|c' t' r']; cbn in H; [discriminate|].
    destruct (graft t t') eqn:E1; [|discriminate]. destruct (fgraft r r') eqn:E2; [|discriminate].
    inversion H. cbn. f_equal; eauto.
Qed.

(* a const member on a path into a subtree is a const member inside that subtree *)
Lemma cpath_has_const : forall r sub, cpath r sub = true -> has_const sub = true.
Proof.
  assert (FH : forall f i c k, fnth f i = Some (c, k) -> (c = true \/ has_const k = true) -> fin_struct f || fin_plain f = true).
  { induction f as [|c0 t r IH]; intros i c k H D; [discriminate|]. destruct i; cbn in H.
    - inversion H; subst c0 t. cbn. unfold has_const in D. destruct D as [-> | D].
      + destruct (plain k); cbn; [now rewrite orb_true_r | reflexivity].
      + apply orb_true_iff in D as [D | D]; rewrite D; cbn; repeat rewrite orb_true_r; reflexivity.
    - cbn. specialize (IH _ _ _ H D). apply orb_true_iff in IH as [E | E]; rewrite E; repeat rewrite orb_true_r; reflexivity. }
  induction r as [|i r IH]; intros sub H; [discriminate|].
  unfold cpath in H. cbn in H. destruct sub as [z|f|f]; cbn in H; try discriminate;
    (destruct (fnth f i) as [[c k]|] eqn:F; [|discriminate]); cbn in H; unfold has_const; cbn;
    apply (FH f i c k F); apply orb_true_iff in H as [H | H]; [now left | right; now apply IH | now left | right; now apply IH].
Qed.

(* ------------------------------------------------------------------ reasons *)
Lemma find_spec : forall l : list psite, find pspec l = match l with [] => None | a :: _ => Some a end.
Proof. destruct l; reflexivity. Qed.
Lemma true_positions_nil : forall l i, true_positions i l = [] <-> existsb (fun b => b) l = false.
Proof.
  induction l as [|b r IH]; intros i; cbn; [tauto|]. destruct b; cbn; [split; discriminate | apply IH].
Qed.
Lemma set_reasons_nil : forall v p f, set_reasons v p f = [] <-> vconst v = false /\ cpath p (vtree v) = false.
Proof.
  intros v p f. unfold set_reasons, cpath. destruct (vconst v); cbn.
  - split; [discriminate | intros [H _]; discriminate].
  - rewrite <- (true_positions_nil (edges p (vtree v)) 0).
    destruct (true_positions 0 (edges p (vtree v))); cbn; split; intros H; try tauto; try discriminate.
    destruct H; discriminate.
Qed.
Lemma sub_reasons_nil : forall v p lit sub,
  sub_reasons v p lit sub = [] <-> vconst v = false /\ cpath p (vtree v) = false /\ has_const sub = false.
Proof.
  intros v p lit sub. unfold sub_reasons, has_const.
  destruct (vconst v), (cpath p (vtree v)), (in_struct sub), (in_plain sub); cbn; split; intros H; try discriminate; try tauto;
    destruct H as (? & ? & ?); discriminate.
Qed.

(* ------------------------------------------------------------------ the root walk *)
Lemma root_of_lv_from : forall p e st, root_of (lv_from e p st) = root_of e.
Proof.
  induction p as [|i p IH]; intros e st; [destruct st; reflexivity|].
  destruct st as [|[] st]; cbn; rewrite IH; reflexivity.
Qed.
Lemma lpath_lv_from : forall p e st, lpath (lv_from e p st) = lpath e ++ p.
Proof.
  induction p as [|i p IH]; intros e st; [destruct st; cbn; now rewrite app_nil_r|].
  destruct st as [|[] st]; cbn; rewrite IH; cbn; now rewrite <- app_assoc.
Qed.
Lemma root_walk_finds_root_l : forall x p t, root_of (lv_of x p t) = x /\ lpath (lv_of x p t) = p.
Proof. intros. unfold lv_of. now rewrite root_of_lv_from, lpath_lv_from. Qed.

Lemma lv_from_snoc : forall p e st i b, length st = length p ->
  lv_from e (p ++ [i]) (st ++ [b]) = (if b then LIdx (lv_from e p st) i else LMem (lv_from e p st) i).
Proof.
  induction p as [|j p IH]; intros e st i b L.
  - destruct st; [|discriminate]. destruct b; reflexivity.
  - destruct st as [|c st]; [discriminate|]. cbn in L. injection L as L.
    destruct c; cbn; now rewrite IH.
Qed.
Lemma lv_from_is_var : forall p e st x, length st = length p -> lv_from e p st = LVar x -> p = [] /\ e = LVar x.
Proof.
  intros p e st x L. destruct p as [|i p] using rev_ind; [destruct st; cbn; tauto|].
  destruct st as [|b st] using rev_ind; [rewrite app_length in L; cbn in L; lia|].
  rewrite !app_length in L. cbn in L. rewrite lv_from_snoc by lia. destruct b; discriminate.
Qed.
(* the narrow walk finds the root exactly when no subscript comes after the first step of the path *)
Lemma narrow_root_char : forall p st x, length st = length p ->
  narrow_root (lv_from (LVar x) p st) = if existsb (fun b => b) (tl st) then None else Some x.
Proof.
  intros p. induction p as [|i p IH] using rev_ind; intros st x L.
  - destruct st; [reflexivity | discriminate].
  - destruct st as [|b st _] using rev_ind; [rewrite app_length in L; cbn in L; lia|].
    rewrite !app_length in L. cbn in L. assert (L' : length st = length p) by lia.
    rewrite lv_from_snoc by exact L'. destruct b.
    + (* a subscript as the last step: found only when it is applied to the variable itself *)
      unfold narrow_root. cbn [strip_members].
      destruct (lv_from (LVar x) p st) eqn:E.
      * apply lv_from_is_var in E as [-> E]; [|exact L']. destruct st; [|discriminate]. inversion E. reflexivity.
      * destruct st as [|c st]; [destruct p; [discriminate | discriminate]|].
        cbn [tl app]. rewrite existsb_app. cbn. now rewrite orb_true_r.
      * destruct st as [|c st]; [destruct p; [discriminate | discriminate]|].
        cbn [tl app]. rewrite existsb_app. cbn. now rewrite orb_true_r.
    + (* a member access as the last step is stripped *)
      unfold narrow_root. cbn [strip_members]. fold (narrow_root (lv_from (LVar x) p st)). rewrite (IH st x L').
      destruct st as [|c st]; [reflexivity|]. cbn [tl app]. rewrite existsb_app. cbn. now rewrite orb_false_r.
Qed.

(* ------------------------------------------------------------------ states *)
Definition same_var (a b : pvar) : Prop := vconst a = vconst b /\ skel (vtree a) = skel (vtree b).
Definition same_frame (s s' : pstate) : Prop := Forall2 same_var s s'.

Lemma nth_upd_var_same : forall s x t v,
  nth_error s x = Some v -> nth_error (upd_var x t s) x = Some {| vconst := vconst v; vtree := t |}.
Proof.
  induction s as [|a r IH]; intros x t v H; [destruct x; discriminate|].
  destruct x; cbn in *; [now inversion H | eauto].
Qed.
Lemma nth_upd_var_other : forall s x y t, x <> y -> nth_error (upd_var x t s) y = nth_error s y.
Proof.
  induction s as [|a r IH]; intros x y t H; [destruct x; reflexivity|].
  destruct x, y; cbn; try reflexivity; [congruence | apply IH; congruence].
Qed.
Lemma same_frame_refl : forall s, same_frame s s.
Proof. induction s; constructor; [split; reflexivity | assumption]. Qed.
Lemma same_frame_trans : forall a b c, same_frame a b -> same_frame b c -> same_frame a c.
Proof.
  intros a b c H. revert c. induction H as [|x y l l' [H1 H2] _ IH]; intros c H'.
  - inversion H'. constructor.
  - inversion H' as [|y' z l1 l2 [H3 H4] H5]; subst. constructor; [split; congruence | apply IH; exact H5].
Qed.
Lemma same_frame_upd : forall s x t v,
  nth_error s x = Some v -> skel t = skel (vtree v) -> same_frame s (upd_var x t s).
Proof.
  induction s as [|a r IH]; intros x t v H E; [destruct x; constructor|].
  destruct x; cbn in *.
  - inversion H; subst a. constructor; [split; [reflexivity | cbn; symmetry; exact E] | apply same_frame_refl].
  - constructor; [split; reflexivity | eapply IH; eassumption].
Qed.
Lemma same_frame_nth : forall s s' x, same_frame s s' ->
  match nth_error s x, nth_error s' x with
  | Some a, Some b => same_var a b
  | None, None => True
  | _, _ => False
  end.
Proof.
  intros s s' x H. revert x. induction H as [|a b l l' Hab _ IH]; intros x; [destruct x; exact I|].
  destruct x; cbn; [exact Hab | apply IH].
Qed.
Lemma cpath_skel : forall q t t', skel t = skel t' -> cpath q t = cpath q t'.
Proof. intros q t t' E. unfold cpath. now rewrite <- (edges_skel q t), <- (edges_skel q t'), E. Qed.
Lemma same_frame_protected : forall s s' x q, same_frame s s' -> protected s' x q = protected s x q.
Proof.
  intros s s' x q H. unfold protected. assert (N := same_frame_nth s s' x H).
  destruct (nth_error s x) as [a|], (nth_error s' x) as [b|]; try contradiction; [|reflexivity].
  destruct N as [N1 N2]. now rewrite N1, (cpath_skel q _ _ N2).
Qed.

(* ------------------------------------------------------------------ one step *)
(* whatever tests are made, a step changes values only: const flags and shapes stay *)
Lemma pstep_frame : forall pol s o s', pstep pol s o = POk s' -> same_frame s s'.
Proof.
  intros pol s o s' H. destruct o as [e f u | e lit src]; cbn in H;
    destruct (nth_error s (root_of e)) as [v|] eqn:N; try discriminate.
  - destruct (get (lpath e) (vtree v)) as [[old| |]|] eqn:G; try discriminate.
    destruct (find pol (set_reasons v (lpath e) f)); [discriminate|].
    destruct (put (lpath e) (TLeaf (pnewval f old u)) (vtree v)) as [t'|] eqn:P; [|discriminate].
    inversion H; subst s'. eapply same_frame_upd; [exact N|].
    eapply (skel_put _ (TLeaf (pnewval f old u)) _ _ (TLeaf old)); [exact G | reflexivity | exact P].
  - destruct (get (lpath e) (vtree v)) as [sub|] eqn:G; [|discriminate].
    destruct sub as [z|g|g]; [discriminate| |];
      (destruct (graft _ src) as [n|] eqn:GR; [|discriminate]);
      (destruct (find pol _); [discriminate|]);
      (destruct (put (lpath e) n (vtree v)) as [t'|] eqn:P; [|discriminate]);
      inversion H; subst s'; (eapply same_frame_upd; [exact N|]);
      (eapply skel_put; [exact G | exact (proj1 graft_skel _ _ _ GR) | exact P]).
Qed.

Lemma cell_upd_same : forall s x t v q,
  nth_error s x = Some v -> cell (upd_var x t s) x q = match get q t with Some (TLeaf z) => Some z | _ => None end.
Proof. intros. unfold cell. now rewrite (nth_upd_var_same _ _ t _ H). Qed.
Lemma cell_upd_other : forall s x y t q, x <> y -> cell (upd_var x t s) y q = cell s y q.
Proof. intros. unfold cell. now rewrite nth_upd_var_other. Qed.

(* under the policy that makes every test, an accepted step leaves every protected scalar cell as it was *)
Lemma pstep_spec_keeps : forall s o s' x q z,
  pstep pspec s o = POk s' -> cell s x q = Some z -> protected s x q = true -> cell s' x q = Some z.
Proof.
  intros s o s' x q z H C Pr. destruct o as [e f u | e lit src]; cbn in H;
    destruct (nth_error s (root_of e)) as [v|] eqn:N; try discriminate.
  - destruct (get (lpath e) (vtree v)) as [[old| |]|] eqn:G; try discriminate.
    rewrite find_spec in H. destruct (set_reasons v (lpath e) f) eqn:R; [|discriminate].
    apply set_reasons_nil in R as [Rc Rp].
    destruct (put (lpath e) (TLeaf (pnewval f old u)) (vtree v)) as [t'|] eqn:P; [|discriminate].
    inversion H; subst s'. destruct (Nat.eq_dec (root_of e) x) as [<-|NE]; [|now rewrite cell_upd_other].
    rewrite (cell_upd_same _ _ _ _ _ N). unfold cell in C. rewrite N in C. unfold protected in Pr. rewrite N, Rc in Pr. cbn in Pr.
    destruct (get q (vtree v)) as [[z'| |]|] eqn:GQ; try discriminate. inversion C; subst z'.
    destruct (prefixb (lpath e) q) eqn:PF.
    + apply prefixb_app in PF as [r ->]. rewrite (get_app _ r _ _ G) in GQ. apply get_leaf_end in GQ as ->.
      rewrite app_nil_r in Pr. congruence.
    + now rewrite (get_put_disjoint _ _ _ _ _ _ P GQ PF).
  - destruct (get (lpath e) (vtree v)) as [sub|] eqn:G; [|discriminate].
    assert (exists n t', graft sub src = Some n /\ sub_reasons v (lpath e) lit sub = [] /\
                         put (lpath e) n (vtree v) = Some t' /\ s' = upd_var (root_of e) t' s) as (n & t' & GR & R & P & ->).
    { destruct sub as [z0|g|g]; [discriminate| |];
        (destruct (graft _ src) as [n|] eqn:GR; [|discriminate]); rewrite find_spec in H;
        (destruct (sub_reasons v (lpath e) lit _) eqn:R; [|discriminate]);
        (destruct (put (lpath e) n (vtree v)) as [t'|] eqn:P; [|discriminate]); inversion H; eauto 8. }
    apply sub_reasons_nil in R as (Rc & Rp & Rh).
    destruct (Nat.eq_dec (root_of e) x) as [<-|NE]; [|now rewrite cell_upd_other].
    rewrite (cell_upd_same _ _ _ _ _ N). unfold cell in C. rewrite N in C. unfold protected in Pr. rewrite N, Rc in Pr. cbn in Pr.
    destruct (get q (vtree v)) as [[z'| |]|] eqn:GQ; try discriminate. inversion C; subst z'.
    destruct (prefixb (lpath e) q) eqn:PF.
    + apply prefixb_app in PF as [r ->]. unfold cpath in Pr, Rp. rewrite (edges_app _ r _ _ G), existsb_app, Rp in Pr. cbn in Pr.
      apply cpath_has_const in Pr. congruence.
    + now rewrite (get_put_disjoint _ _ _ _ _ _ P GQ PF).
Qed.

(* the single-step rules *)
Lemma path_store_rejected_l : forall s e f u v old,
  nth_error s (root_of e) = Some v -> get (lpath e) (vtree v) = Some (TLeaf old) ->
  protected s (root_of e) (lpath e) = true -> exists st, pstep pspec s (OSet e f u) = PRejected st.
Proof.
  intros s e f u v old N G Pr. cbn. rewrite N, G, find_spec. unfold protected in Pr. rewrite N in Pr.
  destruct (set_reasons v (lpath e) f) eqn:R; [|eauto].
  apply set_reasons_nil in R as [Rc Rp]. rewrite Rc, Rp in Pr. discriminate.
Qed.
Lemma path_store_accepted_l : forall s e f u v old,
  nth_error s (root_of e) = Some v -> get (lpath e) (vtree v) = Some (TLeaf old) ->
  protected s (root_of e) (lpath e) = false ->
  exists s', pstep pspec s (OSet e f u) = POk s' /\ cell s' (root_of e) (lpath e) = Some (pnewval f old u).
Proof.
  intros s e f u v old N G Pr. cbn. rewrite N, G, find_spec. unfold protected in Pr. rewrite N in Pr.
  apply orb_false_iff in Pr as [Rc Rp].
  destruct (set_reasons v (lpath e) f) eqn:R.
  - assert (exists t', put (lpath e) (TLeaf (pnewval f old u)) (vtree v) = Some t') as [t' P].
    { clear - G. revert G. generalize (vtree v) as t. generalize (TLeaf (pnewval f old u)) as n.
      induction (lpath e) as [|i p IH]; intros n t G; cbn in *; [eauto|].
      destruct (kids t) as [[ix g]|]; [|discriminate]. destruct (fnth g i) as [[c k]|]; [|discriminate].
      destruct (IH n k G) as [k' ->]. eauto. }
    rewrite P. eexists. split; [reflexivity|]. rewrite (cell_upd_same _ _ _ _ _ N), (get_put_same _ _ _ _ P). reflexivity.
  - assert (E : set_reasons v (lpath e) f = []) by (apply set_reasons_nil; tauto). congruence.
Qed.
Lemma sub_store_rejected_l : forall s e lit src v sub n,
  nth_error s (root_of e) = Some v -> get (lpath e) (vtree v) = Some sub -> plain sub = false \/ (exists f, sub = TArr f) ->
  graft sub src = Some n ->
  vconst v || cpath (lpath e) (vtree v) || has_const sub = true ->
  exists st, pstep pspec s (OSub e lit src) = PRejected st.
Proof.
  intros s e lit src v sub n N G NL GR Pr. cbn. rewrite N, G.
  assert (R : sub_reasons v (lpath e) lit sub <> []).
  { intros R. apply sub_reasons_nil in R as (A & B & C). rewrite A, B, C in Pr. discriminate. }
  destruct sub as [z|g|g].
  - destruct NL as [NL | [f NL]]; discriminate.
  - rewrite GR, find_spec. destruct (sub_reasons v (lpath e) lit (TRec g)); [congruence | eauto].
  - rewrite GR, find_spec. destruct (sub_reasons v (lpath e) lit (TArr g)); [congruence | eauto].
Qed.

(* ------------------------------------------------------------------ scripts *)
Lemma prun_frame : forall pol ops i s s' oc, prun_from pol i s ops = (s', oc) -> same_frame s s'.
Proof.
  induction ops as [|o r IH]; intros i s s' oc H; cbn in H.
  - inversion H. apply same_frame_refl.
  - destruct (pstep pol s o) as [s1| |] eqn:S; [| inversion H; apply same_frame_refl ..].
    eapply same_frame_trans; [eapply pstep_frame; exact S | eapply IH; exact H].
Qed.
Lemma prun_spec_keeps : forall ops i s s' oc x q z,
  prun_from pspec i s ops = (s', oc) -> cell s x q = Some z -> protected s x q = true -> cell s' x q = Some z.
Proof.
  induction ops as [|o r IH]; intros i s s' oc x q z H C Pr; cbn in H.
  - now inversion H; subst.
  - destruct (pstep pspec s o) as [s1| |] eqn:S; [| now inversion H; subst ..].
    eapply IH; [exact H | eapply pstep_spec_keeps; eassumption |].
    rewrite (same_frame_protected _ _ x q (pstep_frame _ _ _ _ S)). exact Pr.
Qed.
