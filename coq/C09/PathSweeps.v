(* C09 - finite sweeps over the check sites of the access-path machine (Paths.v, PathModel.v). *)
From Coq Require Import List ZArith Bool Arith Lia.
From Cb Require Import C09.Paths C09.PathLemmas C09.PathModel.
Import ListNotations.
Local Open Scope Z_scope.

Lemma all_psites_complete : forall st, site_occurs st = true -> In st all_psites.
Proof.
  intros st H. unfold all_psites. apply filter_In. split; [|exact H].
  destruct st as [c f | c f | c | k l r].
  - apply in_or_app. left. apply in_flat_map. exists c. split; [destruct c; cbn; tauto | destruct f; cbn; tauto].
  - apply in_or_app. right. apply in_or_app. left. apply in_flat_map. exists c.
    split; [destruct c; cbn; tauto | destruct f; cbn; tauto].
  - apply in_or_app. right. apply in_or_app. right. apply in_or_app. left. destruct c; cbn; tauto.
  - apply in_or_app. right. apply in_or_app. right. apply in_or_app. right. apply in_flat_map. exists k.
    split; [destruct k; cbn; tauto|]. apply in_flat_map. exists l. split; [destruct l; cbn; tauto | destruct r; cbn; tauto].
Qed.

(* soundness of the decidable observation *)
Lemma var_changed_sound : forall a b, var_changed a b = true ->
  exists q z, get q (vtree a) = Some (TLeaf z) /\ (vconst a || cpath q (vtree a)) = true /\ get q (vtree b) <> Some (TLeaf z).
Proof.
  intros a b H. unfold var_changed in H. apply existsb_exists in H as (q & _ & H).
  destruct (get q (vtree a)) as [[x| |]|] eqn:GA; try discriminate.
  apply andb_true_iff in H as [Hp Hn]. apply negb_true_iff in Hn.
  exists q, x. repeat split; try assumption. intros E. rewrite E in Hn. now rewrite Z.eqb_refl in Hn.
Qed.
Lemma pconst_changed_sound : forall s s', pconst_changed s s' = true ->
  exists x q z, cell s x q = Some z /\ protected s x q = true /\ cell s' x q <> Some z.
Proof.
  induction s as [|a r IH]; intros s' H; [discriminate|].
  destruct s' as [|b r']; [discriminate|]. unfold pconst_changed in H. cbn in H. apply orb_true_iff in H as [H | H].
  - apply var_changed_sound in H as (q & z & G & P & N). exists 0%nat, q, z. unfold cell, protected. cbn. rewrite G.
    repeat split; try assumption. destruct (get q (vtree b)) as [[y| |]|]; congruence.
  - destruct (IH r' H) as (x & q & z & C & P & N). exists (S x), q, z. unfold cell, protected in *. cbn. tauto.
Qed.

(* necessity: with every other test in place and this one missing, the witness changes a protected cell; with all tests
   it does not; its control twin (no const anywhere) runs to the end *)
Definition nec_ok (st : psite) : bool :=
  pbreaks (pall_but st) (pwitness st) && negb (pbreaks pspec (pwitness st)) &&
  poutcome_rejected_at (snd (prun pspec (fst (pwitness st)) (snd (pwitness st)))) st &&
  poutcome_done (snd (prun pspec (fst (ptwin st)) (snd (ptwin st)))) &&
  negb (zlist_eqb (cells_of (fst (ptwin st))) (cells_of (fst (prun pspec (fst (ptwin st)) (snd (ptwin st)))))).
Lemma nec_sweep : forallb nec_ok all_psites = true.
Proof. vm_compute. reflexivity. Qed.

(* the policy of the code: a test it makes refuses its witness at that very site, a test it lacks lets the witness change
   a protected cell *)
Definition mech_ok (st : psite) : bool :=
  if pmech st then poutcome_rejected_at (snd (prun pmech (fst (pwitness st)) (snd (pwitness st)))) st &&
                   negb (pbreaks pmech (pwitness st))
  else pbreaks pmech (pwitness st).
Lemma mech_sweep : forallb mech_ok all_psites = true.
Proof. vm_compute. reflexivity. Qed.

Lemma pmech_missing_list : pmech_missing =
  [PLast CRootIdx FSet; PLast CRootIdx FOp; PLast CMidIdx FSet; PLast CMidIdx FOp; PInner CChain; PInner CRootIdx; PInner CMidIdx;
   PSub SkWhole false RInStruct; PSub SkWhole false RInPlain; PSub SkWhole true RInPlain;
   PSub SkMember false RInStruct; PSub SkMember false RInPlain;
   PSub SkMemberElem false RInStruct; PSub SkMemberElem false RInPlain; PSub SkMemberElem true RInPlain;
   PSub SkRootElem false RInStruct; PSub SkRootElem false RInPlain;
   PSub SkRootElem true RInStruct; PSub SkRootElem true RInPlain].
Proof. vm_compute. reflexivity. Qed.

(* every scalar store of the universe (8 graphs x const placements x every cell x =, op=, ++): refused under the
   policy with all tests exactly when the variable or a member on the path is const, otherwise carried out on that cell
   only; and the implementation's policy agrees except through a site it lacks *)
Definition set_case_ok (c : pstate * pop) : bool :=
  match c with
  | ([v], OSet e f u) =>
      let p := lpath e in
      let prot := vconst v || cpath p (vtree v) in
      match pstep pspec [v] (OSet e f u), pstep pmech [v] (OSet e f u) with
      | PRejected st, PRejected st' => prot && pmech st'
      | PRejected st, POk _ => prot && forallb (fun r => negb (pmech r)) (set_reasons v p f)
      | POk s', POk s'' => negb prot && zlist_eqb (cells_of s') (cells_of s'') &&
                           match get p (vtree v), cell s' 0 p with
                           | Some (TLeaf old), Some z => z =? pnewval f old u
                           | _, _ => false
                           end
      | _, _ => false
      end
  | _ => false
  end.
Definition universe_sets : list (pstate * pop) :=
  flat_map (fun g => flat_map (fun pl => set_cases g pl) (placements g)) all_groots.
Definition universe_subs : list (pstate * pop) :=
  flat_map (fun g => flat_map (fun pl => sub_cases g pl) (placements g)) all_groots.
Definition sub_case_ok (c : pstate * pop) : bool :=
  match c with
  | ([v], OSub e lit src) =>
      let p := lpath e in
      match get p (vtree v) with
      | Some sub =>
          let prot := vconst v || cpath p (vtree v) || has_const sub in
          match pstep pspec [v] (OSub e lit src), pstep pmech [v] (OSub e lit src) with
          | PRejected st, PRejected st' => prot && pmech st'
          | PRejected st, POk _ => prot && forallb (fun r => negb (pmech r)) (sub_reasons v p lit sub)
          | POk s', POk s'' => negb prot && zlist_eqb (cells_of s') (cells_of s'')
          | _, _ => false
          end
      | None => false
      end
  | _ => false
  end.
Lemma universe_sweep : forallb set_case_ok universe_sets = true /\ forallb sub_case_ok universe_subs = true.
Proof. split; vm_compute; reflexivity. Qed.

(* ------------------------------------------------------------------ the sweeps as statements *)
Definition rejected_at (pol : ppolicy) (c : pstate * list pop) (st : psite) : Prop :=
  exists i, snd (prun pol (fst c) (snd c)) = PRejectedAt i st.
Definition changes_protected (pol : ppolicy) (c : pstate * list pop) : Prop :=
  exists x q z, cell (fst c) x q = Some z /\ protected (fst c) x q = true /\
                cell (fst (prun pol (fst c) (snd c))) x q <> Some z.
Lemma rejected_at_of_b : forall oc st, poutcome_rejected_at oc st = true -> exists i, oc = PRejectedAt i st.
Proof.
  intros oc st H. destruct oc as [|i st'|i]; try discriminate. exists i. cbn in H.
  assert (E : forall a b, psite_eqb a b = true -> a = b).
  { intros a b. destruct a as [c f|c f|c|k l r], b as [c' f'|c' f'|c'|k' l' r']; cbn; try discriminate; intros Q.
    - apply andb_true_iff in Q as [Q1 Q2]. destruct c, c'; try discriminate; destruct f, f'; try discriminate; reflexivity.
    - apply andb_true_iff in Q as [Q1 Q2]. destruct c, c'; try discriminate; destruct f, f'; try discriminate; reflexivity.
    - destruct c, c'; try discriminate; reflexivity.
    - apply andb_true_iff in Q as [Q Q3]. apply andb_true_iff in Q as [Q1 Q2].
      destruct k, k'; try discriminate; destruct l, l'; try discriminate; destruct r, r'; try discriminate; reflexivity. }
  now rewrite (E _ _ H).
Qed.
Lemma pbreaks_sound : forall pol c, pbreaks pol c = true -> changes_protected pol c.
Proof. intros pol c H. exact (pconst_changed_sound _ _ H). Qed.

Lemma every_path_test_is_necessary_l : forall st, site_occurs st = true ->
  rejected_at pspec (pwitness st) st /\ changes_protected (pall_but st) (pwitness st) /\
  snd (prun pspec (fst (ptwin st)) (snd (ptwin st))) = PDone.
Proof.
  intros st H. assert (F := nec_sweep). rewrite forallb_forall in F. specialize (F st (all_psites_complete st H)).
  unfold nec_ok in F. repeat (apply andb_true_iff in F as [F ?]).
  split; [apply rejected_at_of_b; assumption|]. split; [apply pbreaks_sound; assumption|].
  destruct (snd (prun pspec (fst (ptwin st)) (snd (ptwin st)))); [reflexivity | discriminate ..].
Qed.
Lemma pmech_sites_l : forall st, site_occurs st = true ->
  (pmech st = true -> rejected_at pmech (pwitness st) st) /\
  (pmech st = false -> changes_protected pmech (pwitness st)).
Proof.
  intros st H. assert (F := mech_sweep). rewrite forallb_forall in F. specialize (F st (all_psites_complete st H)).
  unfold mech_ok in F. split; intros M; rewrite M in F.
  - apply andb_true_iff in F as [F _]. apply rejected_at_of_b; assumption.
  - apply pbreaks_sound; assumption.
Qed.
Lemma universe_sets_l : forall c, In c universe_sets -> set_case_ok c = true.
Proof. assert (F := proj1 universe_sweep). rewrite forallb_forall in F. exact F. Qed.
Lemma universe_subs_l : forall c, In c universe_subs -> sub_case_ok c = true.
Proof. assert (F := proj2 universe_sweep). rewrite forallb_forall in F. exact F. Qed.
