(* C09 - finite sweeps (vm_compute over complete finite domains) about the matrix and the witnesses,
   and the meaning of the boolean observer [breaks]. *)
From Coq Require Import List ZArith Bool Arith Lia.
From Cb Require Import C09.ConstPtr C09.PtrLemmas C09.Model.
Import ListNotations.
Local Open Scope Z_scope.

(* ------------------------------------------------------------------ what [breaks] means *)
Lemma In_zip_nth {A B} (l : list A) (l' : list B) a b :
  In (a, b) (zip l l') -> exists n, nth_error l n = Some a /\ nth_error l' n = Some b.
Proof.
  revert l'; induction l as [|x r IH]; intros [|y r']; cbn; try tauto.
  intros [[= -> ->]|H]; [exists 0%nat; auto|]. destruct (IH r' H) as (n & H1 & H2). exists (S n); auto.
Qed.

Lemma const_changed_sound s s' : const_changed s s' = true ->
  exists o k ob, nth_error (objs s) o = Some ob /\ slot_prot ob k = true /\ read_slot s' o k <> read_slot s o k.
Proof.
  unfold const_changed. rewrite existsb_exists. intros ([a b] & Hin & Hch). cbn in Hch.
  destruct (In_zip_nth _ _ _ _ Hin) as (o & Ha & Hb).
  unfold obj_changed in Hch. rewrite existsb_exists in Hch. destruct Hch as (k & Hk & Hc).
  apply andb_true_iff in Hc as [Hp Hne]. exists o, k, a. repeat split; auto.
  unfold read_slot. rewrite Ha, Hb. apply in_seq in Hk.
  destruct (nth_error (ovals a) k) as [x|] eqn:Ex.
  - destruct (nth_error (ovals b) k) as [y|]; [|congruence]. cbn in Hne.
    destruct (x =? y) eqn:E; [discriminate|]. apply Z.eqb_neq in E. congruence.
  - apply nth_error_None in Ex. lia.
Qed.

Lemma tgt_eqb_eq a b : tgt_eqb a b = true -> a = b.
Proof.
  destruct a as [[o|o k]|], b as [[o'|o' k']|]; cbn; try discriminate; auto.
  - intros H. apply Nat.eqb_eq in H. congruence.
  - intros H. apply andb_true_iff in H as [H1 H2]. apply Nat.eqb_eq in H1, H2. congruence.
Qed.

Lemma reseated_sound s s' : reseated s s' = true ->
  exists p pt, nth_error (ptrs s) p = Some pt /\ pcc pt = true /\ nth_error (ptrs s') p <> Some pt.
Proof.
  unfold reseated. rewrite existsb_exists. intros ([a b] & Hin & Hc). cbn in Hc.
  destruct (In_zip_nth _ _ _ _ Hin) as (p & Ha & Hb). apply andb_true_iff in Hc as [Hcc Hne].
  exists p, a. repeat split; auto. rewrite Hb. intros [= ->].
  destruct (tgt_eqb (ptgt a) (ptgt a)) eqn:E; [discriminate|].
  clear -E. destruct (ptgt a) as [[o|o k]|]; cbn in E; rewrite ?Nat.eqb_refl in E; discriminate.
Qed.

Definition broken (pol : policy) (s : state) (ops : list op) : Prop :=
  Inv s /\
  ((exists o k ob, nth_error (objs s) o = Some ob /\ slot_prot ob k = true /\
                   read_slot (fst (run pol s ops)) o k <> read_slot s o k) \/
   (exists p pt, nth_error (ptrs s) p = Some pt /\ pcc pt = true /\ nth_error (ptrs (fst (run pol s ops))) p <> Some pt)).

Lemma breaks_sound pol c : breaks pol c = true -> broken pol (fst c) (snd c).
Proof.
  unfold breaks. intros H. apply andb_true_iff in H as [Hi H]. split; [apply inv_b_sound; exact Hi|].
  apply orb_true_iff in H as [H|H]; [left; apply const_changed_sound|right; apply reseated_sound]; exact H.
Qed.

(* under a policy that makes every test nothing is ever broken *)
Lemma spec_never_broken pol s ops : all_checked pol -> ~ broken pol s ops.
Proof.
  intros Ha (HI & [(o & k & ob & Ho & Hp & Hne)|(p & pt & Hp & Hc & Hne)]).
  - apply Hne. unfold run. eapply const_slots_immutable_l; eauto.
  - apply Hne. unfold run. eapply const_ptr_not_reseated_l; eauto.
Qed.

(* ------------------------------------------------------------------ every test is necessary *)
Lemma site_necessary_l st : broken (all_but st) (fst (witness st)) (snd (witness st)).
Proof. apply breaks_sound. destruct st; vm_compute; reflexivity. Qed.

Lemma witness_spec_rejected_l st : verdict_of spec (witness st) = VRejected.
Proof. destruct st; vm_compute; reflexivity. Qed.

(* ------------------------------------------------------------------ the pinned implementation *)
Lemma mech_value_holes_break : forallb (fun st => breaks mech (witness st)) mech_value_holes = true.
Proof. vm_compute. reflexivity. Qed.
Lemma mech_refuted_l st : In st mech_value_holes -> broken mech (fst (witness st)) (snd (witness st)).
Proof.
  intros H. apply breaks_sound. assert (F := mech_value_holes_break). rewrite forallb_forall in F. exact (F st H).
Qed.
Lemma mech_checked_reject_l st : mech_chk st = true -> verdict_of mech (witness st) = VRejected.
Proof. destruct st; vm_compute; intros; try reflexivity; discriminate. Qed.
Lemma mech_holes_accept_l st : mech_chk st = false -> verdict_of mech (witness st) <> VRejected.
Proof. destruct st; vm_compute; intros; try discriminate. Qed.
Lemma mech_holes_list : mech_holes =
  [SWholeMemberConst; SDerefExprStore; SPtrMemberConst; SAddrSubAssign; SAddrSubDecl; SAddrArg; SPtrCopyAssign; SPtrCopyDecl;
   SConstRefStore].
Proof. vm_compute. reflexivity. Qed.

(* the nine tests added by the repairs c8a1652, a842ca6, 8c94aff, a242434, 38104c4, 29cf056 *)
Definition repaired_sites : list site :=
  [SIncDecVar; SElemIncDec; SMemberIncDec; SDerefIncDec; SReseatIncDec; SAddrDecl; SRefParam; SRefLocal; SArrowStore].
Lemma repaired_sites_reject_l st : In st repaired_sites ->
  mech_chk st = true /\ verdict_of mech (witness st) = VRejected /\ breaks mech (witness st) = false.
Proof.
  intros H. assert (F : forallb (fun st => mech_chk st && verdict_eqb (verdict_of mech (witness st)) VRejected &&
                                            negb (breaks mech (witness st))) repaired_sites = true) by (vm_compute; reflexivity).
  rewrite forallb_forall in F. specialize (F st H). apply andb_true_iff in F as [F F3]. apply andb_true_iff in F as [F1 F2].
  repeat split; auto.
  - destruct (verdict_of mech (witness st)); cbn in F2; congruence.
  - destruct (breaks mech (witness st)); cbn in F3; congruence.
Qed.

(* ------------------------------------------------------------------ the matrix *)
Definition cell_ok_spec (c : okind * mpath) : bool :=
  match scenario true (fst c) (snd c) with
  | None => true
  | Some sc => inv_b (fst sc) && verdict_eqb (verdict_of spec sc) VRejected
  end.
Definition cell_ok_twin (c : okind * mpath) : bool :=
  match scenario false (fst c) (snd c) with
  | None => match scenario true (fst c) (snd c) with None => true | Some _ => false end
  | Some sc => verdict_eqb (verdict_of spec sc) VChanged
  end.

Lemma cells_complete k p : In (k, p) cells.
Proof. unfold cells. apply in_prod; [destruct k|destruct p]; cbn; tauto. Qed.

Lemma matrix_sweep : forallb cell_ok_spec cells = true /\ forallb cell_ok_twin cells = true.
Proof. split; vm_compute; reflexivity. Qed.

Lemma verdict_eqb_eq a b : verdict_eqb a b = true -> a = b.
Proof. destruct a, b; cbn; congruence. Qed.

Lemma matrix_spec_rejected_l k p c : scenario true k p = Some c -> Inv (fst c) /\ verdict_of spec c = VRejected.
Proof.
  intros H. assert (F := proj1 matrix_sweep). rewrite forallb_forall in F. specialize (F (k, p) (cells_complete k p)).
  unfold cell_ok_spec in F. cbn [fst snd] in F. rewrite H in F. apply andb_true_iff in F as [F1 F2].
  split; [apply inv_b_sound; exact F1|apply verdict_eqb_eq; exact F2].
Qed.
Lemma matrix_twin_accepted_l k p c : scenario false k p = Some c -> verdict_of spec c = VChanged.
Proof.
  intros H. assert (F := proj2 matrix_sweep). rewrite forallb_forall in F. specialize (F (k, p) (cells_complete k p)).
  unfold cell_ok_twin in F. cbn [fst snd] in F. rewrite H in F. apply verdict_eqb_eq; exact F.
Qed.

(* the cells of the matrix in which the pinned implementation does not reject the attempt *)
Definition mech_matrix_holes : list (okind * mpath) :=
  filter (fun c => match cell_verdict mech true (fst c) (snd c) with Some VRejected | None => false | _ => true end) cells.
Definition n_applicable : nat := length (filter applicable cells).

(* the cells still not refused after the repairs: address of an element / member of a const aggregate,
   const members reached through the whole struct or an S*, pointer copies that drop the pointee const *)
Definition open_cells : list (okind * mpath) :=
  [(KArray, PAddrDecl); (KArray, PAddrAsg); (KMember, PAssign); (KMember, PDerefSt); (KMember, PArrowSt);
   (KMember, PAddrDecl); (KMember, PAddrAsg); (KPtc, PAddrDecl); (KPtc, PAddrAsg)].
Lemma mech_matrix_holes_list : mech_matrix_holes = open_cells.
Proof. vm_compute. reflexivity. Qed.

Lemma mech_matrix_rejected_l k p c : scenario true k p = Some c -> ~ In (k, p) open_cells -> verdict_of mech c = VRejected.
Proof.
  intros H Hn. rewrite <- mech_matrix_holes_list in Hn. unfold mech_matrix_holes in Hn.
  rewrite filter_In in Hn. unfold cell_verdict in Hn. cbn [fst snd] in Hn. rewrite H in Hn. cbn [option_map] in Hn.
  destruct (verdict_of mech c); try reflexivity; exfalso; apply Hn; split; auto using cells_complete.
Qed.
Lemma mech_matrix_open_l kp : In kp open_cells -> exists c, scenario true (fst kp) (snd kp) = Some c /\ verdict_of mech c = VChanged.
Proof.
  intros H. cbn in H. repeat (destruct H as [<-|H]; [eexists; split; [reflexivity|vm_compute; reflexivity]|]). destruct H.
Qed.
