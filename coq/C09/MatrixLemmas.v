(* C09 - finite sweeps (vm_compute over complete finite domains) about the matrix and the witnesses,
   and the meaning of the boolean observer [breaks]. *)
From Coq Require Import List ZArith Bool Arith Lia.
From Cb Require Import C09.ConstPtr C09.PtrLemmas C09.Model.
Import ListNotations.
Local Open Scope Z_scope.

(* ------------------------------------------------------------------ what [breaks] means *)
Lemma In_zip_nth {A B} (l : list A) (l' : list B) a b :
  In (a, b) (zip l l') -> exists n, nth_error l n = Some a /\ nth_error l' n = Some b.
Proof.
  revert l'; induction l as [|x r IH]; intros [|y r']; cbn; try tauto.
  intros [[= -> ->]|H]; [exists 0%nat; auto|]. destruct (IH r' H) as (n & H1 & H2). exists (S n); auto.
Qed.

Lemma const_changed_sound s s' : const_changed s s' = true ->
  exists o k ob, nth_error (objs s) o = Some ob /\ slot_prot ob k = true /\ read_slot s' o k <> read_slot s o k.
Proof.
  unfold const_changed. rewrite existsb_exists. intros ([a b] & Hin & Hch). cbn in Hch.
  destruct (In_zip_nth _ _ _ _ Hin) as (o & Ha & Hb).
  unfold obj_changed in Hch. rewrite existsb_exists in Hch. destruct Hch as (k & Hk & Hc).
  apply andb_true_iff in Hc as [Hp Hne]. exists o, k, a. repeat split; auto.
  unfold read_slot. rewrite Ha, Hb. apply in_seq in Hk.
  destruct (nth_error (ovals a) k) as [x|] eqn:Ex.
  - destruct (nth_error (ovals b) k) as [y|]; [|congruence]. cbn in Hne.
    destruct (x =? y) eqn:E; [discriminate|]. apply Z.eqb_neq in E. congruence.
  - apply nth_error_None in Ex. lia.
Qed.

Lemma tgt_eqb_eq a b : tgt_eqb a b = true -> a = b.
Proof.
  destruct a as [[o|o k]|], b as [[o'|o' k']|]; cbn; try discriminate; auto.
  - intros H. apply Nat.eqb_eq in H. congruence.
  - intros H. apply andb_true_iff in H as [H1 H2]. apply Nat.eqb_eq in H1, H2. congruence.
Qed.

Lemma reseated_sound s s' : reseated s s' = true ->
  exists p pt pt', nth_error (ptrs s) p = Some pt /\ pcc pt = true /\ nth_error (ptrs s') p = Some pt' /\ ptgt pt' <> ptgt pt.
Proof.
  unfold reseated. rewrite existsb_exists. intros ([a b] & Hin & Hc). cbn in Hc.
  destruct (In_zip_nth _ _ _ _ Hin) as (p & Ha & Hb). apply andb_true_iff in Hc as [Hcc Hne].
  exists p, a, b. repeat split; auto. intros E. rewrite E in Hne.
  destruct (tgt_eqb (ptgt a) (ptgt a)) eqn:E'; [discriminate|].
  clear -E'. destruct (ptgt a) as [[o|o k]|]; cbn in E'; rewrite ?Nat.eqb_refl in E'; discriminate.
Qed.

(* a script breaks the property when, started in a state that respects the discipline, it changes a protected slot,
   re-seats a const pointer, or carries out a store through a const view / a handle derived from something const *)
Definition broken (pol : policy) (s : state) (ops : list op) : Prop :=
  Inv s /\ gbad s = false /\
  ((exists o k ob, nth_error (objs s) o = Some ob /\ slot_prot ob k = true /\
                   read_slot (fst (run pol s ops)) o k <> read_slot s o k) \/
   (exists p pt pt', nth_error (ptrs s) p = Some pt /\ pcc pt = true /\
                     nth_error (ptrs (fst (run pol s ops))) p = Some pt' /\ ptgt pt' <> ptgt pt) \/
   gbad (fst (run pol s ops)) = true).

Lemma breaks_sound pol c : breaks pol c = true -> broken pol (fst c) (snd c).
Proof.
  unfold breaks. intros H. apply andb_true_iff in H as [Hi H]. apply andb_true_iff in Hi as [Hi Hg].
  split; [apply inv_b_sound; exact Hi|]. split; [destruct (gbad (fst c)); [discriminate|reflexivity]|].
  apply orb_true_iff in H as [H|H]; [apply orb_true_iff in H as [H|H]|].
  - left; apply const_changed_sound; exact H.
  - right; left; apply reseated_sound; exact H.
  - right; right; exact H.
Qed.

(* under a policy that makes every test nothing is ever broken *)
Lemma spec_never_broken pol s ops : all_checked pol -> ~ broken pol s ops.
Proof.
  intros Ha (HI & Hg & [(o & k & ob & Ho & Hp & Hne)|[(p & pt & pt' & Hp & Hc & Hp' & Hne)|Hb]]).
  - apply Hne. unfold run. eapply const_slots_immutable_l; eauto.
  - apply Hne. unfold run in Hp'. destruct (const_ptr_not_reseated_l pol Ha ops 0%nat s p pt Hp Hc) as (pt2 & H2 & (E & _)).
    congruence.
  - unfold run in Hb. rewrite (no_store_through_const_view_l pol Ha ops 0%nat s HI) in Hb. congruence.
Qed.

(* ------------------------------------------------------------------ every test is necessary *)
Lemma site_necessary_l st : broken (all_but st) (fst (witness st)) (snd (witness st)).
Proof. apply breaks_sound. destruct st; vm_compute; reflexivity. Qed.

Lemma witness_spec_rejected_l st : verdict_of spec (witness st) = VRejected.
Proof. destruct st; vm_compute; reflexivity. Qed.

(* ------------------------------------------------------------------ the pinned implementation *)
Lemma mech_value_holes_break : forallb (fun st => breaks mech (witness st)) mech_value_holes = true.
Proof. vm_compute. reflexivity. Qed.
Lemma mech_refuted_l st : In st mech_value_holes -> broken mech (fst (witness st)) (snd (witness st)).
Proof.
  intros H. apply breaks_sound. assert (F := mech_value_holes_break). rewrite forallb_forall in F. exact (F st H).
Qed.
Lemma mech_checked_reject_l st : mech_chk st = true -> verdict_of mech (witness st) = VRejected.
Proof. destruct st; vm_compute; intros; try reflexivity; discriminate. Qed.
Lemma mech_holes_accept_l st : mech_chk st = false -> verdict_of mech (witness st) <> VRejected.
Proof. destruct st; vm_compute; intros; try discriminate. Qed.
Lemma mech_holes_list : mech_holes =
  [SWholeMemberConst; SDerefExprStore; SPtrMemberConst; SAddrSubAssign; SAddrSubDecl; SAddrArg; SPtrCopyAssign; SPtrCopyDecl;
   SConstRefStore; SRefLocalCRef; SRefParamViaParam; SRefStructFresh; SPtcParamStore; SPtrCopyArgParam;
   SAliasParentIncDec; SAliasParentWhole; SAliasDeep].
Proof. vm_compute. reflexivity. Qed.

(* the nine tests added by the repairs c8a1652, a842ca6, 8c94aff, a242434, 38104c4, 29cf056 *)
Definition repaired_sites : list site :=
  [SIncDecVar; SElemIncDec; SMemberIncDec; SDerefIncDec; SReseatIncDec; SAddrDecl; SRefParam; SRefLocal; SArrowStore].
Lemma repaired_sites_reject_l st : In st repaired_sites ->
  mech_chk st = true /\ verdict_of mech (witness st) = VRejected /\ breaks mech (witness st) = false.
Proof.
  intros H. assert (F : forallb (fun st => mech_chk st && verdict_eqb (verdict_of mech (witness st)) VRejected &&
                                            negb (breaks mech (witness st))) repaired_sites = true) by (vm_compute; reflexivity).
  rewrite forallb_forall in F. specialize (F st H). apply andb_true_iff in F as [F F3]. apply andb_true_iff in F as [F1 F2].
  repeat split; auto.
  - destruct (verdict_of mech (witness st)); cbn in F2; congruence.
  - destruct (breaks mech (witness st)); cbn in F3; congruence.
Qed.

(* ------------------------------------------------------------------ the matrix *)
Definition cell_ok_spec (c : okind * mpath) : bool :=
  match scenario true (fst c) (snd c) with
  | None => true
  | Some sc => inv_b (fst sc) && verdict_eqb (verdict_of spec sc) VRejected
  end.
Definition cell_ok_twin (c : okind * mpath) : bool :=
  match scenario false (fst c) (snd c) with
  | None => match scenario true (fst c) (snd c) with None => true | Some _ => false end
  | Some sc => verdict_eqb (verdict_of spec sc) VChanged
  end.

Lemma cells_complete k p : In (k, p) cells.
Proof. unfold cells. apply in_prod; [destruct k|destruct p]; cbn; tauto. Qed.

Lemma matrix_sweep : forallb cell_ok_spec cells = true /\ forallb cell_ok_twin cells = true.
Proof. split; vm_compute; reflexivity. Qed.

Lemma verdict_eqb_eq a b : verdict_eqb a b = true -> a = b.
Proof. destruct a, b; cbn; congruence. Qed.

Lemma matrix_spec_rejected_l k p c : scenario true k p = Some c -> Inv (fst c) /\ verdict_of spec c = VRejected.
Proof.
  intros H. assert (F := proj1 matrix_sweep). rewrite forallb_forall in F. specialize (F (k, p) (cells_complete k p)).
  unfold cell_ok_spec in F. cbn [fst snd] in F. rewrite H in F. apply andb_true_iff in F as [F1 F2].
  split; [apply inv_b_sound; exact F1|apply verdict_eqb_eq; exact F2].
Qed.
Lemma matrix_twin_accepted_l k p c : scenario false k p = Some c -> verdict_of spec c = VChanged.
Proof.
  intros H. assert (F := proj2 matrix_sweep). rewrite forallb_forall in F. specialize (F (k, p) (cells_complete k p)).
  unfold cell_ok_twin in F. cbn [fst snd] in F. rewrite H in F. apply verdict_eqb_eq; exact F.
Qed.

(* the cells of the matrix in which the pinned implementation does not reject the attempt *)
Definition mech_matrix_holes : list (okind * mpath) :=
  filter (fun c => match cell_verdict mech true (fst c) (snd c) with Some VRejected | None => false | _ => true end) cells.
Definition n_applicable : nat := length (filter applicable cells).

(* the cells still not refused after the repairs: address of an element / member of a const aggregate,
   const members reached through the whole struct or an S*, pointer copies that drop the pointee const *)
Definition open_cells : list (okind * mpath) :=
  [(KArray, PAddrDecl); (KArray, PAddrAsg); (KMember, PAssign); (KMember, PDerefSt); (KMember, PArrowSt);
   (KMember, PAddrDecl); (KMember, PAddrAsg); (KPtc, PAddrDecl); (KPtc, PAddrAsg)].
Lemma mech_matrix_holes_list : mech_matrix_holes = open_cells.
Proof. vm_compute. reflexivity. Qed.

Lemma mech_matrix_rejected_l k p c : scenario true k p = Some c -> ~ In (k, p) open_cells -> verdict_of mech c = VRejected.
Proof.
  intros H Hn. rewrite <- mech_matrix_holes_list in Hn. unfold mech_matrix_holes in Hn.
  rewrite filter_In in Hn. unfold cell_verdict in Hn. cbn [fst snd] in Hn. rewrite H in Hn. cbn [option_map] in Hn.
  destruct (verdict_of mech c); try reflexivity; exfalso; apply Hn; split; auto using cells_complete.
Qed.
Lemma mech_matrix_open_l kp : In kp open_cells -> exists c, scenario true (fst kp) (snd kp) = Some c /\ verdict_of mech c = VChanged.
Proof.
  intros H. cbn in H. repeat (destruct H as [<-|H]; [eexists; split; [reflexivity|vm_compute; reflexivity]|]). destruct H.
Qed.

(* ------------------------------------------------------------------ derivation chains *)
Lemma lists_upto_complete {A} (al : list A) : (forall a, In a al) -> forall n ls, ls <> [] -> (length ls <= n)%nat -> In ls (lists_upto al n).
Proof.
  intros Hal. induction n as [|n IH]; intros ls Hne Hl.
  - destruct ls; [congruence|cbn in Hl; lia].
  - destruct ls as [|a l]; [congruence|]. cbn [lists_upto]. apply in_or_app. destruct l as [|b l'].
    + left. apply in_map_iff. exists a. auto.
    + right. apply in_flat_map. exists (b :: l'). split; [apply IH; [discriminate|cbn in Hl |- *; lia]|].
      apply in_map_iff. exists a. auto.
Qed.
Lemma ref_alpha_complete a : In a ref_alpha. Proof. destruct a as [[|] [|]]; cbn; tauto. Qed.
Lemma ptr_alpha_complete a : In a ptr_alpha. Proof. destruct a as [[| |] [|]]; cbn; tauto. Qed.
Lemma bool_complete (b : bool) : In b [false; true]. Proof. destruct b; cbn; tauto. Qed.

Definition chain_ok (pol : policy) (c : state * list op) (v : verdict) : bool := inv_b (fst c) && verdict_eqb (verdict_of pol c) v.
(* where the implementation's verdict differs from the property's, the test at which the property refuses is one it lacks *)
Definition mech_dev_ok (c : state * list op) : bool :=
  verdict_eqb (verdict_of mech c) (verdict_of spec c) ||
  match snd (run spec (fst c) (snd c)) with RejectedAt _ st => negb (mech_chk st) | _ => false end.

Definition ref_cell_ok (ls : list (bool * bool)) : bool :=
  forallb (fun cst => forallb (fun sr : bool * bool => forallb (fun f =>
     let c := ref_chain cst (fst sr) (snd sr) ls f in chain_ok spec c (chain_expect cst (map snd ls)) && mech_dev_ok c)
     [FAssign; FCompound]) [(false, false); (true, false); (true, true)]) [false; true].
Definition alias_cell_ok (ls : list bool) : bool :=
  forallb (fun cst => forallb (fun f => let c := alias_chain cst ls f in chain_ok spec c (chain_expect cst ls) && mech_dev_ok c)
     alias_finals) [false; true].
Definition ptr_cell_ok (ls : list (amode * bool)) : bool :=
  forallb (fun cst => forallb (fun r => forallb (fun f =>
     let c := ptr_chain cst r ls f in chain_ok spec c (chain_expect cst (map snd ls)) && mech_dev_ok c)
     (proot_forms r)) all_proots) [false; true].

Lemma chain_sweep : forallb ref_cell_ok (lists_upto ref_alpha 3) = true /\ forallb alias_cell_ok (lists_upto [false; true] 4) = true /\
                    forallb ptr_cell_ok (lists_upto ptr_alpha 3) = true.
Proof. repeat split; vm_compute; reflexivity. Qed.

Lemma chain_ok_sound pol c v : chain_ok pol c v = true -> Inv (fst c) /\ verdict_of pol c = v.
Proof. unfold chain_ok. intros H. apply andb_true_iff in H as [H1 H2]. split; [apply inv_b_sound; exact H1|apply verdict_eqb_eq; exact H2]. Qed.
Lemma mech_dev_sound c : mech_dev_ok c = true ->
  verdict_of mech c = verdict_of spec c \/ exists i st, snd (run spec (fst c) (snd c)) = RejectedAt i st /\ mech_chk st = false.
Proof.
  unfold mech_dev_ok. intros H. apply orb_true_iff in H as [H|H]; [left; apply verdict_eqb_eq; exact H|right].
  destruct (snd (run spec (fst c) (snd c))) as [|i st|i]; try discriminate. exists i, st. split; [reflexivity|].
  destruct (mech_chk st); [discriminate|reflexivity].
Qed.

Definition chain_statement (c : state * list op) (v : verdict) : Prop :=
  Inv (fst c) /\ verdict_of spec c = v /\
  (verdict_of mech c = verdict_of spec c \/ exists i st, snd (run spec (fst c) (snd c)) = RejectedAt i st /\ mech_chk st = false).

Lemma ref_chain_matrix_l cst strct rd ls f : ls <> [] -> (length ls <= 3)%nat -> f <> FIncDec ->
  chain_statement (ref_chain cst strct rd ls f) (chain_expect cst (map snd ls)).
Proof.
  intros Hne Hl Hf. assert (F := proj1 chain_sweep). rewrite forallb_forall in F.
  specialize (F ls (lists_upto_complete _ ref_alpha_complete 3 ls Hne Hl)). unfold ref_cell_ok in F.
  rewrite forallb_forall in F. specialize (F cst (bool_complete cst)). rewrite forallb_forall in F.
  assert (E : exists sr, In sr [(false, false); (true, false); (true, true)] /\
                         ref_chain cst strct rd ls f = ref_chain cst (fst sr) (snd sr) ls f).
  { destruct strct, rd; [exists (true, true)|exists (true, false)|exists (false, false)|exists (false, false)]; cbn; tauto. }
  destruct E as (sr & Hin & ->). specialize (F sr Hin). rewrite forallb_forall in F.
  assert (Hfin : In f [FAssign; FCompound]) by (destruct f; cbn; try tauto; congruence).
  specialize (F f Hfin). cbn zeta in F. apply andb_true_iff in F as [F1 F2].
  destruct (chain_ok_sound _ _ _ F1) as [I1 V1]. split; [exact I1|]. split; [exact V1|]. apply mech_dev_sound. exact F2.
Qed.

Lemma alias_chain_matrix_l cst ls f : ls <> [] -> (length ls <= 4)%nat -> In f alias_finals ->
  chain_statement (alias_chain cst ls f) (chain_expect cst ls).
Proof.
  intros Hne Hl Hf. assert (F := proj1 (proj2 chain_sweep)). rewrite forallb_forall in F.
  specialize (F ls (lists_upto_complete _ bool_complete 4 ls Hne Hl)). unfold alias_cell_ok in F.
  rewrite forallb_forall in F. specialize (F cst (bool_complete cst)). rewrite forallb_forall in F.
  specialize (F f Hf). cbn zeta in F. apply andb_true_iff in F as [F1 F2].
  destruct (chain_ok_sound _ _ _ F1) as [I1 V1]. split; [exact I1|]. split; [exact V1|]. apply mech_dev_sound. exact F2.
Qed.

Lemma ptr_chain_matrix_l cst r ls f : ls <> [] -> (length ls <= 3)%nat -> In f (proot_forms r) ->
  chain_statement (ptr_chain cst r ls f) (chain_expect cst (map snd ls)).
Proof.
  intros Hne Hl Hf. assert (F := proj2 (proj2 chain_sweep)). rewrite forallb_forall in F.
  specialize (F ls (lists_upto_complete _ ptr_alpha_complete 3 ls Hne Hl)). unfold ptr_cell_ok in F.
  rewrite forallb_forall in F. specialize (F cst (bool_complete cst)). rewrite forallb_forall in F.
  assert (Hr : In r all_proots) by (destruct r; cbn; tauto). specialize (F r Hr). rewrite forallb_forall in F.
  specialize (F f Hf). cbn zeta in F. apply andb_true_iff in F as [F1 F2].
  destruct (chain_ok_sound _ _ _ F1) as [I1 V1]. split; [exact I1|]. split; [exact V1|]. apply mech_dev_sound. exact F2.
Qed.
