(* C09 - the object-kind x mutation-path matrix of the property and one witness script per check
   site, as scripts of the machine in ConstPtr.v.  Definitions only (sweeps in MatrixLemmas.v).
   The Cb text of every cell is in harness/gen_c09.py (same order of kinds and paths). *)
From Coq Require Import List ZArith Bool Arith.
From Cb Require Import C09.ConstPtr.
Import ListNotations.
Local Open Scope Z_scope.

Inductive okind := KTiny | KShort | KInt | KLong | KChar | KBool | KArray | KStruct | KMember | KGlobal | KParam | KPtc | KCptr.
Inductive mpath := PAssign | PCompound | PPostInc | PPreDec | PElem | PMemberSt | PDerefSt | PArrowSt | PRefParam
                 | PAddrDecl | PAddrAsg | PLocalRef.
Definition all_kinds := [KTiny; KShort; KInt; KLong; KChar; KBool; KArray; KStruct; KMember; KGlobal; KParam; KPtc; KCptr].
Definition all_paths := [PAssign; PCompound; PPostInc; PPreDec; PElem; PMemberSt; PDerefSt; PArrowSt; PRefParam;
                         PAddrDecl; PAddrAsg; PLocalRef].

Definition mk (sh : shape) (c : bool) (mc : list bool) (vs : list Z) : obj :=
  {| oshape := sh; oconst := c; omconst := mc; ovals := vs |}.
Definition st0 (os : list obj) (ps : list ptr) : state := {| objs := os; ptrs := ps; gbad := false |}.
Definition pt (t : tgt) (pc cc : bool) : ptr := mk_ptr (Some t) pc cc false false.

(* [cst] = true: the qualifier under test is present; false: the control twin without it *)
Definition scalar_cell (cst : bool) (p : mpath) : option (state * list op) :=
  let s := st0 [mk Scalar cst [] [13]] [] in
  match p with
  | PAssign => Some (s, [ODirect FAssign 0 0 3])
  | PCompound => Some (s, [ODirect FCompound 0 0 1])
  | PPostInc => Some (s, [ODirect FIncDec 0 0 1])
  | PPreDec => Some (s, [ODirect FIncDec 0 0 (-1)])
  | PDerefSt => Some (s, [OPtrNew cst false (Some (PAddr (TSlot 0 0))); OPtrStore PDeref 0 0 3])
  | PRefParam => Some (s, [ORef true false 0 0 3])
  | PLocalRef => Some (s, [ORef false false 0 0 3])
  | PAddrDecl => Some (s, [OPtrNew false false (Some (PAddr (TSlot 0 0))); OPtrStore PDeref 0 0 3])
  | PAddrAsg => Some (s, [OPtrNew false false None; OPtrSet 0 (PAddr (TSlot 0 0)); OPtrStore PDeref 0 0 3])
  | _ => None
  end.
Definition array_cell (cst : bool) (p : mpath) : option (state * list op) :=
  let s := st0 [mk Arr cst [] [21; 22; 23]] [] in
  match p with
  | PAssign => Some (s, [OWhole 0 [4; 5; 6]])
  | PCompound => Some (s, [ODirect FCompound 0 1 1])
  | PPostInc => Some (s, [ODirect FIncDec 0 1 1])
  | PPreDec => Some (s, [ODirect FIncDec 0 1 (-1)])
  | PElem => Some (s, [ODirect FAssign 0 1 3])
  | PDerefSt => Some (s, [OPtrNew cst false (Some (PAddr (TSlot 0 1))); OPtrStore PDeref 0 0 3])
  | PAddrDecl => Some (s, [OPtrNew false false (Some (PAddr (TSlot 0 1))); OPtrStore PDeref 0 0 3])
  | PAddrAsg => Some (s, [OPtrNew false false None; OPtrSet 0 (PAddr (TSlot 0 1)); OPtrStore PDeref 0 0 3])
  | _ => None
  end.
Definition struct_cell (cst : bool) (p : mpath) : option (state * list op) :=
  let s := st0 [mk Struct cst [false; false] [31; 32]] [] in
  match p with
  | PAssign => Some (s, [OWhole 0 [4; 5]])
  | PCompound => Some (s, [ODirect FCompound 0 0 1])
  | PPostInc => Some (s, [ODirect FIncDec 0 0 1])
  | PPreDec => Some (s, [ODirect FIncDec 0 0 (-1)])
  | PMemberSt => Some (s, [ODirect FAssign 0 0 3])
  | PDerefSt => Some (s, [OPtrNew cst false (Some (PAddr (TObj 0))); OPtrStore PDerefMember 0 0 3])
  | PArrowSt => Some (s, [OPtrNew cst false (Some (PAddr (TObj 0))); OPtrStore PArrow 0 0 3])
  | PRefParam => Some (s, [ORef true false 0 0 3])
  | PLocalRef => Some (s, [ORef false false 0 0 3])
  | PAddrDecl => Some (s, [OPtrNew false false (Some (PAddr (TObj 0))); OPtrStore PArrow 0 0 3])
  | PAddrAsg => Some (s, [OPtrNew false false None; OPtrSet 0 (PAddr (TObj 0)); OPtrStore PArrow 0 0 3])
  | _ => None
  end.
(* a const member of a struct variable that is not const itself *)
Definition member_cell (cst : bool) (p : mpath) : option (state * list op) :=
  let s := st0 [mk Struct false [cst; false] [41; 42]] [] in
  match p with
  | PAssign => Some (s, [OWhole 0 [4; 5]])
  | PCompound => Some (s, [ODirect FCompound 0 0 1])
  | PPostInc => Some (s, [ODirect FIncDec 0 0 1])
  | PPreDec => Some (s, [ODirect FIncDec 0 0 (-1)])
  | PMemberSt => Some (s, [ODirect FAssign 0 0 3])
  | PDerefSt => Some (s, [OPtrNew false false (Some (PAddr (TObj 0))); OPtrStore PDerefMember 0 0 3])
  | PArrowSt => Some (s, [OPtrNew false false (Some (PAddr (TObj 0))); OPtrStore PArrow 0 0 3])
  | PAddrDecl => Some (s, [OPtrNew false false (Some (PAddr (TSlot 0 0))); OPtrStore PDeref 0 0 3])
  | PAddrAsg => Some (s, [OPtrNew false false None; OPtrSet 0 (PAddr (TSlot 0 0)); OPtrStore PDeref 0 0 3])
  | _ => None
  end.
(* the object reached through `const T* c` (the object itself is not const) *)
Definition ptc_cell (cst : bool) (p : mpath) : option (state * list op) :=
  let s := st0 [mk Scalar false [] [53]] [pt (TSlot 0 0) cst false] in
  let ss := st0 [mk Struct false [false; false] [51; 52]] [pt (TObj 0) cst false] in
  match p with
  | PDerefSt => Some (s, [OPtrStore PDeref 0 0 3])
  | PPostInc => Some (s, [OPtrStore PDerefInc 0 0 1])
  | PPreDec => Some (s, [OPtrStore PDerefInc 0 0 (-1)])
  | PMemberSt => Some (ss, [OPtrStore PDerefMember 0 0 3])
  | PArrowSt => Some (ss, [OPtrStore PArrow 0 0 3])
  | PAddrDecl => Some (s, [OPtrNew false false (Some (PCopy 0)); OPtrStore PDeref 1 0 3])
  | PAddrAsg => Some (s, [OPtrNew false false None; OPtrSet 1 (PCopy 0); OPtrStore PDeref 1 0 3])
  | _ => None
  end.
(* `T* const c`: the protected thing is the pointer's target *)
Definition cptr_cell (cst : bool) (p : mpath) : option (state * list op) :=
  let s := st0 [mk Arr false [] [61; 62; 63]; mk Scalar false [] [64]] [pt (TSlot 0 1) false cst] in
  match p with
  | PAssign => Some (s, [OPtrSet 0 (PAddr (TSlot 1 0))])
  | PCompound => Some (s, [OPtrMove FCompound 0 1])
  | PPostInc => Some (s, [OPtrMove FIncDec 0 1])
  | PPreDec => Some (s, [OPtrMove FIncDec 0 (-1)])
  | _ => None
  end.

Definition scenario (cst : bool) (k : okind) (p : mpath) : option (state * list op) :=
  match k with
  | KTiny | KShort | KInt | KLong | KChar | KBool | KGlobal | KParam => scalar_cell cst p
  | KArray => array_cell cst p
  | KStruct => struct_cell cst p
  | KMember => member_cell cst p
  | KPtc => ptc_cell cst p
  | KCptr => cptr_cell cst p
  end.

(* what the program shows: the values of all objects and the targets of the pointers it started with *)
Definition obs_eqb (n : nat) (s s' : state) : bool :=
  forallb (fun ab => forallb (fun xy => fst xy =? snd xy) (zip (ovals (fst ab)) (ovals (snd ab)))) (zip (objs s) (objs s')) &&
  forallb (fun ab => tgt_eqb (ptgt (fst ab)) (ptgt (snd ab))) (zip (firstn n (ptrs s)) (firstn n (ptrs s'))).

Inductive verdict := VRejected | VChanged | VUnchanged | VStuck.
Definition verdict_eqb (a b : verdict) : bool :=
  match a, b with VRejected, VRejected | VChanged, VChanged | VUnchanged, VUnchanged | VStuck, VStuck => true | _, _ => false end.
Definition verdict_of (pol : policy) (c : state * list op) : verdict :=
  let '(s', oc) := run pol (fst c) (snd c) in
  match oc with
  | RejectedAt _ _ => VRejected
  | StuckAt _ => VStuck
  | Done => if obs_eqb (length (ptrs (fst c))) (fst c) s' then VUnchanged else VChanged
  end.
Definition cell_verdict (pol : policy) (cst : bool) (k : okind) (p : mpath) : option verdict :=
  option_map (verdict_of pol) (scenario cst k p).

Definition cells : list (okind * mpath) := list_prod all_kinds all_paths.
Definition applicable (c : okind * mpath) : bool := match scenario true (fst c) (snd c) with Some _ => true | None => false end.

(* ------------------------------------------------------------------ one witness per check site *)
Definition oc := mk Scalar true [] [5].
Definition ac := mk Arr true [] [1; 2; 3].
Definition sc := mk Struct true [false; false] [1; 2].
Definition sm := mk Struct false [true; false] [1; 2].
Definition on := mk Scalar false [] [5].
Definition an := mk Arr false [] [1; 2; 3].
Definition cp_state := st0 [mk Arr false [] [1; 2; 3]; mk Scalar false [] [7]] [pt (TSlot 0 1) false true].

Definition witness (st : site) : state * list op :=
  match st with
  | SAssignVar => (st0 [oc] [], [ODirect FAssign 0 0 9])
  | SCompoundVar => (st0 [oc] [], [ODirect FCompound 0 0 1])
  | SIncDecVar => (st0 [oc] [], [ODirect FIncDec 0 0 1])
  | SElemStore => (st0 [ac] [], [ODirect FAssign 0 1 9])
  | SElemCompound => (st0 [ac] [], [ODirect FCompound 0 1 1])
  | SElemIncDec => (st0 [ac] [], [ODirect FIncDec 0 1 1])
  | SMemberStore => (st0 [sc] [], [ODirect FAssign 0 0 9])
  | SMemberCompound => (st0 [sm] [], [ODirect FCompound 0 0 1])
  | SMemberIncDec => (st0 [sc] [], [ODirect FIncDec 0 0 1])
  | SWholeConst => (st0 [ac] [], [OWhole 0 [4; 5; 6]])
  | SWholeMemberConst => (st0 [sm] [], [OWhole 0 [4; 5]])
  | SDerefStore => (st0 [oc] [], [OPtrNew true false (Some (PAddr (TSlot 0 0))); OPtrStore PDeref 0 0 9])
  | SDerefIncDec => (st0 [oc] [], [OPtrNew true false (Some (PAddr (TSlot 0 0))); OPtrStore PDerefInc 0 0 1])
  | SDerefExprStore => (st0 [oc] [], [OPtrNew true false (Some (PAddr (TSlot 0 0))); OPtrStore PDerefExpr 0 0 9])
  | SDerefMember => (st0 [sc] [], [OPtrNew true false (Some (PAddr (TObj 0))); OPtrStore PDerefMember 0 0 9])
  | SArrowStore => (st0 [sc] [], [OPtrNew true false (Some (PAddr (TObj 0))); OPtrStore PArrow 0 0 9])
  | SPtrMemberConst => (st0 [sm] [], [OPtrNew false false (Some (PAddr (TObj 0))); OPtrStore PArrow 0 0 9])
  | SAddrAssign => (st0 [oc] [], [OPtrNew false false None; OPtrSet 0 (PAddr (TSlot 0 0)); OPtrStore PDeref 0 0 9])
  | SAddrDecl => (st0 [oc] [], [OPtrNew false false (Some (PAddr (TSlot 0 0))); OPtrStore PDeref 0 0 9])
  | SAddrSubAssign => (st0 [ac] [], [OPtrNew false false None; OPtrSet 0 (PAddr (TSlot 0 1)); OPtrStore PDeref 0 0 9])
  | SAddrSubDecl => (st0 [ac] [], [OPtrNew false false (Some (PAddr (TSlot 0 1))); OPtrStore PDeref 0 0 9])
  | SAddrArg => (st0 [oc] [], [OPtrCall (PAddr (TSlot 0 0)) 9])
  | SPtrCopyAssign => (st0 [oc] [], [OPtrNew true false (Some (PAddr (TSlot 0 0))); OPtrNew false false None;
                                     OPtrSet 1 (PCopy 0); OPtrStore PDeref 1 0 9])
  | SPtrCopyDecl => (st0 [oc] [], [OPtrNew true false (Some (PAddr (TSlot 0 0))); OPtrNew false false (Some (PCopy 0));
                                   OPtrStore PDeref 1 0 9])
  | SPtrCopyArg => (st0 [oc] [], [OPtrNew true false (Some (PAddr (TSlot 0 0))); OPtrCall (PCopy 0) 9])
  | SRefParam => (st0 [oc] [], [ORef true false 0 0 9])
  | SRefLocal => (st0 [oc] [], [ORef false false 0 0 9])
  | SConstRefStore => (st0 [oc] [], [ORef true true 0 0 9])
  | SReseatAssign => (cp_state, [OPtrSet 0 (PAddr (TSlot 1 0))])
  | SReseatCompound => (cp_state, [OPtrMove FCompound 0 1])
  | SReseatIncDec => (cp_state, [OPtrMove FIncDec 0 1])
  (* derivation chains: the witness of a site is the shortest chain that only this test stops *)
  | SRefLocalViaLocal => (st0 [oc] [], [OHRef false true (HObj 0); OHRef false false (HVia 0); OHStore FAssign 1 0 9])
  | SRefLocalViaParam => (st0 [oc] [], [OHRef true true (HObj 0); OHRef false false (HVia 0); OHStore FAssign 1 0 9])
  | SRefLocalCRef => (st0 [on] [], [OHRef false true (HObj 0); OHRef false false (HVia 0); OHStore FAssign 1 0 9])
  | SRefParamViaLocal => (st0 [oc] [], [OHRef false true (HObj 0); OHRef true false (HVia 0); OHStore FAssign 1 0 9])
  | SRefParamViaParam => (st0 [oc] [], [OHRef true true (HObj 0); OHRef true false (HVia 0); OHStore FAssign 1 0 9])
  | SRefMemberConst => (st0 [sm] [], [OHRef false false (HObj 0); OHStore FAssign 0 0 9])
  | SRefStructRead => (st0 [sc] [], [OHRef true true (HObj 0); OHRead 0; OHStore FAssign 0 0 9])
  | SRefStructFresh => (st0 [sc] [], [OHRef true true (HObj 0); OHStore FAssign 0 0 9])
  | SPtcParamStore => (st0 [oc] [], [OPtrParam true (PAddr (TSlot 0 0)); OPtrStore PDeref 0 0 9])
  | SPtrCopyArgParam => (st0 [oc] [], [OPtrParam true (PAddr (TSlot 0 0)); OPtrParam false (PCopy 0); OPtrStore PDeref 1 0 9])
  | SAliasOwnConst => (st0 [an] [], [OHRef true true (HObj 0); OHStore FAssign 0 1 9])
  | SAliasParentStore => (st0 [ac] [], [OHRef true false (HObj 0); OHStore FAssign 0 1 9])
  | SAliasParentIncDec => (st0 [ac] [], [OHRef true false (HObj 0); OHStore FIncDec 0 1 1])
  | SAliasParentWhole => (st0 [ac] [], [OHRef true false (HObj 0); OHWhole 0 [4; 5; 6]])
  | SAliasDeep => (st0 [ac] [], [OHRef true false (HObj 0); OHRef true false (HVia 0); OHStore FAssign 1 1 9])
  end.

(* the tests the pinned implementation lacks, and those whose absence lets a protected value change *)
Definition mech_holes : list site := filter (fun st => negb (mech_chk st)) all_sites.
Definition mech_value_holes : list site := filter (fun st => negb (mech_chk st) && mech_eff st) all_sites.

(* ------------------------------------------------------------------ derivation chains
   A chain starts at an object (const or not), derives a handle from it, a handle from that handle, ... (each link a
   local declaration or a parameter of a further callee, const or not) and ends with a store through the last handle.
   The property demands a rejection as soon as the object or any link is const. *)

(* references: links = (parameter?, const?) *)
Fixpoint ref_links (n : nat) (src : hsrc) (ls : list (bool * bool)) : list op :=
  match ls with
  | [] => []
  | (par, rc) :: r => OHRef par rc src :: ref_links (S n) (HVia n) r
  end.
(* [rd]: the members are read through the last reference before the store (struct only) *)
Definition ref_chain (cst strct rd : bool) (ls : list (bool * bool)) (f : dform) : state * list op :=
  (st0 [if strct then mk Struct cst [false; false] [71; 72] else mk Scalar cst [] [73]] [],
   ref_links 0 (HObj 0) ls ++ (if strct && rd then [OHRead (length ls - 1)] else []) ++ [OHStore f (length ls - 1) 0 3]).

(* array parameters: links = const? ; the final store: Some f = a[1] f 1, None = whole-array assignment *)
Definition alias_chain (cst : bool) (ls : list bool) (f : option dform) : state * list op :=
  (st0 [mk Arr cst [] [81; 82; 83]] [],
   ref_links 0 (HObj 0) (map (fun rc => (true, rc)) ls) ++
   [match f with Some f => OHStore f (length ls - 1) 1 1 | None => OHWhole (length ls - 1) [4; 5; 6] end]).

(* pointers: what the first pointer is the address of; links = (how the pointer is acquired, pointer to const?) *)
Inductive proot := RScalar | RElem | RStructObj | RMemberSlot.
Definition proot_obj (cst : bool) (r : proot) : obj :=
  match r with
  | RScalar => mk Scalar cst [] [91]
  | RElem => mk Arr cst [] [92; 93; 94]
  | RStructObj | RMemberSlot => mk Struct cst [false; false] [95; 96]
  end.
Definition proot_tgt (r : proot) : tgt :=
  match r with RScalar => TSlot 0 0 | RElem => TSlot 0 1 | RStructObj => TObj 0 | RMemberSlot => TSlot 0 0 end.
Fixpoint ptr_links (n : nat) (src : psrc) (ls : list (amode * bool)) : list op :=
  match ls with
  | [] => []
  | (md, pc) :: r =>
      match md with
      | ADecl => [OPtrNew pc false (Some src)]
      | AAssign => [OPtrNew pc false None; OPtrSet n src]
      | AArg => [OPtrParam pc src]
      end ++ ptr_links (S n) (PCopy n) r
  end.
Definition ptr_chain (cst : bool) (r : proot) (ls : list (amode * bool)) (f : pform) : state * list op :=
  (st0 [proot_obj cst r] [], ptr_links 0 (PAddr (proot_tgt r)) ls ++ [OPtrStore f (length ls - 1) 0 (match f with PDerefInc => 1 | _ => 3 end)]).
Definition proot_forms (r : proot) : list pform :=
  match r with RStructObj => [PDerefMember; PArrow] | RMemberSlot => [PDeref; PDerefExpr] | _ => [PDeref; PDerefInc; PDerefExpr] end.

(* all link lists of length 1 .. n over an alphabet *)
Fixpoint lists_upto {A} (al : list A) (n : nat) : list (list A) :=
  match n with
  | O => []
  | S k => map (fun a => [a]) al ++ flat_map (fun l => map (fun a => a :: l) al) (lists_upto al k)
  end.
Definition ref_alpha : list (bool * bool) := [(false, false); (false, true); (true, false); (true, true)].
Definition ptr_alpha : list (amode * bool) := [(ADecl, false); (ADecl, true); (AAssign, false); (AAssign, true); (AArg, false); (AArg, true)].
Definition alias_finals : list (option dform) := [Some FAssign; Some FCompound; Some FIncDec; None].
Definition all_proots := [RScalar; RElem; RStructObj; RMemberSlot].

(* what the property demands of a chain *)
Definition chain_expect (cst : bool) (consts : list bool) : verdict := if cst || existsb (fun b => b) consts then VRejected else VChanged.
