(* C07 - receivers reached through a pointer, exit forms of the callee, calls made from inside a callee body.

   1. The nested-call constructs (Model.v: bind_in, exec_call_in, stmt, exec_call2, OCall2) are a conservative
      extension: in the empty frame / with a call-free body they are the calls of main.
   2. Aliasing convention: a write through a T& / array / self parameter is visible in the caller through every path
      whatever the RECEIVER FORM (the argument is any access expression: c.m(), p->m(), ( *p).m()) and whatever the
      EXIT FORM of the callee (falls off the end, `return e;` into a fresh variable, `return e;` into a destination).
   3. The same when the method is invoked by a function that received &c: void f(T* q) { q->m(); }.
   4. The code's copy-in / write-through / copy-back convention refines aliasing also when arguments contain
      dereferences (p->m()): an argument enters the binding only through the cell it resolves to, so the call is the
      call with the normalised, dereference-free argument and the refinement theorem of CallConv.v applies. *)
From Coq Require Import List ZArith Bool Arith Lia.
From Cb Require Import C07.Model C07.Store C07.History C07.CallConv.
Import ListNotations.

(* ---------------------------------------------------------------- 1. conservative extension *)
Lemma hwrite_t_nil : forall h c x, hwrite_t h [] c x = hwrite h c x.
Proof. intros. unfold hwrite_t. destruct (hwrite h c x); auto. Qed.

Lemma exec_call_in_nil_lemma : forall mech h ps body ret,
  exec_call_in mech h [] [] ps body ret = exec_call mech h ps body ret.
Proof.
  intros. unfold exec_call_in, exec_call. rewrite bind_in_nil.
  destruct (bind mech h ps [] []) as [[[h1 fr] th]|]; auto.
  rewrite app_nil_r.
  destruct (exec_sops h1 fr th body) as [[[h2 out] fp]|]; auto.
  destruct (match ret with Some (e, _) => eval h2 fr e | None => Some (VInt 0) end); auto.
  destruct (copy_back h2 th) as [[h3 fb]|]; auto.
  destruct ret as [[e [d|]]|]; auto.
  destruct (resolve h3 [] d); auto. rewrite hwrite_t_nil. reflexivity.
Qed.

Lemma exec_stmts_flat : forall mech body h fr th,
  exec_stmts mech h fr th (map TS body) = exec_sops h fr th body.
Proof.
  induction body; simpl; intros; auto.
  destruct (exec_sop h fr th a) as [[[h1 o1] f1]|]; auto.
  rewrite IHbody. auto.
Qed.

Lemma exec_call2_flat_lemma : forall mech h ps body ret,
  exec_call2 mech h ps (map TS body) ret = exec_call mech h ps body ret.
Proof.
  intros. unfold exec_call2, exec_call.
  destruct (bind mech h ps [] []) as [[[h1 fr] th]|]; auto.
  rewrite exec_stmts_flat. auto.
Qed.

(* ---------------------------------------------------------------- 2. every receiver form x every exit form *)
(* the destination of the returned value (if any) does not overlap the cell x *)
Definition dest_clear (x : cell) (ret : option (aexp * option aexp)) : Prop :=
  match ret with
  | Some (_, Some d) => forall hx c, resolve hx [] d = Some c -> overlap c x = false
  | _ => True
  end.

Lemma copy_back_nil : forall h, copy_back h [] = Some (h, []).
Proof. reflexivity. Qed.

Theorem alias_visible_call_exits_lemma : forall m h arg ks z ret h' out fp l p,
  resolve h [] arg = Some (l, p) ->
  l < length h ->
  (m = MRef \/ m = MArr \/ m = MSelf) ->
  dest_clear (l, p ++ ks) ret ->
  exec_call false h [(m, arg)] [SWrite (flds (APar 0) ks) z] ret = Some (h', out, fp) ->
  hread h' (l, p ++ ks) = Some (VInt z) /\
  (forall a', resolve h' [] a' = Some (l, p ++ ks) -> eval h' [] a' = Some (VInt z)) /\
  (forall d, fst d < length h -> overlap (l, p ++ ks) d = false -> dest_clear d ret -> hread h' d = hread h d).
Proof.
  intros m h arg ks z ret h' out fp l p R L M DC H.
  assert (B : bind false h [(m, arg)] [] [] = Some (h ++ [VInt 0], [(l, p)], [])).
  { simpl. rewrite R. destruct M as [->|[->| ->]]; auto. }
  unfold exec_call in H. rewrite B in H.
  cbn [exec_sops exec_sop] in H.
  rewrite (resolve_flds ks (h ++ [VInt 0]) [(l, p)] (APar 0) l p) in H by auto.
  unfold hwrite_t in H.
  destruct (hwrite (h ++ [VInt 0]) (l, p ++ ks) (VInt z)) as [h2|] eqn:W; try discriminate.
  cbn [write_thru] in H. rewrite copy_back_nil in H.
  assert (E2 : hread h2 (l, p ++ ks) = Some (VInt z)) by (eapply hread_hwrite_same; eauto).
  assert (L2 : length h2 = S (length h)).
  { rewrite (hwrite_length _ _ _ _ W). rewrite app_length. simpl. lia. }
  assert (F2 : forall d, fst d < length h -> overlap (l, p ++ ks) d = false -> hread h2 d = hread h d).
  { intros d Ld O. rewrite (hread_hwrite_disjoint _ _ _ _ d W O). apply hread_alloc; auto. }
  assert (G : hread h' (l, p ++ ks) = Some (VInt z) /\
              (forall d, fst d < length h -> overlap (l, p ++ ks) d = false -> dest_clear d ret -> hread h' d = hread h d)).
  { destruct ret as [[e [dd|]]|]; cbn [app] in H.
    - destruct (eval h2 [(l, p)] e) as [v|]; try discriminate.
      destruct (resolve h2 [] dd) as [c|] eqn:RD; try discriminate.
      destruct (hwrite h2 c v) as [h4|] eqn:W2; try discriminate.
      inversion H; subst; clear H. split.
      + rewrite (hread_hwrite_disjoint _ _ _ _ (l, p ++ ks) W2); auto. apply (DC _ _ RD).
      + intros d Ld O DD. rewrite (hread_hwrite_disjoint _ _ _ _ d W2); auto. apply (DD _ _ RD).
    - destruct (eval h2 [(l, p)] e) as [v|]; try discriminate.
      inversion H; subst; clear H. split.
      + rewrite hread_alloc by (simpl; lia). auto.
      + intros d Ld O _. rewrite hread_alloc by lia. auto.
    - inversion H; subst; clear H. split; auto. }
  destruct G as [G1 G2]. repeat split; auto.
  intros a' R'. unfold eval. rewrite R'. auto.
Qed.

(* ---------------------------------------------------------------- 3. the method is invoked by a callee that received &arg *)
Definition lift (r : option aexp) : option (aexp * option aexp) :=
  match r with Some e => Some (e, None) | None => None end.

Theorem alias_visible_nested_ptr_call_lemma : forall h arg ks z iret oret h' out fp l p,
  resolve h [] arg = Some (l, p) ->
  l < length h ->
  exec_call2 false h [(MPtr, arg)]
             [TCall [(MSelf, ADeref (APar 0))] [SWrite (flds (APar 0) ks) z] (lift iret)] (lift oret)
    = Some (h', out, fp) ->
  hread h' (l, p ++ ks) = Some (VInt z) /\
  (forall a', resolve h' [] a' = Some (l, p ++ ks) -> eval h' [] a' = Some (VInt z)) /\
  (forall d, fst d < length h -> overlap (l, p ++ ks) d = false -> hread h' d = hread h d).
Proof.
  intros h arg ks z iret oret h' out fp l p R L H.
  remember (h ++ [VPtr (Some (l, p))]) as h1 eqn:Eh1.
  assert (B : bind false h [(MPtr, arg)] [] [] = Some (h1, [(length h, [])], [])).
  { simpl. rewrite R. subst h1. auto. }
  assert (RD : resolve h1 [(length h, [])] (ADeref (APar 0)) = Some (l, p)).
  { subst h1. simpl. unfold hread. simpl. rewrite nth_error_app2 by lia. rewrite Nat.sub_diag. simpl. auto. }
  assert (L1 : length h1 = S (length h)) by (subst h1; rewrite app_length; simpl; lia).
  unfold exec_call2 in H. rewrite B in H.
  cbn [exec_stmts exec_stmt] in H.
  unfold exec_call_in in H. cbn [bind_in] in H. rewrite RD in H. cbn [app] in H.
  cbn [exec_sops exec_sop] in H.
  rewrite (resolve_flds ks _ _ (APar 0) l p) in H by auto.
  unfold hwrite_t in H.
  destruct (hwrite (h1 ++ [VInt 0]) (l, p ++ ks) (VInt z)) as [h2|] eqn:W; try discriminate.
  cbn [write_thru copy_back] in H. cbv beta iota in H.
  assert (E2 : hread h2 (l, p ++ ks) = Some (VInt z)) by (eapply hread_hwrite_same; eauto).
  assert (L2 : length h2 = S (S (length h))).
  { rewrite (hwrite_length _ _ _ _ W). rewrite app_length. simpl. lia. }
  assert (F2 : forall d, fst d < length h -> overlap (l, p ++ ks) d = false -> hread h2 d = hread h d).
  { intros d Ld O. rewrite (hread_hwrite_disjoint _ _ _ _ d W O).
    rewrite hread_alloc by lia. subst h1. apply hread_alloc; auto. }
  assert (FIN : forall hx, length h2 <= length hx ->
                 hread hx (l, p ++ ks) = Some (VInt z) ->
                 (forall d, fst d < length h -> overlap (l, p ++ ks) d = false -> hread hx d = hread h d) ->
                 forall v, let hy := hx ++ [v] in
                 length h2 <= length hy /\ hread hy (l, p ++ ks) = Some (VInt z) /\
                 (forall d, fst d < length h -> overlap (l, p ++ ks) d = false -> hread hy d = hread h d)).
  { intros hx Lx Ex Fx v hy. unfold hy. repeat split.
    - rewrite app_length. lia.
    - rewrite hread_alloc by (simpl; lia). auto.
    - intros d Ld O. rewrite hread_alloc by lia. auto. }
  assert (DONE : forall hx, length h2 <= length hx ->
                 hread hx (l, p ++ ks) = Some (VInt z) ->
                 (forall d, fst d < length h -> overlap (l, p ++ ks) d = false -> hread hx d = hread h d) ->
                 hread hx (l, p ++ ks) = Some (VInt z) /\
                 (forall a', resolve hx [] a' = Some (l, p ++ ks) -> eval hx [] a' = Some (VInt z)) /\
                 (forall d, fst d < length h -> overlap (l, p ++ ks) d = false -> hread hx d = hread h d)).
  { intros hx Lx Ex Fx. repeat split; auto. intros a' R'. unfold eval. rewrite R'. auto. }
  destruct iret as [ie|]; cbn [lift] in H.
  - destruct (eval h2 _ ie) as [iv|]; try discriminate. cbv beta iota in H.
    destruct (FIN h2 (le_n _) E2 F2 iv) as [La [Ea Fa]].
    destruct oret as [oe|]; cbn [lift copy_back] in H; cbv beta iota in H.
    + destruct (eval _ _ oe) as [ov|]; try discriminate. cbv beta iota in H.
      inversion H; subst; clear H.
      destruct (FIN _ La Ea Fa ov) as [Lb [Eb Fb]]. apply DONE; auto.
    + inversion H; subst; clear H. apply DONE; auto.
  - cbv beta iota in H.
    destruct oret as [oe|]; cbn [lift copy_back] in H; cbv beta iota in H.
    + destruct (eval _ _ oe) as [ov|]; try discriminate. cbv beta iota in H.
      inversion H; subst; clear H.
      destruct (FIN h2 (le_n _) E2 F2 ov) as [Lb [Eb Fb]]. apply DONE; auto.
    + inversion H; subst; clear H. apply DONE; auto.
Qed.

(* ---------------------------------------------------------------- 4. arguments with dereferences: normalisation *)
Lemma resolve_app_mono : forall a h ext fr c, resolve h fr a = Some c -> resolve (h ++ ext) fr a = Some c.
Proof.
  induction a; simpl; intros h ext fr c H; auto.
  - destruct (resolve h fr a) as [[l p]|] eqn:E; try discriminate.
    rewrite (IHa _ ext _ _ E). auto.
  - destruct (resolve h fr a) as [c0|] eqn:E; try discriminate.
    rewrite (IHa _ ext _ _ E).
    destruct (hread h c0) as [v|] eqn:RV; try discriminate.
    rewrite (hread_app_some _ ext _ _ RV). auto.
Qed.

(* the dereference-free access expression that denotes the cell an argument resolves to in h *)
Definition norm_arg (h : heap) (a : aexp) : aexp :=
  match resolve h [] a with
  | Some (l, p) => flds (AVar l) p
  | None => a
  end.

Definition norm_params (h : heap) (ps : list param) : list param :=
  map (fun pa : param => (fst pa, norm_arg h (snd pa))) ps.

Lemma resolve_norm_arg : forall h ext a, resolve (h ++ ext) [] (norm_arg h a) = resolve (h ++ ext) [] a.
Proof.
  intros h ext a. unfold norm_arg. destruct (resolve h [] a) as [[l p]|] eqn:E; auto.
  rewrite (resolve_app_mono _ _ ext _ _ E).
  rewrite (resolve_flds p (h ++ ext) [] (AVar l) l []); auto.
Qed.

Lemma bind_norm : forall mech h ps ext fr th,
  bind mech (h ++ ext) (norm_params h ps) fr th = bind mech (h ++ ext) ps fr th.
Proof.
  induction ps as [|[m a] ps]; intros ext fr th; auto.
  cbn [norm_params map fst snd bind]. fold (norm_params h ps).
  rewrite resolve_norm_arg.
  destruct (resolve (h ++ ext) [] a) as [c|]; auto.
  destruct m.
  - destruct (hread (h ++ ext) c); auto. rewrite <- app_assoc. apply IHps.
  - rewrite <- app_assoc. apply IHps.
  - rewrite <- app_assoc. apply IHps.
  - destruct mech.
    + destruct (hread (h ++ ext) c); auto. rewrite <- app_assoc. apply IHps.
    + rewrite <- app_assoc. apply IHps.
  - destruct mech.
    + destruct (hread (h ++ ext) c); auto. rewrite <- app_assoc. apply IHps.
    + rewrite <- app_assoc. apply IHps.
Qed.

Lemma exec_call_norm : forall mech h ps body ret,
  exec_call mech h (norm_params h ps) body ret = exec_call mech h ps body ret.
Proof.
  intros. unfold exec_call.
  pose proof (bind_norm mech h ps [] [] []) as B. rewrite app_nil_r in B. rewrite B. auto.
Qed.

(* REFINEMENT for arguments with dereferences (receivers p->m(), ( *p).m(), by-value *p): the side condition is the
   one of CallConv.v evaluated on the normalised parameter list *)
Theorem copyback_refines_alias_deref_lemma : forall h ps body ret hs out fps,
  call_ok h (norm_params h ps) body = true -> ret_ok (length h) ret = true ->
  exec_call false h ps body ret = Some (hs, out, fps) ->
  exists hm fpm,
    exec_call true h ps body ret = Some (hm, out, fpm) /\
    length hm = length hs /\
    (forall l, l < length h -> nth_error hm l = nth_error hs l) /\
    match ret with
    | Some (_, None) => nth_error hm (length hm - 1) = nth_error hs (length hs - 1)
    | _ => True
    end.
Proof.
  intros h ps body ret hs out fps OK RO H.
  rewrite <- (exec_call_norm false) in H.
  destruct (copyback_refines_alias_lemma h _ body ret hs out fps OK RO H) as [hm [fpm [HM X]]].
  rewrite (exec_call_norm true) in HM. eauto.
Qed.

Lemma hread_ext' : forall (h1 h2 : heap) (d : cell), nth_error h1 (fst d) = nth_error h2 (fst d) -> hread h1 d = hread h2 d.
Proof. unfold hread; intros h1 h2 d H. rewrite H. auto. Qed.

(* hence: under the code's convention a write through self made by a method that was invoked through ANY receiver
   expression (c.m(), p->m(), ( *p).m()) and that leaves in ANY way (ret) is visible in the caller after the call *)
Theorem alias_visible_receiver_copyin_lemma : forall m h recv ks z ret hs out fp l p,
  (m = MArr \/ m = MSelf) ->
  resolve h [] recv = Some (l, p) -> l < length h ->
  call_ok h [(m, flds (AVar l) p)] [SWrite (flds (APar 0) ks) z] = true ->
  ret_ok (length h) ret = true ->
  dest_clear (l, p ++ ks) ret ->
  exec_call false h [(m, recv)] [SWrite (flds (APar 0) ks) z] ret = Some (hs, out, fp) ->
  exists hm fpm,
    exec_call true h [(m, recv)] [SWrite (flds (APar 0) ks) z] ret = Some (hm, out, fpm) /\
    hread hm (l, p ++ ks) = Some (VInt z) /\
    (forall d, fst d < length h -> overlap (l, p ++ ks) d = false -> dest_clear d ret -> hread hm d = hread h d).
Proof.
  intros m h recv ks z ret hs out fp l p M R L OK RO DC H.
  assert (NP : norm_params h [(m, recv)] = [(m, flds (AVar l) p)]).
  { unfold norm_params, norm_arg. simpl. rewrite R. auto. }
  assert (OK' : call_ok h (norm_params h [(m, recv)]) [SWrite (flds (APar 0) ks) z] = true) by (rewrite NP; auto).
  destruct (copyback_refines_alias_deref_lemma h _ _ ret hs out fp OK' RO H) as [hm [fpm [HM [LN [EQ _]]]]].
  assert (M' : m = MRef \/ m = MArr \/ m = MSelf) by (destruct M; auto).
  destruct (alias_visible_call_exits_lemma m h recv ks z ret hs out fp l p R L M' DC H) as [V1 [V2 V3]].
  exists hm, fpm. split; auto. split.
  - rewrite <- V1. apply hread_ext'. apply EQ. exact L.
  - intros d Ld O DD. transitivity (hread hs d); [|apply V3; auto].
    apply hread_ext'. apply EQ. exact Ld.
Qed.

(* ---------------------------------------------------------------- witnesses (the shape of the seeded defect) *)
Local Open Scope Z_scope.
(* struct C { int n; int t; };  C c = {1, 2};  C* p = &c;
   int bump(int k) { self.n = k; return self.n; }     void vbump(int k) { self.n = k; }
   int bump_via(C* q, int k) { return q->bump(k); } *)
Definition n_heap : heap := [VAgg [VInt 1; VInt 2]; VPtr (Some (0%nat, [])); VInt 8].
Definition n_body : list sop := [SWrite (AFld (APar 0%nat) 0%nat) 8; SRead 1 [AFld (APar 0%nat) 0%nat; AFld (APar 0%nat) 1%nat]].
Definition n_recv : aexp := ADeref (AVar 1%nat).
Definition n_reads : list op := [OS (SRead 2 [AFld (AVar 0%nat) 0%nat; AFld (ADeref (AVar 1%nat)) 0%nat])].

(* p->vbump(8) / int r = p->bump(8) / c.t = p->bump(8) / bump_via(&c, 8) with both exits of both callees:
   under BOTH conventions the transcript is the same and c.n = 8 is read through c.n and p->n afterwards *)
Definition n_ops (k : nat) : list op :=
  match k with
  | 0%nat => [OCall [(MSelf, n_recv)] n_body None]
  | 1%nat => [OCall [(MSelf, n_recv)] n_body (Some (AFld (APar 0%nat) 0%nat, None))]
  | 2%nat => [OCall [(MSelf, n_recv)] n_body (Some (AFld (APar 0%nat) 0%nat, Some (AFld (AVar 0%nat) 1%nat)))]
  | 3%nat => [OCall2 [(MPtr, AVar 0%nat)] [TCall [(MSelf, ADeref (APar 0%nat))] n_body None] None]
  | 4%nat => [OCall2 [(MPtr, AVar 0%nat)] [TCall [(MSelf, ADeref (APar 0%nat))] n_body (Some (AFld (APar 0%nat) 0%nat, None))] None]
  | 5%nat => [OCall2 [(MPtr, AVar 0%nat)] [TCall [(MSelf, ADeref (APar 0%nat))] n_body None] (Some (AFld (ADeref (APar 0%nat)) 0%nat, None))]
  | _ => [OCall2 [(MPtr, AVar 0%nat)] [TCall [(MSelf, ADeref (APar 0%nat))] n_body (Some (AFld (APar 0%nat) 0%nat, Some (AVar 2%nat)))]
                 (Some (AVar 2%nat, None))]
  end.

Fixpoint zs_eqb (a b : list Z) : bool :=
  match a, b with
  | [], [] => true
  | x :: a', y :: b' => Z.eqb x y && zs_eqb a' b'
  | _, _ => false
  end.

Lemma nested_exits_witness :
  forallb (fun k =>
    match transcript false n_heap (n_ops k ++ n_reads), transcript true n_heap (n_ops k ++ n_reads) with
    | (os, true), (om, true) =>
        match os, om with
        | [l1; l2], [l1'; l2'] =>
            zs_eqb l1 [1; 8; 2] && zs_eqb l1' [1; 8; 2] && zs_eqb l2 [2; 8; 8] && zs_eqb l2' [2; 8; 8]
        | _, _ => false
        end
    | _, _ => false
    end) (seq 0 7) = true.
Proof. vm_compute. reflexivity. Qed.
