(* C07 - location + path store for structs, arrays, pointers, references, array parameters and self.

   Spec-level model of the property's own vocabulary (DESIGN.md section 5, C07):
     - a heap is a list of locations, each holding a tree (scalar / pointer / aggregate of children);
       struct members and array elements are children addressed by index, a cell is location + path;
     - assignment of a struct/array, by-value passing and by-value return copy the tree into another
       (fresh) location: copies share nothing;
     - `&x`, `T&`, array parameters and `self` denote a cell (location + path).
   On top of that, ONE mechanism of the code is mirrored (flag `mech`): array parameters and `self`
   are implemented as copy-in / write-through / copy-back
       evaluator/functions/call_impl.cpp:4886-4945   array parameter: data vectors copied into the reference variable,
                                                      "on a write update both the original and this copy,
                                                       at function exit copy back from this copy"
       managers/common/operations.cpp:286 assign_array_element_safe   (write-through)
       core/cleanup.cpp:155 and call_impl.cpp:6280      (copy-back on scope pop / after the call)
       call_impl.cpp:4326 `variables["self"] = *receiver_var`          (copy-in of self)
       executors/statement_executor.cpp:720 (__self_receiver__: write-through of self.member = v)
       call_impl.cpp:6056-6210                          (write-back of self to the receiver)
   whereas `T&` follows the reference (managers/variables/manager.cpp:96 find_variable) and `T*` is a value.
   NOT modelled: the double representation of a struct value (Variable::struct_members and the flattened
   "a.b.c" variables, managers/structs/sync.cpp ...). The property is claimed partial for that reason. *)
From Coq Require Import List ZArith Bool Arith.
Import ListNotations.
Local Open Scope Z_scope.

Definition loc := nat.
Definition path := list nat.
Definition cell := (loc * path)%type.

Inductive val : Type :=
| VInt (z : Z)
| VPtr (c : option cell)          (* None = nullptr *)
| VAgg (vs : list val).           (* struct members / array elements, by index *)

Definition heap := list val.

(* ---------------------------------------------------------------- trees *)
Fixpoint upd {A : Type} (l : list A) (k : nat) (x : A) : list A :=
  match l, k with
  | [], _ => []
  | _ :: t, O => x :: t
  | h :: t, S k' => h :: upd t k' x
  end.

Fixpoint read_at (v : val) (p : path) : option val :=
  match p with
  | [] => Some v
  | k :: p' =>
      match v with
      | VAgg vs => match nth_error vs k with Some c => read_at c p' | None => None end
      | _ => None
      end
  end.

Fixpoint write_at (v : val) (p : path) (x : val) : option val :=
  match p with
  | [] => Some x
  | k :: p' =>
      match v with
      | VAgg vs =>
          match nth_error vs k with
          | Some c => match write_at c p' x with
                      | Some c' => Some (VAgg (upd vs k c'))
                      | None => None
                      end
          | None => None
          end
      | _ => None
      end
  end.

Definition hread (h : heap) (c : cell) : option val :=
  match nth_error h (fst c) with Some v => read_at v (snd c) | None => None end.

Definition hwrite (h : heap) (c : cell) (x : val) : option heap :=
  match nth_error h (fst c) with
  | Some v => match write_at v (snd c) x with Some v' => Some (upd h (fst c) v') | None => None end
  | None => None
  end.

Fixpoint is_prefix (p q : path) : bool :=
  match p, q with
  | [], _ => true
  | a :: p', b :: q' => Nat.eqb a b && is_prefix p' q'
  | _ :: _, [] => false
  end.

(* two cells overlap when they are in the same location and one path is a prefix of the other *)
Definition overlap (c d : cell) : bool :=
  Nat.eqb (fst c) (fst d) && (is_prefix (snd c) (snd d) || is_prefix (snd d) (snd c)).

(* ---------------------------------------------------------------- access expressions *)
Inductive aexp : Type :=
| AVar (l : loc)                  (* a named variable = its location *)
| APar (i : nat)                  (* i-th parameter of the running callee (self = parameter 0 of a method) *)
| AFld (a : aexp) (k : nat)       (* a.member / a[k] *)
| ADeref (a : aexp).              (* *a ; p->m is AFld (ADeref p) m *)

Definition frame := list cell.

Fixpoint resolve (h : heap) (fr : frame) (a : aexp) : option cell :=
  match a with
  | AVar l => Some (l, [])
  | APar i => nth_error fr i
  | AFld a' k => match resolve h fr a' with Some (l, p) => Some (l, p ++ [k]) | None => None end
  | ADeref a' =>
      match resolve h fr a' with
      | Some c => match hread h c with Some (VPtr (Some t)) => Some t | _ => None end
      | None => None
      end
  end.

Definition eval (h : heap) (fr : frame) (a : aexp) : option val :=
  match resolve h fr a with Some c => hread h c | None => None end.

(* ---------------------------------------------------------------- statements *)
Inductive sop : Type :=
| SWrite (a : aexp) (z : Z)               (* a = z;            scalar write through an access path *)
| SCopy (d s : aexp)                      (* d = s;            struct / array assignment (whole tree) *)
| SAddr (p t : aexp)                      (* p = &t; *)
| SRead (id : Z) (rs : list aexp).        (* println(id, r1, r2, ...): one transcript line *)

Definition line := list Z.

Fixpoint flatten (fuel : nat) (v : val) : list Z :=
  match fuel with
  | O => []
  | S f =>
      match v with
      | VInt z => [z]
      | VPtr _ => [(-1)]
      | VAgg vs => flat_map (flatten f) vs
      end
  end.
Definition flat (v : val) : list Z := flatten 16 v.

(* copy-in parameters: (temporary location, original cell) *)
Definition thru := list (loc * cell).

(* a write to a copy-in temporary is also applied to the original (write-through) *)
Fixpoint write_thru (h : heap) (th : thru) (c : cell) (x : val) : option heap :=
  match th with
  | [] => Some h
  | (t, o) :: th' =>
      if Nat.eqb t (fst c)
      then match hwrite h (fst o, snd o ++ snd c) x with
           | Some h' => write_thru h' th' c x
           | None => None
           end
      else write_thru h th' c x
  end.

Definition hwrite_t (h : heap) (th : thru) (c : cell) (x : val) : option heap :=
  match hwrite h c x with Some h' => write_thru h' th c x | None => None end.

(* the cells a write to c modifies: c itself and the originals it is written through to *)
Fixpoint thru_cells (th : thru) (c : cell) : list cell :=
  match th with
  | [] => []
  | (t, o) :: th' => if Nat.eqb t (fst c) then (fst o, snd o ++ snd c) :: thru_cells th' c else thru_cells th' c
  end.
Definition fp_of (th : thru) (c : cell) : list cell := c :: thru_cells th c.

Fixpoint read_all (h : heap) (fr : frame) (rs : list aexp) : option (list Z) :=
  match rs with
  | [] => Some []
  | r :: rs' =>
      match eval h fr r, read_all h fr rs' with
      | Some v, Some zs => Some (flat v ++ zs)
      | _, _ => None
      end
  end.

(* result of a step: new heap, emitted lines, footprint (every cell written) *)
Definition res := (heap * list line * list cell)%type.

Definition exec_sop (h : heap) (fr : frame) (th : thru) (s : sop) : option res :=
  match s with
  | SWrite a z =>
      match resolve h fr a with
      | Some c => match hwrite_t h th c (VInt z) with Some h' => Some (h', [], fp_of th c) | None => None end
      | None => None
      end
  | SCopy d s' =>
      match eval h fr s', resolve h fr d with
      | Some v, Some c => match hwrite_t h th c v with Some h' => Some (h', [], fp_of th c) | None => None end
      | _, _ => None
      end
  | SAddr p t =>
      match resolve h fr p, resolve h fr t with
      | Some c, Some tc => match hwrite_t h th c (VPtr (Some tc)) with Some h' => Some (h', [], fp_of th c) | None => None end
      | _, _ => None
      end
  | SRead id rs =>
      match read_all h fr rs with Some zs => Some (h, [id :: zs], []) | None => None end
  end.

Fixpoint exec_sops (h : heap) (fr : frame) (th : thru) (ss : list sop) : option res :=
  match ss with
  | [] => Some (h, [], [])
  | s :: ss' =>
      match exec_sop h fr th s with
      | Some (h1, o1, f1) =>
          match exec_sops h1 fr th ss' with
          | Some (h2, o2, f2) => Some (h2, o1 ++ o2, f1 ++ f2)
          | None => None
          end
      | None => None
      end
  end.

(* ---------------------------------------------------------------- calls *)
Inductive pmode := MVal | MPtr | MRef | MArr | MSelf.
(* MVal: T x (also: the value of a pointer variable passed to a T* parameter); MPtr: &arg passed to T*;
   MRef: T&; MArr: T[n] parameter; MSelf: receiver of a method *)

Definition param := (pmode * aexp)%type.

Definition copy_in (m : pmode) : bool := match m with MArr | MSelf => true | _ => false end.

(* binds the parameters left to right; every parameter allocates exactly one location
   (a dummy for T& and for Spec-mode array/self) so that location numbers do not depend on `mech` *)
Fixpoint bind (mech : bool) (h : heap) (ps : list param) (fr : frame) (th : thru) : option (heap * frame * thru) :=
  match ps with
  | [] => Some (h, fr, th)
  | (m, a) :: ps' =>
      match resolve h [] a with
      | None => None
      | Some c =>
          match m with
          | MVal => match hread h c with
                    | Some v => bind mech (h ++ [v]) ps' (fr ++ [(length h, [])]) th
                    | None => None
                    end
          | MPtr => bind mech (h ++ [VPtr (Some c)]) ps' (fr ++ [(length h, [])]) th
          | MRef => bind mech (h ++ [VInt 0]) ps' (fr ++ [c]) th
          | MArr | MSelf =>
              if mech
              then match hread h c with
                   | Some v => bind mech (h ++ [v]) ps' (fr ++ [(length h, [])]) (th ++ [(length h, c)])
                   | None => None
                   end
              else bind mech (h ++ [VInt 0]) ps' (fr ++ [c]) th
          end
      end
  end.

(* copy-back of every copy-in parameter, in binding order.  The code walks `scope.variables`, a
   std::map<std::string, Variable>, i.e. in the lexicographic order of the PARAMETER NAMES (cleanup.cpp:158,
   call_impl.cpp:6282); the correspondence harness names parameters q0, q1, q2 so that both orders coincide. *)
Fixpoint copy_back (h : heap) (th : thru) : option (heap * list cell) :=
  match th with
  | [] => Some (h, [])
  | (t, o) :: th' =>
      match hread h (t, []) with
      | Some v => match hwrite h o v with
                  | Some h' => match copy_back h' th' with
                               | Some (h'', f) => Some (h'', o :: f)
                               | None => None
                               end
                  | None => None
                  end
      | None => None
      end
  end.

Definition exec_call (mech : bool) (h : heap) (ps : list param) (body : list sop)
           (ret : option (aexp * option aexp)) : option res :=
  match bind mech h ps [] [] with
  | None => None
  | Some (h1, fr, th) =>
      match exec_sops h1 fr th body with
      | None => None
      | Some (h2, out, fp) =>
          let rv := match ret with Some (e, _) => eval h2 fr e | None => Some (VInt 0) end in
          match rv, copy_back h2 th with
          | Some v, Some (h3, fb) =>
              match ret with
              | None => Some (h3, out, fp ++ fb)
              | Some (_, None) => Some (h3 ++ [v], out, fp ++ fb)
              | Some (_, Some d) =>
                  match resolve h3 [] d with
                  | Some c => match hwrite h3 c v with Some h4 => Some (h4, out, fp ++ fb ++ [c]) | None => None end
                  | None => None
                  end
              end
          | _, _ => None
          end
      end
  end.

(* ---------------------------------------------------------------- calls made from inside a callee body
   A callee body may itself call a method or a function whose own body consists of simple statements
   (void f(In* q) { q->m(k); }, int m1() { self.m0(); return self.v; }).  The arguments and the destination of the
   returned value are resolved in the CALLER's frame fr0; the parameters are bound, copied in and copied back
   exactly like those of a call made from main (call_impl.cpp is re-entered: same self set-up at 4292-4600, same
   three write-back blocks 6101-6259 / 6356-6461 (falling off the end) and 6576-6734 (return statement)).
   While the inner body runs, writes go through the inner copy-in parameters first, then through the caller's. *)
Fixpoint bind_in (mech : bool) (h : heap) (fr0 : frame) (ps : list param) (fr : frame) (th : thru)
  : option (heap * frame * thru) :=
  match ps with
  | [] => Some (h, fr, th)
  | (m, a) :: ps' =>
      match resolve h fr0 a with
      | None => None
      | Some c =>
          match m with
          | MVal => match hread h c with
                    | Some v => bind_in mech (h ++ [v]) fr0 ps' (fr ++ [(length h, [])]) th
                    | None => None
                    end
          | MPtr => bind_in mech (h ++ [VPtr (Some c)]) fr0 ps' (fr ++ [(length h, [])]) th
          | MRef => bind_in mech (h ++ [VInt 0]) fr0 ps' (fr ++ [c]) th
          | MArr | MSelf =>
              if mech
              then match hread h c with
                   | Some v => bind_in mech (h ++ [v]) fr0 ps' (fr ++ [(length h, [])]) (th ++ [(length h, c)])
                   | None => None
                   end
              else bind_in mech (h ++ [VInt 0]) fr0 ps' (fr ++ [c]) th
          end
      end
  end.

Definition exec_call_in (mech : bool) (h : heap) (fr0 : frame) (th0 : thru) (ps : list param) (body : list sop)
           (ret : option (aexp * option aexp)) : option res :=
  match bind_in mech h fr0 ps [] [] with
  | None => None
  | Some (h1, fr, thn) =>
      match exec_sops h1 fr (thn ++ th0) body with
      | None => None
      | Some (h2, out, fp) =>
          let rv := match ret with Some (e, _) => eval h2 fr e | None => Some (VInt 0) end in
          match rv, copy_back h2 thn with
          | Some v, Some (h3, fb) =>
              match ret with
              | None => Some (h3, out, fp ++ fb)
              | Some (_, None) => Some (h3 ++ [v], out, fp ++ fb)        (* kept in a fresh local of the caller *)
              | Some (_, Some d) =>
                  match resolve h3 fr0 d with
                  | Some c => match hwrite_t h3 th0 c v with
                              | Some h4 => Some (h4, out, fp ++ fb ++ fp_of th0 c)
                              | None => None
                              end
                  | None => None
                  end
              end
          | _, _ => None
          end
      end
  end.

(* a statement of a callee body that may contain calls *)
Inductive stmt : Type :=
| TS (s : sop)
| TCall (ps : list param) (body : list sop) (ret : option (aexp * option aexp)).

Definition exec_stmt (mech : bool) (h : heap) (fr : frame) (th : thru) (s : stmt) : option res :=
  match s with
  | TS s' => exec_sop h fr th s'
  | TCall ps body ret => exec_call_in mech h fr th ps body ret
  end.

Fixpoint exec_stmts (mech : bool) (h : heap) (fr : frame) (th : thru) (ss : list stmt) : option res :=
  match ss with
  | [] => Some (h, [], [])
  | s :: ss' =>
      match exec_stmt mech h fr th s with
      | Some (h1, o1, f1) =>
          match exec_stmts mech h1 fr th ss' with
          | Some (h2, o2, f2) => Some (h2, o1 ++ o2, f1 ++ f2)
          | None => None
          end
      | None => None
      end
  end.

Definition exec_call2 (mech : bool) (h : heap) (ps : list param) (body : list stmt)
           (ret : option (aexp * option aexp)) : option res :=
  match bind mech h ps [] [] with
  | None => None
  | Some (h1, fr, th) =>
      match exec_stmts mech h1 fr th body with
      | None => None
      | Some (h2, out, fp) =>
          let rv := match ret with Some (e, _) => eval h2 fr e | None => Some (VInt 0) end in
          match rv, copy_back h2 th with
          | Some v, Some (h3, fb) =>
              match ret with
              | None => Some (h3, out, fp ++ fb)
              | Some (_, None) => Some (h3 ++ [v], out, fp ++ fb)
              | Some (_, Some d) =>
                  match resolve h3 [] d with
                  | Some c => match hwrite h3 c v with Some h4 => Some (h4, out, fp ++ fb ++ [c]) | None => None end
                  | None => None
                  end
              end
          | _, _ => None
          end
      end
  end.

(* ---------------------------------------------------------------- calls nested to ANY depth (recursion)
   A callee body is a list of statements each of which is a simple statement or a call whose own body is again such
   a list: int f(C v, int k) { v.n = ..; if (k > 0) { int below = f(v, k - 1); println(below, v.n); } return v.n; }
   unrolls to a chain of RCall's.  Every level binds its parameters in the frame of the level above (bind_in), runs
   its body in its own frame, writes through its own copy-in parameters first and then through those of ALL the
   enclosing levels, copies its own copy-in parameters back and stores the result in the frame of the level above -
   exactly exec_call_in, iterated (the code re-enters evaluate_function_call_impl for every level; a by-value struct
   parameter is a fresh Variable plus fresh per-member variables in the callee's own scope, call_impl.cpp:5383-5565).
   Names do not exist in this model: a parameter IS its location, whatever the variables of the callers are called. *)
Inductive rstmt : Type :=
| RS (s : sop)
| RCall (ps : list param) (body : list rstmt) (ret : option (aexp * option aexp))
| RDecl (s : aexp).          (* T c = s;  a local of the callee: fresh location holding a copy (referred to as AVar) *)

Section Seq.
  Context {A : Type} (f : heap -> A -> option res).
  Fixpoint exec_seq (h : heap) (ss : list A) : option res :=
    match ss with
    | [] => Some (h, [], [])
    | s :: ss' =>
        match f h s with
        | Some (h1, o1, f1) =>
            match exec_seq h1 ss' with
            | Some (h2, o2, f2) => Some (h2, o1 ++ o2, f1 ++ f2)
            | None => None
            end
        | None => None
        end
    end.
End Seq.

(* the end of a call: returned value read in the callee's frame fr, copy-back of the callee's own copy-in parameters
   thn, result stored through the caller's frame fr0 / write-through list th0 (the tail of exec_call_in) *)
Definition finish_call (h2 : heap) (fr0 fr : frame) (th0 thn : thru) (out : list line) (fp : list cell)
           (ret : option (aexp * option aexp)) : option res :=
  let rv := match ret with Some (e, _) => eval h2 fr e | None => Some (VInt 0) end in
  match rv, copy_back h2 thn with
  | Some v, Some (h3, fb) =>
      match ret with
      | None => Some (h3, out, fp ++ fb)
      | Some (_, None) => Some (h3 ++ [v], out, fp ++ fb)
      | Some (_, Some d) =>
          match resolve h3 fr0 d with
          | Some c => match hwrite_t h3 th0 c v with
                      | Some h4 => Some (h4, out, fp ++ fb ++ fp_of th0 c)
                      | None => None
                      end
          | None => None
          end
      end
  | _, _ => None
  end.

Fixpoint exec_rstmt (mech : bool) (h : heap) (fr : frame) (th : thru) (s : rstmt) {struct s} : option res :=
  match s with
  | RS s' => exec_sop h fr th s'
  | RCall ps body ret =>
      match bind_in mech h fr ps [] [] with
      | None => None
      | Some (h1, fr1, thn) =>
          match exec_seq (fun h' s' => exec_rstmt mech h' fr1 (thn ++ th) s') h1 body with
          | None => None
          | Some (h2, out, fp) => finish_call h2 fr fr1 th thn out fp ret
          end
      end
  | RDecl s' => match eval h fr s' with Some v => Some (h ++ [v], [], []) | None => None end
  end.

Inductive op : Type :=
| OS (s : sop)                                   (* a statement of main *)
| ONop (n : nat)                                 (* allocates n unused locations (left by the shrinker) *)
| ODecl (s : aexp)                               (* T c = s;   fresh location holding a copy *)
| OCall (ps : list param) (body : list sop)      (* f(args) / recv.m(): generated callee body *)
        (ret : option (aexp * option aexp))      (* return e;  stored into Some d  or a fresh variable *)
| OCall2 (ps : list param) (body : list stmt)    (* the same with a body that itself makes calls *)
         (ret : option (aexp * option aexp))
| OCallR (ps : list param) (body : list rstmt)   (* the same with calls nested to any depth (recursion) *)
         (ret : option (aexp * option aexp)).

Definition exec_op (mech : bool) (h : heap) (o : op) : option res :=
  match o with
  | OS s => exec_sop h [] [] s
  | ONop n => Some (h ++ repeat (VInt 0) n, [], [])
  | ODecl s => match eval h [] s with Some v => Some (h ++ [v], [], []) | None => None end
  | OCall ps body ret => exec_call mech h ps body ret
  | OCall2 ps body ret => exec_call2 mech h ps body ret
  | OCallR ps body ret => exec_rstmt mech h [] [] (RCall ps body ret)
  end.

(* a history; stops at the first statement that cannot be executed (ok = false) *)
Fixpoint run (mech : bool) (h : heap) (os : list op) : heap * list line * bool :=
  match os with
  | [] => (h, [], true)
  | o :: os' =>
      match exec_op mech h o with
      | Some (h1, o1, _) => let '(h2, o2, ok) := run mech h1 os' in (h2, o1 ++ o2, ok)
      | None => (h, [], false)
      end
  end.

(* footprint of a history (all cells written, including write-through/copy-back targets' originals) *)
Fixpoint run_fp (mech : bool) (h : heap) (os : list op) : option (heap * list cell) :=
  match os with
  | [] => Some (h, [])
  | o :: os' =>
      match exec_op mech h o with
      | Some (h1, _, f1) => match run_fp mech h1 os' with Some (h2, f2) => Some (h2, f1 ++ f2) | None => None end
      | None => None
      end
  end.

(* transcript of a history under both conventions, for the correspondence driver *)
Definition transcript (mech : bool) (h : heap) (os : list op) : list line * bool :=
  let '(_, out, ok) := run mech h os in (out, ok).
