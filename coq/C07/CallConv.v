(* C07 - the code's calling convention for array parameters and self (copy-in / write-through / copy-back)
   against the aliasing convention of the property.

   Simulation: while a callee runs, the Mech heap equals the Spec heap everywhere except at the
   temporaries, and every temporary mirrors the argument cell it was copied from.  The invariant is kept by
   reads (always) and by writes that are "exclusive": a write through a copy-in parameter may not hit the
   argument of ANOTHER copy-in parameter, a write through anything else may not hit ANY copy-in argument.
   Then the copy-back at exit is the identity and both conventions produce the same transcript and the same
   caller-visible heap.  Without exclusivity the law fails (Witness.v). *)
From Coq Require Import List ZArith Bool Arith Lia.
From Cb Require Import C07.Model C07.Store C07.History.
Import ListNotations.

(* ---------------------------------------------------------------- static side conditions *)
Fixpoint aexp_ok (base : nat) (a : aexp) : bool :=    (* deref-free, variables are caller variables *)
  match a with
  | AVar l => Nat.ltb l base
  | APar _ => true
  | AFld a' _ => aexp_ok base a'
  | ADeref _ => false
  end.

Fixpoint sresolve (fr : frame) (a : aexp) : option cell :=
  match a with
  | AVar l => Some (l, [])
  | APar i => nth_error fr i
  | AFld a' k => match sresolve fr a' with Some (l, p) => Some (l, p ++ [k]) | None => None end
  | ADeref _ => None
  end.

Lemma resolve_sresolve : forall base h fr a, aexp_ok base a = true -> resolve h fr a = sresolve fr a.
Proof.
  induction a; simpl; intros; auto; try discriminate. rewrite IHa; auto.
Qed.

Definition excl_b (th : thru) (x x' : cell) : bool :=
  forallb (fun e : loc * cell => Nat.eqb (fst e) (fst x') || negb (overlap x (snd e))) th.

Definition dest_ok (base : nat) (th : thru) (frs frm : frame) (d : aexp) : bool :=
  aexp_ok base d &&
  match sresolve frs d, sresolve frm d with
  | Some x, Some x' => excl_b th x x'
  | _, _ => true
  end.

Definition stmt_ok (base : nat) (th : thru) (frs frm : frame) (s : sop) : bool :=
  match s with
  | SWrite a _ => dest_ok base th frs frm a
  | SCopy d s' => dest_ok base th frs frm d && aexp_ok base s'
  | SAddr _ _ => false
  | SRead _ rs => forallb (aexp_ok base) rs
  end.

Definition arg_ok (h : heap) (pa : param) : bool :=
  aexp_ok (length h) (snd pa) &&
  (if copy_in (fst pa)
   then match sresolve [] (snd pa) with
        | Some c => match hread h c with Some _ => true | None => false end
        | None => false
        end
   else true).

(* the executable side condition of the refinement theorem *)
Definition call_ok (h : heap) (ps : list param) (body : list sop) : bool :=
  forallb (arg_ok h) ps &&
  match bind false h ps [] [], bind true h ps [] [] with
  | Some (_, frs, _), Some (_, frm, th) => forallb (stmt_ok (length h) th frs frm) body
  | _, _ => false
  end.

(* ---------------------------------------------------------------- the simulation relation *)
Definition keys (th : thru) : list loc := map fst th.

Record thru_ok (base : nat) (n : nat) (th : thru) : Prop := {
  tk_nodup : NoDup (keys th);
  tk_range : forall t c, In (t, c) th -> base <= t < n /\ fst c < base
}.

Record sim (th : thru) (hs hm : heap) : Prop := {
  sim_len : length hs = length hm;
  sim_tmp : forall t c, In (t, c) th -> nth_error hm t = hread hs c;
  sim_rest : forall l, ~ In l (keys th) -> nth_error hm l = nth_error hs l
}.

Inductive cell_rel (th : thru) : cell -> cell -> Prop :=
| CR_same : forall x, ~ In (fst x) (keys th) -> cell_rel th x x
| CR_tmp : forall t c q, In (t, c) th -> cell_rel th (fst c, snd c ++ q) (t, q).

Lemma in_keys : forall (th : thru) t c, In (t, c) th -> In t (keys th).
Proof. intros. unfold keys. change t with (fst (t, c)). apply in_map; auto. Qed.

Lemma nodup_keys_unique : forall th t c c', NoDup (keys th) -> In (t, c) th -> In (t, c') th -> c = c'.
Proof.
  induction th as [|[t0 c0] th]; simpl; intros t c c' N I I'; try contradiction.
  inversion N; subst.
  destruct I as [I|I]; destruct I' as [I'|I'].
  - congruence.
  - inversion I; subst. exfalso. apply H1. eapply in_keys; eauto.
  - inversion I'; subst. exfalso. apply H1. eapply in_keys; eauto.
  - eauto.
Qed.

Lemma sim_read : forall th hs hm x x', sim th hs hm -> cell_rel th x x' -> hread hm x' = hread hs x.
Proof.
  intros th hs hm x x' S R. destruct R.
  - unfold hread. rewrite (sim_rest _ _ _ S); auto.
  - rewrite hread_app. unfold hread at 1. simpl. rewrite (sim_tmp _ _ _ S _ _ H). destruct c; auto.
Qed.

(* ---------------------------------------------------------------- static resolution in both frames *)
Definition frel (th : thru) (frs frm : frame) : Prop := Forall2 (cell_rel th) frs frm.

Lemma cell_rel_fld : forall th l p l' p' k,
  cell_rel th (l, p) (l', p') -> cell_rel th (l, p ++ [k]) (l', p' ++ [k]).
Proof.
  intros th l p l' p' k R. inversion R; subst.
  - apply CR_same. auto.
  - simpl in *. subst. rewrite <- app_assoc. apply (CR_tmp th l' c (p' ++ [k])). auto.
Qed.

Lemma sresolve_rel : forall base n th frs frm a,
  thru_ok base n th -> frel th frs frm -> aexp_ok base a = true ->
  match sresolve frs a with
  | Some x => exists x', sresolve frm a = Some x' /\ cell_rel th x x'
  | None => sresolve frm a = None
  end.
Proof.
  intros base n th frs frm a TK FR. induction a; simpl; intros OK; try discriminate.
  - exists (l, []). split; auto. apply CR_same. simpl. intros I.
    unfold keys in I. apply in_map_iff in I as [[t c] [E I]]. simpl in E; subst.
    apply (tk_range _ _ _ TK) in I. apply Nat.ltb_lt in OK. lia.
  - revert i. induction FR; intros [|i]; simpl; auto.
    + eauto.
    + apply IHFR.
  - specialize (IHa OK). destruct (sresolve frs a) as [[l p]|].
    + destruct IHa as [[l' p'] [E R]]. rewrite E. eexists; split; eauto. apply cell_rel_fld; auto.
    + rewrite IHa. auto.
Qed.

(* ---------------------------------------------------------------- writes keep the simulation *)
Lemma write_thru_nokey : forall th h c x, ~ In (fst c) (keys th) -> write_thru h th c x = Some h.
Proof.
  induction th as [|[t o] th]; simpl; intros h c x N; auto.
  destruct (Nat.eqb_spec t (fst c)).
  - exfalso. apply N. auto.
  - apply IHth. intros I; apply N; auto.
Qed.

Lemma write_thru_key : forall th h t c q x,
  NoDup (keys th) -> In (t, c) th ->
  write_thru h th (t, q) x = hwrite h (fst c, snd c ++ q) x.
Proof.
  induction th as [|[t0 c0] th]; simpl; intros h t c q x N I; try contradiction.
  inversion N; subst.
  destruct I as [I|I].
  - inversion I; subst. rewrite Nat.eqb_refl.
    destruct (hwrite h (fst c, snd c ++ q) x); auto.
    apply write_thru_nokey. auto.
  - destruct (Nat.eqb_spec t0 t).
    + subst. exfalso. apply H1. eapply in_keys; eauto.
    + eapply IHth; eauto.
Qed.

Lemma hread_prefix_defined : forall h l p q w, hread h (l, p ++ q) = Some w -> exists u, hread h (l, p) = Some u.
Proof.
  intros h l p q w H. rewrite hread_app in H. destruct (hread h (l, p)); eauto.
Qed.

Definition excl (th : thru) (x x' : cell) : Prop :=
  forall t2 c2, In (t2, c2) th -> t2 <> fst x' -> overlap x c2 = false.

Lemma excl_b_excl : forall th x x', excl_b th x x' = true -> excl th x x'.
Proof.
  unfold excl_b, excl; intros th x x' H t2 c2 I N.
  rewrite forallb_forall in H. specialize (H _ I). simpl in H.
  apply orb_true_iff in H as [H|H].
  - apply Nat.eqb_eq in H. contradiction.
  - apply negb_true_iff in H. auto.
Qed.

Lemma nth_error_upd_eq : forall A (l1 l2 : list A) k j x,
  length l1 = length l2 -> nth_error l1 j = nth_error l2 j ->
  nth_error (upd l1 k x) j = nth_error (upd l2 k x) j.
Proof.
  intros A l1 l2 k j x L E. destruct (Nat.eq_dec k j).
  - subst. destruct (nth_error l1 j) eqn:E1.
    + erewrite nth_error_upd_same; eauto. symmetry in E. erewrite nth_error_upd_same; eauto.
    + assert (nth_error l2 j = None) by congruence.
      rewrite upd_out_of_range by auto. rewrite upd_out_of_range by auto. congruence.
  - rewrite !nth_error_upd_other; auto.
Qed.

Lemma sim_write : forall base n th hs hm x x' v hs',
  sim th hs hm -> thru_ok base n th -> cell_rel th x x' -> excl th x x' ->
  hwrite hs x v = Some hs' ->
  exists hm', hwrite_t hm th x' v = Some hm' /\ sim th hs' hm'.
Proof.
  intros base n th hs hm x x' v hs' S TK R EX W.
  destruct R as [x NK | t c q I].
  - (* a cell outside the temporaries: same write on both sides, no write-through *)
    unfold hwrite_t. unfold hwrite in *.
    rewrite (sim_rest _ _ _ S _ NK).
    destruct (nth_error hs (fst x)) eqn:E; try discriminate.
    destruct (write_at v0 (snd x) v) eqn:WA; try discriminate. inversion W; subst; clear W.
    rewrite write_thru_nokey by auto.
    eexists; split; eauto. constructor.
    + rewrite !length_upd. apply (sim_len _ _ _ S).
    + intros t c I.
      assert (t <> fst x) by (intro; subst; apply NK; eapply in_keys; eauto).
      rewrite nth_error_upd_other by auto. rewrite (sim_tmp _ _ _ S _ _ I).
      symmetry. apply (hread_hwrite_disjoint hs x v).
      * unfold hwrite. rewrite E, WA. auto.
      * apply (EX _ _ I). simpl. auto.
    + intros l NL. apply nth_error_upd_eq.
      * symmetry; apply (sim_len _ _ _ S).
      * apply (sim_rest _ _ _ S); auto.
  - (* a cell of the temporary t: written there and, through, in the original *)
    destruct (tk_range _ _ _ TK _ _ I) as [[Tb Tn] Cb].
    pose proof (sim_tmp _ _ _ S _ _ I) as ET.
    assert (NKc : ~ In (fst c) (keys th)).
    { intros K. unfold keys in K. apply in_map_iff in K as [[t' c'] [E K]]. simpl in E; subst.
      apply (tk_range _ _ _ TK) in K. lia. }
    pose proof (sim_rest _ _ _ S _ NKc) as EC.
    (* the Spec write, seen from the argument cell c *)
    assert (exists u, hread hs c = Some u) as [u RU].
    { destruct (proj1 (hwrite_defined hs _ v) (ex_intro _ _ W)) as [w RW].
      destruct c as [lc pc]. eapply hread_prefix_defined; eauto. }
    assert (exists u', write_at u q v = Some u' /\ hread hs' c = Some u') as [u' [WU RU']].
    { unfold hwrite in W; simpl in W. unfold hread in RU |- *.
      destruct (nth_error hs (fst c)) eqn:E; try discriminate.
      destruct (write_at v0 (snd c ++ q) v) eqn:WA; try discriminate. inversion W; subst; clear W.
      erewrite nth_error_upd_same by eauto.
      eapply read_write_above; eauto. }
    unfold hwrite_t.
    assert (W1 : hwrite hm (t, q) v = Some (upd hm t u')).
    { unfold hwrite; simpl. rewrite ET, RU, WU. auto. }
    rewrite W1. rewrite (write_thru_key th _ t c q v (tk_nodup _ _ _ TK) I).
    assert (TC : t <> fst c) by lia.
    unfold hwrite in W |- *; simpl in W |- *.
    rewrite nth_error_upd_other by auto. rewrite EC.
    destruct (nth_error hs (fst c)) eqn:E; try discriminate.
    destruct (write_at v0 (snd c ++ q) v) eqn:WA; try discriminate. inversion W; subst; clear W.
    eexists; split; eauto. constructor.
    + rewrite !length_upd. apply (sim_len _ _ _ S).
    + intros t2 c2 I2. destruct (Nat.eq_dec t2 t).
      * subst. assert (c2 = c) by (eapply nodup_keys_unique; eauto; apply (tk_nodup _ _ _ TK)). subst.
        rewrite nth_error_upd_other by auto.
        erewrite nth_error_upd_same; [| rewrite ET; eauto]. auto.
      * destruct (tk_range _ _ _ TK _ _ I2) as [[T2b T2n] C2b].
        rewrite nth_error_upd_other by lia. rewrite nth_error_upd_other by auto.
        rewrite (sim_tmp _ _ _ S _ _ I2). symmetry.
        apply (hread_hwrite_disjoint hs (fst c, snd c ++ q) v).
        -- unfold hwrite; simpl. rewrite E, WA. auto.
        -- apply (EX _ _ I2). simpl. auto.
    + intros l NL.
      assert (l <> t) by (intro; subst; apply NL; eapply in_keys; eauto).
      apply nth_error_upd_eq.
      * rewrite length_upd. symmetry; apply (sim_len _ _ _ S).
      * rewrite nth_error_upd_other by auto. apply (sim_rest _ _ _ S); auto.
Qed.

(* ---------------------------------------------------------------- statements and bodies *)
Lemma read_all_sim : forall base n th hs hm frs frm rs,
  sim th hs hm -> thru_ok base n th -> frel th frs frm ->
  forallb (aexp_ok base) rs = true ->
  read_all hm frm rs = read_all hs frs rs.
Proof.
  intros base n th hs hm frs frm rs S TK FR. induction rs; simpl; intros OK; auto.
  apply andb_true_iff in OK as [OA OR]. rewrite (IHrs OR).
  unfold eval. rewrite (resolve_sresolve base hm frm a OA), (resolve_sresolve base hs frs a OA).
  pose proof (sresolve_rel base n th frs frm a TK FR OA) as SR.
  destruct (sresolve frs a).
  - destruct SR as [x' [E R]]. rewrite E. rewrite (sim_read _ _ _ _ _ S R). auto.
  - rewrite SR. auto.
Qed.

Lemma eval_sim : forall base n th hs hm frs frm a,
  sim th hs hm -> thru_ok base n th -> frel th frs frm -> aexp_ok base a = true ->
  eval hm frm a = eval hs frs a.
Proof.
  intros base n th hs hm frs frm a S TK FR OA.
  unfold eval. rewrite (resolve_sresolve base hm frm a OA), (resolve_sresolve base hs frs a OA).
  pose proof (sresolve_rel base n th frs frm a TK FR OA) as SR.
  destruct (sresolve frs a).
  - destruct SR as [x' [E R]]. rewrite E. apply (sim_read _ _ _ _ _ S R).
  - rewrite SR. auto.
Qed.

Lemma dest_sim : forall base n th hs hm frs frm d v hs',
  sim th hs hm -> thru_ok base n th -> frel th frs frm -> dest_ok base th frs frm d = true ->
  forall x, resolve hs frs d = Some x -> hwrite hs x v = Some hs' ->
  exists x' hm', resolve hm frm d = Some x' /\ hwrite_t hm th x' v = Some hm' /\ sim th hs' hm'.
Proof.
  intros base n th hs hm frs frm d v hs' S TK FR OK x RX W.
  unfold dest_ok in OK. apply andb_true_iff in OK as [OA OE].
  rewrite (resolve_sresolve base hs frs d OA) in RX.
  pose proof (sresolve_rel base n th frs frm d TK FR OA) as SR. rewrite RX in SR, OE.
  destruct SR as [x' [E R]]. rewrite E in OE.
  destruct (sim_write base n th hs hm x x' v hs' S TK R (excl_b_excl _ _ _ OE) W) as [hm' [WM S']].
  exists x', hm'. rewrite (resolve_sresolve base hm frm d OA). auto.
Qed.

Lemma sop_sim : forall base n th hs hm frs frm s hs' out fp,
  sim th hs hm -> thru_ok base n th -> frel th frs frm -> stmt_ok base th frs frm s = true ->
  exec_sop hs frs [] s = Some (hs', out, fp) ->
  exists hm' fp', exec_sop hm frm th s = Some (hm', out, fp') /\ sim th hs' hm'.
Proof.
  intros base n th hs hm frs frm s hs' out fp S TK FR OK H. destruct s; simpl in *; try discriminate.
  - destruct (resolve hs frs a) as [x|] eqn:RX; try discriminate.
    unfold hwrite_t in H at 1. destruct (hwrite hs x (VInt z)) eqn:W; try discriminate. simpl in H.
    inversion H; subst; clear H.
    destruct (dest_sim base n th hs hm frs frm a (VInt z) hs' S TK FR OK x RX W) as [x' [hm' [R' [W' S']]]].
    rewrite R', W'. eauto.
  - apply andb_true_iff in OK as [OD OS].
    rewrite (eval_sim base n th hs hm frs frm s S TK FR OS).
    destruct (eval hs frs s) as [v|]; try discriminate.
    destruct (resolve hs frs d) as [x|] eqn:RX; try discriminate.
    unfold hwrite_t in H at 1. destruct (hwrite hs x v) eqn:W; try discriminate. simpl in H.
    inversion H; subst; clear H.
    destruct (dest_sim base n th hs hm frs frm d v hs' S TK FR OD x RX W) as [x' [hm' [R' [W' S']]]].
    rewrite R', W'. eauto.
  - rewrite (read_all_sim base n th hs hm frs frm rs S TK FR OK).
    destruct (read_all hs frs rs); try discriminate. inversion H; subst. eauto.
Qed.

Lemma sops_sim : forall base n th frs frm body hs hm hs' out fp,
  sim th hs hm -> thru_ok base n th -> frel th frs frm ->
  forallb (stmt_ok base th frs frm) body = true ->
  exec_sops hs frs [] body = Some (hs', out, fp) ->
  exists hm' fp', exec_sops hm frm th body = Some (hm', out, fp') /\ sim th hs' hm'.
Proof.
  induction body; simpl; intros hs hm hs' out fp S TK FR OK H.
  - inversion H; subst. eauto.
  - apply andb_true_iff in OK as [O1 O2].
    destruct (exec_sop hs frs [] a) as [[[h1 o1] f1]|] eqn:E; try discriminate.
    destruct (exec_sops h1 frs [] body) as [[[h2 o2] f2]|] eqn:E2; try discriminate.
    inversion H; subst; clear H.
    destruct (sop_sim base n th hs hm frs frm a h1 o1 f1 S TK FR O1 E) as [hm1 [fp1 [X1 S1]]].
    destruct (IHbody h1 hm1 hs' o2 f2 S1 TK FR O2 E2) as [hm2 [fp2 [X2 S2]]].
    rewrite X1, X2. eauto.
Qed.

(* ---------------------------------------------------------------- copy-back is the identity *)
Lemma copy_back_sim : forall base n th hs hm,
  sim th hs hm -> thru_ok base n th -> n <= length hm ->
  forall th', incl th' th -> copy_back hm th' = Some (hm, map snd th').
Proof.
  intros base n th hs hm S TK LN. induction th' as [|[t c] th']; simpl; intros IN; auto.
  assert (I : In (t, c) th) by (apply IN; simpl; auto).
  destruct (tk_range _ _ _ TK _ _ I) as [[Tb Tn] Cb].
  assert (NKc : ~ In (fst c) (keys th)).
  { intros K. unfold keys in K. apply in_map_iff in K as [[t' c'] [E K]]. simpl in E; subst.
    apply (tk_range _ _ _ TK) in K. lia. }
  assert (exists v, nth_error hm t = Some v) as [v EV].
  { destruct (nth_error hm t) eqn:E; eauto. apply nth_error_None in E. lia. }
  unfold hread at 1. simpl. rewrite EV.
  assert (RC : hread hm c = Some v).
  { unfold hread. rewrite (sim_rest _ _ _ S _ NKc). rewrite <- EV. rewrite (sim_tmp _ _ _ S _ _ I). auto. }
  rewrite (hwrite_same_value _ _ _ RC).
  rewrite IHth'. auto. intros e Ie. apply IN. simpl; auto.
Qed.

(* ---------------------------------------------------------------- binding establishes the simulation *)
Lemma sim_app : forall th hs hm v,
  sim th hs hm -> (forall t c, In (t, c) th -> t < length hm /\ fst c < length hs) ->
  sim th (hs ++ [v]) (hm ++ [v]).
Proof.
  intros th hs hm v S R. constructor.
  - rewrite !app_length. rewrite (sim_len _ _ _ S). auto.
  - intros t c I. destruct (R _ _ I) as [A B].
    rewrite nth_error_app1 by auto. rewrite hread_alloc by auto. apply (sim_tmp _ _ _ S); auto.
  - intros l NL. pose proof (sim_len _ _ _ S) as L.
    destruct (Nat.lt_ge_cases l (length hs)).
    + rewrite !nth_error_app1 by lia. apply (sim_rest _ _ _ S); auto.
    + rewrite !nth_error_app2 by lia. rewrite L. auto.
Qed.

Lemma cell_rel_mono : forall th e x x',
  cell_rel th x x' -> fst x <> fst e -> cell_rel (th ++ [e]) x x'.
Proof.
  intros th e x x' R N. destruct R.
  - apply CR_same. unfold keys. rewrite map_app. intros I. apply in_app_or in I as [I|I]; auto.
    simpl in I. destruct I; auto.
  - apply CR_tmp. apply in_or_app; auto.
Qed.

Lemma NoDup_app_one : forall A (l : list A) x, NoDup l -> ~ In x l -> NoDup (l ++ [x]).
Proof.
  induction l; simpl; intros x N NI.
  - constructor; auto.
  - inversion N; subst. constructor.
    + intros I. apply in_app_or in I as [I|I]; auto. simpl in I. destruct I as [I|[]]. subst. apply NI; auto.
    + apply IHl; auto.
Qed.

Definition frame_below (n : nat) (fr : frame) : Prop := Forall (fun x : cell => fst x < n) fr.

Definition argc (base : nat) (h : heap) (pa : param) : bool :=
  aexp_ok base (snd pa) &&
  (if copy_in (fst pa)
   then match sresolve [] (snd pa) with
        | Some c => match hread h c with Some _ => true | None => false end
        | None => false
        end
   else true).

Lemma hread_app_some : forall h vs c v, hread h c = Some v -> hread (h ++ vs) c = Some v.
Proof.
  unfold hread; intros h vs c v H. destruct (nth_error h (fst c)) eqn:E; try discriminate.
  rewrite nth_error_app1; [rewrite E; auto|]. apply nth_error_Some. congruence.
Qed.

Lemma argc_app : forall base h vs ps, forallb (argc base h) ps = true -> forallb (argc base (h ++ vs)) ps = true.
Proof.
  intros base h vs ps H. rewrite forallb_forall in *. intros pa I. specialize (H pa I).
  unfold argc in *. apply andb_true_iff in H as [H1 H2]. rewrite H1. simpl.
  destruct (copy_in (fst pa)); auto. destruct (sresolve [] (snd pa)); auto.
  destruct (hread h c) eqn:E; try discriminate. rewrite (hread_app_some _ vs _ _ E). auto.
Qed.

Lemma bind_sim : forall base ps hs hm frs frm th ths hs1 frs1 ths1,
  sim th hs hm -> thru_ok base (length hm) th -> frel th frs frm -> frame_below (length hs) frs ->
  base <= length hs ->
  forallb (argc base hs) ps = true ->
  bind false hs ps frs ths = Some (hs1, frs1, ths1) ->
  exists hm1 frm1 th1,
    bind true hm ps frm th = Some (hm1, frm1, th1) /\
    sim th1 hs1 hm1 /\ thru_ok base (length hm1) th1 /\ frel th1 frs1 frm1.
Proof.
  intros base. induction ps as [|[m a] ps]; simpl; intros hs hm frs frm th ths hs1 frs1 ths1 S TK FR FB LB OK H.
  - inversion H; subst. eauto 10.
  - apply andb_true_iff in OK as [O1 O2]. unfold argc in O1 at 1. simpl in O1. apply andb_true_iff in O1 as [OA OC].
    pose proof (sim_len _ _ _ S) as L.
    assert (O2app : forall v, forallb (argc base (hs ++ [v])) ps = true) by (intros; apply argc_app; auto).
    rewrite (resolve_sresolve base hs [] a OA) in H. rewrite (resolve_sresolve base hm [] a OA).
    pose proof (sresolve_rel base (length hm) th [] [] a TK (Forall2_nil _) OA) as SR.
    destruct (sresolve [] a) as [c|] eqn:RC; try discriminate.
    destruct SR as [c' [E R]]. inversion E; subst c'; clear E.
    assert (CB : fst c < base).
    { clear - OA RC. revert c RC. induction a; simpl in *; intros; try discriminate.
      - inversion RC; subst. simpl. apply Nat.ltb_lt; auto.
      - destruct i; discriminate.
      - destruct (sresolve [] a) as [[l p]|]; try discriminate. inversion RC; subst. simpl.
        apply (IHa OA (l, p)); auto. }
    assert (CL : fst c < length hs) by (eapply Nat.lt_le_trans; [exact CB | exact LB]).
    assert (RNG : forall t c0, In (t, c0) th -> t < length hm /\ fst c0 < length hs).
    { intros t c0 I. destruct (tk_range _ _ _ TK _ _ I). lia. }
    assert (RD : hread hm c = hread hs c) by (apply (sim_read _ _ _ _ _ S R)).
    assert (NKn : ~ In (length hm) (keys th)).
    { intros K. unfold keys in K. apply in_map_iff in K as [[t' c'] [E K]]. simpl in E; subst.
      apply (tk_range _ _ _ TK) in K. lia. }
    assert (TKapp : forall v, thru_ok base (length (hm ++ [v])) th).
    { intros v. constructor. apply (tk_nodup _ _ _ TK). intros t c0 I.
      destruct (tk_range _ _ _ TK _ _ I). rewrite app_length; simpl. lia. }
    assert (FBapp : forall v x, fst x < length hs + 1 -> frame_below (length (hs ++ [v])) (frs ++ [x])).
    { intros v x Lx. unfold frame_below. apply Forall_app. split.
      - eapply Forall_impl; [|apply FB]. simpl. intros. rewrite app_length; simpl; lia.
      - constructor; auto. rewrite app_length; simpl. exact Lx. }
    assert (LBapp : forall v, base <= length (hs ++ [v])) by (intros; rewrite app_length; simpl; lia).
    destruct m; simpl in OC.
    + (* by value *)
      rewrite RD. destruct (hread hs c) as [v|]; try discriminate.
      rewrite <- L.
      eapply (IHps (hs ++ [v]) (hm ++ [v])); eauto.
      * apply sim_app; auto.
      * apply Forall2_app; auto. constructor; auto. apply CR_same. simpl. rewrite L. auto.
      * apply FBapp. simpl. lia.
    + (* &arg *)
      rewrite <- L.
      eapply (IHps (hs ++ [VPtr (Some c)]) (hm ++ [VPtr (Some c)])); eauto.
      * apply sim_app; auto.
      * apply Forall2_app; auto. constructor; auto. apply CR_same. simpl. rewrite L. auto.
      * apply FBapp. simpl. lia.
    + (* T& *)
      eapply (IHps (hs ++ [VInt 0]) (hm ++ [VInt 0])); eauto.
      * apply sim_app; auto.
      * apply Forall2_app; auto.
      * apply FBapp. apply Nat.lt_lt_add_r. eapply Nat.lt_le_trans; [exact CB | exact LB].
    + (* array parameter: copy in *)
      rewrite RD. destruct (hread hs c) as [v|] eqn:RV; try discriminate.
      eapply (IHps (hs ++ [VInt 0]) (hm ++ [v]) (frs ++ [c]) (frm ++ [(length hm, [])]) (th ++ [(length hm, c)])); eauto.
      * constructor.
        -- rewrite !app_length. simpl. lia.
        -- intros t c0 I. apply in_app_or in I as [I|I].
           ++ destruct (RNG _ _ I). rewrite nth_error_app1 by auto. rewrite hread_alloc by auto.
              apply (sim_tmp _ _ _ S); auto.
           ++ simpl in I. destruct I as [I|[]]. injection I as E1 E2. subst t c0.
              rewrite nth_error_app2 by lia. rewrite Nat.sub_diag. simpl.
              rewrite hread_alloc by exact CL. auto.
        -- intros l NL. unfold keys in NL. rewrite map_app in NL. simpl in NL.
           assert (l <> length hm) by (intro; subst; apply NL; apply in_or_app; simpl; auto).
           assert (~ In l (keys th)) by (intro; apply NL; apply in_or_app; auto).
           destruct (Nat.lt_ge_cases l (length hs)).
           ++ rewrite !nth_error_app1 by lia. apply (sim_rest _ _ _ S); auto.
           ++ assert (nth_error (hm ++ [v]) l = None) by (apply nth_error_None; rewrite app_length; simpl; lia).
              assert (nth_error (hs ++ [VInt 0]) l = None) by (apply nth_error_None; rewrite app_length; simpl; lia).
              congruence.
      * constructor.
        -- unfold keys. rewrite map_app. simpl. apply NoDup_app_one; auto. apply (tk_nodup _ _ _ TK).
        -- intros t c0 I. rewrite app_length; simpl. apply in_app_or in I as [I|I].
           ++ destruct (tk_range _ _ _ TK _ _ I). lia.
           ++ simpl in I. destruct I as [I|[]]. inversion I; subst. lia.
      * apply Forall2_app.
        -- clear - FR FB L. unfold frame_below in FB. induction FR; auto. inversion FB; subst.
           constructor; auto. apply cell_rel_mono; auto. simpl. lia.
        -- constructor; auto. pose proof (CR_tmp (th ++ [(length hm, c)]) (length hm) c []) as X.
           rewrite app_nil_r in X. destruct c; apply X. apply in_or_app; simpl; auto.
      * apply FBapp. apply Nat.lt_lt_add_r. eapply Nat.lt_le_trans; [exact CB | exact LB].
    + (* self: copy in *)
      rewrite RD. destruct (hread hs c) as [v|] eqn:RV; try discriminate.
      eapply (IHps (hs ++ [VInt 0]) (hm ++ [v]) (frs ++ [c]) (frm ++ [(length hm, [])]) (th ++ [(length hm, c)])); eauto.
      * constructor.
        -- rewrite !app_length. simpl. lia.
        -- intros t c0 I. apply in_app_or in I as [I|I].
           ++ destruct (RNG _ _ I). rewrite nth_error_app1 by auto. rewrite hread_alloc by auto.
              apply (sim_tmp _ _ _ S); auto.
           ++ simpl in I. destruct I as [I|[]]. injection I as E1 E2. subst t c0.
              rewrite nth_error_app2 by lia. rewrite Nat.sub_diag. simpl.
              rewrite hread_alloc by exact CL. auto.
        -- intros l NL. unfold keys in NL. rewrite map_app in NL. simpl in NL.
           assert (l <> length hm) by (intro; subst; apply NL; apply in_or_app; simpl; auto).
           assert (~ In l (keys th)) by (intro; apply NL; apply in_or_app; auto).
           destruct (Nat.lt_ge_cases l (length hs)).
           ++ rewrite !nth_error_app1 by lia. apply (sim_rest _ _ _ S); auto.
           ++ assert (nth_error (hm ++ [v]) l = None) by (apply nth_error_None; rewrite app_length; simpl; lia).
              assert (nth_error (hs ++ [VInt 0]) l = None) by (apply nth_error_None; rewrite app_length; simpl; lia).
              congruence.
      * constructor.
        -- unfold keys. rewrite map_app. simpl. apply NoDup_app_one; auto. apply (tk_nodup _ _ _ TK).
        -- intros t c0 I. rewrite app_length; simpl. apply in_app_or in I as [I|I].
           ++ destruct (tk_range _ _ _ TK _ _ I). lia.
           ++ simpl in I. destruct I as [I|[]]. inversion I; subst. lia.
      * apply Forall2_app.
        -- clear - FR FB L. unfold frame_below in FB. induction FR; auto. inversion FB; subst.
           constructor; auto. apply cell_rel_mono; auto. simpl. lia.
        -- constructor; auto. pose proof (CR_tmp (th ++ [(length hm, c)]) (length hm) c []) as X.
           rewrite app_nil_r in X. destruct c; apply X. apply in_or_app; simpl; auto.
      * apply FBapp. apply Nat.lt_lt_add_r. eapply Nat.lt_le_trans; [exact CB | exact LB].
Qed.

(* ---------------------------------------------------------------- the refinement theorem *)
Lemma bind_false_thru : forall ps h fr th h1 fr1 th1,
  bind false h ps fr th = Some (h1, fr1, th1) -> th1 = th.
Proof.
  induction ps as [|[m a] ps]; simpl; intros h fr th h1 fr1 th1 H.
  - inversion H; auto.
  - destruct (resolve h [] a); try discriminate.
    destruct m; try (destruct (hread h c); try discriminate); eauto.
Qed.

Definition ret_ok (base : nat) (ret : option (aexp * option aexp)) : bool :=
  match ret with
  | None => true
  | Some (e, None) => aexp_ok base e
  | Some (e, Some d) => aexp_ok base e && aexp_ok base d
  end.

Lemma call_ok_args : forall h ps, forallb (arg_ok h) ps = true -> forallb (argc (length h) h) ps = true.
Proof. intros. exact H. Qed.

Theorem copyback_refines_alias_lemma : forall h ps body ret hs out fps,
  call_ok h ps body = true -> ret_ok (length h) ret = true ->
  exec_call false h ps body ret = Some (hs, out, fps) ->
  exists hm fpm,
    exec_call true h ps body ret = Some (hm, out, fpm) /\
    length hm = length hs /\
    (forall l, l < length h -> nth_error hm l = nth_error hs l) /\
    match ret with
    | Some (_, None) => nth_error hm (length hm - 1) = nth_error hs (length hs - 1)
    | _ => True
    end.
Proof.
  intros h ps body ret hs out fps OK RO H.
  unfold call_ok in OK. apply andb_true_iff in OK as [OA OB].
  unfold exec_call in H |- *.
  destruct (bind false h ps [] []) as [[[hs1 frs] ths]|] eqn:BS; try discriminate.
  destruct (bind true h ps [] []) as [[[hm1 frm] th]|] eqn:BM; try discriminate.
  assert (ths = []) by (eapply bind_false_thru; eauto). subst ths.
  assert (S0 : sim [] h h).
  { constructor; auto. intros t c []. }
  assert (TK0 : thru_ok (length h) (length h) []).
  { constructor. constructor. intros t c []. }
  destruct (bind_sim (length h) ps h h [] [] [] [] hs1 frs [] S0 TK0 (Forall2_nil _) (Forall_nil _)
                     (le_n _) (call_ok_args _ _ OA) BS) as [hm1' [frm' [th' [BM' [S1 [TK1 FR1]]]]]].
  rewrite BM in BM'. inversion BM'; subst hm1' frm' th'; clear BM'.
  destruct (exec_sops hs1 frs [] body) as [[[hs2 o2] f2]|] eqn:ES; try discriminate.
  destruct (sops_sim (length h) (length hm1) th frs frm body hs1 hm1 hs2 o2 f2 S1 TK1 FR1 OB ES)
    as [hm2 [fp2 [EM S2]]].
  rewrite EM.
  pose proof (exec_sops_length _ _ _ _ _ _ _ EM) as LM.
  assert (CBm : copy_back hm2 th = Some (hm2, map snd th)).
  { eapply (copy_back_sim (length h) (length hm1) th hs2 hm2); eauto. lia. apply incl_refl. }
  rewrite CBm. simpl in H.
  assert (RV : match ret with Some (e, _) => eval hm2 frm e | None => Some (VInt 0) end =
               match ret with Some (e, _) => eval hs2 frs e | None => Some (VInt 0) end).
  { destruct ret as [[e [d|]]|]; auto; simpl in RO.
    - apply andb_true_iff in RO as [RE _]. eapply eval_sim; eauto.
    - eapply eval_sim; eauto. }
  rewrite RV.
  destruct (match ret with Some (e, _) => eval hs2 frs e | None => Some (VInt 0) end) as [rv|]; try discriminate.
  pose proof (bind_length _ _ _ _ _ _ _ _ BM) as LB1.
  assert (NK : forall l, l < length h -> ~ In l (keys th)).
  { intros l Ll K. unfold keys in K. apply in_map_iff in K as [[t' c'] [E K]]. simpl in E; subst.
    apply (tk_range _ _ _ TK1) in K. lia. }
  destruct ret as [[e [d|]]|]; simpl in RO.
  - apply andb_true_iff in RO as [RE RD].
    rewrite (resolve_sresolve (length h) hs2 [] d RD) in H.
    rewrite (resolve_sresolve (length h) hm2 [] d RD).
    destruct (sresolve [] d) as [c|] eqn:RC; try discriminate.
    assert (CB : fst c < length h).
    { clear - RD RC. revert c RC. induction d; simpl in *; intros; try discriminate.
      - inversion RC; subst. simpl. apply Nat.ltb_lt; auto.
      - destruct i; discriminate.
      - destruct (sresolve [] d) as [[l p]|]; try discriminate. inversion RC; subst. simpl.
        apply (IHd RD (l, p)); auto. }
    unfold hwrite in H |- *.
    rewrite (sim_rest _ _ _ S2 _ (NK _ CB)).
    destruct (nth_error hs2 (fst c)); try discriminate.
    destruct (write_at v (snd c) rv); try discriminate.
    inversion H; subst; clear H.
    eexists; eexists; split; eauto. repeat split; auto.
    + rewrite !length_upd. symmetry. apply (sim_len _ _ _ S2).
    + intros l Ll. apply nth_error_upd_eq. symmetry; apply (sim_len _ _ _ S2).
      apply (sim_rest _ _ _ S2). auto.
  - inversion H; subst; clear H.
    eexists; eexists; split; eauto. pose proof (sim_len _ _ _ S2) as L2.
    repeat split.
    + rewrite !app_length. simpl. lia.
    + intros l Ll. rewrite !nth_error_app1 by lia. apply (sim_rest _ _ _ S2). auto.
    + rewrite !app_length. simpl. rewrite !Nat.add_sub. rewrite !nth_error_app2 by lia.
      rewrite L2. auto.
  - inversion H; subst; clear H.
    eexists; eexists; split; eauto. repeat split; auto.
    + symmetry. apply (sim_len _ _ _ S2).
    + intros l Ll. apply (sim_rest _ _ _ S2). auto.
Qed.
