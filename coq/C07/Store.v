(* C07 - laws of the location + path store: a write changes exactly the addressed cell. *)
From Coq Require Import List ZArith Bool Arith Lia.
From Cb Require Import C07.Model.
Import ListNotations.

(* ---------------------------------------------------------------- lists *)
Lemma length_upd : forall A (l : list A) k x, length (upd l k x) = length l.
Proof. induction l; destruct k; simpl; intros; auto. Qed.

Lemma nth_error_upd_same : forall A (l : list A) k x y,
  nth_error l k = Some y -> nth_error (upd l k x) k = Some x.
Proof. induction l; destruct k; simpl; intros; try discriminate; eauto. Qed.

Lemma nth_error_upd_other : forall A (l : list A) k j x,
  k <> j -> nth_error (upd l k x) j = nth_error l j.
Proof.
  induction l; destruct k; destruct j; simpl; intros; auto; try congruence.
Qed.

Lemma upd_same_value : forall A (l : list A) k x, nth_error l k = Some x -> upd l k x = l.
Proof.
  induction l; destruct k; simpl; intros; try discriminate; auto.
  - congruence.
  - f_equal; auto.
Qed.

Lemma upd_out_of_range : forall A (l : list A) k x, nth_error l k = None -> upd l k x = l.
Proof.
  induction l; destruct k; simpl; intros; try discriminate; auto. f_equal; auto.
Qed.

Lemma upd_upd_same : forall A (l : list A) k x y, upd (upd l k x) k y = upd l k y.
Proof. induction l; destruct k; simpl; intros; auto. f_equal; auto. Qed.

(* ---------------------------------------------------------------- prefixes *)
Lemma is_prefix_refl : forall p, is_prefix p p = true.
Proof. induction p; simpl; auto. rewrite Nat.eqb_refl. auto. Qed.

Lemma is_prefix_app : forall p q, is_prefix p (p ++ q) = true.
Proof. induction p; simpl; intros; auto. rewrite Nat.eqb_refl. simpl. auto. Qed.

Lemma is_prefix_spec : forall p q, is_prefix p q = true <-> exists r, q = p ++ r.
Proof.
  induction p; simpl; intros.
  - split; eauto.
  - destruct q as [|b q].
    + split; [discriminate | intros [r H]; discriminate].
    + rewrite andb_true_iff, Nat.eqb_eq, IHp. split.
      * intros [-> [r ->]]. eauto.
      * intros [r H]. inversion H; subst. eauto.
Qed.

Lemma is_prefix_trans : forall p q r, is_prefix p q = true -> is_prefix q r = true -> is_prefix p r = true.
Proof.
  intros p q r H1 H2. apply is_prefix_spec in H1 as [a ->]. apply is_prefix_spec in H2 as [b ->].
  rewrite <- app_assoc. apply is_prefix_app.
Qed.

(* extending two incomparable paths keeps them incomparable *)
Lemma is_prefix_app_false : forall p q r, is_prefix p q = false -> is_prefix q p = false -> is_prefix (p ++ r) q = false.
Proof.
  induction p; simpl; intros q r H1 H2; try discriminate.
  destruct q as [|b q]; simpl in *; try discriminate.
  destruct (Nat.eqb a b) eqn:E; simpl in *; auto.
  apply Nat.eqb_eq in E; subst. rewrite Nat.eqb_refl in H2. simpl in H2. auto.
Qed.

Lemma is_prefix_app_false_r : forall p q r, is_prefix p q = false -> is_prefix q p = false -> is_prefix q (p ++ r) = false.
Proof.
  induction p; simpl; intros q r H1 H2; try discriminate.
  destruct q as [|b q]; simpl in *; try discriminate.
  destruct (Nat.eqb b a) eqn:E; simpl in *; auto.
  apply Nat.eqb_eq in E; subst. rewrite Nat.eqb_refl in H1. simpl in H1. auto.
Qed.

Lemma overlap_sym : forall c d, overlap c d = overlap d c.
Proof.
  intros [l p] [m q]; unfold overlap; simpl. rewrite (Nat.eqb_sym l m). f_equal. apply orb_comm.
Qed.

Lemma overlap_loc_neq : forall l p m q, l <> m -> overlap (l, p) (m, q) = false.
Proof. intros. unfold overlap; simpl. apply Nat.eqb_neq in H. rewrite H. auto. Qed.

(* a cell disjoint from c is disjoint from every cell below c *)
Lemma overlap_below : forall l p q d, overlap (l, p) d = false -> overlap (l, p ++ q) d = false.
Proof.
  intros l p q [m r]. unfold overlap; simpl. destruct (Nat.eqb l m); simpl; auto.
  intros H. apply orb_false_iff in H as [H1 H2]. apply orb_false_iff. split.
  - apply is_prefix_app_false; auto.
  - apply is_prefix_app_false_r; auto.
Qed.

(* ---------------------------------------------------------------- trees *)
Lemma read_at_app : forall p v q,
  read_at v (p ++ q) = match read_at v p with Some u => read_at u q | None => None end.
Proof.
  induction p; simpl; intros; auto.
  destruct v; auto. destruct (nth_error vs a); auto.
Qed.

Lemma read_write_same : forall p v x v', write_at v p x = Some v' -> read_at v' p = Some x.
Proof.
  induction p; simpl; intros v x v' H.
  - congruence.
  - destruct v; try discriminate. destruct (nth_error vs a) eqn:E; try discriminate.
    destruct (write_at v p x) eqn:W; try discriminate. inversion H; subst; clear H.
    simpl. erewrite nth_error_upd_same; eauto.
Qed.

Lemma read_write_below : forall p q v x v', write_at v p x = Some v' -> read_at v' (p ++ q) = read_at x q.
Proof.
  intros. rewrite read_at_app. erewrite read_write_same; eauto.
Qed.

Lemma read_write_disjoint : forall p v x v' q,
  write_at v p x = Some v' -> is_prefix p q = false -> is_prefix q p = false -> read_at v' q = read_at v q.
Proof.
  induction p; simpl; intros v x v' q H H1 H2; try discriminate.
  destruct v; try discriminate. destruct (nth_error vs a) eqn:E; try discriminate.
  destruct (write_at v p x) eqn:W; try discriminate. inversion H; subst; clear H.
  destruct q as [|b q]; simpl in *; try discriminate.
  destruct (Nat.eqb_spec a b).
  - subst. rewrite Nat.eqb_refl in H2. simpl in *.
    erewrite nth_error_upd_same; eauto. rewrite E. eauto.
  - rewrite nth_error_upd_other; auto.
Qed.

(* reading a proper prefix of the written path sees the update inside the aggregate *)
Lemma read_write_above : forall p r v x v' u,
  write_at v (p ++ r) x = Some v' -> read_at v p = Some u ->
  exists u', write_at u r x = Some u' /\ read_at v' p = Some u'.
Proof.
  induction p; simpl; intros r v x v' u H R.
  - inversion R; subst. eauto.
  - destruct v; try discriminate. destruct (nth_error vs a) eqn:E; try discriminate.
    destruct (write_at v (p ++ r) x) eqn:W; try discriminate. inversion H; subst; clear H.
    simpl. erewrite nth_error_upd_same; eauto.
Qed.

Lemma write_read_id : forall p v x, read_at v p = Some x -> write_at v p x = Some v.
Proof.
  induction p; simpl; intros v x H.
  - congruence.
  - destruct v; try discriminate. destruct (nth_error vs a) eqn:E; try discriminate.
    rewrite (IHp _ _ H). rewrite upd_same_value; auto.
Qed.

Lemma write_at_defined : forall p v x, (exists v', write_at v p x = Some v') <-> (exists u, read_at v p = Some u).
Proof.
  induction p; simpl; intros v x.
  - split; eauto.
  - destruct v; try (split; intros [? H]; discriminate).
    destruct (nth_error vs a) eqn:E; try (split; intros [? H]; discriminate).
    rewrite <- (IHp v x). split.
    + intros [v' H]. destruct (write_at v p x); try discriminate. eauto.
    + intros [v' H]. rewrite H. eauto.
Qed.

(* writing twice at the same path: the last one wins *)
Lemma write_write_same : forall p v x y v1,
  write_at v p x = Some v1 -> write_at v1 p y = write_at v p y.
Proof.
  induction p; simpl; intros v x y v1 H.
  - auto.
  - destruct v; try discriminate. destruct (nth_error vs a) eqn:E; try discriminate.
    destruct (write_at v p x) eqn:W; try discriminate. inversion H; subst; clear H.
    erewrite nth_error_upd_same; eauto. rewrite (IHp _ _ y _ W).
    destruct (write_at v p y); auto. rewrite upd_upd_same. auto.
Qed.

(* ---------------------------------------------------------------- heap *)
Lemma hwrite_length : forall h c x h', hwrite h c x = Some h' -> length h' = length h.
Proof.
  unfold hwrite; intros. destruct (nth_error h (fst c)); try discriminate.
  destruct (write_at v (snd c) x); try discriminate. inversion H; subst. apply length_upd.
Qed.

Lemma hread_hwrite_same : forall h c x h', hwrite h c x = Some h' -> hread h' c = Some x.
Proof.
  unfold hwrite, hread; intros. destruct (nth_error h (fst c)) eqn:E; try discriminate.
  destruct (write_at v (snd c) x) eqn:W; try discriminate. inversion H; subst.
  erewrite nth_error_upd_same; eauto. eapply read_write_same; eauto.
Qed.

Lemma hread_hwrite_below : forall h l p q x h',
  hwrite h (l, p) x = Some h' -> hread h' (l, p ++ q) = read_at x q.
Proof.
  unfold hwrite, hread; simpl; intros. destruct (nth_error h l) eqn:E; try discriminate.
  destruct (write_at v p x) eqn:W; try discriminate. inversion H; subst.
  erewrite nth_error_upd_same; eauto. eapply read_write_below; eauto.
Qed.

Lemma hread_hwrite_disjoint : forall h c x h' d,
  hwrite h c x = Some h' -> overlap c d = false -> hread h' d = hread h d.
Proof.
  unfold hwrite, hread, overlap; intros h [l p] x h' [m q]; simpl; intros H O.
  destruct (nth_error h l) eqn:E; try discriminate.
  destruct (write_at v p x) eqn:W; try discriminate. inversion H; subst; clear H.
  destruct (Nat.eqb_spec l m).
  - subst. simpl in O. apply orb_false_iff in O as [O1 O2].
    erewrite nth_error_upd_same; eauto. rewrite E. eapply read_write_disjoint; eauto.
  - rewrite nth_error_upd_other; auto.
Qed.

Lemma hread_hwrite_other_loc : forall h c x h' l,
  hwrite h c x = Some h' -> fst c <> l -> nth_error h' l = nth_error h l.
Proof.
  unfold hwrite; intros. destruct (nth_error h (fst c)); try discriminate.
  destruct (write_at v (snd c) x); try discriminate. inversion H; subst.
  apply nth_error_upd_other; auto.
Qed.

Lemma hwrite_same_value : forall h c x, hread h c = Some x -> hwrite h c x = Some h.
Proof.
  unfold hread, hwrite; intros. destruct (nth_error h (fst c)) eqn:E; try discriminate.
  rewrite (write_read_id _ _ _ H). rewrite upd_same_value; auto.
Qed.

Lemma hwrite_defined : forall h c x, (exists h', hwrite h c x = Some h') <-> (exists u, hread h c = Some u).
Proof.
  unfold hread, hwrite; intros. destruct (nth_error h (fst c)); try (split; intros [? H]; discriminate).
  rewrite <- (write_at_defined (snd c) v x). split.
  - intros [h' H]. destruct (write_at v (snd c) x); try discriminate. eauto.
  - intros [v' H]. rewrite H. eauto.
Qed.

Lemma hread_app : forall h l p q,
  hread h (l, p ++ q) = match hread h (l, p) with Some u => read_at u q | None => None end.
Proof.
  unfold hread; simpl; intros. destruct (nth_error h l); auto. apply read_at_app.
Qed.

(* allocation does not disturb existing cells *)
Lemma hread_alloc : forall h vs c, fst c < length h -> hread (h ++ vs) c = hread h c.
Proof.
  unfold hread; intros. rewrite nth_error_app1; auto.
Qed.

(* ---------------------------------------------------------------- the frame law of one write *)
Theorem write_frame_cell : forall h c x h',
  hwrite h c x = Some h' ->
  hread h' c = Some x /\
  (forall q, hread h' (fst c, snd c ++ q) = read_at x q) /\
  (forall d, overlap c d = false -> hread h' d = hread h d) /\
  length h' = length h.
Proof.
  intros h [l p] x h' H. repeat split.
  - eapply hread_hwrite_same; eauto.
  - intros. eapply hread_hwrite_below; eauto.
  - intros. eapply hread_hwrite_disjoint; eauto.
  - eapply hwrite_length; eauto.
Qed.
