(* C07 - witnesses: the code's copy-in / write-through / copy-back convention is NOT aliasing when the callee
   also reaches the argument through another path (both confirmed on the real binary, known_findings/C07.json). *)
From Coq Require Import List ZArith Bool Arith Lia.
From Cb Require Import C07.Model C07.Store C07.History C07.CallConv.
Import ListNotations.
Local Open Scope Z_scope.

(* int[3] g = [1,2,3];  void f(int[3] r) { r[0] = 10; g[1] = 20; println(1, r[0], r[1], g[0], g[1]); }  f(g); *)
Definition w_heap : heap := [VAgg [VInt 1; VInt 2; VInt 3]].
Definition w_params : list param := [(MArr, AVar 0%nat)].
Definition w_body : list sop :=
  [SWrite (AFld (APar 0%nat) 0%nat) 10; SWrite (AFld (AVar 0%nat) 1%nat) 20;
   SRead 1 [AFld (APar 0%nat) 0%nat; AFld (APar 0%nat) 1%nat; AFld (AVar 0%nat) 0%nat; AFld (AVar 0%nat) 1%nat]].

Lemma arrparam_copyback_witness :
  exists hs os fs hm om fm,
    exec_call false w_heap w_params w_body None = Some (hs, os, fs) /\
    exec_call true w_heap w_params w_body None = Some (hm, om, fm) /\
    os = [[1; 10; 20; 10; 20]] /\ om = [[1; 10; 2; 10; 20]] /\
    hread hs (0%nat, [1%nat]) = Some (VInt 20) /\      (* aliasing: g[1] = 20 survives the call *)
    hread hm (0%nat, [1%nat]) = Some (VInt 2) /\       (* code: the copy-back overwrites it with the stale copy *)
    call_ok w_heap w_params w_body = false.
Proof. vm_compute. repeat eexists. Qed.

(* struct P { int s; int t; };  P gp = {1, 2};  impl { void m() { self.s = 5; gp.t = 6; println(2, self.s, self.t, gp.s, gp.t); } }  gp.m(); *)
Definition s_heap : heap := [VAgg [VInt 1; VInt 2]].
Definition s_params : list param := [(MSelf, AVar 0%nat)].
Definition s_body : list sop :=
  [SWrite (AFld (APar 0%nat) 0%nat) 5; SWrite (AFld (AVar 0%nat) 1%nat) 6;
   SRead 2 [AFld (APar 0%nat) 0%nat; AFld (APar 0%nat) 1%nat; AFld (AVar 0%nat) 0%nat; AFld (AVar 0%nat) 1%nat]].

Lemma self_copyback_witness :
  exists hs os fs hm om fm,
    exec_call false s_heap s_params s_body None = Some (hs, os, fs) /\
    exec_call true s_heap s_params s_body None = Some (hm, om, fm) /\
    os = [[2; 5; 6; 5; 6]] /\ om = [[2; 5; 2; 5; 6]] /\
    hread hs (0%nat, [1%nat]) = Some (VInt 6) /\
    hread hm (0%nat, [1%nat]) = Some (VInt 2) /\
    call_ok s_heap s_params s_body = false.
Proof. vm_compute. repeat eexists. Qed.

(* the same array passed twice: void f(int[3] r, int[3] q) { r[0] = 10; println(3, q[0]); }  f(g, g); *)
Definition d_params : list param := [(MArr, AVar 0%nat); (MArr, AVar 0%nat)].
Definition d_body : list sop := [SWrite (AFld (APar 0%nat) 0%nat) 10; SRead 3 [AFld (APar 1%nat) 0%nat]].

Lemma two_arrparams_witness :
  exists hs os fs hm om fm,
    exec_call false w_heap d_params d_body None = Some (hs, os, fs) /\
    exec_call true w_heap d_params d_body None = Some (hm, om, fm) /\
    os = [[3; 10]] /\ om = [[3; 1]] /\
    hread hs (0%nat, [0%nat]) = Some (VInt 10) /\
    hread hm (0%nat, [0%nat]) = Some (VInt 1) /\       (* the second copy-back undoes the write *)
    call_ok w_heap d_params d_body = false.
Proof. vm_compute. repeat eexists. Qed.

(* the side condition of the refinement theorem is satisfiable: the same callees without the by-name write *)
Definition ok_body : list sop :=
  [SWrite (AFld (APar 0%nat) 0%nat) 10; SRead 1 [AFld (APar 0%nat) 0%nat; AFld (APar 0%nat) 1%nat; AFld (AVar 0%nat) 0%nat; AFld (AVar 0%nat) 1%nat]].
Lemma call_ok_example : call_ok w_heap w_params ok_body = true /\ call_ok s_heap s_params ok_body = true.
Proof. vm_compute. auto. Qed.

Lemma hread_ext : forall (h1 h2 : heap) (d : cell), nth_error h1 (fst d) = nth_error h2 (fst d) -> hread h1 d = hread h2 d.
Proof. unfold hread; intros h1 h2 d H. rewrite H. auto. Qed.

(* alias visibility under the code's convention, from the refinement theorem *)
Lemma alias_visible_copyin_lemma : forall m h arg ks z hs out fp l p,
  (m = MArr \/ m = MSelf) ->
  resolve h [] arg = Some (l, p) -> (l < length h)%nat ->
  call_ok h [(m, arg)] [SWrite (flds (APar 0) ks) z] = true ->
  exec_call false h [(m, arg)] [SWrite (flds (APar 0) ks) z] None = Some (hs, out, fp) ->
  exists hm fpm,
    exec_call true h [(m, arg)] [SWrite (flds (APar 0) ks) z] None = Some (hm, out, fpm) /\
    hread hm (l, p ++ ks) = Some (VInt z) /\
    (forall d, (fst d < length h)%nat -> overlap (l, p ++ ks) d = false -> hread hm d = hread h d).
Proof.
  intros m h arg ks z hs out fp l p M R L OK H.
  destruct (copyback_refines_alias_lemma h _ _ None hs out fp OK eq_refl H) as [hm [fpm [HM [LN [EQ _]]]]].
  assert (M' : m = MRef \/ m = MArr \/ m = MSelf) by (destruct M; auto).
  destruct (alias_visible_call_lemma m h arg ks z hs out fp l p R L M' H) as [V1 [V2 V3]].
  exists hm, fpm. split; auto. split.
  - rewrite <- V1. apply hread_ext. apply EQ. exact L.
  - intros d Ld O. transitivity (hread hs d); [|apply V3; auto].
    apply hread_ext. apply EQ. exact Ld.
Qed.
