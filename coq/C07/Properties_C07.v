(* C07 - property theorems (statements only; proofs in Store.v, History.v, CallConv.v, Witness.v).
   The model is the location + path store of Model.v; `mech = false` is the aliasing convention of the
   property, `mech = true` mirrors the code's copy-in / write-through / copy-back of array parameters and self.
   The implementation's double representation of struct values is NOT modelled (property claimed partial). *)
From Coq Require Import List ZArith Bool Arith.
From Cb Require Import C07.Model C07.Store C07.History C07.CallConv C07.Witness C07.Nested C07.Recur.
Import ListNotations.
Local Open Scope Z_scope.

(* a write changes exactly the addressed cell: it reads back, everything below it is the written tree,
   every cell that does not overlap it keeps its value, nothing is allocated *)
Theorem write_frame : forall h c x h',
  hwrite h c x = Some h' ->
  hread h' c = Some x /\
  (forall q, hread h' (fst c, snd c ++ q) = read_at x q) /\
  (forall d, overlap c d = false -> hread h' d = hread h d) /\
  length h' = length h.
Proof. exact write_frame_cell. Qed.
Print Assumptions write_frame.

(* ... lifted to arbitrary histories (statements, declarations, calls with any parameter modes, under either
   calling convention): a cell outside the footprint of the history is unchanged *)
Theorem write_frame_history : forall mech os h h' fp d,
  run_fp mech h os = Some (h', fp) -> (fst d < length h)%nat ->
  (forall w, In w fp -> overlap w d = false) ->
  hread h' d = hread h d.
Proof. exact frame_history_lemma. Qed.
Print Assumptions write_frame_history.

(* after b = a the two variables hold equal trees, and NO later history that stays out of b's location changes
   any read under b (whatever it does to a, through any path) - and vice versa *)
Theorem copy_independent : forall mech h b a h1 o1 f1,
  b <> a ->
  exec_sop h [] [] (SCopy (AVar b) (AVar a)) = Some (h1, o1, f1) ->
  (forall q, hread h1 (b, q) = hread h (a, q)) /\
  (forall q, hread h1 (a, q) = hread h (a, q)) /\
  (forall os h2 fp, run_fp mech h1 os = Some (h2, fp) ->
     (forall w, In w fp -> fst w <> b) -> forall q, hread h2 (b, q) = hread h1 (b, q)) /\
  (forall os h2 fp, run_fp mech h1 os = Some (h2, fp) ->
     (forall w, In w fp -> fst w <> a) -> forall q, hread h2 (a, q) = hread h1 (a, q)).
Proof. exact copy_independent_lemma. Qed.
Print Assumptions copy_independent.

(* the syntactic reading: any sequence of main statements whose destinations are member/element paths of
   variables other than b (resp. a) - "writes under a" (resp. "under b") - leaves every read under b (resp. a)
   at the value copied *)
Theorem copy_independent_syntactic : forall mech h b a h1 o1 f1 os h2 fp q,
  b <> a ->
  exec_sop h [] [] (SCopy (AVar b) (AVar a)) = Some (h1, o1, f1) ->
  run_fp mech h1 os = Some (h2, fp) ->
  (writes_avoid b os -> hread h2 (b, q) = hread h (a, q)) /\
  (writes_avoid a os -> hread h2 (a, q) = hread h (a, q)).
Proof. exact copy_independent_syntactic_lemma. Qed.
Print Assumptions copy_independent_syntactic.

(* two access paths that resolve to the same cell read the same value; a path resolving below another reads
   the corresponding sub-tree (in every state, hence after every history) *)
Theorem paths_agree : forall h fr a1 a2 c,
  resolve h fr a1 = Some c ->
  (resolve h fr a2 = Some c -> eval h fr a2 = eval h fr a1) /\
  (forall q, resolve h fr a2 = Some (fst c, snd c ++ q) ->
     eval h fr a2 = match eval h fr a1 with Some u => read_at u q | None => None end).
Proof. exact paths_agree_lemma. Qed.
Print Assumptions paths_agree.

(* a write through ANY access path (name, member path, element, dereference, arrow, parameter) is read back
   through EVERY path to the same cell as soon as the statement completes; non-overlapping cells are untouched *)
Theorem alias_visible : forall h fr a z h' o fp c,
  exec_sop h fr [] (SWrite a z) = Some (h', o, fp) ->
  resolve h fr a = Some c ->
  (forall a', resolve h' fr a' = Some c -> eval h' fr a' = Some (VInt z)) /\
  (forall a' d, resolve h' fr a' = Some d -> overlap c d = false -> eval h' fr a' = hread h d).
Proof. exact alias_visible_stmt_lemma. Qed.
Print Assumptions alias_visible.

(* p = &t; makes *p denote t's cell *)
Theorem addr_then_deref : forall h fr lp t h' o fp tc,
  exec_sop h fr [] (SAddr (AVar lp) t) = Some (h', o, fp) ->
  resolve h fr t = Some tc ->
  resolve h' fr (ADeref (AVar lp)) = Some tc.
Proof. exact addr_then_deref_lemma. Qed.
Print Assumptions addr_then_deref.

(* aliasing convention: a callee write through a T& / array / self parameter is visible in the caller through
   every path to arg.ks once the call completes; nothing else changes *)
Theorem alias_visible_call : forall m h arg ks z h' out fp l p,
  resolve h [] arg = Some (l, p) ->
  (l < length h)%nat ->
  (m = MRef \/ m = MArr \/ m = MSelf) ->
  exec_call false h [(m, arg)] [SWrite (flds (APar 0) ks) z] None = Some (h', out, fp) ->
  hread h' (l, p ++ ks) = Some (VInt z) /\
  (forall a', resolve h' [] a' = Some (l, p ++ ks) -> eval h' [] a' = Some (VInt z)) /\
  (forall d, (fst d < length h)%nat -> overlap (l, p ++ ks) d = false -> hread h' d = hread h d).
Proof. exact alias_visible_call_lemma. Qed.
Print Assumptions alias_visible_call.

(* the same through a T* parameter that received &arg (either convention) *)
Theorem alias_visible_ptr_call : forall mech h arg ks z h' out fp l p,
  resolve h [] arg = Some (l, p) ->
  (l < length h)%nat ->
  exec_call mech h [(MPtr, arg)] [SWrite (flds (ADeref (APar 0)) ks) z] None = Some (h', out, fp) ->
  hread h' (l, p ++ ks) = Some (VInt z) /\
  (forall a', resolve h' [] a' = Some (l, p ++ ks) -> eval h' [] a' = Some (VInt z)) /\
  (forall d, (fst d < length h)%nat -> overlap (l, p ++ ks) d = false -> hread h' d = hread h d).
Proof. exact alias_visible_ptr_call_lemma. Qed.
Print Assumptions alias_visible_ptr_call.

(* REFINEMENT (partial: callee bodies and arguments without dereferences and without &; the struct double
   representation is outside the model): the code's copy-in / write-through / copy-back convention for array
   parameters and self produces the same transcript and the same caller-visible heap as aliasing, for every
   heap, every parameter list and every body in which a write through a copy-in parameter never hits the argument
   of another copy-in parameter and a write through anything else never hits a copy-in argument (`call_ok`,
   executable) *)
Theorem copyback_refines_alias_partial : forall h ps body ret hs out fps,
  call_ok h ps body = true -> ret_ok (length h) ret = true ->
  exec_call false h ps body ret = Some (hs, out, fps) ->
  exists hm fpm,
    exec_call true h ps body ret = Some (hm, out, fpm) /\
    length hm = length hs /\
    (forall l, (l < length h)%nat -> nth_error hm l = nth_error hs l) /\
    match ret with
    | Some (_, None) => nth_error hm (length hm - 1) = nth_error hs (length hs - 1)
    | _ => True
    end.
Proof. exact copyback_refines_alias_lemma. Qed.
Print Assumptions copyback_refines_alias_partial.

(* hence, under the code's convention too, a write through an array parameter / self is visible in the caller
   after the call (same side condition) *)
Theorem alias_visible_copyin_partial : forall m h arg ks z hs out fp l p,
  (m = MArr \/ m = MSelf) ->
  resolve h [] arg = Some (l, p) -> (l < length h)%nat ->
  call_ok h [(m, arg)] [SWrite (flds (APar 0) ks) z] = true ->
  exec_call false h [(m, arg)] [SWrite (flds (APar 0) ks) z] None = Some (hs, out, fp) ->
  exists hm fpm,
    exec_call true h [(m, arg)] [SWrite (flds (APar 0) ks) z] None = Some (hm, out, fpm) /\
    hread hm (l, p ++ ks) = Some (VInt z) /\
    (forall d, (fst d < length h)%nat -> overlap (l, p ++ ks) d = false -> hread hm d = hread h d).
Proof. exact alias_visible_copyin_lemma. Qed.
Print Assumptions alias_visible_copyin_partial.

Example call_ok_satisfiable : call_ok w_heap w_params ok_body = true /\ call_ok s_heap s_params ok_body = true.
Proof. exact call_ok_example. Qed.

(* REFUTED on the faithful model of the pinned code (and on the real binary): without the side condition the
   copy-back loses a write made by plain name inside the callee, and the parameter reads a stale value.
   void f(int[3] r) { r[0] = 10; g[1] = 20; println(1, r[0], r[1], g[0], g[1]); }  f(g); *)
Theorem alias_visible_arrparam_refuted :
  exists hs os fs hm om fm,
    exec_call false w_heap w_params w_body None = Some (hs, os, fs) /\
    exec_call true w_heap w_params w_body None = Some (hm, om, fm) /\
    os = [[1; 10; 20; 10; 20]] /\ om = [[1; 10; 2; 10; 20]] /\
    hread hs (0%nat, [1%nat]) = Some (VInt 20) /\
    hread hm (0%nat, [1%nat]) = Some (VInt 2) /\
    call_ok w_heap w_params w_body = false.
Proof. exact arrparam_copyback_witness. Qed.
Print Assumptions alias_visible_arrparam_refuted.

(* impl { void m() { self.s = 5; gp.t = 6; println(2, self.s, self.t, gp.s, gp.t); } }  gp.m(); *)
Theorem alias_visible_self_refuted :
  exists hs os fs hm om fm,
    exec_call false s_heap s_params s_body None = Some (hs, os, fs) /\
    exec_call true s_heap s_params s_body None = Some (hm, om, fm) /\
    os = [[2; 5; 6; 5; 6]] /\ om = [[2; 5; 2; 5; 6]] /\
    hread hs (0%nat, [1%nat]) = Some (VInt 6) /\
    hread hm (0%nat, [1%nat]) = Some (VInt 2) /\
    call_ok s_heap s_params s_body = false.
Proof. exact self_copyback_witness. Qed.
Print Assumptions alias_visible_self_refuted.

(* void f(int[3] r, int[3] q) { r[0] = 10; println(3, q[0]); }  f(g, g);  - the write itself is undone *)
Theorem paths_agree_two_arrparams_refuted :
  exists hs os fs hm om fm,
    exec_call false w_heap d_params d_body None = Some (hs, os, fs) /\
    exec_call true w_heap d_params d_body None = Some (hm, om, fm) /\
    os = [[3; 10]] /\ om = [[3; 1]] /\
    hread hs (0%nat, [0%nat]) = Some (VInt 10) /\
    hread hm (0%nat, [0%nat]) = Some (VInt 1) /\
    call_ok w_heap d_params d_body = false.
Proof. exact two_arrparams_witness. Qed.
Print Assumptions paths_agree_two_arrparams_refuted.

(* ================================================================ receivers through pointers, exit forms, nested calls *)

(* the constructs for calls made from inside a callee body (Model.v: exec_call_in, stmt, OCall2) are a conservative
   extension: in the empty frame, resp. with a call-free body, they are exactly the calls of main *)
Theorem nested_calls_conservative : forall mech h ps body ret,
  exec_call_in mech h [] [] ps body ret = exec_call mech h ps body ret /\
  exec_call2 mech h ps (map TS body) ret = exec_call mech h ps body ret.
Proof. intros. split. apply exec_call_in_nil_lemma. apply exec_call2_flat_lemma. Qed.
Print Assumptions nested_calls_conservative.

(* aliasing convention, EVERY receiver/argument form x EVERY exit form: the argument is any access expression
   (c.m(), p->m(), ( *p).m(): arg = ADeref ...), the callee falls off the end (ret = None), returns a value into a
   fresh variable (Some (e, None)) or into a destination that does not overlap the cell (Some (e, Some d)): the write
   through the T& / array / self parameter is read back through every caller path once the call completes, and
   every other cell (not overlapping, not the destination) is unchanged *)
Theorem alias_visible_call_exits : forall m h arg ks z ret h' out fp l p,
  resolve h [] arg = Some (l, p) ->
  (l < length h)%nat ->
  (m = MRef \/ m = MArr \/ m = MSelf) ->
  dest_clear (l, p ++ ks) ret ->
  exec_call false h [(m, arg)] [SWrite (flds (APar 0) ks) z] ret = Some (h', out, fp) ->
  hread h' (l, p ++ ks) = Some (VInt z) /\
  (forall a', resolve h' [] a' = Some (l, p ++ ks) -> eval h' [] a' = Some (VInt z)) /\
  (forall d, (fst d < length h)%nat -> overlap (l, p ++ ks) d = false -> dest_clear d ret -> hread h' d = hread h d).
Proof. exact alias_visible_call_exits_lemma. Qed.
Print Assumptions alias_visible_call_exits.

(* the method is invoked by a callee that received &arg:  T f(C* q) { [r =] q->m(); [return e;] }  with
   m() { self.ks = z; [return e';] } - all four combinations of exits: visible in the caller through every path *)
Theorem alias_visible_nested_ptr_call : forall h arg ks z iret oret h' out fp l p,
  resolve h [] arg = Some (l, p) ->
  (l < length h)%nat ->
  exec_call2 false h [(MPtr, arg)]
             [TCall [(MSelf, ADeref (APar 0))] [SWrite (flds (APar 0) ks) z] (lift iret)] (lift oret)
    = Some (h', out, fp) ->
  hread h' (l, p ++ ks) = Some (VInt z) /\
  (forall a', resolve h' [] a' = Some (l, p ++ ks) -> eval h' [] a' = Some (VInt z)) /\
  (forall d, (fst d < length h)%nat -> overlap (l, p ++ ks) d = false -> hread h' d = hread h d).
Proof. exact alias_visible_nested_ptr_call_lemma. Qed.
Print Assumptions alias_visible_nested_ptr_call.

(* REFINEMENT with dereferences in the arguments (p->m(), ( *p).m(), f( *p)): an argument enters the binding only
   through the cell it resolves to, hence the side condition is call_ok on the normalised parameter list.
   (partial: callee bodies without dereferences and without &, no nested calls; struct double representation
   outside the model) *)
Theorem copyback_refines_alias_deref_partial : forall h ps body ret hs out fps,
  call_ok h (norm_params h ps) body = true -> ret_ok (length h) ret = true ->
  exec_call false h ps body ret = Some (hs, out, fps) ->
  exists hm fpm,
    exec_call true h ps body ret = Some (hm, out, fpm) /\
    length hm = length hs /\
    (forall l, (l < length h)%nat -> nth_error hm l = nth_error hs l) /\
    match ret with
    | Some (_, None) => nth_error hm (length hm - 1) = nth_error hs (length hs - 1)
    | _ => True
    end.
Proof. exact copyback_refines_alias_deref_lemma. Qed.
Print Assumptions copyback_refines_alias_deref_partial.

(* hence under the code's copy-in / write-through / copy-back convention: a write through self (or an array
   parameter) made by a callee invoked through ANY receiver expression and leaving in ANY way is visible in the
   caller after the call; nothing else changes *)
Theorem alias_visible_receiver_copyin_partial : forall m h recv ks z ret hs out fp l p,
  (m = MArr \/ m = MSelf) ->
  resolve h [] recv = Some (l, p) -> (l < length h)%nat ->
  call_ok h [(m, flds (AVar l) p)] [SWrite (flds (APar 0) ks) z] = true ->
  ret_ok (length h) ret = true ->
  dest_clear (l, p ++ ks) ret ->
  exec_call false h [(m, recv)] [SWrite (flds (APar 0) ks) z] ret = Some (hs, out, fp) ->
  exists hm fpm,
    exec_call true h [(m, recv)] [SWrite (flds (APar 0) ks) z] ret = Some (hm, out, fpm) /\
    hread hm (l, p ++ ks) = Some (VInt z) /\
    (forall d, (fst d < length h)%nat -> overlap (l, p ++ ks) d = false -> dest_clear d ret -> hread hm d = hread h d).
Proof. exact alias_visible_receiver_copyin_lemma. Qed.
Print Assumptions alias_visible_receiver_copyin_partial.

(* the shape of the demo (C* p = &c; p->vbump(8); int r = p->bump(8); c.t = p->bump(8); bump_via(&c, 8) with
   every exit of both callees): both conventions print the same lines and c.n = 8 is read through c.n and p->n *)
Example ptr_receiver_exits_witness :
  forallb (fun k =>
    match transcript false n_heap (n_ops k ++ n_reads), transcript true n_heap (n_ops k ++ n_reads) with
    | (os, true), (om, true) =>
        match os, om with
        | [l1; l2], [l1'; l2'] =>
            zs_eqb l1 [1; 8; 2] && zs_eqb l1' [1; 8; 2] && zs_eqb l2 [2; 8; 8] && zs_eqb l2' [2; 8; 8]
        | _, _ => false
        end
    | _, _ => false
    end) (seq 0 7) = true.
Proof. exact nested_exits_witness. Qed.

(* ================================================================ calls nested to ANY depth: recursion, names
   (write_frame_history, copy_independent and copy_independent_syntactic above range over histories that contain
   OCallR - calls whose bodies call to any depth - as well: lemma exec_rstmt_frame in History.v) *)

(* the recursive construct (Model.v: rstmt, exec_rstmt, OCallR) is a conservative extension: on a body of simple
   statements it is exec_call_in / OCall, on a body with one level of calls it is OCall2 *)
Theorem recursive_calls_conservative : forall mech h fr th ps body ret body2,
  exec_rstmt mech h fr th (RCall ps (map RS body) ret) = exec_call_in mech h fr th ps body ret /\
  exec_op mech h (OCallR ps (map rs_of_stmt body2) ret) = exec_op mech h (OCall2 ps body2 ret) /\
  exec_op mech h (OCallR ps (map RS body) ret) = exec_op mech h (OCall ps body ret).
Proof. exact recursive_calls_conservative_lemma. Qed.
Print Assumptions recursive_calls_conservative.

(* BY-VALUE ISOLATION AT EVERY DEPTH.  A call - made from main or from inside any callee (frame fr, enclosing copy-in
   parameters th) - that passes ALL its arguments by value (structs with scalar, nested-struct and array members,
   arrays of the model: any tree), whose body writes only through the callee's own parameters and the locals it declares
   (`T c = e;` copies of any expression) and makes only calls of the same kind, to ANY depth (val_only: by-value recursion f(C v) -> f(v) -> f(v) ... included; the arguments are
   arbitrary expressions of the calling level), and whose result is dropped or kept in a fresh variable, leaves EVERY
   location that existed before the call unchanged: the caller's variables (the arguments too) and the by-value
   copies owned by every outer level.  A parameter is its location: the names of the caller's variables, of the
   outer levels' parameters or of globals play no role.  Both calling conventions. *)
Theorem byval_calls_private : forall mech h fr th ps body e h' o fp (d : cell),
  forallb is_val ps = true -> forallb (val_only (length h)) body = true ->
  thru_lt (length h) th ->
  (exec_rstmt mech h fr th (RCall ps body None) = Some (h', o, fp) \/
   exec_rstmt mech h fr th (RCall ps body (Some (e, None))) = Some (h', o, fp)) ->
  (fst d < length h)%nat ->
  hread h' d = hread h d.
Proof. exact byval_calls_private_lemma. Qed.
Print Assumptions byval_calls_private.

(* BY-REFERENCE RECURSION (aliasing convention): void f(C& v) { f(v); } n levels deep - also with an array parameter
   or self handed down - whose innermost level writes v.ks = z: after the outermost call returns the value is read
   through every path of the calling level to arg.ks, and every other cell that existed before is unchanged *)
Theorem alias_visible_recursion : forall m n ks z a h fr l p h' o fp,
  (m = MRef \/ m = MArr \/ m = MSelf) ->
  resolve h fr a = Some (l, p) -> (l < length h)%nat ->
  exec_rstmt false h fr [] (ref_chain m n ks z a) = Some (h', o, fp) ->
  hread h' (l, p ++ ks) = Some (VInt z) /\
  (forall a', resolve h' fr a' = Some (l, p ++ ks) -> eval h' fr a' = Some (VInt z)) /\
  (forall d : cell, (fst d < length h)%nat -> overlap (l, p ++ ks) d = false -> hread h' d = hread h d) /\
  (length h <= length h')%nat.
Proof. exact alias_visible_recursion_lemma. Qed.
Print Assumptions alias_visible_recursion.

Example val_only_satisfiable :
  forallb (val_only (length d_heap)) [d_level1] = true /\ forallb is_val [(MVal, AVar 1%nat)] = true.
Proof. split; reflexivity. Qed.

(* the shape of the seeded demo C07-3: int down(C v, int k) { v.n = ..; if (k > 0) { int below = down(v, k - 1);
   println(k, below, v.n); } return v.n; } three levels deep: every level reads its OWN value after the inner call
   returned (7/8, 8/9), the caller's `other` and `c` are untouched - under both conventions *)
Example byval_recursion_witness :
  forallb (fun mech =>
    match transcript mech d_heap d_ops with
    | ([l1; l2; l3], true) =>
        zs_eqb2 l1 [1; 7; 8] && zs_eqb2 l2 [2; 8; 9] && zs_eqb2 l3 [3; 9; 10; 6; 100; 5]
    | _ => false
    end) [false; true] = true.
Proof. exact byval_recursion_demo. Qed.

Example callee_local_witness :
  forallb (fun mech =>
    match transcript mech d_heap l_ops with
    | ([l1; l2], true) => zs_eqb2 l1 [1; 70; 10] && zs_eqb2 l2 [2; 10]
    | _ => false
    end) [false; true] = true /\
  forallb (val_only (length d_heap)) [RDecl (APar 0%nat); RS (SWrite (AFld (AVar 3%nat) 0%nat) 70)] = true.
Proof. exact callee_local_demo. Qed.

(* the inputs of the five findings repaired in the code (FIXCOMMIT-byval-nested-members, -nested-member-assign,
   -copy-of-copy-array-member, -decl-copy-nested-member), as one history over two P objects:
   void f(P b){ println(1, b.inner.w); b.inner.w = 139; println(2, b.inner.w); }  f(a) with a live b - the parameter is
   its own location whatever its name, the caller's a.inner.w / b.inner.w stay 118 / 107; a.inner = b.inner; P c = b;
   a = c (copy of a copy) carry the nested and the array members - under both conventions; the callee body is in the
   domain of byval_calls_private.  The same programs are regression replays (known_findings/C07.json fixed_replays). *)
Example repaired_inputs_witness :
  forallb (fun mech =>
    match transcript mech fx_heap fx_ops with
    | ([l1; l2; l3; l4; l5; l6], true) =>
        zs_eqb2 l1 [1; 118] && zs_eqb2 l2 [2; 139] && zs_eqb2 l3 [3; 118; 107] && zs_eqb2 l4 [4; 107] &&
        zs_eqb2 l5 [5; 107; 106] && zs_eqb2 l6 [6; 106; 107]
    | _ => false
    end) [false; true] = true /\
  forallb (val_only (length fx_heap)) fx_body = true.
Proof. exact repaired_inputs_demo. Qed.
