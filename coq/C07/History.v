(* C07 - laws over arbitrary histories: frame (a history changes only the cells in its footprint),
   copy independence, visibility of writes through aliases, agreement of access paths. *)
From Coq Require Import List ZArith Bool Arith Lia.
From Cb Require Import C07.Model C07.Store.
Import ListNotations.

(* ---------------------------------------------------------------- lengths *)
Lemma write_thru_length : forall th h c x h', write_thru h th c x = Some h' -> length h' = length h.
Proof.
  induction th as [|[t o] th]; simpl; intros h c x h' H.
  - congruence.
  - destruct (Nat.eqb t (fst c)); eauto.
    destruct (hwrite h (fst o, snd o ++ snd c) x) eqn:W; try discriminate.
    rewrite (IHth _ _ _ _ H). eapply hwrite_length; eauto.
Qed.

Lemma hwrite_t_length : forall th h c x h', hwrite_t h th c x = Some h' -> length h' = length h.
Proof.
  unfold hwrite_t; intros. destruct (hwrite h c x) eqn:W; try discriminate.
  rewrite (write_thru_length _ _ _ _ _ H). eapply hwrite_length; eauto.
Qed.

Lemma exec_sop_length : forall h fr th s h' o fp, exec_sop h fr th s = Some (h', o, fp) -> length h' = length h.
Proof.
  intros h fr th s h' o fp H. destruct s; simpl in H.
  - destruct (resolve h fr a); try discriminate. destruct (hwrite_t h th c (VInt z)) eqn:W; try discriminate.
    inversion H; subst. eapply hwrite_t_length; eauto.
  - destruct (eval h fr s); try discriminate. destruct (resolve h fr d); try discriminate.
    destruct (hwrite_t h th c v) eqn:W; try discriminate. inversion H; subst. eapply hwrite_t_length; eauto.
  - destruct (resolve h fr p); try discriminate. destruct (resolve h fr t); try discriminate.
    destruct (hwrite_t h th c (VPtr (Some c0))) eqn:W; try discriminate. inversion H; subst. eapply hwrite_t_length; eauto.
  - destruct (read_all h fr rs); try discriminate. inversion H; subst; auto.
Qed.

Lemma exec_sops_length : forall ss h fr th h' o fp, exec_sops h fr th ss = Some (h', o, fp) -> length h' = length h.
Proof.
  induction ss; simpl; intros h fr th h' o fp H.
  - inversion H; auto.
  - destruct (exec_sop h fr th a) as [[[h1 o1] f1]|] eqn:E; try discriminate.
    destruct (exec_sops h1 fr th ss) as [[[h2 o2] f2]|] eqn:E2; try discriminate.
    inversion H; subst. rewrite (IHss _ _ _ _ _ _ E2). eapply exec_sop_length; eauto.
Qed.

Lemma copy_back_length : forall th h h' fb, copy_back h th = Some (h', fb) -> length h' = length h.
Proof.
  induction th as [|[t o] th]; simpl; intros h h' fb H.
  - inversion H; auto.
  - destruct (hread h (t, [])); try discriminate. destruct (hwrite h o v) eqn:W; try discriminate.
    destruct (copy_back h0 th) as [[h2 f]|] eqn:C; try discriminate. inversion H; subst.
    rewrite (IHth _ _ _ C). eapply hwrite_length; eauto.
Qed.

Lemma bind_length : forall mech ps h fr th h1 fr1 th1,
  bind mech h ps fr th = Some (h1, fr1, th1) -> length h <= length h1.
Proof.
  induction ps as [|[m a] ps]; simpl; intros h fr th h1 fr1 th1 H.
  - inversion H; auto.
  - destruct (resolve h [] a); try discriminate.
    destruct m.
    + destruct (hread h c); try discriminate. apply IHps in H. rewrite app_length in H. simpl in H. lia.
    + apply IHps in H. rewrite app_length in H. simpl in H. lia.
    + apply IHps in H. rewrite app_length in H. simpl in H. lia.
    + destruct mech.
      * destruct (hread h c); try discriminate. apply IHps in H. rewrite app_length in H. simpl in H. lia.
      * apply IHps in H. rewrite app_length in H. simpl in H. lia.
    + destruct mech.
      * destruct (hread h c); try discriminate. apply IHps in H. rewrite app_length in H. simpl in H. lia.
      * apply IHps in H. rewrite app_length in H. simpl in H. lia.
Qed.

(* ---------------------------------------------------------------- frame: one statement *)
Lemma write_thru_frame : forall th h c x h' d,
  write_thru h th c x = Some h' ->
  (forall w, In w (thru_cells th c) -> overlap w d = false) -> hread h' d = hread h d.
Proof.
  induction th as [|[t o] th]; simpl; intros h c x h' d H F.
  - congruence.
  - destruct (Nat.eqb t (fst c)).
    + destruct (hwrite h (fst o, snd o ++ snd c) x) eqn:W; try discriminate.
      rewrite (IHth _ _ _ _ d H).
      * eapply hread_hwrite_disjoint; eauto. apply F. simpl; auto.
      * intros. apply F. simpl; auto.
    + eauto.
Qed.

Lemma hwrite_t_frame : forall th h c x h' d,
  hwrite_t h th c x = Some h' ->
  (forall w, In w (fp_of th c) -> overlap w d = false) -> hread h' d = hread h d.
Proof.
  unfold hwrite_t, fp_of; intros th h c x h' d H F.
  destruct (hwrite h c x) eqn:W; try discriminate.
  rewrite (write_thru_frame _ _ _ _ _ d H).
  - eapply hread_hwrite_disjoint; eauto. apply F; simpl; auto.
  - intros. apply F; simpl; auto.
Qed.

Lemma exec_sop_frame : forall h fr th s h' o fp d,
  exec_sop h fr th s = Some (h', o, fp) ->
  (forall w, In w fp -> overlap w d = false) -> hread h' d = hread h d.
Proof.
  intros h fr th s h' o fp d H F. destruct s; simpl in H.
  - destruct (resolve h fr a); try discriminate. destruct (hwrite_t h th c (VInt z)) eqn:W; try discriminate.
    inversion H; subst. eapply hwrite_t_frame; eauto.
  - destruct (eval h fr s); try discriminate. destruct (resolve h fr d0); try discriminate.
    destruct (hwrite_t h th c v) eqn:W; try discriminate. inversion H; subst. eapply hwrite_t_frame; eauto.
  - destruct (resolve h fr p); try discriminate. destruct (resolve h fr t); try discriminate.
    destruct (hwrite_t h th c (VPtr (Some c0))) eqn:W; try discriminate. inversion H; subst.
    eapply hwrite_t_frame; eauto.
  - destruct (read_all h fr rs); try discriminate. inversion H; subst; auto.
Qed.

Lemma exec_sops_frame : forall ss h fr th h' o fp d,
  exec_sops h fr th ss = Some (h', o, fp) ->
  (forall w, In w fp -> overlap w d = false) -> hread h' d = hread h d.
Proof.
  induction ss; simpl; intros h fr th h' o fp d H F.
  - inversion H; auto.
  - destruct (exec_sop h fr th a) as [[[h1 o1] f1]|] eqn:E; try discriminate.
    destruct (exec_sops h1 fr th ss) as [[[h2 o2] f2]|] eqn:E2; try discriminate.
    inversion H; subst.
    rewrite (IHss _ _ _ _ _ _ d E2).
    + eapply exec_sop_frame; eauto. intros; apply F; apply in_or_app; auto.
    + intros; apply F; apply in_or_app; auto.
Qed.

Lemma copy_back_frame : forall th h h' fb d,
  copy_back h th = Some (h', fb) ->
  (forall w, In w fb -> overlap w d = false) -> hread h' d = hread h d.
Proof.
  induction th as [|[t o] th]; simpl; intros h h' fb d H F.
  - inversion H; auto.
  - destruct (hread h (t, [])); try discriminate. destruct (hwrite h o v) eqn:W; try discriminate.
    destruct (copy_back h0 th) as [[h2 f]|] eqn:C; try discriminate. inversion H; subst.
    rewrite (IHth _ _ _ d C).
    + eapply hread_hwrite_disjoint; eauto. apply F; simpl; auto.
    + intros; apply F; simpl; auto.
Qed.

Lemma bind_frame : forall mech ps h fr th h1 fr1 th1 d,
  bind mech h ps fr th = Some (h1, fr1, th1) -> fst d < length h -> hread h1 d = hread h d.
Proof.
  induction ps as [|[m a] ps]; simpl; intros h fr th h1 fr1 th1 d H L.
  - inversion H; auto.
  - assert (A : forall v, fst d < length (h ++ [v])) by (intros; rewrite app_length; simpl; lia).
    destruct (resolve h [] a); try discriminate.
    destruct m.
    + destruct (hread h c); try discriminate. rewrite (IHps _ _ _ _ _ _ d H (A _)). apply hread_alloc; auto.
    + rewrite (IHps _ _ _ _ _ _ d H (A _)). apply hread_alloc; auto.
    + rewrite (IHps _ _ _ _ _ _ d H (A _)). apply hread_alloc; auto.
    + destruct mech.
      * destruct (hread h c); try discriminate. rewrite (IHps _ _ _ _ _ _ d H (A _)). apply hread_alloc; auto.
      * rewrite (IHps _ _ _ _ _ _ d H (A _)). apply hread_alloc; auto.
    + destruct mech.
      * destruct (hread h c); try discriminate. rewrite (IHps _ _ _ _ _ _ d H (A _)). apply hread_alloc; auto.
      * rewrite (IHps _ _ _ _ _ _ d H (A _)). apply hread_alloc; auto.
Qed.

Lemma exec_call_frame : forall mech h ps body ret h' out fp d,
  exec_call mech h ps body ret = Some (h', out, fp) -> fst d < length h ->
  (forall w, In w fp -> overlap w d = false) ->
  hread h' d = hread h d /\ length h <= length h'.
Proof.
  unfold exec_call; intros mech h ps body ret h' out fp d H L F.
  destruct (bind mech h ps [] []) as [[[h1 fr] th]|] eqn:B; try discriminate.
  destruct (exec_sops h1 fr th body) as [[[h2 o2] f2]|] eqn:E; try discriminate.
  pose proof (bind_length _ _ _ _ _ _ _ _ B) as L1.
  pose proof (exec_sops_length _ _ _ _ _ _ _ E) as L2.
  destruct (match ret with Some (e, _) => eval h2 fr e | None => Some (VInt 0) end) as [rv|]; try discriminate.
  destruct (copy_back h2 th) as [[h3 fb]|] eqn:C; try discriminate.
  pose proof (copy_back_length _ _ _ _ C) as L3.
  assert (R3 : forall fp', (forall w, In w (f2 ++ fb ++ fp') -> overlap w d = false) -> hread h3 d = hread h d).
  { intros fp' F'. rewrite (copy_back_frame _ _ _ _ d C).
    - rewrite (exec_sops_frame _ _ _ _ _ _ _ d E).
      + eapply bind_frame; eauto.
      + intros; apply F'; apply in_or_app; auto.
    - intros; apply F'; apply in_or_app; right; apply in_or_app; auto. }
  destruct ret as [[e [dd|]]|].
  - destruct (resolve h3 [] dd); try discriminate. destruct (hwrite h3 c rv) eqn:W; try discriminate.
    inversion H; subst. split.
    + rewrite (hread_hwrite_disjoint _ _ _ _ d W).
      * apply (R3 [c]). intros; apply F. rewrite app_assoc in H0. rewrite app_assoc. auto.
      * apply F. apply in_or_app; right. apply in_or_app; right. simpl; auto.
    + rewrite (hwrite_length _ _ _ _ W). lia.
  - inversion H; subst. split.
    + rewrite hread_alloc by lia. apply (R3 []). rewrite app_nil_r. auto.
    + rewrite app_length; simpl; lia.
  - inversion H; subst. split.
    + apply (R3 []). rewrite app_nil_r. auto.
    + lia.
Qed.

(* ---------------------------------------------------------------- calls made from inside a callee body *)
Lemma bind_in_length : forall mech fr0 ps h fr th h1 fr1 th1,
  bind_in mech h fr0 ps fr th = Some (h1, fr1, th1) -> length h <= length h1.
Proof.
  induction ps as [|[m a] ps]; simpl; intros h fr th h1 fr1 th1 H.
  - inversion H; auto.
  - destruct (resolve h fr0 a); try discriminate.
    destruct m.
    + destruct (hread h c); try discriminate. apply IHps in H. rewrite app_length in H. simpl in H. lia.
    + apply IHps in H. rewrite app_length in H. simpl in H. lia.
    + apply IHps in H. rewrite app_length in H. simpl in H. lia.
    + destruct mech.
      * destruct (hread h c); try discriminate. apply IHps in H. rewrite app_length in H. simpl in H. lia.
      * apply IHps in H. rewrite app_length in H. simpl in H. lia.
    + destruct mech.
      * destruct (hread h c); try discriminate. apply IHps in H. rewrite app_length in H. simpl in H. lia.
      * apply IHps in H. rewrite app_length in H. simpl in H. lia.
Qed.

Lemma bind_in_frame : forall mech fr0 ps h fr th h1 fr1 th1 d,
  bind_in mech h fr0 ps fr th = Some (h1, fr1, th1) -> fst d < length h -> hread h1 d = hread h d.
Proof.
  induction ps as [|[m a] ps]; simpl; intros h fr th h1 fr1 th1 d H L.
  - inversion H; auto.
  - assert (A : forall v, fst d < length (h ++ [v])) by (intros; rewrite app_length; simpl; lia).
    destruct (resolve h fr0 a); try discriminate.
    destruct m.
    + destruct (hread h c); try discriminate. rewrite (IHps _ _ _ _ _ _ d H (A _)). apply hread_alloc; auto.
    + rewrite (IHps _ _ _ _ _ _ d H (A _)). apply hread_alloc; auto.
    + rewrite (IHps _ _ _ _ _ _ d H (A _)). apply hread_alloc; auto.
    + destruct mech.
      * destruct (hread h c); try discriminate. rewrite (IHps _ _ _ _ _ _ d H (A _)). apply hread_alloc; auto.
      * rewrite (IHps _ _ _ _ _ _ d H (A _)). apply hread_alloc; auto.
    + destruct mech.
      * destruct (hread h c); try discriminate. rewrite (IHps _ _ _ _ _ _ d H (A _)). apply hread_alloc; auto.
      * rewrite (IHps _ _ _ _ _ _ d H (A _)). apply hread_alloc; auto.
Qed.

(* binding in the empty frame is the binding of a call made from main *)
Lemma bind_in_nil : forall mech ps h fr th, bind_in mech h [] ps fr th = bind mech h ps fr th.
Proof.
  induction ps as [|[m a] ps]; simpl; intros h fr th; auto.
  destruct (resolve h [] a); auto.
  destruct m; try (destruct mech); try (destruct (hread h c)); auto.
Qed.

Lemma exec_call_in_frame : forall mech h fr0 th0 ps body ret h' out fp d,
  exec_call_in mech h fr0 th0 ps body ret = Some (h', out, fp) -> fst d < length h ->
  (forall w, In w fp -> overlap w d = false) ->
  hread h' d = hread h d /\ length h <= length h'.
Proof.
  unfold exec_call_in; intros mech h fr0 th0 ps body ret h' out fp d H L F.
  destruct (bind_in mech h fr0 ps [] []) as [[[h1 fr] th]|] eqn:B; try discriminate.
  destruct (exec_sops h1 fr (th ++ th0) body) as [[[h2 o2] f2]|] eqn:E; try discriminate.
  pose proof (bind_in_length _ _ _ _ _ _ _ _ _ B) as L1.
  pose proof (exec_sops_length _ _ _ _ _ _ _ E) as L2.
  destruct (match ret with Some (e, _) => eval h2 fr e | None => Some (VInt 0) end) as [rv|]; try discriminate.
  destruct (copy_back h2 th) as [[h3 fb]|] eqn:C; try discriminate.
  pose proof (copy_back_length _ _ _ _ C) as L3.
  assert (R3 : forall fp', (forall w, In w (f2 ++ fb ++ fp') -> overlap w d = false) -> hread h3 d = hread h d).
  { intros fp' F'. rewrite (copy_back_frame _ _ _ _ d C).
    - rewrite (exec_sops_frame _ _ _ _ _ _ _ d E).
      + eapply bind_in_frame; eauto.
      + intros; apply F'; apply in_or_app; auto.
    - intros; apply F'; apply in_or_app; right; apply in_or_app; auto. }
  destruct ret as [[e [dd|]]|].
  - destruct (resolve h3 fr0 dd); try discriminate. destruct (hwrite_t h3 th0 c rv) eqn:W; try discriminate.
    inversion H; subst. split.
    + rewrite (hwrite_t_frame _ _ _ _ _ d W).
      * apply (R3 (fp_of th0 c)). intros; apply F. rewrite app_assoc in H0. rewrite app_assoc. auto.
      * intros. apply F. apply in_or_app; right. apply in_or_app; right. auto.
    + rewrite (hwrite_t_length _ _ _ _ _ W). lia.
  - inversion H; subst. split.
    + rewrite hread_alloc by lia. apply (R3 []). rewrite app_nil_r. auto.
    + rewrite app_length; simpl; lia.
  - inversion H; subst. split.
    + apply (R3 []). rewrite app_nil_r. auto.
    + lia.
Qed.

Lemma exec_stmt_frame : forall mech h fr th s h' out fp d,
  exec_stmt mech h fr th s = Some (h', out, fp) -> fst d < length h ->
  (forall w, In w fp -> overlap w d = false) ->
  hread h' d = hread h d /\ length h <= length h'.
Proof.
  intros mech h fr th s h' out fp d H L F. destruct s; simpl in H.
  - split. eapply exec_sop_frame; eauto. rewrite (exec_sop_length _ _ _ _ _ _ _ H). lia.
  - eapply exec_call_in_frame; eauto.
Qed.

Lemma exec_stmts_frame : forall mech ss h fr th h' o fp d,
  exec_stmts mech h fr th ss = Some (h', o, fp) -> fst d < length h ->
  (forall w, In w fp -> overlap w d = false) ->
  hread h' d = hread h d /\ length h <= length h'.
Proof.
  induction ss; simpl; intros h fr th h' o fp d H L F.
  - inversion H; auto.
  - destruct (exec_stmt mech h fr th a) as [[[h1 o1] f1]|] eqn:E; try discriminate.
    destruct (exec_stmts mech h1 fr th ss) as [[[h2 o2] f2]|] eqn:E2; try discriminate.
    inversion H; subst.
    destruct (exec_stmt_frame _ _ _ _ _ _ _ _ d E L) as [A1 A2].
    { intros; apply F; apply in_or_app; auto. }
    destruct (IHss _ _ _ _ _ _ d E2) as [B1 B2]; try lia.
    { intros; apply F; apply in_or_app; auto. }
    split; [congruence | lia].
Qed.

Lemma exec_call2_frame : forall mech h ps body ret h' out fp d,
  exec_call2 mech h ps body ret = Some (h', out, fp) -> fst d < length h ->
  (forall w, In w fp -> overlap w d = false) ->
  hread h' d = hread h d /\ length h <= length h'.
Proof.
  unfold exec_call2; intros mech h ps body ret h' out fp d H L F.
  destruct (bind mech h ps [] []) as [[[h1 fr] th]|] eqn:B; try discriminate.
  destruct (exec_stmts mech h1 fr th body) as [[[h2 o2] f2]|] eqn:E; try discriminate.
  pose proof (bind_length _ _ _ _ _ _ _ _ B) as L1.
  destruct (match ret with Some (e, _) => eval h2 fr e | None => Some (VInt 0) end) as [rv|]; try discriminate.
  destruct (copy_back h2 th) as [[h3 fb]|] eqn:C; try discriminate.
  pose proof (copy_back_length _ _ _ _ C) as L3.
  assert (R3 : forall fp', (forall w, In w (f2 ++ fb ++ fp') -> overlap w d = false) ->
                           hread h3 d = hread h d /\ length h <= length h3).
  { intros fp' F'.
    destruct (exec_stmts_frame _ _ _ _ _ _ _ _ d E) as [A1 A2]; try lia.
    { intros; apply F'; apply in_or_app; auto. }
    split; [|lia].
    rewrite (copy_back_frame _ _ _ _ d C).
    - rewrite A1. eapply bind_frame; eauto.
    - intros; apply F'; apply in_or_app; right; apply in_or_app; auto. }
  destruct ret as [[e [dd|]]|].
  - destruct (resolve h3 [] dd); try discriminate. destruct (hwrite h3 c rv) eqn:W; try discriminate.
    inversion H; subst.
    destruct (R3 [c]) as [A1 A2].
    { intros; apply F. rewrite app_assoc in H0. rewrite app_assoc. auto. }
    split.
    + rewrite (hread_hwrite_disjoint _ _ _ _ d W); auto.
      apply F. apply in_or_app; right. apply in_or_app; right. simpl; auto.
    + rewrite (hwrite_length _ _ _ _ W). lia.
  - inversion H; subst.
    destruct (R3 []) as [A1 A2]. { rewrite app_nil_r. auto. }
    split.
    + rewrite hread_alloc by lia. auto.
    + rewrite app_length; simpl; lia.
  - inversion H; subst. apply (R3 []). rewrite app_nil_r. auto.
Qed.

(* ---------------------------------------------------------------- calls nested to any depth (recursion) *)
(* induction principle for the nested inductive rstmt *)
Section RstmtInd.
  Context (P : rstmt -> Prop).
  Context (HS : forall s, P (RS s)).
  Context (HC : forall ps body ret, Forall P body -> P (RCall ps body ret)).
  Context (HD : forall s, P (RDecl s)).
  Fixpoint rstmt_induction (s : rstmt) : P s :=
    match s with
    | RS s' => HS s'
    | RCall ps body ret =>
        HC ps body ret
           ((fix go (l : list rstmt) : Forall P l :=
               match l with
               | [] => Forall_nil P
               | x :: l' => Forall_cons x (rstmt_induction x) (go l')
               end) body)
    | RDecl s' => HD s'
    end.
End RstmtInd.

Lemma finish_call_frame : forall h2 fr0 fr th0 thn out fp ret h' out' fp' d,
  finish_call h2 fr0 fr th0 thn out fp ret = Some (h', out', fp') ->
  (forall w, In w fp' -> overlap w d = false) ->
  (fst d < length h2 -> hread h' d = hread h2 d) /\ length h2 <= length h' /\
  (forall w, In w fp -> In w fp').
Proof.
  unfold finish_call; intros h2 fr0 fr th0 thn out fp ret h' out' fp' d H F.
  destruct (match ret with Some (e, _) => eval h2 fr e | None => Some (VInt 0) end) as [rv|]; try discriminate.
  destruct (copy_back h2 thn) as [[h3 fb]|] eqn:C; try discriminate.
  pose proof (copy_back_length _ _ _ _ C) as L3.
  destruct ret as [[e [dd|]]|].
  - destruct (resolve h3 fr0 dd); try discriminate. destruct (hwrite_t h3 th0 c rv) eqn:W; try discriminate.
    inversion H; subst. repeat split.
    + intros LT. rewrite (hwrite_t_frame _ _ _ _ _ d W).
      * eapply copy_back_frame; eauto. intros; apply F. apply in_or_app; right. apply in_or_app; auto.
      * intros. apply F. apply in_or_app; right. apply in_or_app; auto.
    + rewrite (hwrite_t_length _ _ _ _ _ W). lia.
    + intros; apply in_or_app; auto.
  - inversion H; subst. repeat split.
    + intros LT. assert (X : fst d < length h3) by (rewrite L3; exact LT).
      rewrite (hread_alloc _ _ _ X). eapply copy_back_frame; eauto. intros; apply F. apply in_or_app; auto.
    + rewrite app_length; simpl; lia.
    + intros; apply in_or_app; auto.
  - inversion H; subst. repeat split.
    + intros LT. eapply copy_back_frame; eauto. intros; apply F. apply in_or_app; auto.
    + lia.
    + intros; apply in_or_app; auto.
Qed.

Lemma exec_seq_frame : forall (A : Type) (f : heap -> A -> option res) ss d,
  Forall (fun s => forall h h' out fp, f h s = Some (h', out, fp) -> fst d < length h ->
                   (forall w, In w fp -> overlap w d = false) -> hread h' d = hread h d /\ length h <= length h') ss ->
  forall h h' out fp, exec_seq f h ss = Some (h', out, fp) -> fst d < length h ->
  (forall w, In w fp -> overlap w d = false) -> hread h' d = hread h d /\ length h <= length h'.
Proof.
  intros A f ss d HF. induction HF as [|s ss Hs HF IH]; simpl; intros h h' out fp H L F.
  - inversion H; auto.
  - destruct (f h s) as [[[h1 o1] f1]|] eqn:E; try discriminate.
    destruct (exec_seq f h1 ss) as [[[h2 o2] f2]|] eqn:E2; try discriminate.
    inversion H; subst.
    destruct (Hs _ _ _ _ E L) as [A1 A2]. { intros; apply F; apply in_or_app; auto. }
    destruct (IH _ _ _ _ E2) as [B1 B2]; try lia. { intros; apply F; apply in_or_app; auto. }
    split; [congruence | lia].
Qed.

Lemma exec_rstmt_frame : forall s mech h fr th h' out fp d,
  exec_rstmt mech h fr th s = Some (h', out, fp) -> fst d < length h ->
  (forall w, In w fp -> overlap w d = false) ->
  hread h' d = hread h d /\ length h <= length h'.
Proof.
  intros s. induction s as [s|ps body ret IH|s] using rstmt_induction; intros mech h fr th h' out fp d H L F.
  3:{ simpl in H. destruct (eval h fr s); try discriminate. inversion H; subst. split.
      apply hread_alloc; auto. rewrite app_length; lia. }
  - simpl in H. split. eapply exec_sop_frame; eauto. rewrite (exec_sop_length _ _ _ _ _ _ _ H). lia.
  - simpl in H.
    destruct (bind_in mech h fr ps [] []) as [[[h1 fr1] thn]|] eqn:B; try discriminate.
    destruct (exec_seq (fun h'0 s' => exec_rstmt mech h'0 fr1 (thn ++ th) s') h1 body) as [[[h2 o2] f2]|] eqn:E;
      try discriminate.
    pose proof (bind_in_length _ _ _ _ _ _ _ _ _ B) as L1.
    destruct (finish_call_frame _ _ _ _ _ _ _ _ _ _ _ d H F) as [A1 [A2 A3]].
    assert (E' : hread h2 d = hread h1 d /\ length h1 <= length h2).
    { eapply (exec_seq_frame _ _ body d); [| exact E | lia | intros; apply F; auto].
      eapply Forall_impl; [|exact IH]. intros s0 Hs h0 h0' out0 fp0 X Y Z. eapply Hs; eauto. }
    destruct E' as [E1 E2].
    split; [|lia].
    rewrite A1; [|eapply Nat.lt_le_trans; [exact L | lia]]. rewrite E1. eapply bind_in_frame; eauto.
Qed.

Lemma exec_op_frame : forall mech h o h' out fp d,
  exec_op mech h o = Some (h', out, fp) -> fst d < length h ->
  (forall w, In w fp -> overlap w d = false) ->
  hread h' d = hread h d /\ length h <= length h'.
Proof.
  intros mech h o h' out fp d H L F. destruct o; [simpl in H .. | unfold exec_op in H].
  - split. eapply exec_sop_frame; eauto. rewrite (exec_sop_length _ _ _ _ _ _ _ H). lia.
  - inversion H; subst. split. apply hread_alloc; auto. rewrite app_length; lia.
  - destruct (eval h [] s); try discriminate. inversion H; subst. split.
    apply hread_alloc; auto. rewrite app_length; lia.
  - eapply exec_call_frame; eauto.
  - eapply exec_call2_frame; eauto.
  - eapply exec_rstmt_frame; eauto.
Qed.

(* a history changes only the cells in its footprint (for both calling conventions) *)
Theorem frame_history_lemma : forall mech os h h' fp d,
  run_fp mech h os = Some (h', fp) -> fst d < length h ->
  (forall w, In w fp -> overlap w d = false) ->
  hread h' d = hread h d.
Proof.
  induction os; simpl; intros h h' fp d H L F.
  - inversion H; auto.
  - destruct (exec_op mech h a) as [[[h1 o1] f1]|] eqn:E; try discriminate.
    destruct (run_fp mech h1 os) as [[h2 f2]|] eqn:R; try discriminate. inversion H; subst.
    destruct (exec_op_frame _ _ _ _ _ _ d E L) as [E1 E2].
    { intros; apply F; apply in_or_app; auto. }
    rewrite (IHos _ _ _ d R); auto. lia.
    intros; apply F; apply in_or_app; auto.
Qed.

(* ---------------------------------------------------------------- copy independence *)
Lemma overlap_other_loc : forall (w : cell) l q, fst w <> l -> overlap w (l, q) = false.
Proof. intros [m p] l q H. apply overlap_loc_neq. auto. Qed.

(* d = s for two different variables: afterwards both hold the same tree, and a later history that never
   writes into d's location leaves EVERY read under d unchanged, whatever it does to s - and vice versa *)
Theorem copy_independent_lemma : forall mech h ld ls h1 o1 f1,
  ld <> ls ->
  exec_sop h [] [] (SCopy (AVar ld) (AVar ls)) = Some (h1, o1, f1) ->
  (forall q, hread h1 (ld, q) = hread h (ls, q)) /\
  (forall q, hread h1 (ls, q) = hread h (ls, q)) /\
  (forall os h2 fp, run_fp mech h1 os = Some (h2, fp) ->
     (forall w, In w fp -> fst w <> ld) -> forall q, hread h2 (ld, q) = hread h1 (ld, q)) /\
  (forall os h2 fp, run_fp mech h1 os = Some (h2, fp) ->
     (forall w, In w fp -> fst w <> ls) -> forall q, hread h2 (ls, q) = hread h1 (ls, q)).
Proof.
  intros mech h ld ls h1 o1 f1 N H. simpl in H. unfold eval in H. simpl in H.
  destruct (hread h (ls, [])) eqn:R; try discriminate.
  unfold hwrite_t in H. simpl in H.
  destruct (hwrite h (ld, []) v) eqn:W; try discriminate. inversion H; subst; clear H.
  assert (Lh : ld < length h1 /\ ls < length h1).
  { rewrite (hwrite_length _ _ _ _ W). unfold hread in R; unfold hwrite in W; simpl in *.
    split; apply nth_error_Some; intro Z.
    - rewrite Z in W; discriminate.
    - rewrite Z in R; discriminate. }
  repeat split.
  - intros q. change q with ([] ++ q). rewrite (hread_hwrite_below _ _ _ _ _ _ W).
    change ([] ++ q) with q. change (ls, q) with (ls, [] ++ q). rewrite hread_app. rewrite R. auto.
  - intros q. eapply hread_hwrite_disjoint; eauto. apply overlap_loc_neq; auto.
  - intros os h2 fp Rn F q. eapply frame_history_lemma; eauto. simpl; lia.
    intros. apply overlap_other_loc. auto.
  - intros os h2 fp Rn F q. eapply frame_history_lemma; eauto. simpl; lia.
    intros. apply overlap_other_loc. auto.
Qed.

(* syntactic reading: statements of main whose destinations are member paths of other variables *)
Fixpoint root_of (a : aexp) : option loc :=
  match a with
  | AVar l => Some l
  | APar _ => None
  | AFld a' _ => root_of a'
  | ADeref _ => None
  end.

Definition dest_root (s : sop) : option (option loc) :=   (* None: no destination *)
  match s with
  | SWrite a _ => Some (root_of a)
  | SCopy d _ => Some (root_of d)
  | SAddr p _ => Some (root_of p)
  | SRead _ _ => None
  end.

(* every statement is a plain statement of main whose destination (if any) is a deref-free member path
   of a variable other than l *)
Definition writes_avoid (l : loc) (os : list op) : Prop :=
  Forall (fun o => match o with
                   | OS s => match dest_root s with
                             | None => True
                             | Some (Some r) => r <> l
                             | Some None => False
                             end
                   | ONop _ => True
                   | ODecl _ => True
                   | OCall _ _ _ => False
                   | OCall2 _ _ _ => False
                   | OCallR _ _ _ => False
                   end) os.

Lemma resolve_root : forall h fr a r c, root_of a = Some r -> resolve h fr a = Some c -> fst c = r.
Proof.
  induction a; simpl; intros r c H R; try discriminate.
  - inversion H; inversion R; subst; auto.
  - destruct (resolve h fr a) as [[l p]|] eqn:E; try discriminate. inversion R; subst. simpl.
    apply (IHa r (l, p)); auto.
Qed.

Lemma writes_avoid_fp : forall mech l os h h' fp,
  writes_avoid l os -> run_fp mech h os = Some (h', fp) -> forall w, In w fp -> fst w <> l.
Proof.
  induction os; simpl; intros h h' fp WA H w I.
  - inversion H; subst. destruct I.
  - inversion WA; subst.
    destruct (exec_op mech h a) as [[[h1 o1] f1]|] eqn:E; try discriminate.
    destruct (run_fp mech h1 os) as [[h2 f2]|] eqn:R; try discriminate. inversion H; subst.
    apply in_app_or in I as [I|I]; [|eapply IHos; eauto].
    destruct a; simpl in E; try contradiction.
    + destruct s; simpl in *.
      * destruct (root_of a) eqn:RT; try contradiction.
        destruct (resolve h [] a) eqn:RS; try discriminate.
        unfold hwrite_t in E. destruct (hwrite h c (VInt z)); try discriminate. simpl in E.
        inversion E; subst. simpl in I. destruct I as [<-|[]]. erewrite resolve_root; eauto.
      * destruct (root_of d) eqn:RT; try contradiction.
        destruct (eval h [] s); try discriminate.
        destruct (resolve h [] d) eqn:RS; try discriminate.
        unfold hwrite_t in E. destruct (hwrite h c v); try discriminate. simpl in E.
        inversion E; subst. simpl in I. destruct I as [<-|[]]. erewrite resolve_root; eauto.
      * destruct (root_of p) eqn:RT; try contradiction.
        destruct (resolve h [] p) eqn:RS; try discriminate.
        destruct (resolve h [] t); try discriminate.
        unfold hwrite_t in E. destruct (hwrite h c (VPtr (Some c0))); try discriminate. simpl in E.
        inversion E; subst. simpl in I. destruct I as [<-|[]]. erewrite resolve_root; eauto.
      * destruct (read_all h [] rs); try discriminate. inversion E; subst. destruct I.
    + inversion E; subst. destruct I.
    + destruct (eval h [] s); try discriminate. inversion E; subst. destruct I.
Qed.

Theorem copy_independent_syntactic_lemma : forall mech h b a h1 o1 f1 os h2 fp q,
  b <> a ->
  exec_sop h [] [] (SCopy (AVar b) (AVar a)) = Some (h1, o1, f1) ->
  run_fp mech h1 os = Some (h2, fp) ->
  (writes_avoid b os -> hread h2 (b, q) = hread h (a, q)) /\
  (writes_avoid a os -> hread h2 (a, q) = hread h (a, q)).
Proof.
  intros mech h b a h1 o1 f1 os h2 fp q N C R.
  destruct (copy_independent_lemma mech _ _ _ _ _ _ N C) as [E1 [E2 [F1 F2]]].
  split; intros WA.
  - rewrite (F1 _ _ _ R); auto. eapply writes_avoid_fp; eauto.
  - rewrite (F2 _ _ _ R); auto. eapply writes_avoid_fp; eauto.
Qed.

(* ---------------------------------------------------------------- alias visibility, agreement of paths *)
Theorem paths_agree_lemma : forall h fr a1 a2 c,
  resolve h fr a1 = Some c ->
  (resolve h fr a2 = Some c -> eval h fr a2 = eval h fr a1) /\
  (forall q, resolve h fr a2 = Some (fst c, snd c ++ q) ->
     eval h fr a2 = match eval h fr a1 with Some u => read_at u q | None => None end).
Proof.
  intros h fr a1 a2 [l p] R1. unfold eval. rewrite R1. split.
  - intros ->. auto.
  - intros q ->. simpl. apply hread_app.
Qed.

(* a scalar write through ANY access path is read back through EVERY access path that denotes the same cell,
   as soon as the statement completes; every cell not overlapping it keeps its value *)
Theorem alias_visible_stmt_lemma : forall h fr a z h' o fp c,
  exec_sop h fr [] (SWrite a z) = Some (h', o, fp) ->
  resolve h fr a = Some c ->
  (forall a', resolve h' fr a' = Some c -> eval h' fr a' = Some (VInt z)) /\
  (forall a' d, resolve h' fr a' = Some d -> overlap c d = false -> eval h' fr a' = hread h d).
Proof.
  intros h fr a z h' o fp c H R. simpl in H. rewrite R in H.
  unfold hwrite_t in H. destruct (hwrite h c (VInt z)) eqn:W; try discriminate. simpl in H.
  inversion H; subst; clear H. split.
  - intros a' R'. unfold eval. rewrite R'. eapply hread_hwrite_same; eauto.
  - intros a' d R' O. unfold eval. rewrite R'. eapply hread_hwrite_disjoint; eauto.
Qed.

(* p = &t; then *p denotes t's cell *)
Theorem addr_then_deref_lemma : forall h fr lp t h' o fp tc,
  exec_sop h fr [] (SAddr (AVar lp) t) = Some (h', o, fp) ->
  resolve h fr t = Some tc ->
  resolve h' fr (ADeref (AVar lp)) = Some tc.
Proof.
  intros h fr lp t h' o fp tc H R. simpl in H. rewrite R in H.
  unfold hwrite_t in H. destruct (hwrite h (lp, []) (VPtr (Some tc))) eqn:W; try discriminate. simpl in H.
  inversion H; subst; clear H. simpl. rewrite (hread_hwrite_same _ _ _ _ W). auto.
Qed.

Fixpoint flds (a : aexp) (ks : list nat) : aexp :=
  match ks with [] => a | k :: ks' => flds (AFld a k) ks' end.

Lemma resolve_flds : forall ks h fr a l p,
  resolve h fr a = Some (l, p) -> resolve h fr (flds a ks) = Some (l, p ++ ks).
Proof.
  induction ks; simpl; intros.
  - rewrite app_nil_r; auto.
  - rewrite (IHks h fr (AFld a0 a) l (p ++ [a])).
    + rewrite <- app_assoc. auto.
    + simpl. rewrite H. auto.
Qed.

(* Spec calling convention: a callee that writes through its i-th parameter - bound by T&, as an array
   parameter, as self, or dereferencing a T* that received &arg - has written the caller's cell:
   after the call every caller path denoting arg.ks reads the value *)
Theorem alias_visible_call_lemma : forall m h arg ks z h' out fp l p,
  resolve h [] arg = Some (l, p) ->
  l < length h ->
  (m = MRef \/ m = MArr \/ m = MSelf) ->
  exec_call false h [(m, arg)] [SWrite (flds (APar 0) ks) z] None = Some (h', out, fp) ->
  hread h' (l, p ++ ks) = Some (VInt z) /\
  (forall a', resolve h' [] a' = Some (l, p ++ ks) -> eval h' [] a' = Some (VInt z)) /\
  (forall d, fst d < length h -> overlap (l, p ++ ks) d = false -> hread h' d = hread h d).
Proof.
  intros m h arg ks z h' out fp l p R L M H.
  assert (B : bind false h [(m, arg)] [] [] = Some (h ++ [VInt 0], [(l, p)], [])).
  { simpl. rewrite R. destruct M as [->|[->| ->]]; auto. }
  unfold exec_call in H. rewrite B in H.
  simpl in H.
  rewrite (resolve_flds ks (h ++ [VInt 0]) [(l, p)] (APar 0) l p) in H by auto.
  unfold hwrite_t in H.
  destruct (hwrite (h ++ [VInt 0]) (l, p ++ ks) (VInt z)) eqn:W; try discriminate. simpl in H.
  inversion H; subst; clear H.
  assert (E : hread h' (l, p ++ ks) = Some (VInt z)) by (eapply hread_hwrite_same; eauto).
  repeat split; auto.
  - intros a' R'. unfold eval. rewrite R'. auto.
  - intros d Ld O. rewrite (hread_hwrite_disjoint _ _ _ _ d W O). apply hread_alloc; auto.
Qed.

Theorem alias_visible_ptr_call_lemma : forall mech h arg ks z h' out fp l p,
  resolve h [] arg = Some (l, p) ->
  l < length h ->
  exec_call mech h [(MPtr, arg)] [SWrite (flds (ADeref (APar 0)) ks) z] None = Some (h', out, fp) ->
  hread h' (l, p ++ ks) = Some (VInt z) /\
  (forall a', resolve h' [] a' = Some (l, p ++ ks) -> eval h' [] a' = Some (VInt z)) /\
  (forall d, fst d < length h -> overlap (l, p ++ ks) d = false -> hread h' d = hread h d).
Proof.
  intros mech h arg ks z h' out fp l p R L H.
  assert (B : bind mech h [(MPtr, arg)] [] [] = Some (h ++ [VPtr (Some (l, p))], [(length h, [])], [])).
  { simpl. rewrite R. auto. }
  unfold exec_call in H. rewrite B in H.
  simpl in H.
  assert (RD : resolve (h ++ [VPtr (Some (l, p))]) [(length h, [])] (ADeref (APar 0)) = Some (l, p)).
  { simpl. unfold hread. simpl. rewrite nth_error_app2 by lia. rewrite Nat.sub_diag. simpl. auto. }
  rewrite (resolve_flds ks _ _ _ l p RD) in H.
  unfold hwrite_t in H.
  destruct (hwrite (h ++ [VPtr (Some (l, p))]) (l, p ++ ks) (VInt z)) eqn:W; try discriminate. simpl in H.
  inversion H; subst; clear H.
  assert (E : hread h' (l, p ++ ks) = Some (VInt z)) by (eapply hread_hwrite_same; eauto).
  repeat split; auto.
  - intros a' R'. unfold eval. rewrite R'. auto.
  - intros d Ld O. rewrite (hread_hwrite_disjoint _ _ _ _ d W O). apply hread_alloc; auto.
Qed.
