(* Extraction of the C07 model to OCaml (ExtrOcamlBasic + ExtrOcamlString only; nat/Z stay inductive). *)
From Coq Require Import Extraction ExtrOcamlBasic ExtrOcamlString.
From Cb Require Import C07.Model.
Extraction Language OCaml.
Extraction "C07/c07_model.ml" transcript run run_fp exec_call overlap.
