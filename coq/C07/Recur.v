(* C07 - calls nested to any depth (recursion): Model.v rstmt / exec_rstmt / OCallR.
   1. conservative extension of the one-level constructs (exec_call_in / exec_call2);
   2. BY-VALUE ISOLATION at every depth: a call all of whose parameters are passed by value and whose body - and the
      bodies of all the calls it makes, to any depth, each again passing by value - write only through their own
      parameters leaves EVERY location that existed before the call unchanged (the caller's variables and the
      by-value copies of all the outer recursion levels), under both calling conventions;
   3. BY-REFERENCE RECURSION: a write made at the bottom of a chain of n calls each of which passes its T& (array,
      self) parameter on to the next level is visible in the caller through every path;
   4. the shape of the seeded demo (by-value recursion with a write at each level and reads after return at each
      level) evaluated under both conventions. *)
From Coq Require Import List ZArith Bool Arith Lia.
From Cb Require Import C07.Model C07.Store C07.History.
Import ListNotations.

(* ---------------------------------------------------------------- 1. conservative extension *)
Definition rs_of_stmt (s : stmt) : rstmt :=
  match s with
  | TS s' => RS s'
  | TCall ps body ret => RCall ps (map RS body) ret
  end.

Lemma exec_seq_RS : forall ss h fr th,
  exec_seq (fun h' s' => exec_rstmt false h' fr th s') h (map RS ss) = exec_sops h fr th ss /\
  exec_seq (fun h' s' => exec_rstmt true h' fr th s') h (map RS ss) = exec_sops h fr th ss.
Proof.
  induction ss; simpl; intros h fr th; auto.
  destruct (exec_sop h fr th a) as [[[h1 o1] f1]|]; auto.
  destruct (IHss h1 fr th) as [-> ->]. auto.
Qed.

Lemma exec_seq_RS_mech : forall mech ss h fr th,
  exec_seq (fun h' s' => exec_rstmt mech h' fr th s') h (map RS ss) = exec_sops h fr th ss.
Proof. intros [|] ss h fr th; apply exec_seq_RS. Qed.

Lemma exec_rstmt_call_in : forall mech h fr th ps body ret,
  exec_rstmt mech h fr th (RCall ps (map RS body) ret) = exec_call_in mech h fr th ps body ret.
Proof.
  intros. simpl. unfold exec_call_in.
  destruct (bind_in mech h fr ps [] []) as [[[h1 fr1] thn]|]; auto.
  rewrite exec_seq_RS_mech.
  destruct (exec_sops h1 fr1 (thn ++ th) body) as [[[h2 o2] f2]|]; auto.
Qed.

Lemma exec_rstmt_stmt : forall mech h fr th s,
  exec_rstmt mech h fr th (rs_of_stmt s) = exec_stmt mech h fr th s.
Proof.
  intros mech h fr th [s|ps body ret].
  - reflexivity.
  - unfold rs_of_stmt. rewrite exec_rstmt_call_in. reflexivity.
Qed.

Lemma exec_seq_stmts : forall mech ss h fr th,
  exec_seq (fun h' s' => exec_rstmt mech h' fr th s') h (map rs_of_stmt ss) = exec_stmts mech h fr th ss.
Proof.
  induction ss; simpl; intros h fr th; auto.
  rewrite exec_rstmt_stmt.
  destruct (exec_stmt mech h fr th a) as [[[h1 o1] f1]|]; auto.
  rewrite IHss. auto.
Qed.

Lemma hwrite_t_nil : forall h c v, hwrite_t h [] c v = hwrite h c v.
Proof. intros. unfold hwrite_t. destruct (hwrite h c v); auto. Qed.

Lemma exec_rstmt_call2 : forall mech h ps body ret,
  exec_rstmt mech h [] [] (RCall ps (map rs_of_stmt body) ret) = exec_call2 mech h ps body ret.
Proof.
  intros. simpl. unfold exec_call2. rewrite bind_in_nil.
  destruct (bind mech h ps [] []) as [[[h1 fr1] thn]|]; auto.
  rewrite app_nil_r. rewrite exec_seq_stmts.
  destruct (exec_stmts mech h1 fr1 thn body) as [[[h2 o2] f2]|]; auto.
  unfold finish_call.
  destruct (match ret with Some (e, _) => eval h2 fr1 e | None => Some (VInt 0) end); auto.
  destruct (copy_back h2 thn) as [[h3 fb]|]; auto.
  destruct ret as [[e [d|]]|]; auto.
  destruct (resolve h3 [] d); auto. rewrite hwrite_t_nil. unfold fp_of. simpl. auto.
Qed.

Theorem recursive_calls_conservative_lemma : forall mech h fr th ps body ret body2,
  exec_rstmt mech h fr th (RCall ps (map RS body) ret) = exec_call_in mech h fr th ps body ret /\
  exec_op mech h (OCallR ps (map rs_of_stmt body2) ret) = exec_op mech h (OCall2 ps body2 ret) /\
  exec_op mech h (OCallR ps (map RS body) ret) = exec_op mech h (OCall ps body ret).
Proof.
  intros. split; [apply exec_rstmt_call_in|]. split.
  - unfold exec_op. apply exec_rstmt_call2.
  - unfold exec_op. rewrite exec_rstmt_call_in.
    unfold exec_call_in, exec_call. rewrite bind_in_nil.
    destruct (bind mech h ps [] []) as [[[h1 fr1] thn]|]; auto.
    rewrite app_nil_r.
    destruct (exec_sops h1 fr1 thn body) as [[[h2 o2] f2]|]; auto.
    destruct (match ret with Some (e, _) => eval h2 fr1 e | None => Some (VInt 0) end); auto.
    destruct (copy_back h2 thn) as [[h3 fb]|]; auto.
    destruct ret as [[e [d|]]|]; auto.
    destruct (resolve h3 [] d); auto. rewrite hwrite_t_nil. unfold fp_of. simpl. auto.
Qed.

(* ---------------------------------------------------------------- 2. by-value isolation at every depth *)
(* an access path that starts at a parameter of the running callee - or at a local variable declared by one of the
   callees (a location >= n, n = the number of locations that existed before the outermost call) - and goes down
   through members / elements only *)
Fixpoint par_rooted (n : nat) (a : aexp) : bool :=
  match a with
  | APar _ => true
  | AVar l => Nat.leb n l
  | AFld a' _ => par_rooted n a'
  | _ => false
  end.

Definition sop_own (n : nat) (s : sop) : bool :=
  match s with
  | SWrite a _ => par_rooted n a
  | SCopy d _ => par_rooted n d           (* the source is only read: any expression *)
  | SAddr p _ => par_rooted n p
  | SRead _ _ => true
  end.

Definition is_val (p : param) : bool := match fst p with MVal => true | _ => false end.

(* every statement writes through the callee's own parameters only; every call passes by value only (the ARGUMENTS
   are arbitrary expressions of the calling level: f(v), f( *p), f(g.inner)), stores its result in a fresh local or
   through a parameter of the calling level, and its body is again of this form *)
Fixpoint val_only (n : nat) (s : rstmt) : bool :=
  match s with
  | RS s' => sop_own n s'
  | RCall ps body ret =>
      forallb is_val ps && forallb (val_only n) body &&
      match ret with Some (_, Some d) => par_rooted n d | _ => true end
  | RDecl _ => true                       (* T c = e; a fresh local holding a copy of any expression *)
  end.

Definition frame_ge (n : nat) (fr : frame) : Prop := Forall (fun c : cell => n <= fst c) fr.
Definition thru_lt (n : nat) (th : thru) : Prop := Forall (fun tc : loc * cell => fst tc < n) th.

Lemma resolve_par_rooted : forall n h fr a (c : cell),
  frame_ge n fr -> par_rooted n a = true -> resolve h fr a = Some c -> n <= fst c.
Proof.
  induction a; simpl; intros c G P R; try discriminate.
  - inversion R; subst. simpl. apply Nat.leb_le; auto.
  - unfold frame_ge in G. rewrite Forall_forall in G. apply G. eapply nth_error_In; eauto.
  - destruct (resolve h fr a) as [[l p]|] eqn:E; try discriminate. inversion R; subst. simpl.
    apply (IHa (l, p)); auto.
Qed.

Lemma write_thru_miss : forall n th h (c : cell) x, thru_lt n th -> n <= fst c -> write_thru h th c x = Some h.
Proof.
  induction th as [|[t o] th]; simpl; intros h c x T G; auto.
  inversion T; subst. simpl in H1.
  destruct (Nat.eqb t (fst c)) eqn:E.
  - apply Nat.eqb_eq in E. lia.
  - apply IHth; auto.
Qed.

Lemma hwrite_t_own : forall n th h (c : cell) x h' (d : cell),
  thru_lt n th -> n <= fst c -> hwrite_t h th c x = Some h' -> fst d < n ->
  hread h' d = hread h d /\ length h' = length h.
Proof.
  unfold hwrite_t; intros n th h c x h' d T G H L.
  destruct c as [lc pc]. destruct d as [ld pd]. simpl in G, L.
  destruct (hwrite h (lc, pc) x) eqn:W; try discriminate.
  rewrite (write_thru_miss n th h0 (lc, pc) x T G) in H. inversion H; subst.
  split.
  - eapply hread_hwrite_disjoint; eauto. apply overlap_loc_neq. lia.
  - eapply hwrite_length; eauto.
Qed.

Lemma exec_sop_own : forall n h fr th s h' o fp (d : cell),
  frame_ge n fr -> thru_lt n th -> sop_own n s = true ->
  exec_sop h fr th s = Some (h', o, fp) -> fst d < n ->
  hread h' d = hread h d /\ length h' = length h.
Proof.
  intros n h fr th s h' o fp d G T P H L. destruct s; simpl in H, P.
  - destruct (resolve h fr a) eqn:R; try discriminate.
    destruct (hwrite_t h th c (VInt z)) eqn:W; try discriminate. inversion H; subst.
    eapply hwrite_t_own; eauto. eapply resolve_par_rooted; eauto.
  - destruct (eval h fr s); try discriminate. destruct (resolve h fr d0) eqn:R; try discriminate.
    destruct (hwrite_t h th c v) eqn:W; try discriminate. inversion H; subst.
    eapply hwrite_t_own; eauto. eapply resolve_par_rooted; eauto.
  - destruct (resolve h fr p) eqn:R; try discriminate. destruct (resolve h fr t); try discriminate.
    destruct (hwrite_t h th c (VPtr (Some c0))) eqn:W; try discriminate. inversion H; subst.
    eapply hwrite_t_own; eauto. eapply resolve_par_rooted; eauto.
  - destruct (read_all h fr rs); try discriminate. inversion H; subst; auto.
Qed.

(* binding by value: the new frame consists of fresh locations, no copy-in parameter is created *)
Lemma bind_in_val : forall mech fr0 ps h fr th h1 fr1 th1 n,
  forallb is_val ps = true -> n <= length h -> frame_ge n fr ->
  bind_in mech h fr0 ps fr th = Some (h1, fr1, th1) ->
  frame_ge n fr1 /\ th1 = th /\ length h <= length h1 /\
  (forall d : cell, fst d < length h -> hread h1 d = hread h d).
Proof.
  induction ps as [|[m a] ps]; simpl; intros h fr th h1 fr1 th1 n V L G H.
  - inversion H; subst. repeat split; auto.
  - apply andb_true_iff in V as [V1 V2]. unfold is_val in V1. simpl in V1.
    destruct m; try discriminate.
    destruct (resolve h fr0 a); try discriminate.
    destruct (hread h c) eqn:R; try discriminate.
    apply (IHps _ _ _ _ _ _ n V2) in H.
    + destruct H as [A [B [C D]]]. rewrite app_length in C; simpl in C. repeat split; auto; try lia.
      intros d Ld. rewrite D. apply hread_alloc; auto. rewrite app_length; simpl; lia.
    + rewrite app_length; simpl; lia.
    + unfold frame_ge in *. apply Forall_app. split; auto.
Qed.

Lemma exec_seq_own : forall (f : heap -> rstmt -> option res) n ss,
  Forall (fun s => forall h h' o fp (d : cell), n <= length h -> f h s = Some (h', o, fp) -> fst d < n ->
                   hread h' d = hread h d /\ length h <= length h') ss ->
  forall h h' o fp (d : cell), n <= length h -> exec_seq f h ss = Some (h', o, fp) -> fst d < n ->
  hread h' d = hread h d /\ length h <= length h'.
Proof.
  intros f n ss HF. induction HF as [|s ss Hs HF IH]; simpl; intros h h' o fp d L H Ld.
  - inversion H; auto.
  - destruct (f h s) as [[[h1 o1] f1]|] eqn:E; try discriminate.
    destruct (exec_seq f h1 ss) as [[[h2 o2] f2]|] eqn:E2; try discriminate.
    inversion H; subst.
    destruct (Hs _ _ _ _ d L E Ld) as [A1 A2].
    destruct (IH _ _ _ _ d (Nat.le_trans _ _ _ L A2) E2 Ld) as [B1 B2].
    split; [congruence | lia].
Qed.

(* the invariant: in a frame of fresh locations (>= n), with all enclosing copy-in temporaries below n, a val_only
   statement changes no location below n *)
Lemma val_only_private : forall s mech n h fr th h' o fp (d : cell),
  val_only n s = true -> n <= length h -> frame_ge n fr -> thru_lt n th ->
  exec_rstmt mech h fr th s = Some (h', o, fp) -> fst d < n ->
  hread h' d = hread h d /\ length h <= length h'.
Proof.
  intros s. induction s as [s|ps body ret IH|s] using rstmt_induction; intros mech n h fr th h' o fp d V L G T H Ld.
  3:{ simpl in H. destruct (eval h fr s); try discriminate. inversion H; subst. split.
      - apply hread_alloc. eapply Nat.lt_le_trans; [exact Ld | exact L].
      - rewrite app_length; lia. }
  - simpl in H, V. destruct (exec_sop_own n _ _ _ _ _ _ _ d G T V H Ld) as [A B]. split; auto. lia.
  - simpl in H. simpl in V. apply andb_true_iff in V as [V V3]. apply andb_true_iff in V as [V1 V2].
    destruct (bind_in mech h fr ps [] []) as [[[h1 fr1] thn]|] eqn:B; try discriminate.
    destruct (bind_in_val _ _ _ _ _ _ _ _ _ n V1 L (Forall_nil _) B) as [G1 [T1 [L1 D1]]]. subst thn.
    simpl in H.
    destruct (exec_seq (fun h'0 s' => exec_rstmt mech h'0 fr1 th s') h1 body) as [[[h2 o2] f2]|] eqn:E;
      try discriminate.
    assert (E' : hread h2 d = hread h1 d /\ length h1 <= length h2).
    { eapply (exec_seq_own _ n body); [| | exact E | exact Ld]; [|lia].
      rewrite forallb_forall in V2. rewrite Forall_forall in IH. rewrite Forall_forall.
      intros s0 I h0 h0' o0 fp0 d0 L0 X Y. eapply (IH s0 I mech n); eauto. }
    destruct E' as [E1 E2].
    unfold finish_call in H.
    destruct (match ret with Some (e, _) => eval h2 fr1 e | None => Some (VInt 0) end) as [rv|]; try discriminate.
    simpl in H.
    assert (D : hread h2 d = hread h d).
    { rewrite E1. apply D1. lia. }
    destruct ret as [[e [dd|]]|].
    + destruct (resolve h2 fr dd) eqn:R; try discriminate.
      destruct (hwrite_t h2 th c rv) eqn:W; try discriminate. inversion H; subst.
      destruct (hwrite_t_own n th h2 c rv h' d T (resolve_par_rooted n _ _ _ _ G V3 R) W Ld) as [A1 A2].
      split; [congruence | lia].
    + inversion H; subst. split.
      * rewrite hread_alloc; auto. eapply Nat.lt_le_trans; [exact Ld | lia].
      * rewrite app_length; simpl; lia.
    + inversion H; subst. split; auto. lia.
Qed.

(* THE THEOREM: a call - made from main or from any callee frame - that passes all its arguments by value, whose body
   writes only through the callee's own parameters and makes only calls of the same kind (to ANY depth: by-value
   recursion f(C v) -> f(v) included), and whose result is dropped or kept in a fresh variable, leaves every location
   that existed before the call unchanged: the caller's variables (the arguments included) and the by-value copies
   owned by every outer level.  Both conventions. *)
Theorem byval_calls_private_lemma : forall mech h fr th ps body e h' o fp (d : cell),
  forallb is_val ps = true -> forallb (val_only (length h)) body = true ->
  thru_lt (length h) th ->
  (exec_rstmt mech h fr th (RCall ps body None) = Some (h', o, fp) \/
   exec_rstmt mech h fr th (RCall ps body (Some (e, None))) = Some (h', o, fp)) ->
  fst d < length h ->
  hread h' d = hread h d.
Proof.
  intros mech h fr th ps body e h' o fp d V1 V2 T H Ld.
  assert (X : forall ret, (ret = None \/ ret = Some (e, None)) ->
              exec_rstmt mech h fr th (RCall ps body ret) = Some (h', o, fp) -> hread h' d = hread h d).
  { intros ret Hr H0. simpl in H0.
    destruct (bind_in mech h fr ps [] []) as [[[h1 fr1] thn]|] eqn:B; try discriminate.
    destruct (bind_in_val _ _ _ _ _ _ _ _ _ (length h) V1 (Nat.le_refl _) (Forall_nil _) B) as [G1 [T1 [L1 D1]]].
    subst thn. simpl in H0.
    destruct (exec_seq (fun h'0 s' => exec_rstmt mech h'0 fr1 th s') h1 body) as [[[h2 o2] f2]|] eqn:E;
      try discriminate.
    assert (E' : hread h2 d = hread h1 d /\ length h1 <= length h2).
    { eapply (exec_seq_own _ (length h) body); [| exact L1 | exact E | exact Ld].
      rewrite forallb_forall in V2. rewrite Forall_forall.
      intros s0 I h0 h0' o0 fp0 d0 L0 X Y. eapply (val_only_private s0 mech (length h)); eauto. }
    destruct E' as [E1 E2].
    unfold finish_call in H0.
    destruct (match ret with Some (e0, _) => eval h2 fr1 e0 | None => Some (VInt 0) end) as [rv|]; try discriminate.
    simpl in H0.
    destruct Hr as [-> | ->].
    - inversion H0; subst. rewrite E1. apply D1; auto.
    - inversion H0; subst. rewrite hread_alloc by (eapply Nat.lt_le_trans; [exact Ld | lia]).
      rewrite E1. apply D1; auto. }
  destruct H as [H|H]; [apply (X None) | apply (X (Some (e, None)))]; auto.
Qed.

(* ---------------------------------------------------------------- 3. by-reference recursion *)
(* f(C& v) { f(v); } n levels deep, the innermost level writes v.ks = z:
     ref_chain m 0 ks z a     = f(a) with body  v.ks = z;
     ref_chain m (S n) ks z a = f(a) with body  f(v);   (the rest of the chain) *)
Fixpoint ref_chain (m : pmode) (n : nat) (ks : list nat) (z : Z) (a : aexp) : rstmt :=
  match n with
  | O => RCall [(m, a)] [RS (SWrite (flds (APar 0) ks) z)] None
  | S n' => RCall [(m, a)] [ref_chain m n' ks z (APar 0)] None
  end.

Theorem alias_visible_recursion_lemma : forall m n ks z a h fr l p h' o fp,
  (m = MRef \/ m = MArr \/ m = MSelf) ->
  resolve h fr a = Some (l, p) -> l < length h ->
  exec_rstmt false h fr [] (ref_chain m n ks z a) = Some (h', o, fp) ->
  hread h' (l, p ++ ks) = Some (VInt z) /\
  (forall a', resolve h' fr a' = Some (l, p ++ ks) -> eval h' fr a' = Some (VInt z)) /\
  (forall d : cell, fst d < length h -> overlap (l, p ++ ks) d = false -> hread h' d = hread h d) /\
  length h <= length h'.
Proof.
  intros m n ks z. induction n as [|n IH]; intros a h fr l p h' o fp M R L H.
  - assert (B : bind_in false h fr [(m, a)] [] [] = Some (h ++ [VInt 0], [(l, p)], [])).
    { simpl. rewrite R. destruct M as [->|[->| ->]]; auto. }
    cbn [ref_chain exec_rstmt] in H. rewrite B in H. cbn [exec_seq exec_rstmt app exec_sop] in H.
    rewrite (resolve_flds ks (h ++ [VInt 0]) [(l, p)] (APar 0) l p) in H by auto.
    unfold hwrite_t in H.
    destruct (hwrite (h ++ [VInt 0]) (l, p ++ ks) (VInt z)) eqn:W; try discriminate.
    cbn [write_thru] in H. unfold finish_call in H. cbn [copy_back] in H.
    inversion H; subst; clear H.
    assert (E : hread h' (l, p ++ ks) = Some (VInt z)) by (eapply hread_hwrite_same; eauto).
    repeat split; auto.
    + intros a' R'. unfold eval. rewrite R'. auto.
    + intros d Ld O. rewrite (hread_hwrite_disjoint _ _ _ _ d W O). apply hread_alloc; auto.
    + rewrite (hwrite_length _ _ _ _ W). rewrite app_length; simpl; lia.
  - assert (B : bind_in false h fr [(m, a)] [] [] = Some (h ++ [VInt 0], [(l, p)], [])).
    { simpl. rewrite R. destruct M as [->|[->| ->]]; auto. }
    cbn [ref_chain exec_rstmt] in H. rewrite B in H. cbn [exec_seq app] in H.
    destruct (exec_rstmt false (h ++ [VInt 0]) [(l, p)] [] (ref_chain m n ks z (APar 0)))
      as [[[h1 o1] f1]|] eqn:E; try discriminate.
    assert (L' : l < length (h ++ [VInt 0])) by (rewrite app_length; simpl; lia).
    destruct (IH (APar 0) (h ++ [VInt 0]) [(l, p)] l p h1 o1 f1 M eq_refl L' E) as [A1 [A2 [A3 A4]]].
    unfold finish_call in H. simpl in H. inversion H; subst; clear H.
    rewrite app_length in A4; simpl in A4.
    repeat split; auto; try lia.
    + intros a' R'. unfold eval. rewrite R'. auto.
    + intros d Ld O. rewrite A3; auto. apply hread_alloc; auto. rewrite app_length; simpl; lia.
Qed.

(* ---------------------------------------------------------------- 4. the seeded demo's shape *)
(* struct C { int n; int t; };  C c (location 0) = {100, 5};  C other (location 1) = {10, 6};
     int down(C v, int k) { v.n = <7+k>; if (k > 0) { int below = down(v, k-1); println(k, below, v.n); } return v.n; }
   unrolled for k = 2: three levels, each level writes its own copy, reads it after the inner call returned. *)
Definition d_heap : heap := [VAgg [VInt 100; VInt 5]; VAgg [VInt 10; VInt 6]]%Z.
Definition d_level0 : rstmt :=           (* innermost: k = 0 *)
  RCall [(MVal, APar 0)] [RS (SWrite (AFld (APar 0) 0) 7%Z)] (Some (AFld (APar 0) 0, None)).
Definition d_level1 : rstmt :=           (* k = 1: locations: v = 3, inner v = 4, below = 5 *)
  RCall [(MVal, APar 0)]
        [RS (SWrite (AFld (APar 0) 0) 8%Z); d_level0; RS (SRead 1%Z [AVar 5; AFld (APar 0) 0])]
        (Some (AFld (APar 0) 0, None)).
Definition d_ops : list op :=
  [OCallR [(MVal, AVar 1)]                (* k = 2: v = 2, below = 6 *)
          [RS (SWrite (AFld (APar 0) 0) 9%Z); d_level1; RS (SRead 2%Z [AVar 6; AFld (APar 0) 0])]
          (Some (AFld (APar 0) 0, None));   (* r = location 7 *)
   OS (SRead 3%Z [AVar 7; AFld (AVar 1) 0; AFld (AVar 1) 1; AFld (AVar 0) 0; AFld (AVar 0) 1])].

Definition zs_eqb2 (a b : list Z) : bool := if list_eq_dec Z.eq_dec a b then true else false.

Lemma byval_recursion_demo :
  forallb (fun mech =>
    match transcript mech d_heap d_ops with
    | ([l1; l2; l3], true) =>
        zs_eqb2 l1 [1; 7; 8]%Z && zs_eqb2 l2 [2; 8; 9]%Z && zs_eqb2 l3 [3; 9; 10; 6; 100; 5]%Z
    | _ => false
    end) [false; true] = true.
Proof. vm_compute. reflexivity. Qed.

(* a local declared in the callee by copy:  void f(C v) { C w = v; w.n = 70; println(1, w.n, v.n); }  f(other);
   println(2, other.n);  - the local is a third independent copy *)
Definition l_ops : list op :=
  [OCallR [(MVal, AVar 1)]
          [RDecl (APar 0); RS (SWrite (AFld (AVar 3) 0) 70%Z); RS (SRead 1%Z [AFld (AVar 3) 0; AFld (APar 0) 0])]
          None;
   OS (SRead 2%Z [AFld (AVar 1) 0])].

Lemma callee_local_demo :
  forallb (fun mech =>
    match transcript mech d_heap l_ops with
    | ([l1; l2], true) => zs_eqb2 l1 [1; 70; 10]%Z && zs_eqb2 l2 [2; 10]%Z
    | _ => false
    end) [false; true] = true /\
  forallb (val_only (length d_heap)) [RDecl (APar 0); RS (SWrite (AFld (AVar 3) 0) 70%Z)] = true.
Proof. split; vm_compute; reflexivity. Qed.

(* ---------------------------------------------------------------- 5. the repaired findings' inputs *)
(* struct In { int v; int w; };  struct P { int s; In inner; int[3] arr; };
   P a (location 0), a.inner.w = 118;  P b (location 1), b.inner.w = 107.
     void f(P b) { println(1, b.inner.w); b.inner.w = 139; println(2, b.inner.w); }   f(a);    (parameter = location 2)
     println(3, a.inner.w, b.inner.w);
     a.inner = b.inner;  println(4, a.inner.w);
     b.arr[2] = 106;  P c = b;  (location 3)   println(5, c.inner.w, c.arr[2]);
     a = c;  println(6, a.arr[2], a.inner.w);
   These are the inputs of the findings C07-byval-nested-member-read-captured, C07-byval-nested-write-lost,
   C07-nested-member-assign-noop, C07-decl-copy-loses-nested-member and C07-copy-of-copy-loses-array-member, which the
   implementation got wrong until the repairs; the store gives the same lines under both conventions. *)
Definition fx_P (w : Z) : val := VAgg [VInt 0; VAgg [VInt 0; VInt w]; VAgg [VInt 0; VInt 0; VInt 0]]%Z.
Definition fx_heap : heap := [fx_P 118%Z; fx_P 107%Z].
Definition fx_iw (a : aexp) : aexp := AFld (AFld a 1) 1.
Definition fx_body : list rstmt :=
  [RS (SRead 1%Z [fx_iw (APar 0)]); RS (SWrite (fx_iw (APar 0)) 139%Z); RS (SRead 2%Z [fx_iw (APar 0)])].
Definition fx_ops : list op :=
  [OCallR [(MVal, AVar 0)] fx_body None;
   OS (SRead 3%Z [fx_iw (AVar 0); fx_iw (AVar 1)]);
   OS (SCopy (AFld (AVar 0) 1) (AFld (AVar 1) 1));
   OS (SRead 4%Z [fx_iw (AVar 0)]);
   OS (SWrite (AFld (AFld (AVar 1) 2) 2) 106%Z);
   ODecl (AVar 1);
   OS (SRead 5%Z [fx_iw (AVar 3); AFld (AFld (AVar 3) 2) 2]);
   OS (SCopy (AVar 0) (AVar 3));
   OS (SRead 6%Z [AFld (AFld (AVar 0) 2) 2; fx_iw (AVar 0)])].

Lemma repaired_inputs_demo :
  forallb (fun mech =>
    match transcript mech fx_heap fx_ops with
    | ([l1; l2; l3; l4; l5; l6], true) =>
        zs_eqb2 l1 [1; 118]%Z && zs_eqb2 l2 [2; 139]%Z && zs_eqb2 l3 [3; 118; 107]%Z && zs_eqb2 l4 [4; 107]%Z &&
        zs_eqb2 l5 [5; 107; 106]%Z && zs_eqb2 l6 [6; 106; 107]%Z
    | _ => false
    end) [false; true] = true /\
  forallb (val_only (length fx_heap)) fx_body = true.
Proof. split; vm_compute; reflexivity. Qed.
