(* C12 - the whole-program form of the permutation lemma: for a program the parser and the
   registration accept, what it prints (and whether / how it stops) does not depend on the order in
   which its impl blocks are registered.  Proof: the two registries answer every query alike
   (Registry.v for the function table and the impl list; below for the statics table), and every
   operation of the machine preserves "answers alike". *)
From Coq Require Import List Arith Bool Ascii String ZArith Lia Permutation.
From Cb Require Import C12.Model C12.Maps C12.Registry C12.Calls.
Import ListNotations.
Local Open Scope string_scope.
Local Open Scope list_scope.

Definition pair_of (d : impl_def) : name * name := (i_iface d, i_type d).

(* ---------- the statics table under permutation ---------- *)
Definition over {A : Type} (top base l : list (string * A)) : Prop :=
  forall k, alookup k l = match alookup k top with Some z => Some z | None => alookup k base end.
Lemma over_aset : forall (A : Type) k (v : A) top base l, over top base l -> over (aset k v top) base (aset k v l).
Proof. intros A k v top base l H k'. rewrite !alookup_aset. destruct (String.eqb k' k); [reflexivity|apply H]. Qed.

Lemma add_statics_over : forall d ss, over (add_statics d []) ss (add_statics d ss).
Proof.
  intros d ss. unfold add_statics.
  assert (forall l top cur, over top ss cur ->
    over (fold_left (fun acc (nz : name * Z) => aset (static_key (i_iface d) (i_type d) (fst nz)) (snd nz) acc) l top) ss
         (fold_left (fun acc (nz : name * Z) => aset (static_key (i_iface d) (i_type d) (fst nz)) (snd nz) acc) l cur)) as G.
  { induction l as [|[n z] l IH]; simpl; intros top cur H; [assumption|]. apply IH. apply over_aset; assumption. }
  apply G. intros k. reflexivity.
Qed.

Lemma own_keys : forall d k z, alookup k (add_statics d []) = Some z -> exists n, k = static_key (i_iface d) (i_type d) n.
Proof.
  intros d k z. unfold add_statics.
  assert (forall l acc, (forall k z, alookup k acc = Some z -> exists n, k = static_key (i_iface d) (i_type d) n) ->
     forall k z, alookup k (fold_left (fun acc (nz : name * Z) => aset (static_key (i_iface d) (i_type d) (fst nz)) (snd nz) acc) l acc) = Some z ->
       exists n, k = static_key (i_iface d) (i_type d) n) as G.
  { induction l as [|[n z0] l IH]; simpl; intros acc H; [assumption|]. apply IH.
    intros k0 z1. rewrite alookup_aset. destruct (String.eqb k0 _) eqn:E.
    - apply String.eqb_eq in E. eauto.
    - apply H. }
  apply G. intros k0 z0 H; discriminate.
Qed.

Lemma eqmap_trans : forall (A : Type) (a b c : list (string * A)), eqmap a b -> eqmap b c -> eqmap a c.
Proof. intros A a b c H1 H2 k. rewrite H1. apply H2. Qed.
Lemma eqmap_sym : forall (A : Type) (a b : list (string * A)), eqmap a b -> eqmap b a.
Proof. intros A a b H k. symmetry. apply H. Qed.

Lemma add_statics_congr : forall d a b, eqmap a b -> eqmap (add_statics d a) (add_statics d b).
Proof. intros d a b H k. rewrite (add_statics_over d a k), (add_statics_over d b k), H. reflexivity. Qed.

Lemma add_statics_comm : forall d e ss, wf_impl d -> wf_impl e -> pair_of d <> pair_of e ->
  eqmap (add_statics e (add_statics d ss)) (add_statics d (add_statics e ss)).
Proof.
  intros d e ss [Di [Dt _]] [Ei [Et _]] NE k.
  rewrite (add_statics_over e (add_statics d ss) k), (add_statics_over d (add_statics e ss) k),
          (add_statics_over d ss k), (add_statics_over e ss k).
  destruct (alookup k (add_statics e [])) as [ze|] eqn:A; destruct (alookup k (add_statics d [])) as [zd|] eqn:B; try reflexivity.
  exfalso. apply own_keys in A as [n1 ->]. apply own_keys in B as [n2 B].
  apply static_key_inj in B as [B1 [B2 _]]; auto. apply NE. unfold pair_of. congruence.
Qed.

Definition all_statics (ds : list impl_def) (ss : list (string * Z)) : list (string * Z) :=
  fold_left (fun ss d => add_statics d ss) ds ss.
Lemma all_statics_congr : forall ds a b, eqmap a b -> eqmap (all_statics ds a) (all_statics ds b).
Proof. induction ds as [|d ds IH]; simpl; intros a b H; [assumption|]. apply IH. apply add_statics_congr; assumption. Qed.

Lemma all_statics_perm : forall ds ds', Permutation ds ds' -> wf_impls ds -> NoDup (map pair_of ds) ->
  forall a b, eqmap a b -> eqmap (all_statics ds a) (all_statics ds' b).
Proof.
  intros ds ds' P. induction P; intros W ND a b H.
  - assumption.
  - simpl. inversion W; subst. inversion ND; subst. apply IHP; auto. apply add_statics_congr; assumption.
  - simpl. apply all_statics_congr.
    inversion W as [|? ? Wy W']; subst. inversion W' as [|? ? Wx _]; subst.
    inversion ND as [|? ? Ny _]; subst.
    eapply eqmap_trans; [apply add_statics_comm; auto|].
    + intros E. apply Ny. simpl. left. symmetry. exact E.
    + apply add_statics_congr. apply add_statics_congr. assumption.
  - eapply eqmap_trans; [apply (IHP1 W ND a b H)|].
    apply IHP2.
    + eapply wf_impls_perm; eauto.
    + eapply Permutation_NoDup; [apply Permutation_map; eassumption|assumption].
    + apply eqmap_refl.
Qed.

(* ---------- the parser's verdict under permutation ---------- *)
Definition complete (ifs : list (name * list name)) (d : impl_def) : Prop :=
  forall m, In m (iface_methods ifs (i_iface d)) -> In m (method_names d).

Lemma same_pair_false : forall seen d, existsb (same_pair (i_iface d) (i_type d)) seen = false <-> ~ In (pair_of d) (map pair_of seen).
Proof.
  intros seen d. split.
  - intros H I. apply in_map_iff in I as [e [E He]].
    assert (existsb (same_pair (i_iface d) (i_type d)) seen = true) as T.
    { apply existsb_exists. exists e. split; [assumption|]. unfold same_pair, pair_of in *. inversion E. rewrite !String.eqb_refl. reflexivity. }
    congruence.
  - intros H. destruct (existsb _ seen) eqn:E; [|reflexivity].
    apply existsb_exists in E as [e [He S]]. unfold same_pair in S. apply andb_true_iff in S as [A B].
    apply String.eqb_eq in A. apply String.eqb_eq in B. exfalso. apply H. apply in_map_iff. exists e. unfold pair_of. split; [congruence|assumption].
Qed.

Lemma parse_check_none : forall ifs ds seen,
  parse_check ifs seen ds = None <-> (Forall (complete ifs) ds /\ NoDup (map pair_of ds) /\ forall d, In d ds -> ~ In (pair_of d) (map pair_of seen)).
Proof.
  induction ds as [|d ds IH]; simpl; intros seen.
  - split; [intros _; repeat split; [constructor|constructor|tauto]|reflexivity].
  - destruct (find (fun m => negb (smem m (method_names d))) (iface_methods ifs (i_iface d))) as [m|] eqn:F.
    + split; [discriminate|]. intros [C _]. inversion C as [|? ? Cd _]; subst.
      apply find_some in F as [Hm F]. apply negb_true_iff in F.
      assert (smem m (method_names d) = true) as T by (apply smem_In; apply Cd; assumption). congruence.
    + assert (complete ifs d) as Cd.
      { intros m Hm. pose proof (find_none _ _ F m Hm) as N. apply negb_false_iff in N. apply smem_In; assumption. }
      destruct (existsb (same_pair (i_iface d) (i_type d)) seen) eqn:E.
      * split; [discriminate|]. intros [_ [_ H]]. exfalso.
        assert (existsb (same_pair (i_iface d) (i_type d)) seen = false) as N by (apply same_pair_false; apply H; auto). congruence.
      * rewrite IH. rewrite same_pair_false in E. split.
        -- intros [C [ND H]]. split; [constructor; assumption|split].
           ++ constructor; [|assumption]. intros I. apply in_map_iff in I as [e [Ee He]].
              apply (H e He). rewrite map_app. apply in_or_app. right. simpl. left. symmetry; exact Ee.
           ++ intros x [<-|Hx]; [assumption|]. intros I. apply (H x Hx). rewrite map_app. apply in_or_app; auto.
        -- intros [C [ND H]]. inversion C; subst. inversion ND as [|? ? Nd ND']; subst.
           split; [assumption|split; [assumption|]].
           intros x Hx I. rewrite map_app in I. apply in_app_or in I as [I|[I|[]]].
           ++ apply (H x (or_intror Hx) I).
           ++ apply Nd. rewrite I. apply in_map; assumption.
Qed.

Lemma parse_check_perm : forall ifs ds ds', Permutation ds ds' ->
  parse_check ifs [] ds = None -> parse_check ifs [] ds' = None /\ NoDup (map pair_of ds).
Proof.
  intros ifs ds ds' P H. apply parse_check_none in H as [C [ND _]]. split; [|assumption].
  apply parse_check_none. split; [eapply Permutation_Forall; eauto|split].
  - eapply Permutation_NoDup; [apply Permutation_map; eassumption|assumption].
  - intros d _ [].
Qed.

(* ---------- "answers alike" is preserved by the machine ---------- *)
Record fsim (a b : frame) : Prop := {
  fs_self : f_self a = f_self b; fs_arg : f_arg a = f_arg b; fs_vars : f_vars a = f_vars b; fs_ctx : f_ctx a = f_ctx b;
  fs_out : f_out a = f_out b; fs_st : eqmap (f_statics a) (f_statics b) }.

Lemma eval_sim : forall a b e, fsim a b -> eval a e = eval b e.
Proof.
  intros a b e [S A V C O M]. induction e; simpl; try reflexivity.
  - rewrite A. reflexivity.
  - rewrite S. reflexivity.
  - rewrite S. reflexivity.
  - unfold static_lookup. rewrite C. destruct (static_name (c_cur (f_ctx b)) n); [rewrite M|]; reflexivity.
  - rewrite IHe1, IHe2. reflexivity.
  - rewrite IHe1, IHe2. reflexivity.
  - rewrite IHe1, IHe2. reflexivity.
Qed.
Lemma eval_list_sim : forall a b es, fsim a b -> eval_list a es = eval_list b es.
Proof. intros a b es H. induction es as [|e es IH]; simpl; [reflexivity|]. rewrite (eval_sim a b e H), IH. reflexivity. Qed.

Definition osim {X Y : Type} (R : X -> X -> Prop) (x y : X + Y) : Prop :=
  match x, y with inl a, inl b => R a b | inr e, inr e' => e = e' | _, _ => False end.
Definition fsimz (x y : frame * Z) : Prop := fsim (fst x) (fst y) /\ snd x = snd y.

Definition funcs_alike (f1 f2 : list (string * fentry)) : Prop :=
  forall t n, alookup (method_key t n) f1 = alookup (method_key t n) f2.

Record ssim (a b : state) : Prop := {
  ss_funcs : funcs_alike (s_funcs a) (s_funcs b);
  ss_impls : forall i t, impl_exists (s_impls a) i t = impl_exists (s_impls b) i t;
  ss_st : eqmap (s_statics a) (s_statics b);
  ss_vars : s_vars a = s_vars b; ss_ctx : s_ctx a = s_ctx b; ss_out : s_out a = s_out b }.

Definition rsim {X : Type} (R : X -> X -> Prop) (x y : res X) : Prop :=
  match x, y with Ok a, Ok b => R a b | Fail o e, Fail o' e' => o = o' /\ e = e' | _, _ => False end.
Definition ssimz (x y : state * Z) : Prop := ssim (fst x) (fst y) /\ snd x = snd y.

(* two ways of running a registered method / making a call that answer alike on states that answer alike *)
Definition runsim (r1 r2 : runner) : Prop := forall fe t self arg a b, ssim a b -> osim fsimz (r1 fe t self arg a) (r2 fe t self arg b).
Definition callsim (c1 c2 : caller) : Prop := forall a b rc m arg, ssim a b -> rsim ssimz (c1 a rc m arg) (c2 b rc m arg).

Lemma invoke_g_sim : forall r1 r2 a b l v t self fe arg, runsim r1 r2 -> ssim a b ->
  rsim ssimz (invoke_g r1 a l v t self fe arg) (invoke_g r2 b l v t self fe arg).
Proof.
  intros r1 r2 a b l v t self fe arg RS H. pose proof H as [F I S V C O]. unfold invoke_g.
  pose proof (RS fe t self arg a b H) as E.
  destruct (r1 fe t self arg a) as [[fa' za]|[oa xa]]; destruct (r2 fe t self arg b) as [[fb' zb]|[ob xb]]; simpl in E; try contradiction.
  - destruct E as [[S' A' V' C' O' M'] E2]. simpl in *. subst zb. split; [|reflexivity]. constructor; simpl; auto.
    + rewrite V, S'. reflexivity.
    + rewrite C'. reflexivity.
  - inversion E; subst. split; reflexivity.
Qed.
Lemma call_g_sim : forall r1 r2, runsim r1 r2 -> callsim (call_g r1) (call_g r2).
Proof.
  intros r1 r2 RS a b rc m arg H. pose proof H as [F I S V C O]. unfold call_g. rewrite V.
  destruct (receiver (s_vars b) rc) as [[[[l v] t] self]|]; simpl; [|auto].
  rewrite F. destruct (alookup (method_key t m) (s_funcs b)) as [fe|]; simpl; [|auto].
  apply invoke_g_sim; assumption.
Qed.

Lemma set_vars_sim : forall a b vs, ssim a b -> ssim (set_vars a vs) (set_vars b vs).
Proof. intros a b vs [F I S V C O]. constructor; simpl; auto. Qed.
Lemma emit_sim : forall a b l, ssim a b -> ssim (emit a l) (emit b l).
Proof. intros a b l [F I S V C O]. constructor; simpl; auto. rewrite O. reflexivity. Qed.

Lemma bind_sim : forall a b x i src, ssim a b -> rsim ssim (bind a x i src) (bind b x i src).
Proof.
  intros a b x i src H. pose proof H as [F I S V C O]. unfold bind. rewrite V, O.
  destruct (alookup src (s_vars b)) as [sv|]; simpl; [|auto].
  destruct (match sv with VConc t p => Some (t, p) | VIface _ t p => Some (t, p) | _ => None end) as [[t p]|]; simpl; [|auto].
  rewrite I. destruct (impl_exists (s_impls b) i t); simpl; [|auto].
  destruct (alookup x (s_vars b)) as [[| i' t' p'| |]|]; simpl; auto.
  - destruct (String.eqb i' i && Bool.eqb (payload_kind p') (payload_kind p)); simpl; auto.
    rewrite <- V. apply set_vars_sim; assumption.
  - rewrite <- V. apply set_vars_sim; assumption.
Qed.

Lemma run_calls_g_sim : forall c1 c2, callsim c1 c2 -> forall cs a b tag rc d, ssim a b ->
  rsim ssim (run_calls_g c1 a tag rc d cs) (run_calls_g c2 b tag rc d cs).
Proof.
  intros c1 c2 CS. induction cs as [|[m c] cs IH]; simpl; intros a b tag rc d H; [assumption|].
  pose proof (CS a b rc m (d + c)%Z H) as E.
  destruct (c1 a rc m (d + c)%Z) as [[a1 za]|oa xa]; destruct (c2 b rc m (d + c)%Z) as [[b1 zb]|ob xb]; simpl in E; try contradiction.
  - destruct E as [E1 E2]. simpl in E1, E2. subst zb. apply IH. apply emit_sim; assumption.
  - assumption.
Qed.

Lemma step_g_sim : forall c1 c2 hs, callsim c1 c2 -> forall a b o, ssim a b -> rsim ssim (step_g c1 hs a o) (step_g c2 hs b o).
Proof.
  intros c1 c2 hs CS a b o H. pose proof H as [F I S V C O]. destruct o; cbn [step_g].
  - apply bind_sim; assumption.
  - rewrite V, O. destruct (alookup x (s_vars b)); simpl; auto. rewrite <- V. apply set_vars_sim; assumption.
  - pose proof (CS a b r m arg H) as E.
    destruct (c1 a r m arg) as [[a1 za]|oa xa]; destruct (c2 b r m arg) as [[b1 zb]|ob xb]; simpl in E; try contradiction; simpl.
    + destruct E as [E1 E2]. simpl in E1, E2. subst zb. apply emit_sim; assumption.
    + assumption.
  - destruct (find (fun hh => String.eqb (h_name hh) h) hs) as [hh|]; simpl; [|auto].
    assert (rsim ssim
      (match h_iface hh with
       | Some i => bind (set_vars a (aremove (h_param hh) (s_vars a))) (h_param hh) i src
       | None => match alookup src (s_vars a) with
                 | Some (VConc t pl) => Ok (set_vars a (aset (h_param hh) (VConc t pl) (s_vars a)))
                 | _ => Fail (s_out a) EBad end end)
      (match h_iface hh with
       | Some i => bind (set_vars b (aremove (h_param hh) (s_vars b))) (h_param hh) i src
       | None => match alookup src (s_vars b) with
                 | Some (VConc t pl) => Ok (set_vars b (aset (h_param hh) (VConc t pl) (s_vars b)))
                 | _ => Fail (s_out b) EBad end end)) as EN.
    { destruct (h_iface hh).
      - apply bind_sim. rewrite V. apply set_vars_sim; assumption.
      - rewrite V, O. destruct (alookup src (s_vars b)) as [[| | |]|]; simpl; auto. rewrite <- V. apply set_vars_sim; assumption. }
    match goal with |- rsim ssim (match ?X with _ => _ end) (match ?Y with _ => _ end) =>
      destruct X as [a1|oa xa]; destruct Y as [b1|ob xb]; simpl in EN; try contradiction; simpl; [|assumption] end.
    pose proof (run_calls_g_sim c1 c2 CS (h_calls hh) a1 b1 h (RVar (h_param hh)) d EN) as RC.
    destruct (run_calls_g c1 a1 h (RVar (h_param hh)) d (h_calls hh)) as [a2|oa xa];
      destruct (run_calls_g c2 b1 h (RVar (h_param hh)) d (h_calls hh)) as [b2|ob xb]; simpl in RC; try contradiction; simpl; [|assumption].
    rewrite (ss_vars _ _ RC). apply set_vars_sim; assumption.
  - rewrite V, O. destruct (alookup x (s_vars b)) as [[t [fs|v]| | |]|]; simpl; auto.
    + destruct (alookup f fs); simpl; auto. rewrite <- V. apply set_vars_sim; assumption.
    + rewrite <- V. apply set_vars_sim; assumption.
  - rewrite V, O. destruct (read (s_vars b) (LElem a0 i)) as [[t [fs|v]| | |]|]; simpl; auto.
    destruct (alookup f fs); simpl; auto. rewrite <- V. apply set_vars_sim; assumption.
  - rewrite V, O. destruct (alookup x (s_vars b)) as [[| | |]|]; simpl; auto; apply emit_sim; assumption.
Qed.

Lemma st_of_sim : forall ga gb a b, ssim ga gb -> fsim a b -> ssim (st_of ga a) (st_of gb b).
Proof. intros ga gb a b [F I S V C O] [S' A' V' C' O' M']. constructor; simpl; auto. Qed.

Lemma exec_stmt_sim : forall r1 r2 hs ga gb t, runsim r1 r2 -> ssim ga gb -> forall s a b, fsim a b ->
  osim fsim (exec_stmt r1 hs ga t a s) (exec_stmt r2 hs gb t b s).
Proof.
  intros r1 r2 hs ga gb t RS G. induction s as [f e|n e|tag es|tag m e|o|ge s IH]; intros a b H; pose proof H as [S A V C O M]; cbn [exec_stmt].
  - rewrite (eval_sim a b e H), O. destruct (eval b e) as [v|x]; simpl; [|reflexivity].
    rewrite S. destruct (f_self b) as [fs|]; simpl; [|reflexivity].
    destruct (alookup f fs); simpl; [|reflexivity]. destruct (int_ok v); simpl; [|reflexivity].
    constructor; simpl; auto.
  - rewrite (eval_sim a b e H), O. destruct (eval b e) as [v|x]; simpl; [|reflexivity].
    rewrite C. destruct (static_name (c_cur (f_ctx b)) n) as [k|]; simpl; [|reflexivity].
    rewrite M. destruct (alookup k (f_statics b)); simpl; [|reflexivity]. destruct (int_ok v); simpl; [|reflexivity].
    constructor; simpl; auto. apply eqmap_aset; assumption.
  - rewrite (eval_list_sim a b es H), O. destruct (eval_list b es); simpl; [|reflexivity].
    constructor; simpl; auto.
  - rewrite (eval_sim a b e H), O. destruct (eval b e) as [v|x]; simpl; [|reflexivity].
    destruct (negb (int_ok v)); simpl; [reflexivity|].
    unfold nested_self_g. rewrite (ss_funcs _ _ G).
    destruct (alookup (method_key t m) (s_funcs gb)) as [fe|]; simpl; [|rewrite O; reflexivity].
    rewrite S.
    pose proof (RS fe t (f_self b) v (st_of ga a) (st_of gb b) (st_of_sim _ _ _ _ G H)) as E.
    destruct (r1 fe t (f_self b) v (st_of ga a)) as [[a1 za]|xa]; destruct (r2 fe t (f_self b) v (st_of gb b)) as [[b1 zb]|xb];
      simpl in E; try contradiction; [|assumption].
    destruct E as [[S1 A1 V1 C1 O1 M1] E2]. simpl in *. subst zb. constructor; simpl; auto.
    + rewrite S1. reflexivity.
    + rewrite C1. reflexivity.
    + rewrite O1. reflexivity.
  - pose proof (step_g_sim _ _ hs (call_g_sim _ _ RS) (st_of ga a) (st_of gb b) o (st_of_sim _ _ _ _ G H)) as E.
    destruct (step_g (call_g r1) hs (st_of ga a) o) as [a1|oa xa]; destruct (step_g (call_g r2) hs (st_of gb b) o) as [b1|ob xb];
      simpl in E; try contradiction; simpl.
    + destruct E as [F1 I1 S1 V1 C1 O1]. constructor; simpl; auto.
    + destruct E; subst; reflexivity.
  - rewrite (eval_sim a b ge H), O. destruct (eval b ge) as [v|x]; simpl; [|reflexivity].
    destruct (0 <? v)%Z; [apply IH; assumption|simpl; assumption].
Qed.
Lemma exec_body_sim : forall r1 r2 hs ga gb t, runsim r1 r2 -> ssim ga gb -> forall body a b, fsim a b ->
  osim fsim (exec_body r1 hs ga t a body) (exec_body r2 hs gb t b body).
Proof.
  intros r1 r2 hs ga gb t RS G. induction body as [|s body IH]; simpl; intros a b H; [assumption|].
  pose proof (exec_stmt_sim r1 r2 hs ga gb t RS G s a b H) as E.
  destruct (exec_stmt r1 hs ga t a s) as [a1|x]; destruct (exec_stmt r2 hs gb t b s) as [b1|y]; simpl in E; try contradiction.
  - apply IH; assumption.
  - simpl. assumption.
Qed.

Lemma run_method_g_sim : forall r1 r2 hs, runsim r1 r2 -> runsim (run_method_g r1 hs) (run_method_g r2 hs).
Proof.
  intros r1 r2 hs RS fe t self arg a b H. pose proof H as [F I S V C O]. unfold run_method_g.
  assert (fsim (frame0 fe self arg a) (frame0 fe self arg b)) as FS.
  { constructor; simpl; auto. rewrite C. reflexivity. }
  pose proof (exec_body_sim r1 r2 hs a b t RS H (m_body (fe_meth fe)) _ _ FS) as E.
  destruct (exec_body r1 hs a t (frame0 fe self arg a) (m_body (fe_meth fe))) as [fa'|xa];
    destruct (exec_body r2 hs b t (frame0 fe self arg b) (m_body (fe_meth fe))) as [fb'|xb]; simpl in E; try contradiction.
  - destruct (m_void (fe_meth fe)); simpl.
    + split; [assumption|reflexivity].
    + rewrite (eval_sim fa' fb' _ E). destruct (eval fb' (m_ret (fe_meth fe))) as [z|x]; simpl.
      * destruct (int_ok z); simpl; [split; [assumption|reflexivity]|rewrite (fs_out _ _ E); reflexivity].
      * rewrite (fs_out _ _ E). reflexivity.
  - assumption.
Qed.
Lemma run_n_sim : forall n hs, runsim (run_n n hs) (run_n n hs).
Proof.
  induction n as [|n IH]; intros hs.
  - intros fe t self arg a b H. simpl. rewrite (ss_out _ _ H). reflexivity.
  - simpl. apply run_method_g_sim. apply IH.
Qed.

Lemma step_sim : forall n hs a b o, ssim a b -> rsim ssim (step n hs a o) (step n hs b o).
Proof. intros n hs. apply step_g_sim. apply call_g_sim. apply run_n_sim. Qed.

Lemma run_ops_sim : forall n hs os a b, ssim a b -> rsim ssim (run_ops n hs a os) (run_ops n hs b os).
Proof.
  induction os as [|o os IH]; simpl; intros a b H; [assumption|].
  pose proof (step_sim n hs a b o H) as E.
  destruct (step n hs a o) as [a1|oa xa]; destruct (step n hs b o) as [b1|ob xb]; simpl in E; try contradiction; simpl.
  - apply IH; assumption.
  - assumption.
Qed.

(* ---------- the theorem ---------- *)
Definition with_impls (p : program) (ds : list impl_def) : program :=
  {| p_ifaces := p_ifaces p; p_impls := ds; p_vars := p_vars p; p_helpers := p_helpers p; p_ops := p_ops p |}.

Theorem program_order_independent_l : forall p ds' r, Permutation (p_impls p) ds' -> wf_impls (p_impls p) ->
  parse_check (p_ifaces p) [] (p_impls p) = None -> register_all empty_registry (p_impls p) = inl r ->
  forall n, run_program_n n (with_impls p ds') = run_program_n n p.
Proof.
  intros p ds' r P W PC R n. unfold run_program_n, with_impls; simpl.
  destruct (parse_check_perm _ _ _ P PC) as [PC' ND]. rewrite PC, PC', R.
  destruct (registration_succeeds_any_order _ _ _ P R) as [r' R']. rewrite R'.
  assert (wf_impls ds') as W' by (eapply wf_impls_perm; eauto).
  destruct (register_all_impls _ _ W R) as [I S]. destruct (register_all_impls _ _ W' R') as [I' S'].
  assert (ssim (init_state r' (p_vars p)) (init_state r (p_vars p))) as SS.
  { constructor; simpl; auto.
    - intros t m. eapply dispatch_order_independent_l; eauto.
    - intros. rewrite I, I'. symmetry. apply impl_exists_perm; assumption.
    - rewrite S, S'. apply eqmap_sym. apply (all_statics_perm _ _ P W ND). apply eqmap_refl. }
  pose proof (run_ops_sim n (p_helpers p) (p_ops p) _ _ SS) as E.
  destruct (run_ops n (p_helpers p) (init_state r' (p_vars p)) (p_ops p)) as [a|oa xa];
    destruct (run_ops n (p_helpers p) (init_state r (p_vars p)) (p_ops p)) as [b|ob xb]; simpl in E; try contradiction.
  - rewrite (ss_out _ _ E). reflexivity.
  - destruct E; subst; reflexivity.
Qed.

Lemma program_order_independent_both_l : forall p ds' r, Permutation (p_impls p) ds' -> wf_impls (p_impls p) ->
  parse_check (p_ifaces p) [] (p_impls p) = None -> register_all empty_registry (p_impls p) = inl r ->
  (forall n, run_program_n n (with_impls p ds') = run_program_n n p) /\ run_program (with_impls p ds') = run_program p.
Proof. intros p ds' r P W PC R. split; [|unfold run_program]; intros; eapply program_order_independent_l; eauto. Qed.
