(* C12 - Mech model of interface dispatch, self copy-in / write-back, the impl-context stack and impl statics.
   Definitions only (total, computable, extracted to OCaml and run against /repo's `main` by
   harness/props/c12.py).  Mirrored code (all under src/backend/interpreter unless said otherwise):

     managers/types/interfaces.cpp   register_impl_definition (impl_definitions_ deque, the
                                     "Method name conflict" check, the global function keys
                                     T::m and I_T_m), handle_impl_declaration (impl statics are
                                     created under a temporary impl context), find_impl_for_struct
                                     (exact-match loop)
     frontend/recursive_parser/parsers/interface_parser.cpp parseImplDeclaration
                                     ("Incomplete implementation", "Duplicate implementation")
     managers/variables/manager.cpp  assign_interface_view, interface_impl_exists,
                                     resolve_interface_source_type, find_variable (impl statics last)
     managers/variables/static.cpp   get_impl_static_namespace, enter_impl_context (an active context is pushed on
                                     enclosing_impl_contexts), exit_impl_context (back() is restored and popped):
                                     ictx / enter_ctx / exit_ctx, find_impl_static_variable, create_impl_static_variable
     evaluator/functions/call_impl.cpp  method lookup by  type_name + "::" + name  (line ~1018),
                                     self copy-in (~4330), enter_impl_context with the pair read from
                                     the method's qualified_name "I::T::m" (~5725, fix ffeef7f), body,
                                     exit_impl_context on the `return` path (~6486) and on the fall-through
                                     path of void methods (~6094), SELF_WRITEBACK (both paths), the
                                     "parent self" update after a void method (~6260)
     evaluator/access/receiver_resolution.cpp  variable / pointer / array-element receivers
     handlers/control/return.cpp     handle_identifier_return (`return self;`)

   Abstractions (see notes/C12.md): a struct value is one field list (the flattened
   "x.f" variables and Variable::struct_members are one thing here); every field, argument,
   static and result is an `int`; every method is  int m(int d)  or  void m(int d); a body is a
   sequence of assignments to self fields / impl statics, println, calls  self.m(e), operations on
   objects the body declares itself (the same operations main has: SOp) and `if (e > 0)` guards.
   Calls nest to any depth: the semantics is indexed by fuel (run_n), run_program uses 64. *)
From Coq Require Import List Arith Bool Ascii String ZArith Lia.
Import ListNotations.
Local Open Scope string_scope.
Local Open Scope list_scope.

Definition name := string.
Definition sapp := String.append.
Infix "+++" := String.append (right associativity, at level 60).

(* ---------- std::map<std::string, X> as an association list: find / operator[]= ---------- *)
Fixpoint alookup {A : Type} (k : string) (l : list (string * A)) : option A :=
  match l with
  | [] => None
  | (k', v) :: r => if String.eqb k k' then Some v else alookup k r
  end.
Fixpoint aset {A : Type} (k : string) (v : A) (l : list (string * A)) : list (string * A) :=
  match l with
  | [] => [(k, v)]
  | (k', v') :: r => if String.eqb k k' then (k, v) :: r else (k', v') :: aset k v r
  end.
Fixpoint aremove {A : Type} (k : string) (l : list (string * A)) : list (string * A) :=
  match l with
  | [] => []
  | (k', v') :: r => if String.eqb k k' then r else (k', v') :: aremove k r
  end.
Definition smem (k : string) (l : list string) : bool := existsb (String.eqb k) l.

(* ---------- values, receivers, operations on a scope ---------- *)
Inductive payload := PStruct (fs : list (name * Z)) | PPrim (v : Z).
Inductive value :=
| VConc (t : name) (p : payload)           (* struct variable / typedef'd primitive variable of type t *)
| VIface (i t : name) (p : payload)        (* interface_name, struct_type_name = implementing_struct, private copy *)
| VPtr (x : name)                          (* pointer to the variable x *)
| VArr (t : name) (es : list payload)      (* array of structs *).

Inductive loc := LVar (x : name) | LElem (a : name) (i : nat).
Inductive recv := RVar (x : name) | RPtr (p : name) | RElem (a : name) (i : nat).

(* operations of main - and, since method bodies may declare objects of their own, of a method body - on
   the variables of the current scope *)
Inductive op :=
| OBind (x i src : name)                 (* "i x = src;" the first time, "x = src;" afterwards *)
| OPtr (p x : name)                      (* "T* p = &x;" / "p = &x;" *)
| OCall (r : recv) (m : name) (arg : Z)  (* println(r.m(arg));   ( r.m(arg); println(0);  when m is void ) *)
| OVia (h : name) (src : name) (d : Z)   (* h(src, d); *)
| OSet (x f : name) (z : Z)              (* x.f = z;   (x = z; for a primitive, f ignored) *)
| OSetElem (a : name) (i : nat) (f : name) (z : Z)
| OShow (x : name).

(* ---------- method bodies ---------- *)
Inductive expr :=
| EConst (z : Z)
| EArg                       (* the int parameter d *)
| ESelf                      (* self of a typedef'd primitive *)
| EField (f : name)          (* self.f *)
| EStatic (n : name)         (* an impl static, found by find_variable's last fallback *)
| EAdd (a b : expr) | ESub (a b : expr) | EMul (a b : expr).
Inductive stmt :=
| SSetField (f : name) (e : expr)        (* self.f = e; *)
| SSetStatic (n : name) (e : expr)       (* n = e; *)
| SPrint (tag : string) (es : list expr) (* println("tag", e1, ...); *)
| SCallSelf (tag : string) (m : name) (e : expr) (* int r = self.m(e); println("tag", r);   ( self.m(e); println("tag", 0); when m is void ) *)
| SOp (o : op)                           (* an operation on the objects the body declares (m_locals): binding, pointers,
                                            calls through variable / interface copy / pointer / array element, helper
                                            calls with a local as argument, writes, reads *)
| SGuard (g : expr) (s : stmt)           (* if (g > 0) { s } *).
Record method := { m_name : name;
                   m_void : bool;                      (* void m(int d) { body }  : no return statement, the call yields 0 *)
                   m_locals : list (name * value);     (* objects declared at the top of the body *)
                   m_body : list stmt; m_ret : expr }.
Record impl_def := { i_iface : name; i_type : name; i_statics : list (name * Z); i_methods : list method }.
Definition method_names (d : impl_def) : list name := map m_name (i_methods d).

Definition line := (string * list Z)%type.  (* println("tag", z1, ...) ; tag "" = println(z) *)

Inductive err :=
| EIncomplete (i t m : name)      (* parser: Incomplete implementation *)
| EDuplicate (i t : name)         (* parser: Duplicate implementation *)
| EConflict (m : name)            (* register_impl_definition: Method name conflict *)
| ENoImpl (i t : name)            (* assign_interface_view: No impl found for interface *)
| EUndefVar (n : name)            (* Undefined variable *)
| EUndefFunc (m : name)           (* Undefined function *)
| ERange                          (* value outside int: generator discards such programs *)
| EBad                            (* ill-formed model input (never produced by the generator) *)
| EUnmodelled                     (* documented hole: an interface variable mixing struct and primitive payloads *)
| EFuel                           (* call nesting deeper than the fuel given to run_program (never reached by generated programs) *).

(* ---------- registration ---------- *)
(* a registered method node: handle_impl_declaration stamps it with qualified_name = I::T::m *)
Record fentry := { fe_iface : name; fe_type : name; fe_meth : method }.
Definition mk_entry (d : impl_def) (m : method) : fentry := {| fe_iface := i_iface d; fe_type := i_type d; fe_meth := m |}.
Record registry := {
  r_impls : list impl_def;               (* impl_definitions_ (deque, push_back) *)
  r_funcs : list (string * fentry);      (* global_scope.functions, impl keys only *)
  r_statics : list (string * Z)          (* impl_static_variables_ *)
}.
Definition empty_registry : registry := {| r_impls := []; r_funcs := []; r_statics := [] |}.

Definition method_key (t m : name) : string := t +++ "::" +++ m.
Definition iface_key (i t m : name) : string := i +++ "_" +++ t +++ "_" +++ m.
Definition static_key (i t n : name) : string := "impl::" +++ i +++ "::" +++ t +++ "::" +++ n.

Definition same_pair (i t : name) (d : impl_def) : bool := String.eqb (i_iface d) i && String.eqb (i_type d) t.

(* find_impl_for_struct, step 1 (exact match; the generic-instantiation half needs '<' in the name) *)
Definition find_impl (ds : list impl_def) (t i : name) : option impl_def := find (same_pair i t) ds.
(* interface_impl_exists: the same loop, boolean *)
Definition impl_exists (ds : list impl_def) (i t : name) : bool := existsb (same_pair i t) ds.

(* register_impl_definition: first new method whose name some existing impl of the same struct has *)
Definition find_conflict (ds : list impl_def) (d : impl_def) : option name :=
  find (fun m => existsb (fun e => String.eqb (i_type e) (i_type d) && smem m (method_names e)) ds) (method_names d).

Definition add_funcs (d : impl_def) (fs : list (string * fentry)) : list (string * fentry) :=
  fold_left (fun acc m => aset (iface_key (i_iface d) (i_type d) (m_name m)) (mk_entry d m)
                               (aset (method_key (i_type d) (m_name m)) (mk_entry d m) acc)) (i_methods d) fs.
Definition add_statics (d : impl_def) (ss : list (string * Z)) : list (string * Z) :=
  fold_left (fun acc nz => aset (static_key (i_iface d) (i_type d) (fst nz)) (snd nz) acc) (i_statics d) ss.

Definition register_impl (r : registry) (d : impl_def) : registry + err :=
  match find_conflict (r_impls r) d with
  | Some m => inr (EConflict m)
  | None => inl {| r_impls := r_impls r ++ [d]; r_funcs := add_funcs d (r_funcs r); r_statics := add_statics d (r_statics r) |}
  end.
Fixpoint register_all (r : registry) (ds : list impl_def) : registry + err :=
  match ds with
  | [] => inl r
  | d :: rest => match register_impl r d with inl r' => register_all r' rest | inr e => inr e end
  end.

(* parser, in source order: every interface method implemented; no earlier impl of the same pair *)
Definition iface_methods (ifs : list (name * list name)) (i : name) : list name :=
  match alookup i ifs with Some ms => ms | None => [] end.
Fixpoint parse_check (ifs : list (name * list name)) (seen ds : list impl_def) : option err :=
  match ds with
  | [] => None
  | d :: rest =>
      match find (fun m => negb (smem m (method_names d))) (iface_methods ifs (i_iface d)) with
      | Some m => Some (EIncomplete (i_iface d) (i_type d) m)
      | None => if existsb (same_pair (i_iface d) (i_type d)) seen then Some (EDuplicate (i_iface d) (i_type d))
                else parse_check ifs (seen ++ [d]) rest
      end
  end.

(* ---------- the impl-static context: static.cpp current_impl_context_ + enclosing_impl_contexts ---------- *)
(* c_stack is the vector enclosing_impl_contexts, innermost saved context first (head = back()) *)
Record ictx := { c_cur : option (name * name); c_stack : list (name * name) }.
Definition ctx0 : ictx := {| c_cur := None; c_stack := [] |}.
(* enter_impl_context: an active context is pushed, then replaced *)
Definition enter_ctx (c : ictx) (p : name * name) : ictx :=
  {| c_cur := Some p; c_stack := match c_cur c with Some q => q :: c_stack c | None => c_stack c end |}.
(* exit_impl_context: the innermost saved context (back()) is put back and popped; none saved: inactive *)
Definition exit_ctx (c : ictx) : ictx :=
  match c_stack c with
  | q :: r => {| c_cur := Some q; c_stack := r |}
  | [] => ctx0
  end.

(* ---------- frames and states ---------- *)
Record frame := {
  f_self : payload; f_arg : Z;
  f_vars : list (name * value);          (* the body's own objects (m_locals and what SOp declares) *)
  f_statics : list (string * Z);
  f_ctx : ictx;                          (* the impl context while the body runs *)
  f_out : list line
}.
Record state := {
  s_impls : list impl_def;
  s_funcs : list (string * fentry);
  s_statics : list (string * Z);
  s_vars : list (name * value);
  s_ctx : ictx;
  s_out : list line
}.
Inductive res (A : Type) := Ok (a : A) | Fail (out : list line) (e : err).
Arguments Ok {A} a. Arguments Fail {A} out e.

Definition static_name (ctx : option (name * name)) (n : name) : option string :=
  match ctx with Some (i, t) => Some (static_key i t n) | None => None end.
Definition static_lookup (ctx : option (name * name)) (ss : list (string * Z)) (n : name) : option Z :=
  match static_name ctx n with Some k => alookup k ss | None => None end.

Definition int_ok (z : Z) : bool := ((-2147483648) <=? z)%Z && (z <=? 2147483647)%Z.

Fixpoint eval (fr : frame) (e : expr) : Z + err :=
  let bin (op : Z -> Z -> Z) a b :=
    match eval fr a with
    | inr x => inr x
    | inl va => match eval fr b with inr x => inr x | inl vb => inl (op va vb) end
    end in
  match e with
  | EConst z => inl z
  | EArg => inl (f_arg fr)
  | ESelf => match f_self fr with PPrim v => inl v | PStruct _ => inr EBad end
  | EField f => match f_self fr with
                | PStruct fs => match alookup f fs with Some v => inl v | None => inr EBad end
                | PPrim _ => inr EBad
                end
  | EStatic n => match static_lookup (c_cur (f_ctx fr)) (f_statics fr) n with Some v => inl v | None => inr (EUndefVar n) end
  | EAdd a b => bin Z.add a b
  | ESub a b => bin Z.sub a b
  | EMul a b => bin Z.mul a b
  end.
Fixpoint eval_list (fr : frame) (es : list expr) : list Z + err :=
  match es with
  | [] => inl []
  | e :: r => match eval fr e with
              | inr x => inr x
              | inl v => match eval_list fr r with inr x => inr x | inl vs => inl (v :: vs) end
              end
  end.

(* ---------- receivers ---------- *)
(* resolve_method_receiver: a variable; pointer dereference (call_impl.cpp ~938); "a[i]" *)
Definition resolve (vs : list (name * value)) (r : recv) : option loc :=
  match r with
  | RVar x => Some (LVar x)
  | RPtr p => match alookup p vs with Some (VPtr x) => Some (LVar x) | _ => None end
  | RElem a i => Some (LElem a i)
  end.
Definition read (vs : list (name * value)) (l : loc) : option value :=
  match l with
  | LVar x => alookup x vs
  | LElem a i => match alookup a vs with
                 | Some (VArr t es) => match nth_error es i with Some p => Some (VConc t p) | None => None end
                 | _ => None
                 end
  end.
Fixpoint set_nth {A : Type} (i : nat) (v : A) (l : list A) : list A :=
  match l, i with
  | [], _ => []
  | _ :: r, O => v :: r
  | x :: r, S j => x :: set_nth j v r
  end.
Definition write (vs : list (name * value)) (l : loc) (v : value) : list (name * value) :=
  match l with
  | LVar x => aset x v vs
  | LElem a i => match alookup a vs, v with
                 | Some (VArr t es), VConc _ p => aset a (VArr t (set_nth i p es)) vs
                 | _, _ => vs
                 end
  end.

(* the receiver as an object: dynamic type (resolve_struct_like_type: struct_type_name) and the payload
   copied to self *)
Definition obj_of (v : value) : option (name * payload) :=
  match v with
  | VConc t p => Some (t, p)
  | VIface _ t p => Some (t, p)
  | _ => None
  end.
Definition with_payload (v : value) (p : payload) : value :=
  match v with VConc t _ => VConc t p | VIface i t _ => VIface i t p | _ => v end.

Definition set_out (st : state) (o : list line) : state :=
  {| s_impls := s_impls st; s_funcs := s_funcs st; s_statics := s_statics st; s_vars := s_vars st; s_ctx := s_ctx st; s_out := o |}.
Definition set_vars (st : state) (vs : list (name * value)) : state :=
  {| s_impls := s_impls st; s_funcs := s_funcs st; s_statics := s_statics st; s_vars := vs; s_ctx := s_ctx st; s_out := s_out st |}.
Definition emit (st : state) (l : line) : state := set_out st (s_out st ++ [l]).

(* the receiver of  recv.m(..) : where it lives, what it holds now, its dynamic type, the copy that
   becomes self *)
Definition receiver (vs : list (name * value)) (r : recv) : option (loc * value * name * payload) :=
  match resolve vs r with
  | None => None
  | Some l =>
      match read vs l with
      | None => None
      | Some v => match obj_of v with Some (t, self) => Some (l, v, t, self) | None => None end
      end
  end.

(* ---------- one method call, given how a registered method runs ---------- *)
(* `runner`: a registered method run to completion on (dynamic type of the receiver, self, argument) from
   the caller's state (its statics, output and impl context; its variables are not visible to the callee):
   the callee's final frame and the returned int.  run_n below ties the knot with fuel. *)
Definition runner := fentry -> name -> payload -> Z -> state -> (frame * Z) + (list line * err).
Definition caller := state -> recv -> name -> Z -> res (state * Z).

(* run the registered method with self := the copy, then write self back into the receiver
   (SELF_WRITEBACK); exit_impl_context gives the context in force afterwards *)
Definition invoke_g (run : runner) (st : state) (l : loc) (v : value) (t : name) (self : payload) (fe : fentry) (arg : Z)
  : res (state * Z) :=
  match run fe t self arg st with
  | inr (o, x) => Fail o x
  | inl (fr', z) =>
      Ok ({| s_impls := s_impls st; s_funcs := s_funcs st;
             s_statics := f_statics fr';
             s_vars := write (s_vars st) l (with_payload v (f_self fr'));
             s_ctx := exit_ctx (f_ctx fr');
             s_out := f_out fr' |}, z)
  end.

(* one method call  recv.m(arg)  : state after the call and the returned int *)
Definition call_g (run : runner) : caller := fun st r m arg =>
  match receiver (s_vars st) r with
  | None => Fail (s_out st) EBad
  | Some (l, v, t, self) =>
      match alookup (method_key t m) (s_funcs st) with            (* global_scope.functions.find(type_name + "::" + name) *)
      | None => Fail (s_out st) (EUndefFunc m)
      | Some fe => invoke_g run st l v t self fe arg
      end
  end.

(* assign_interface_view: dest (declared `i dest`) := a view of the variable src *)
Definition payload_kind (p : payload) : bool := match p with PStruct _ => true | PPrim _ => false end.
Definition bind (st : state) (x i src : name) : res state :=
  match alookup src (s_vars st) with
  | None => Fail (s_out st) EBad
  | Some sv =>
    match (match sv with VConc t p => Some (t, p) | VIface _ t p => Some (t, p) | _ => None end) with
    | None => Fail (s_out st) EBad
    | Some (t, p) =>
      if negb (impl_exists (s_impls st) i t) then Fail (s_out st) (ENoImpl i t)
      else match alookup x (s_vars st) with
           | Some (VIface i' _ p') =>
               if String.eqb i' i && Bool.eqb (payload_kind p') (payload_kind p)
               then Ok (set_vars st (aset x (VIface i t p) (s_vars st)))
               else Fail (s_out st) EUnmodelled
           | Some _ => Fail (s_out st) EBad
           | None => Ok (set_vars st (aset x (VIface i t p) (s_vars st)))
           end
    end
  end.

(* ---------- operations on a scope (main, or a method body's own objects) ---------- *)
Record helper := { h_name : name; h_param : name;      (* int h(P p, int d) { println("h", p.m(d + c)); ... return 0; } *)
                   h_iface : option name;              (* Some i : parameter of interface type i ; None : of the concrete type of the argument *)
                   h_calls : list (name * Z) }.

Definition show_payload (p : payload) : list Z :=
  match p with PStruct fs => map snd fs | PPrim v => [v] end.

Fixpoint run_calls_g (call : caller) (st : state) (tag : string) (r : recv) (d : Z) (cs : list (name * Z)) : res state :=
  match cs with
  | [] => Ok st
  | (m, c) :: rest =>
      match call st r m (d + c)%Z with
      | Fail o x => Fail o x
      | Ok (st', z) => run_calls_g call (emit st' (tag, [z])) tag r d rest
      end
  end.

Definition step_g (call : caller) (hs : list helper) (st : state) (o : op) : res state :=
  match o with
  | OBind x i src => bind st x i src
  | OPtr p x => match alookup x (s_vars st) with
                | Some _ => Ok (set_vars st (aset p (VPtr x) (s_vars st)))
                | None => Fail (s_out st) EBad
                end
  | OCall r m arg => match call st r m arg with
                     | Fail o x => Fail o x
                     | Ok (st', z) => Ok (emit st' ("", [z]))
                     end
  | OVia h src d =>
      match find (fun hh => String.eqb (h_name hh) h) hs with
      | None => Fail (s_out st) EBad
      | Some hh =>
          let p := h_param hh in
          let entered :=                       (* parameter binding (call_impl.cpp ~5102 for interface parameters) *)
            match h_iface hh with
            | Some i => bind (set_vars st (aremove p (s_vars st))) p i src
            | None => match alookup src (s_vars st) with
                      | Some (VConc t pl) => Ok (set_vars st (aset p (VConc t pl) (s_vars st)))
                      | _ => Fail (s_out st) EBad
                      end
            end in
          match entered with
          | Fail o x => Fail o x
          | Ok st1 =>
              match run_calls_g call st1 h (RVar p) d (h_calls hh) with
              | Fail o x => Fail o x
              | Ok st2 => Ok (set_vars st2 (aremove p (s_vars st2)))     (* pop_scope *)
              end
          end
      end
  | OSet x f z =>
      match alookup x (s_vars st) with
      | Some (VConc t (PStruct fs)) =>
          match alookup f fs with
          | Some _ => Ok (set_vars st (aset x (VConc t (PStruct (aset f z fs))) (s_vars st)))
          | None => Fail (s_out st) EBad
          end
      | Some (VConc t (PPrim _)) => Ok (set_vars st (aset x (VConc t (PPrim z)) (s_vars st)))
      | _ => Fail (s_out st) EBad
      end
  | OSetElem a i f z =>
      match read (s_vars st) (LElem a i) with
      | Some (VConc t (PStruct fs)) =>
          match alookup f fs with
          | Some _ => Ok (set_vars st (write (s_vars st) (LElem a i) (VConc t (PStruct (aset f z fs)))))
          | None => Fail (s_out st) EBad
          end
      | _ => Fail (s_out st) EBad
      end
  | OShow x =>
      match alookup x (s_vars st) with
      | Some (VConc _ p) => Ok (emit st (x, show_payload p))
      | Some (VArr _ es) => Ok (emit st (x, flat_map show_payload es))
      | _ => Fail (s_out st) EBad
      end
  end.

(* ---------- execution of one method body ---------- *)
(* the scope a body's SOp statements act on: the body's own objects, under the body's context; g supplies
   the (constant) impl list and function table *)
Definition st_of (g : state) (fr : frame) : state :=
  {| s_impls := s_impls g; s_funcs := s_funcs g; s_statics := f_statics fr; s_vars := f_vars fr; s_ctx := f_ctx fr; s_out := f_out fr |}.

(* a nested call  self.m(arg)  made from a running body: the frame after it and its result *)
Definition callback := name -> Z -> frame -> (frame * Z) + (list line * err).

(* self.m(arg) inside a method whose receiver has dynamic type t: same lookup T::m; the callee runs under ITS
   block's context on a copy of the caller's current self; on return the caller's context is back.  What
   the callee wrote to self reaches the caller's self only when the callee is a void method (the write-back
   after a fall-through end, call_impl.cpp ~6260 "parent self"); after `return e;` the pinned code drops
   it (finding C12-nested-self-writes-lost) *)
Definition nested_self_g (run : runner) (g : state) (t : name) : callback := fun m arg fr =>
  match alookup (method_key t m) (s_funcs g) with
  | None => inr (f_out fr, EUndefFunc m)
  | Some fe =>
      match run fe t (f_self fr) arg (st_of g fr) with
      | inr x => inr x
      | inl (fr', z) =>
          inl ({| f_self := if m_void (fe_meth fe) then f_self fr' else f_self fr;
                  f_arg := f_arg fr; f_vars := f_vars fr; f_statics := f_statics fr';
                  f_ctx := exit_ctx (f_ctx fr'); f_out := f_out fr' |}, z)
      end
  end.

(* on an error the output printed so far is kept (the process exits 1 after flushing it) *)
Fixpoint exec_stmt (run : runner) (hs : list helper) (g : state) (t : name) (fr : frame) (s : stmt) : frame + (list line * err) :=
  match s with
  | SSetField f e =>
      match eval fr e with
      | inr x => inr (f_out fr, x)
      | inl v =>
          match f_self fr with
          | PStruct fs =>
              match alookup f fs with
              | None => inr (f_out fr, EBad)
              | Some _ => if int_ok v then inl {| f_self := PStruct (aset f v fs); f_arg := f_arg fr; f_vars := f_vars fr;
                                                   f_statics := f_statics fr; f_ctx := f_ctx fr; f_out := f_out fr |}
                          else inr (f_out fr, ERange)
              end
          | PPrim _ => inr (f_out fr, EBad)
          end
      end
  | SSetStatic n e =>
      match eval fr e with
      | inr x => inr (f_out fr, x)
      | inl v =>
          match static_name (c_cur (f_ctx fr)) n with
          | None => inr (f_out fr, EUndefVar n)
          | Some k =>
              match alookup k (f_statics fr) with
              | None => inr (f_out fr, EUndefVar n)
              | Some _ => if int_ok v then inl {| f_self := f_self fr; f_arg := f_arg fr; f_vars := f_vars fr;
                                                   f_statics := aset k v (f_statics fr); f_ctx := f_ctx fr; f_out := f_out fr |}
                          else inr (f_out fr, ERange)
              end
          end
      end
  | SPrint tag es =>
      match eval_list fr es with
      | inr x => inr (f_out fr, x)
      | inl vs => inl {| f_self := f_self fr; f_arg := f_arg fr; f_vars := f_vars fr; f_statics := f_statics fr; f_ctx := f_ctx fr;
                         f_out := f_out fr ++ [(tag, vs)] |}
      end
  | SCallSelf tag m e =>
      match eval fr e with
      | inr x => inr (f_out fr, x)
      | inl v =>
          if negb (int_ok v) then inr (f_out fr, ERange)          (* the argument is stored in the int parameter d *)
          else
          match nested_self_g run g t m v fr with
          | inr x => inr x
          | inl (fr1, z) => inl {| f_self := f_self fr1; f_arg := f_arg fr1; f_vars := f_vars fr1; f_statics := f_statics fr1;
                                   f_ctx := f_ctx fr1; f_out := f_out fr1 ++ [(tag, [z])] |}
          end
      end
  | SOp o =>
      match step_g (call_g run) hs (st_of g fr) o with
      | Fail out x => inr (out, x)
      | Ok st' => inl {| f_self := f_self fr; f_arg := f_arg fr; f_vars := s_vars st'; f_statics := s_statics st';
                         f_ctx := s_ctx st'; f_out := s_out st' |}
      end
  | SGuard ge s' =>
      match eval fr ge with
      | inr x => inr (f_out fr, x)
      | inl v => if (0 <? v)%Z then exec_stmt run hs g t fr s' else inl fr
      end
  end.
Fixpoint exec_body (run : runner) (hs : list helper) (g : state) (t : name) (fr : frame) (b : list stmt) : frame + (list line * err) :=
  match b with
  | [] => inl fr
  | s :: r => match exec_stmt run hs g t fr s with inl fr' => exec_body run hs g t fr' r | inr x => inr x end
  end.

(* one registered method run to completion: enter_impl_context with the pair of the block that declares it
   (call_impl.cpp ~5725: qualified_name), whatever the receiver is; the body's own objects are fresh *)
Definition frame0 (fe : fentry) (self : payload) (arg : Z) (st : state) : frame :=
  {| f_self := self; f_arg := arg; f_vars := m_locals (fe_meth fe); f_statics := s_statics st;
     f_ctx := enter_ctx (s_ctx st) (fe_iface fe, fe_type fe); f_out := s_out st |}.
Definition run_method_g (run : runner) (hs : list helper) : runner := fun fe t self arg st =>
  match exec_body run hs st t (frame0 fe self arg st) (m_body (fe_meth fe)) with
  | inr x => inr x
  | inl fr' => if m_void (fe_meth fe) then inl (fr', 0%Z)
               else match eval fr' (m_ret (fe_meth fe)) with
                    | inr x => inr (f_out fr', x)
                    | inl z => if int_ok z then inl (fr', z) else inr (f_out fr', ERange)   (* the result of an int method is an int *)
                    end
  end.

(* nesting depth bounded by fuel: run_n (S k) runs a body whose calls are run by run_n k *)
Fixpoint run_n (n : nat) (hs : list helper) : runner :=
  match n with
  | O => fun _ _ _ _ st => inr (s_out st, EFuel)
  | S k => run_method_g (run_n k hs) hs
  end.

Definition call (n : nat) (hs : list helper) : caller := call_g (run_n n hs).
Definition invoke (n : nat) (hs : list helper) := invoke_g (run_n n hs).
Definition step (n : nat) (hs : list helper) : state -> op -> res state := step_g (call n hs) hs.
Definition run_calls (n : nat) (hs : list helper) := run_calls_g (call n hs).

Fixpoint run_ops (n : nat) (hs : list helper) (st : state) (os : list op) : res state :=
  match os with
  | [] => Ok st
  | o :: rest => match step n hs st o with Ok st' => run_ops n hs st' rest | Fail out x => Fail out x end
  end.

Record program := {
  p_ifaces : list (name * list name);
  p_impls : list impl_def;                 (* in source (= registration) order *)
  p_vars : list (name * value);            (* concrete variables declared at the top of main *)
  p_helpers : list helper;
  p_ops : list op
}.

Definition init_state (r : registry) (vs : list (name * value)) : state :=
  {| s_impls := r_impls r; s_funcs := r_funcs r; s_statics := r_statics r; s_vars := vs; s_ctx := ctx0; s_out := [] |}.

Definition run_program_n (n : nat) (p : program) : list line * option err :=
  match parse_check (p_ifaces p) [] (p_impls p) with
  | Some e => ([], Some e)
  | None =>
      match register_all empty_registry (p_impls p) with
      | inr e => ([], Some e)
      | inl r =>
          match run_ops n (p_helpers p) (init_state r (p_vars p)) (p_ops p) with
          | Ok st => (s_out st, None)
          | Fail out e => (out, Some e)
          end
      end
  end.
(* call nesting up to 64 deep (generated programs stay below 20) *)
Definition run_program (p : program) : list line * option err := run_program_n 64 p.
