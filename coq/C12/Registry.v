(* C12 - registration (register_impl_definition) and dispatch through the T::m function table:
   the method found for a receiver of dynamic type T is the one of the unique impl block that
   gives T a method of that name; registration succeeds iff the impl blocks are pairwise
   conflict-free, which does not depend on their order; neither does any lookup. *)
From Coq Require Import List Arith Bool Ascii String ZArith Lia Permutation.
From Cb Require Import C12.Model C12.Maps.
Import ListNotations.
Local Open Scope string_scope.
Local Open Scope list_scope.

Lemma smem_In : forall k l, smem k l = true <-> In k l.
Proof.
  unfold smem; intros; rewrite existsb_exists; split.
  - intros [x [H E]]. apply String.eqb_eq in E; subst; assumption.
  - intros H. exists k. split; [assumption|apply String.eqb_refl].
Qed.

(* names are identifiers (no ':'), method names inside one impl block are distinct *)
Definition wf_impl (d : impl_def) : Prop :=
  no_colon (i_iface d) = true /\ no_colon (i_type d) = true /\
  Forall (fun m => no_colon m = true) (method_names d) /\ NoDup (method_names d).
Definition wf_impls (ds : list impl_def) : Prop := Forall wf_impl ds.

(* two impl blocks for one type sharing a method name: "Method name conflict" *)
Definition conflict (d e : impl_def) : Prop :=
  i_type d = i_type e /\ exists m, In m (method_names d) /\ In m (method_names e).
Lemma conflict_sym : forall d e, conflict d e -> conflict e d.
Proof. intros d e [H [m [H1 H2]]]. split; [auto|exists m; auto]. Qed.

Lemma find_conflict_none : forall ds d, find_conflict ds d = None <-> (forall e, In e ds -> ~ conflict d e).
Proof.
  unfold find_conflict; intros ds d; split.
  - intros H e He [Ht [m [Hm1 Hm2]]].
    pose proof (find_none _ _ H m Hm1) as F. simpl in F.
    assert (existsb (fun e0 => String.eqb (i_type e0) (i_type d) && smem m (method_names e0)) ds = true) as T.
    { apply existsb_exists. exists e. split; [assumption|].
      rewrite Ht, String.eqb_refl. simpl. apply smem_In; assumption. }
    rewrite T in F; discriminate.
  - intros H.
    destruct (find (fun m => existsb (fun e => String.eqb (i_type e) (i_type d) && smem m (method_names e)) ds)
                   (method_names d)) as [m|] eqn:F; [|reflexivity].
    apply find_some in F as [Hm F]. apply existsb_exists in F as [e [He F]].
    apply andb_true_iff in F as [F1 F2]. apply String.eqb_eq in F1. apply smem_In in F2.
    exfalso. apply (H e He). split; [auto|exists m; auto].
Qed.

(* ---------- the function table after add_funcs ---------- *)
Section AddFuncs.
Variable d : impl_def.
Let i := i_iface d.
Let t := i_type d.
Let step := fun (acc : list (string * fentry)) (m : method) =>
  aset (iface_key i t (m_name m)) (mk_entry d m) (aset (method_key t (m_name m)) (mk_entry d m) acc).

Lemma add_other : forall ms fs k,
  (forall m, In m ms -> k <> method_key t (m_name m) /\ k <> iface_key i t (m_name m)) ->
  alookup k (fold_left step ms fs) = alookup k fs.
Proof.
  induction ms as [|m0 ms IH]; simpl; intros fs k H; [reflexivity|].
  rewrite IH by (intros; apply H; auto).
  destruct (H m0 (or_introl eq_refl)) as [H1 H2].
  unfold step. rewrite alookup_aset_other by assumption. apply alookup_aset_other; assumption.
Qed.

Hypotheses (Hi : no_colon i = true) (Ht : no_colon t = true).

Lemma add_new : forall ms fs m, NoDup (map m_name ms) -> Forall (fun n => no_colon n = true) (map m_name ms) ->
  In m ms -> alookup (method_key t (m_name m)) (fold_left step ms fs) = Some (mk_entry d m).
Proof.
  induction ms as [|m0 ms IH]; simpl; intros fs m ND NC H; [tauto|].
  inversion ND as [|? ? Hn ND']; subst. inversion NC as [|? ? Hc NC']; subst.
  destruct H as [->|H].
  - rewrite add_other.
    + unfold step. rewrite alookup_aset_other.
      * apply alookup_aset_same.
      * apply method_key_not_iface_key; assumption.
    + intros m' Hm'. split.
      * intros E. apply method_key_inj in E as [_ E]; try assumption.
        apply Hn. rewrite E. apply in_map; assumption.
      * apply method_key_not_iface_key; try assumption.
        rewrite Forall_forall in NC'. apply NC'. apply in_map; assumption.
  - apply IH; assumption.
Qed.

Lemma add_inv : forall ms fs k fe, alookup k (fold_left step ms fs) = Some fe ->
  alookup k fs = Some fe \/ (exists m, In m ms /\ fe = mk_entry d m /\ (k = method_key t (m_name m) \/ k = iface_key i t (m_name m))).
Proof.
  induction ms as [|m0 ms IH]; simpl; intros fs k fe H; [auto|].
  apply IH in H as [H|[m [H1 H2]]]; [|right; exists m; auto].
  unfold step in H. rewrite !alookup_aset in H.
  destruct (String.eqb k (iface_key i t (m_name m0))) eqn:E1.
  - apply String.eqb_eq in E1. inversion H; subst. right; exists m0; auto.
  - destruct (String.eqb k (method_key t (m_name m0))) eqn:E2.
    + apply String.eqb_eq in E2. inversion H; subst. right; exists m0; auto.
    + auto.
Qed.
End AddFuncs.

(* ---------- invariants of the registry ---------- *)
Definition funcs_ok (r : registry) : Prop :=
  forall d m, In d (r_impls r) -> In m (i_methods d) ->
    alookup (method_key (i_type d) (m_name m)) (r_funcs r) = Some (mk_entry d m).
Definition funcs_sound (r : registry) : Prop :=
  forall t n fe, alookup (method_key t n) (r_funcs r) = Some fe ->
    exists d m, In d (r_impls r) /\ i_type d = t /\ In m (i_methods d) /\ m_name m = n /\ fe = mk_entry d m.

Lemma register_impl_inv : forall r d r', wf_impl d -> wf_impls (r_impls r) ->
  funcs_ok r -> funcs_sound r -> register_impl r d = inl r' ->
  funcs_ok r' /\ funcs_sound r' /\ r_impls r' = r_impls r ++ [d] /\ r_statics r' = add_statics d (r_statics r).
Proof.
  unfold register_impl, wf_impls; intros r d r' [Wi [Wt [Wn Wd]]] Wr OK SD H.
  destruct (find_conflict (r_impls r) d) eqn:FC; [discriminate|].
  inversion H; subst r'; clear H. simpl.
  rewrite find_conflict_none in FC.
  unfold method_names in *.
  split; [|split; [|split; reflexivity]].
  - intros d' m' Hd' Hm'. simpl in *. apply in_app_or in Hd' as [Hd'|[<-|[]]].
    + unfold add_funcs. rewrite add_other.
      * apply OK; assumption.
      * intros m Hm. rewrite Forall_forall in Wr. destruct (Wr d' Hd') as [_ [Wt' _]].
        split.
        -- intros E. apply method_key_inj in E as [E1 E2]; try assumption.
           apply (FC d' Hd'). split; [auto|]. exists (m_name m). split; [apply in_map; assumption|].
           rewrite <- E2. apply in_map; assumption.
        -- apply method_key_not_iface_key; try assumption.
           rewrite Forall_forall in Wn. apply Wn. apply in_map; assumption.
    + unfold add_funcs. apply add_new; assumption.
  - intros t n fe H. simpl in *. unfold add_funcs in H.
    apply add_inv in H as [H|[m [H1 [-> [H2|H2]]]]].
    + destruct (SD t n fe H) as [d' [m [A [B [C [D E]]]]]]. exists d', m. split; [apply in_or_app; auto|auto].
    + apply method_key_inj_r in H2 as [-> ->]; try assumption.
      * exists d, m. split; [apply in_or_app; right; left; reflexivity|auto].
      * rewrite Forall_forall in Wn. apply Wn. apply in_map; assumption.
    + exfalso. revert H2. apply method_key_not_iface_key; try assumption.
      rewrite Forall_forall in Wn. apply Wn. apply in_map; assumption.
Qed.

Lemma register_all_inv : forall ds r r', wf_impls ds -> wf_impls (r_impls r) ->
  funcs_ok r -> funcs_sound r -> register_all r ds = inl r' ->
  funcs_ok r' /\ funcs_sound r' /\ r_impls r' = r_impls r ++ ds /\
  r_statics r' = fold_left (fun ss d => add_statics d ss) ds (r_statics r).
Proof.
  induction ds as [|d ds IH]; simpl; intros r r' W Wr OK SD H.
  - inversion H; subst. rewrite app_nil_r. auto.
  - inversion W as [|? ? Wd Wds]; subst.
    destruct (register_impl r d) as [r1|] eqn:R; [|discriminate].
    destruct (register_impl_inv _ _ _ Wd Wr OK SD R) as [OK1 [SD1 [I1 S1]]].
    assert (wf_impls (r_impls r1)) as W1.
    { rewrite I1. apply Forall_app; split; [assumption|constructor; [assumption|constructor]]. }
    destruct (IH r1 r' Wds W1 OK1 SD1 H) as [OK' [SD' [I' S']]].
    split; [assumption|split; [assumption|split]].
    + rewrite I', I1, <- app_assoc. reflexivity.
    + rewrite S', S1. reflexivity.
Qed.

Lemma empty_ok : funcs_ok empty_registry /\ funcs_sound empty_registry /\ wf_impls (r_impls empty_registry).
Proof. split; [intros d m []|split; [intros t n fe H; discriminate|constructor]]. Qed.

(* THE dispatch fact: after a successful registration of ds (any order), looking up T::m yields the
   method m of the impl block d for every block d of ds and every method of d *)
Theorem dispatch_registered_l : forall ds r d m, wf_impls ds -> register_all empty_registry ds = inl r ->
  In d ds -> In m (i_methods d) ->
  alookup (method_key (i_type d) (m_name m)) (r_funcs r) = Some (mk_entry d m).
Proof.
  intros ds r d m W R Hd Hm. destruct empty_ok as [A [B C]].
  destruct (register_all_inv _ _ _ W C A B R) as [OK [_ [I _]]]. simpl in I.
  apply OK; [rewrite I|]; assumption.
Qed.

(* and nothing else is found: a hit for T::n is a method named n of some block for T *)
Theorem dispatch_sound_l : forall ds r t n fe, wf_impls ds -> register_all empty_registry ds = inl r ->
  alookup (method_key t n) (r_funcs r) = Some fe ->
  exists d m, In d ds /\ i_type d = t /\ In m (i_methods d) /\ m_name m = n /\ fe = mk_entry d m.
Proof.
  intros ds r t n fe W R H. destruct empty_ok as [A [B C]].
  destruct (register_all_inv _ _ _ W C A B R) as [_ [SD [I _]]]. simpl in I. rewrite <- I. eapply SD; eauto.
Qed.

(* ---------- success of the registration = pairwise conflict-freedom ---------- *)
Definition noconf (e d : impl_def) : Prop := ~ conflict d e.

Lemma register_all_ok_iff : forall ds r,
  (exists r', register_all r ds = inl r') <->
  (Forall (fun d => forall e, In e (r_impls r) -> noconf e d) ds /\ ForallOrdPairs noconf ds).
Proof.
  induction ds as [|d ds IH]; simpl; intros r.
  - split; [intros _; split; constructor|intros _; eauto].
  - unfold register_impl at 1. destruct (find_conflict (r_impls r) d) eqn:FC.
    + split; [intros [r' H]; discriminate|].
      intros [F _]. inversion F as [|? ? H1 _]; subst.
      assert (find_conflict (r_impls r) d = None) as N by (apply find_conflict_none; exact H1).
      rewrite N in FC; discriminate.
    + rewrite find_conflict_none in FC. rewrite IH. simpl. split.
      * intros [F P]. split.
        -- constructor; [exact FC|]. rewrite Forall_forall in *. intros x Hx e He. apply (F x Hx). apply in_or_app; auto.
        -- constructor; [|assumption]. rewrite Forall_forall in *. intros x Hx. apply (F x Hx). apply in_or_app; right; left; reflexivity.
      * intros [F P]. inversion F as [|? ? _ F']; subst. inversion P as [|? ? Pd P']; subst.
        split; [|assumption]. rewrite Forall_forall in *. intros x Hx e He.
        apply in_app_or in He as [He|[<-|[]]]; [apply (F' x Hx e He)|apply (Pd x Hx)].
Qed.

Lemma FOP_perm : forall (A : Type) (R : A -> A -> Prop), (forall a b, R a b -> R b a) ->
  forall l l', Permutation l l' -> ForallOrdPairs R l -> ForallOrdPairs R l'.
Proof.
  intros A R S l l' P. induction P; intros H.
  - assumption.
  - inversion H; subst. constructor; [eapply Permutation_Forall; eauto|auto].
  - inversion H as [|? ? Hy H']; subst. inversion H' as [|? ? Hx H'']; subst.
    inversion Hy; subst. constructor; [constructor; [apply S; assumption|assumption]|constructor; assumption].
  - auto.
Qed.

Lemma noconf_sym : forall a b, noconf a b -> noconf b a.
Proof. unfold noconf; intros a b H C. apply H. apply conflict_sym; assumption. Qed.

Lemma wf_impls_perm : forall ds ds', Permutation ds ds' -> wf_impls ds -> wf_impls ds'.
Proof. intros; eapply Permutation_Forall; eauto. Qed.

Theorem registration_succeeds_any_order : forall ds ds' r, Permutation ds ds' ->
  register_all empty_registry ds = inl r -> exists r', register_all empty_registry ds' = inl r'.
Proof.
  intros ds ds' r P H.
  assert (exists r0, register_all empty_registry ds = inl r0) as E by eauto.
  apply register_all_ok_iff in E as [_ F].
  apply register_all_ok_iff. split.
  - apply Forall_forall. intros x _ e [].
  - eapply FOP_perm; eauto. exact noconf_sym.
Qed.

(* impl_exists / find_impl only see membership *)
Lemma impl_exists_perm : forall ds ds' i t, Permutation ds ds' -> impl_exists ds i t = impl_exists ds' i t.
Proof.
  intros ds ds' i t P. unfold impl_exists.
  destruct (existsb (same_pair i t) ds) eqn:A; destruct (existsb (same_pair i t) ds') eqn:B; try reflexivity.
  - apply existsb_exists in A as [x [Hx Hs]].
    assert (existsb (same_pair i t) ds' = true) as T by (apply existsb_exists; exists x; split; [eapply Permutation_in; eauto|assumption]).
    congruence.
  - apply existsb_exists in B as [x [Hx Hs]].
    assert (existsb (same_pair i t) ds = true) as T by (apply existsb_exists; exists x; split; [eapply Permutation_in; [apply Permutation_sym|]; eauto|assumption]).
    congruence.
Qed.

(* the function table answers every T::n lookup identically whatever the registration order *)
Theorem dispatch_order_independent_l : forall ds ds' r r', Permutation ds ds' -> wf_impls ds ->
  register_all empty_registry ds = inl r -> register_all empty_registry ds' = inl r' ->
  forall t n, alookup (method_key t n) (r_funcs r') = alookup (method_key t n) (r_funcs r).
Proof.
  intros ds ds' r r' P W R R' t n.
  assert (wf_impls ds') as W' by (eapply wf_impls_perm; eauto).
  destruct (alookup (method_key t n) (r_funcs r)) as [fe|] eqn:A.
  - destruct (dispatch_sound_l _ _ _ _ _ W R A) as [d [m [Hd [<- [Hm [<- ->]]]]]].
    apply dispatch_registered_l with (ds := ds'); auto. eapply Permutation_in; eauto.
  - destruct (alookup (method_key t n) (r_funcs r')) as [fe|] eqn:B; [|reflexivity].
    destruct (dispatch_sound_l _ _ _ _ _ W' R' B) as [d [m [Hd [<- [Hm [<- ->]]]]]].
    assert (In d ds) as Hd' by (eapply Permutation_in; [apply Permutation_sym|]; eauto).
    rewrite (dispatch_registered_l ds r d m W R Hd' Hm) in A. discriminate.
Qed.

(* find_impl_for_struct (exact match) returns a block of the requested pair, and finds one whenever some exists *)
Lemma find_impl_some : forall ds t i d, find_impl ds t i = Some d -> In d ds /\ i_iface d = i /\ i_type d = t.
Proof.
  unfold find_impl; intros ds t i d H. apply find_some in H as [H1 H2].
  unfold same_pair in H2. apply andb_true_iff in H2 as [A B].
  apply String.eqb_eq in A. apply String.eqb_eq in B. auto.
Qed.
Lemma find_impl_unique : forall ds t i d,
  NoDup (map (fun d => (i_iface d, i_type d)) ds) -> In d ds -> i_iface d = i -> i_type d = t ->
  find_impl ds t i = Some d.
Proof.
  induction ds as [|e ds IH]; simpl; intros t i d ND H Hi Ht; [tauto|].
  inversion ND as [|? ? Hn ND']; subst. unfold find_impl in *. simpl.
  destruct (same_pair (i_iface d) (i_type d) e) eqn:S.
  - destruct H as [->|H]; [reflexivity|]. exfalso. apply Hn.
    unfold same_pair in S. apply andb_true_iff in S as [A B].
    apply String.eqb_eq in A. apply String.eqb_eq in B. rewrite A, B.
    apply (in_map (fun d => (i_iface d, i_type d))) in H. exact H.
  - destruct H as [->|H].
    + unfold same_pair in S. rewrite !String.eqb_refl in S. discriminate.
    + apply IH; auto.
Qed.
Lemma NoDup_perm_map : forall (A B : Type) (f : A -> B) l l', Permutation l l' -> NoDup (map f l) -> NoDup (map f l').
Proof. intros. eapply Permutation_NoDup; [apply Permutation_map|]; eauto. Qed.

Theorem find_impl_order_independent_l : forall ds ds' t i, Permutation ds ds' ->
  NoDup (map (fun d => (i_iface d, i_type d)) ds) -> find_impl ds' t i = find_impl ds t i.
Proof.
  intros ds ds' t i P ND.
  assert (NoDup (map (fun d => (i_iface d, i_type d)) ds')) as ND' by (eapply NoDup_perm_map; eauto).
  destruct (find_impl ds t i) as [d|] eqn:A.
  - apply find_impl_some in A as [H1 [H2 H3]]. apply find_impl_unique; auto. eapply Permutation_in; eauto.
  - destruct (find_impl ds' t i) as [d|] eqn:B; [|reflexivity].
    apply find_impl_some in B as [H1 [H2 H3]].
    assert (In d ds) as Hd' by (eapply Permutation_in; [apply Permutation_sym|]; eauto).
    rewrite (find_impl_unique ds t i d ND Hd' H2 H3) in A. discriminate.
Qed.

Lemma impl_exists_find : forall ds i t, impl_exists ds i t = match find_impl ds t i with Some _ => true | None => false end.
Proof.
  unfold impl_exists, find_impl; induction ds as [|d ds IH]; simpl; intros; [reflexivity|].
  destruct (same_pair i t d); simpl; auto.
Qed.
