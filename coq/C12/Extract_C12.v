(* Extraction of the C12 model to OCaml (ExtrOcamlBasic + ExtrOcamlString only; nat/Z stay inductive). *)
From Coq Require Import Extraction ExtrOcamlBasic ExtrOcamlString.
From Cb Require Import C12.Model.
Extraction Language OCaml.
Extraction "C12/c12_model.ml" run_program find_impl static_key method_key.
