(* C12 - property theorems only. Statements are about the Mech model of impl registration, method
   dispatch, self copy-in / write-back, the impl-context stack and impl statics (Model.v); proofs are in Maps.v,
   Registry.v, Calls.v, Laws.v; `_refuted` witnesses in Witness.v.
   Calls nest to any depth: `call n hs` / `run_n n hs` run with fuel n (= maximal nesting depth), every theorem
   holds for every n; method bodies act on objects of their own through the same operations as main (SOp). *)
From Coq Require Import List Arith Bool Ascii String ZArith Permutation.
From Cb Require Import C12.Model C12.Maps C12.Registry C12.Calls C12.Laws C12.OrderIndep C12.Witness.
Import ListNotations.
Local Open Scope string_scope.
Local Open Scope list_scope.

(* Dispatch on the dynamic type. For every conflict-free list of impl blocks (any number of interfaces
   and types, any sharing of method names across types), after registration a call  rc.m(arg)  whose
   receiver (variable, interface copy, parameter, pointer target) holds the interface value (i, t, p)
   runs exactly the method m of the block find_impl_for_struct returns for (t, i), with self := p, under
   that block's impl context (mk_entry d m = the method stamped with (i_iface d, i_type d)). *)
Theorem dispatch_on_dynamic_type : forall n hs ds r st rc l i t p d m arg,
  wf_impls ds -> register_all empty_registry ds = inl r -> s_funcs st = r_funcs r ->
  resolve (s_vars st) rc = Some l -> read (s_vars st) l = Some (VIface i t p) ->
  find_impl ds t i = Some d -> In m (i_methods d) ->
  call n hs st rc (m_name m) arg = invoke n hs st l (VIface i t p) t p (mk_entry d m) arg.
Proof. exact dispatch_on_dynamic_type_l. Qed.
Print Assumptions dispatch_on_dynamic_type.

(* The same for receivers of the concrete type: value, pointer to struct, array element, struct parameter. *)
Theorem dispatch_concrete_receiver : forall n hs ds r st rc l t p d m arg,
  wf_impls ds -> register_all empty_registry ds = inl r -> s_funcs st = r_funcs r ->
  resolve (s_vars st) rc = Some l -> read (s_vars st) l = Some (VConc t p) ->
  In d ds -> i_type d = t -> In m (i_methods d) ->
  call n hs st rc (m_name m) arg = invoke n hs st l (VConc t p) t p (mk_entry d m) arg.
Proof. exact dispatch_concrete_receiver_l. Qed.
Print Assumptions dispatch_concrete_receiver.

(* The table lookup behind the two theorems: T::m maps to the method m of the unique block giving T a
   method of that name, and to nothing that was not registered for T. *)
Theorem dispatch_table_exact : forall ds r, wf_impls ds -> register_all empty_registry ds = inl r ->
  (forall d m, In d ds -> In m (i_methods d) -> alookup (method_key (i_type d) (m_name m)) (r_funcs r) = Some (mk_entry d m)) /\
  (forall t n fe, alookup (method_key t n) (r_funcs r) = Some fe ->
     exists d m, In d ds /\ i_type d = t /\ In m (i_methods d) /\ m_name m = n /\ fe = mk_entry d m).
Proof. exact dispatch_table_exact_l. Qed.
Print Assumptions dispatch_table_exact.

(* Permutation lemma: registration order is irrelevant. If the blocks register in one order they
   register in every order (the "Method name conflict" check is symmetric), and the resulting tables
   answer every T::n lookup, every impl-existence test and every find_impl_for_struct query alike. *)
Theorem dispatch_independent_of_registration_order : forall ds ds' r, Permutation ds ds' -> wf_impls ds ->
  NoDup (map (fun d => (i_iface d, i_type d)) ds) ->
  register_all empty_registry ds = inl r ->
  exists r', register_all empty_registry ds' = inl r' /\
    (forall t n, alookup (method_key t n) (r_funcs r') = alookup (method_key t n) (r_funcs r)) /\
    (forall i t, impl_exists ds' i t = impl_exists ds i t) /\
    (forall i t, find_impl ds' t i = find_impl ds t i).
Proof. exact dispatch_independent_of_registration_order_l. Qed.
Print Assumptions dispatch_independent_of_registration_order.

(* The whole-program form: for a program the parser accepts (complete impls, no duplicate pair) and whose
   blocks register, the printed lines and the way the run ends are the same for EVERY order of the
   impl blocks - function table, impl list and statics table all answer alike, and every operation of the
   machine (binding, calls through every receiver form, helper calls, writes, reads) preserves that. *)
Theorem program_output_independent_of_impl_order : forall p ds' r, Permutation (p_impls p) ds' ->
  wf_impls (p_impls p) -> parse_check (p_ifaces p) [] (p_impls p) = None ->
  register_all empty_registry (p_impls p) = inl r ->
  (forall n, run_program_n n (with_impls p ds') = run_program_n n p) /\ run_program (with_impls p ds') = run_program p.
Proof. exact program_order_independent_both_l. Qed.
Print Assumptions program_output_independent_of_impl_order.

(* Registration succeeds exactly when no two blocks for one type share a method name. *)
Theorem registration_iff_conflict_free : forall ds,
  (exists r, register_all empty_registry ds = inl r) <-> ForallOrdPairs (fun e d => ~ conflict d e) ds.
Proof. exact registration_iff_conflict_free_l. Qed.
Print Assumptions registration_iff_conflict_free.

(* Re-binding: whatever the interface variable x held before,  x = src  makes the next call on x run
   the impl registered for src's dynamic type, on a copy of src's current state. *)
Theorem rebinding_switches_impl : forall n hs ds r st st' x i src sv t2 p d m arg,
  wf_impls ds -> register_all empty_registry ds = inl r -> s_funcs st = r_funcs r ->
  alookup src (s_vars st) = Some sv -> src_view sv = Some (t2, p) ->
  bind st x i src = Ok st' ->
  find_impl ds t2 i = Some d -> In m (i_methods d) ->
  call n hs st' (RVar x) (m_name m) arg = invoke n hs st' (LVar x) (VIface i t2 p) t2 p (mk_entry d m) arg.
Proof. exact rebinding_switches_impl_l. Qed.
Print Assumptions rebinding_switches_impl.

(* self denotes the receiver: for every receiver form, what becomes self is the payload the receiver's
   cell holds at the moment of the call, and its dynamic type is the one used for the lookup. *)
Theorem self_reads_current_state : forall vs rc l v t self,
  receiver vs rc = Some (l, v, t, self) ->
  read vs l = Some v /\ payload_of v = Some self /\ dyn_type v = Some t /\
  match rc with
  | RVar x => l = LVar x
  | RPtr q => exists x, alookup q vs = Some (VPtr x) /\ l = LVar x
  | RElem a k => l = LElem a k
  end.
Proof. exact receiver_current_l. Qed.
Print Assumptions self_reads_current_state.

(* ... in particular a direct write to the receiver just before the call is what self.f reads, through
   the variable and through any pointer to it, and likewise for an array element. *)
Theorem self_sees_latest_write : forall n hs st x f z st1 t fs,
  alookup x (s_vars st) = Some (VConc t (PStruct fs)) -> step n hs st (OSet x f z) = Ok st1 ->
  receiver (s_vars st1) (RVar x) = Some (LVar x, VConc t (PStruct (aset f z fs)), t, PStruct (aset f z fs)) /\
  (forall q, alookup q (s_vars st1) = Some (VPtr x) -> receiver (s_vars st1) (RPtr q) = receiver (s_vars st1) (RVar x)) /\
  (forall fr, f_self fr = PStruct (aset f z fs) -> eval fr (EField f) = inl z).
Proof. exact self_sees_latest_write_l. Qed.
Print Assumptions self_sees_latest_write.

Theorem self_sees_latest_element_write : forall n hs st a k f z st1 t es fs,
  alookup a (s_vars st) = Some (VArr t es) -> nth_error es k = Some (PStruct fs) ->
  step n hs st (OSetElem a k f z) = Ok st1 ->
  receiver (s_vars st1) (RElem a k) = Some (LElem a k, VConc t (PStruct (aset f z fs)), t, PStruct (aset f z fs)).
Proof. exact self_sees_latest_elem_write_l. Qed.
Print Assumptions self_sees_latest_element_write.

(* Member writes made by the method are in the receiver after the call - for every receiver form the
   receiver's cell then holds the final self - and no disjoint cell (other variables, other array
   elements, the source an interface value was copied from) changes.  (A successful call has fuel S n;
   the body ran with its own calls at fuel n.)  The scope is main's or a method body's: see
   calls_in_bodies_take_the_same_path. *)
Theorem self_writes_visible_after_call : forall n hs st rc m arg st' z, call (S n) hs st rc m arg = Ok (st', z) ->
  exists l v t self fe fr',
    receiver (s_vars st) rc = Some (l, v, t, self) /\
    alookup (method_key t m) (s_funcs st) = Some fe /\
    exec_body (run_n n hs) hs st t (frame0 fe self arg st) (m_body (fe_meth fe)) = inl fr' /\
    read (s_vars st') l = Some (with_payload v (f_self fr')) /\
    (forall l', disjoint l l' -> read (s_vars st') l' = read (s_vars st) l').
Proof. exact self_writes_visible_l. Qed.
Print Assumptions self_writes_visible_after_call.
Theorem successful_call_has_fuel : forall n hs st rc m arg st' z, call n hs st rc m arg = Ok (st', z) -> exists k, n = S k.
Proof. exact call_ok_fuel. Qed.
Print Assumptions successful_call_has_fuel.

(* A call a method body makes on one of its own objects - variable, interface copy, pointer, array element - is
   the very same call path, run on the body's scope under the body's impl context: every dispatch / self /
   write-back theorem above therefore holds at every nesting level. *)
Theorem calls_in_bodies_take_the_same_path : forall n hs g t fr rc m arg,
  exec_stmt (run_n n hs) hs g t fr (SOp (OCall rc m arg)) =
  match call n hs (st_of g fr) rc m arg with
  | Fail o x => inr (o, x)
  | Ok (st', z) => inl {| f_self := f_self fr; f_arg := f_arg fr; f_vars := s_vars st'; f_statics := s_statics st';
                          f_ctx := s_ctx st'; f_out := s_out st' ++ [("", [z])] |}
  end.
Proof. exact body_call_is_call_l. Qed.
Print Assumptions calls_in_bodies_take_the_same_path.

(* What a nested  self.m(..)  of a void method wrote to self is in the caller's self afterwards. *)
Theorem nested_void_self_call_writes_visible : forall n hs g t m z fr fr1 r fe,
  wf_ctx (f_ctx fr) ->
  alookup (method_key t m) (s_funcs g) = Some fe -> m_void (fe_meth fe) = true ->
  nested_self_g (run_n n hs) g t m z fr = inl (fr1, r) ->
  exists fr', run_n n hs fe t (f_self fr) z (st_of g fr) = inl (fr', r) /\
    f_self fr1 = f_self fr' /\ r = 0%Z /\ f_ctx fr1 = f_ctx fr /\ f_vars fr1 = f_vars fr /\ f_arg fr1 = f_arg fr.
Proof. exact nested_void_self_call_writes_visible_l. Qed.
Print Assumptions nested_void_self_call_writes_visible.

(* The impl-static namespace impl::I::T::name is injective on identifiers ... *)
Theorem impl_static_key_injective : forall i t n i' t' n',
  no_colon i = true -> no_colon i' = true -> no_colon t = true -> no_colon t' = true ->
  static_key i t n = static_key i' t' n' -> i = i' /\ t = t' /\ n = n'.
Proof. exact static_key_inj. Qed.
Print Assumptions impl_static_key_injective.

(* ... hence statics are separate, however deep calls nest: let TS be a set of types closed under "a method of
   the type declares an object of" (every object a body can call a method on has a TS type).  A call on a receiver
   whose type is in TS - including everything its body calls, to any depth, through self, its own objects, pointers,
   interface copies and helper functions - leaves the statics of every pair with a type outside TS unchanged. *)
Theorem impl_statics_separate : forall (TS : name -> Prop) n hs ds r st rc m arg st' z l v self t i' t' n',
  wf_impls ds -> register_all empty_registry ds = inl r -> s_funcs st = r_funcs r -> wf_ctx (s_ctx st) ->
  closed (s_funcs st) TS -> (forall x, TS x -> no_colon x = true) ->
  call n hs st rc m arg = Ok (st', z) -> receiver (s_vars st) rc = Some (l, v, t, self) -> TS t ->
  no_colon i' = true -> no_colon t' = true -> no_colon n' = true -> ~ TS t' ->
  alookup (static_key i' t' n') (s_statics st') = alookup (static_key i' t' n') (s_statics st).
Proof. exact impl_statics_separate_l. Qed.
Print Assumptions impl_statics_separate.
(* (when the methods of type t declare objects of type t only, {t} is closed: the former statement) *)
Theorem single_type_is_closed : forall fs t,
  (forall k fe, alookup k fs = Some fe -> fe_type fe = t -> vars_typed (eq t) (m_locals (fe_meth fe))) -> closed fs (eq t).
Proof. exact closed_single_type. Qed.
Print Assumptions single_type_is_closed.

(* ... and a method whose body makes no nested call touches only the statics of the pair that declares it. *)
Theorem impl_statics_separate_between_pairs : forall n hs st rc m arg st' z l v self t fe i' t' n',
  call n hs st rc m arg = Ok (st', z) -> receiver (s_vars st) rc = Some (l, v, t, self) ->
  alookup (method_key t m) (s_funcs st) = Some fe -> has_calls (m_body (fe_meth fe)) = false ->
  no_colon (fe_iface fe) = true -> no_colon i' = true -> no_colon (fe_type fe) = true -> no_colon t' = true ->
  (i', t') <> (fe_iface fe, fe_type fe) ->
  alookup (static_key i' t' n') (s_statics st') = alookup (static_key i' t' n') (s_statics st).
Proof. exact impl_statics_separate_leaf_l. Qed.
Print Assumptions impl_statics_separate_between_pairs.

(* Statics are shared by ALL calls of the pair (DESIGN.md section 7 #34, fixed by ffeef7f): every method starts
   under the context of the block that declares it - struct value, pointer, array element, parameter,
   interface value, typedef'd primitive alike, at top level or nested - so a static name reads that pair's cell ... *)
Theorem statics_reachable_through_every_receiver : forall fe self arg st n,
  eval (frame0 fe self arg st) (EStatic n) =
  match alookup (static_key (fe_iface fe) (fe_type fe) n) (s_statics st) with Some v => inl v | None => inr (EUndefVar n) end.
Proof. exact method_sees_own_statics_l. Qed.
Print Assumptions statics_reachable_through_every_receiver.

(* ... and it keeps doing so for the whole body: after ANY prefix b of the body, with calls nested to any depth in
   it (fuel n arbitrary, other pairs, recursion), the impl context is still exactly the one the method entered
   with, the current pair is the declaring one and a static name still denotes that pair's cell.
   (This is what seeded/C12-1 breaks: there the context after a call nested three deep is the outermost pair's.) *)
Theorem nested_calls_keep_declaring_context : forall n hs fe t self arg st b fr1,
  exec_body (run_n n hs) hs st t (frame0 fe self arg st) b = inl fr1 ->
  f_ctx fr1 = enter_ctx (s_ctx st) (fe_iface fe, fe_type fe) /\
  c_cur (f_ctx fr1) = Some (fe_iface fe, fe_type fe) /\
  forall s, eval fr1 (EStatic s) =
    match alookup (static_key (fe_iface fe) (fe_type fe) s) (f_statics fr1) with Some v => inl v | None => inr (EUndefVar s) end.
Proof. exact body_keeps_declaring_context_l. Qed.
Print Assumptions nested_calls_keep_declaring_context.

(* The mechanism (static.cpp enter_impl_context / exit_impl_context: current pair + vector of saved pairs):
   exit after enter gives back the context - current pair AND saved stack - that was there before, the entered
   pair is current in between, and so does every well-nested history of enters and exits. *)
Theorem impl_context_stack_discipline :
  (forall c p, wf_ctx c -> exit_ctx (enter_ctx c p) = c) /\
  (forall c p, wf_ctx (enter_ctx c p) /\ c_cur (enter_ctx c p) = Some p) /\
  wf_ctx ctx0 /\
  (forall w, balanced w -> forall c, wf_ctx c -> run_acts c w = c) /\
  (forall w c p, balanced w -> c_cur (run_acts (enter_ctx c p) w) = Some p).
Proof. exact impl_context_stack_discipline_l. Qed.
Print Assumptions impl_context_stack_discipline.

(* The impl context the caller had is in force again after every call (fixed by 3be9fd7), at top level, after a
   nested  self.m(..)  and after any statement of a body, for calls nested to any depth. *)
Theorem impl_context_restored_after_call :
  (forall n hs st rc m arg st' z, wf_ctx (s_ctx st) -> call n hs st rc m arg = Ok (st', z) -> s_ctx st' = s_ctx st) /\
  (forall n hs g t m z fr fr1 r, wf_ctx (f_ctx fr) -> nested_self_g (run_n n hs) g t m z fr = inl (fr1, r) -> f_ctx fr1 = f_ctx fr) /\
  (forall n hs g t s fr fr', wf_ctx (f_ctx fr) -> exec_stmt (run_n n hs) hs g t fr s = inl fr' -> f_ctx fr' = f_ctx fr).
Proof. exact impl_context_restored_l. Qed.
Print Assumptions impl_context_restored_after_call.

(* `return self;` of a primitive self returns the receiver's value (fixed by 5e201e9). *)
Theorem return_self_returns_receiver : forall run hs fe t v arg st,
  m_body (fe_meth fe) = [] -> m_ret (fe_meth fe) = ESelf -> m_void (fe_meth fe) = false -> int_ok v = true ->
  exists fr', run_method_g run hs fe t (PPrim v) arg st = inl (fr', v).
Proof. exact return_self_returns_receiver_l. Qed.
Print Assumptions return_self_returns_receiver.

(* Statics keep a value for the whole run: after ANY history of operations every static declared in
   any registered impl block is still present ... *)
Theorem impl_static_persists : forall n ds r vs hs ops st' d nz,
  wf_impls ds -> register_all empty_registry ds = inl r ->
  run_ops n hs (init_state r vs) ops = Ok st' -> In d ds -> In nz (i_statics d) ->
  exists z, alookup (static_key (i_iface d) (i_type d) (fst nz)) (s_statics st') = Some z.
Proof. exact impl_static_persists_l. Qed.
Print Assumptions impl_static_persists.

(* ... the set of static cells never changes, and only calls can change a value (binding, pointer
   assignment, direct field writes and reads leave the whole table as it is). *)
Theorem impl_static_table_stable : forall n hs ops st st', wf_ctx (s_ctx st) -> run_ops n hs st ops = Ok st' ->
  keys (s_statics st') = keys (s_statics st) /\ s_ctx st' = s_ctx st.
Proof. exact run_ops_keys. Qed.
Print Assumptions impl_static_table_stable.

Theorem statics_changed_only_by_calls : forall n hs st o st', step n hs st o = Ok st' ->
  match o with OCall _ _ _ | OVia _ _ _ => True | _ => s_statics st' = s_statics st end.
Proof. exact step_noncall_statics. Qed.
Print Assumptions statics_changed_only_by_calls.

(* A value of a type with no impl for the interface is rejected where the interface is required:
   declaration / assignment ... *)
Theorem no_impl_rejected : forall ds r st x i src sv t p,
  wf_impls ds -> register_all empty_registry ds = inl r -> s_impls st = r_impls r ->
  alookup src (s_vars st) = Some sv -> src_view sv = Some (t, p) ->
  (forall d, In d ds -> ~ (i_iface d = i /\ i_type d = t)) ->
  bind st x i src = Fail (s_out st) (ENoImpl i t).
Proof. exact no_impl_rejected_bind_l. Qed.
Print Assumptions no_impl_rejected.

(* ... and parameter passing; the program stops there with the output printed so far. *)
Theorem no_impl_rejected_parameter : forall n ds r hs st h hh i src d0 sv t p,
  wf_impls ds -> register_all empty_registry ds = inl r -> s_impls st = r_impls r ->
  find (fun x => String.eqb (h_name x) h) hs = Some hh -> h_iface hh = Some i -> src <> h_param hh ->
  alookup src (s_vars st) = Some sv -> src_view sv = Some (t, p) ->
  (forall d, In d ds -> ~ (i_iface d = i /\ i_type d = t)) ->
  step n hs st (OVia h src d0) = Fail (s_out st) (ENoImpl i t).
Proof. exact no_impl_rejected_param_l. Qed.
Print Assumptions no_impl_rejected_parameter.

(* Conversely an accepted binding has an impl block for (i, dynamic type); the variable then carries
   (interface, implementing type, private copy of the payload) and nothing else changes. *)
Theorem bind_accepts_only_implementors : forall ds r st x i src st',
  wf_impls ds -> register_all empty_registry ds = inl r -> s_impls st = r_impls r ->
  bind st x i src = Ok st' ->
  exists sv t p d, alookup src (s_vars st) = Some sv /\ src_view sv = Some (t, p) /\
    In d ds /\ i_iface d = i /\ i_type d = t /\
    alookup x (s_vars st') = Some (VIface i t p) /\
    (forall y, y <> x -> alookup y (s_vars st') = alookup y (s_vars st)).
Proof. exact bind_accepts_only_implementors_l. Qed.
Print Assumptions bind_accepts_only_implementors.

(* ------------------------------------------------------------------------------------------------
   Laws the property demands that the faithful model - i.e. the pinned code - does NOT satisfy.
   Each witness is replayed on `main` on every run (known_findings/C12.json). *)

(* A method that the variable's interface does not declare is not rejected: it is found through T::m and
   runs (since ffeef7f under its own block's context: 502, 503 are the counter of (B,S)). *)
Theorem method_outside_interface_rejected_refuted :
  exists p, wf_impls (p_impls p) /\
    run_program p = ([("", [11%Z]); ("", [501%Z]); ("", [502%Z]); ("", [503%Z])], None) /\
    In (OCall (RVar "a") "other" 0%Z) (p_ops p) /\ alookup "A" (p_ifaces p) = Some ["get"].
Proof. exact method_outside_interface_rejected_refuted_l. Qed.
Print Assumptions method_outside_interface_rejected_refuted.

(* Member writes made by a method are visible in the receiver - refuted when the receiver is `self` inside
   another method: bump adds d to self.v and returns 7, yet the caller's self.v is still 2 afterwards. *)
Theorem nested_self_call_writes_visible_refuted :
  exists p out, wf_impls (p_impls p) /\ run_program p = (out, None) /\
    In ("C.S.outer>bump", [7%Z]) out /\ In ("C.S.outer", [2%Z]) out /\
    (exists d, p_impls p = [d] /\ In m_bump (i_methods d) /\ In m_outer (i_methods d)).
Proof. exact nested_self_call_writes_visible_refuted_l. Qed.
Print Assumptions nested_self_call_writes_visible_refuted.
