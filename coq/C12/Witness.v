(* C12 - concrete programs on which the faithful model (hence the pinned code; each is replayed on
   `main` by harness/props/c12.py, see known_findings/C12.json) does NOT satisfy a law the property
   demands, and positive examples showing that the hypotheses of the theorems are satisfiable. *)
From Coq Require Import List Arith Bool Ascii String ZArith Lia.
From Cb Require Import C12.Model C12.Maps C12.Registry.
Import ListNotations.
Local Open Scope string_scope.
Local Open Scope list_scope.
Local Open Scope Z_scope.

(* interface C { int tick(int d); };  struct S { int v; };
   impl C for S { static int n = 0; int tick(int d) { n = n + 1; return n; } }; *)
Definition m_tick : method :=
  {| m_name := "tick"; m_body := [SSetStatic "n" (EAdd (EStatic "n") (EConst 1))]; m_ret := EStatic "n" |}.
Definition d_CS : impl_def := {| i_iface := "C"; i_type := "S"; i_statics := [("n", 0)]; i_methods := [m_tick] |}.
Definition s1_var : name * value := ("s1", VConc "S" (PStruct [("v", 2)])).

(* finding #34 / C12-statics-struct-receiver:  C c = s1; c.tick(); s1.tick(); *)
Definition prog_struct_receiver : program :=
  {| p_ifaces := [("C", ["tick"])]; p_impls := [d_CS]; p_vars := [s1_var]; p_helpers := [];
     p_ops := [OBind "c" "C" "s1"; OCall (RVar "c") "tick" 0; OCall (RVar "s1") "tick" 0] |}.
Lemma struct_receiver_witness : run_program prog_struct_receiver = ([("", [1])], Some (EUndefVar "n")).
Proof. vm_compute. reflexivity. Qed.

(* typedef int P;  impl C for P { static int n = 0; ... };  P x = 7;  C c = x;  c.tick(); *)
Definition d_CP : impl_def := {| i_iface := "C"; i_type := "P"; i_statics := [("n", 0)]; i_methods := [m_tick] |}.
Definition prog_prim_receiver : program :=
  {| p_ifaces := [("C", ["tick"])]; p_impls := [d_CP]; p_vars := [("x", VConc "P" (PPrim 7))]; p_helpers := [];
     p_ops := [OBind "c" "C" "x"; OCall (RVar "c") "tick" 0] |}.
Lemma prim_receiver_witness : run_program prog_prim_receiver = ([], Some (EUndefVar "n")).
Proof. vm_compute. reflexivity. Qed.

(* interface A { int get(int d); }; interface B { int other(int d); };
   impl A for S { static int n = 10;  get:   n = n + 1; return n; };
   impl B for S { static int n = 500; other: n = n + 1; return n; };
   A a = s1; B b = s1; a.get(); b.other(); a.other();   -- the last call is accepted and returns 12 *)
Definition m_get : method := {| m_name := "get"; m_body := [SSetStatic "n" (EAdd (EStatic "n") (EConst 1))]; m_ret := EStatic "n" |}.
Definition m_other : method := {| m_name := "other"; m_body := [SSetStatic "n" (EAdd (EStatic "n") (EConst 1))]; m_ret := EStatic "n" |}.
Definition d_AS : impl_def := {| i_iface := "A"; i_type := "S"; i_statics := [("n", 10)]; i_methods := [m_get] |}.
Definition d_BS : impl_def := {| i_iface := "B"; i_type := "S"; i_statics := [("n", 500)]; i_methods := [m_other] |}.
Definition prog_cross_interface : program :=
  {| p_ifaces := [("A", ["get"]); ("B", ["other"])]; p_impls := [d_AS; d_BS]; p_vars := [s1_var]; p_helpers := [];
     p_ops := [OBind "a" "A" "s1"; OBind "b" "B" "s1"; OCall (RVar "a") "get" 0; OCall (RVar "b") "other" 0;
               OCall (RVar "a") "other" 0; OCall (RVar "b") "other" 0] |}.
Lemma cross_interface_witness :
  run_program prog_cross_interface = ([("", [11]); ("", [501]); ("", [12]); ("", [502])], None).
Proof. vm_compute. reflexivity. Qed.

(* the impl context is one slot: a call made while another impl context is active (i.e. from inside a
   method entered through an interface value) leaves NO context behind, not the enclosing one *)
Definition st_nested : state :=
  {| s_impls := [d_AS; d_BS]; s_funcs := [(method_key "S" "get", m_get)];
     s_statics := [(static_key "A" "S" "n", 10); (static_key "B" "T" "n", 500)];
     s_vars := [("x", VIface "A" "S" (PStruct [("v", 1)]))];
     s_ctx := Some ("B", "T"); s_out := [] |}.
Lemma nested_context_witness : exists st' z, call st_nested (RVar "x") "get" 0 = Ok (st', z) /\ s_ctx st' = None.
Proof. eexists; eexists. split; [vm_compute; reflexivity|reflexivity]. Qed.

(* typedef int P; impl C for P { int me(int d) { return self; } };  P x = 7; C c = x; println(c.me(0)); *)
Definition m_me : method := {| m_name := "me"; m_body := []; m_ret := ESelf |}.
Definition d_CP2 : impl_def := {| i_iface := "C"; i_type := "P"; i_statics := []; i_methods := [m_me] |}.
Definition prog_return_self : program :=
  {| p_ifaces := [("C", ["me"])]; p_impls := [d_CP2]; p_vars := [("x", VConc "P" (PPrim 7))]; p_helpers := [];
     p_ops := [OBind "c" "C" "x"; OCall (RVar "c") "me" 0] |}.
Lemma return_self_witness : run_program prog_return_self = ([("", [0])], None).
Proof. vm_compute. reflexivity. Qed.

(* ---------- positive examples: the hypotheses used by the theorems hold for ordinary programs ---------- *)
Definition m_areaC : method := {| m_name := "area"; m_body := [SSetField "r" (EAdd (EField "r") EArg); SPrint "Shape.Circle.area" [EField "r"]];
                                   m_ret := EMul (EField "r") (EConst 3) |}.
Definition m_areaR : method := {| m_name := "area"; m_body := [SPrint "Shape.Rect.area" [EField "w"; EField "h"]];
                                   m_ret := EMul (EField "w") (EField "h") |}.
Definition d_SC : impl_def := {| i_iface := "Shape"; i_type := "Circle"; i_statics := [("n", 0)]; i_methods := [m_areaC] |}.
Definition d_SR : impl_def := {| i_iface := "Shape"; i_type := "Rect"; i_statics := [("n", 100)]; i_methods := [m_areaR] |}.
Example wf_example : wf_impls [d_SC; d_SR].
Proof.
  repeat constructor; simpl; try reflexivity; intros H; try (destruct H; try discriminate; auto).
Qed.
Example registers_example : exists r, register_all empty_registry [d_SC; d_SR] = inl r.
Proof. eexists. vm_compute. reflexivity. Qed.
Example dispatch_example :
  run_program {| p_ifaces := [("Shape", ["area"])]; p_impls := [d_SR; d_SC];
                 p_vars := [("c", VConc "Circle" (PStruct [("r", 2)])); ("q", VConc "Rect" (PStruct [("w", 3); ("h", 4)]))];
                 p_helpers := [];
                 p_ops := [OBind "s" "Shape" "c"; OCall (RVar "s") "area" 5; OBind "s" "Shape" "q"; OCall (RVar "s") "area" 0; OShow "c"] |}
  = ([("Shape.Circle.area", [7]); ("", [21]); ("Shape.Rect.area", [3; 4]); ("", [12]); ("c", [2])], None).
Proof. vm_compute. reflexivity. Qed.

(* ---------- the refuted laws, as stated in Properties_C12.v ---------- *)
Lemma statics_reachable_through_struct_receiver_refuted_l :
  exists p out n, wf_impls (p_impls p) /\ run_program p = (out, Some (EUndefVar n)) /\
    (exists d, In d (p_impls p) /\ In n (map fst (i_statics d))).
Proof.
  exists prog_struct_receiver, [("", [1%Z])], "n". split; [|split].
  - repeat constructor; simpl; try reflexivity; intros H; destruct H.
  - exact struct_receiver_witness.
  - exists d_CS. simpl. auto.
Qed.

Lemma statics_reachable_for_primitive_impl_refuted_l :
  exists p out n, wf_impls (p_impls p) /\ run_program p = (out, Some (EUndefVar n)) /\
    (exists d, In d (p_impls p) /\ In n (map fst (i_statics d))).
Proof.
  exists prog_prim_receiver, [], "n". split; [|split].
  - repeat constructor; simpl; try reflexivity; intros H; destruct H.
  - exact prim_receiver_witness.
  - exists d_CP. simpl. auto.
Qed.

Lemma method_outside_interface_rejected_refuted_l :
  exists p, wf_impls (p_impls p) /\
    run_program p = ([("", [11%Z]); ("", [501%Z]); ("", [12%Z]); ("", [502%Z])], None) /\
    In (OCall (RVar "a") "other" 0%Z) (p_ops p) /\ alookup "A" (p_ifaces p) = Some ["get"].
Proof.
  exists prog_cross_interface. split; [|split; [exact cross_interface_witness|split; [simpl; auto 10|reflexivity]]].
  repeat constructor; simpl; try reflexivity; intros H; destruct H.
Qed.

Lemma impl_context_restored_after_nested_call_refuted_l :
  exists st rc m arg st' z c, s_ctx st = Some c /\ call st rc m arg = Ok (st', z) /\ s_ctx st' = None.
Proof.
  destruct nested_context_witness as [st' [z [H1 H2]]].
  exists st_nested, (RVar "x"), "get", 0%Z, st', z, ("B", "T"). auto.
Qed.

Lemma return_self_of_primitive_refuted_l :
  exists p, run_program p = ([("", [0%Z])], None) /\ p_vars p = [("x", VConc "P" (PPrim 7))] /\
    p_ops p = [OBind "c" "C" "x"; OCall (RVar "c") "me" 0%Z] /\
    (exists d m, p_impls p = [d] /\ i_methods d = [m] /\ m_ret m = ESelf /\ m_body m = []).
Proof.
  exists prog_return_self. split; [exact return_self_witness|split; [reflexivity|split; [reflexivity|]]].
  exists d_CP2, m_me. auto.
Qed.
