(* C12 - concrete programs: (a) the shapes on which the code used to violate the property and that the
   `fix:` commits ffeef7f / 3be9fd7 / 5e201e9 repaired - now positive examples of the laws, replayed on
   `main` through corpus/c12.json; (b) the programs on which the faithful model (hence the pinned code;
   each is replayed on `main` by harness/props/c12.py, see known_findings/C12.json) still does NOT satisfy
   a law the property demands; (c) examples showing that the hypotheses of the theorems are satisfiable. *)
From Coq Require Import List Arith Bool Ascii String ZArith Lia.
From Cb Require Import C12.Model C12.Maps C12.Registry C12.Calls.
Import ListNotations.
Local Open Scope string_scope.
Local Open Scope list_scope.
Local Open Scope Z_scope.

(* interface C { int tick(int d); };  struct S { int v; };
   impl C for S { static int n = 0; int tick(int d) { n = n + 1; return n; } }; *)
Definition m_tick : method :=
  {| m_name := "tick"; m_void := false; m_locals := []; m_body := [SSetStatic "n" (EAdd (EStatic "n") (EConst 1))]; m_ret := EStatic "n" |}.
Definition d_CS : impl_def := {| i_iface := "C"; i_type := "S"; i_statics := [("n", 0)]; i_methods := [m_tick] |}.
Definition s1_var : name * value := ("s1", VConc "S" (PStruct [("v", 2)])).

(* former finding #34 (fixed ffeef7f):  C c = s1; c.tick(); s1.tick();  -> 1, 2 *)
Definition prog_struct_receiver : program :=
  {| p_ifaces := [("C", ["tick"])]; p_impls := [d_CS]; p_vars := [s1_var]; p_helpers := [];
     p_ops := [OBind "c" "C" "s1"; OCall (RVar "c") "tick" 0; OCall (RVar "s1") "tick" 0] |}.
Example struct_receiver_statics : run_program prog_struct_receiver = ([("", [1]); ("", [2])], None).
Proof. vm_compute. reflexivity. Qed.

(* former finding (fixed ffeef7f): typedef int P; impl C for P { static int n = 0; ... }; P x = 7; C c = x; c.tick(); *)
Definition d_CP : impl_def := {| i_iface := "C"; i_type := "P"; i_statics := [("n", 0)]; i_methods := [m_tick] |}.
Definition prog_prim_receiver : program :=
  {| p_ifaces := [("C", ["tick"])]; p_impls := [d_CP]; p_vars := [("x", VConc "P" (PPrim 7))]; p_helpers := [];
     p_ops := [OBind "c" "C" "x"; OCall (RVar "c") "tick" 0; OCall (RVar "x") "tick" 0] |}.
Example prim_receiver_statics : run_program prog_prim_receiver = ([("", [1]); ("", [2])], None).
Proof. vm_compute. reflexivity. Qed.

(* interface A { int get(int d); }; interface B { int other(int d); };
   impl A for S { static int n = 10;  get:   n = n + 1; return n; };
   impl B for S { static int n = 500; other: n = n + 1; return n; };
   A a = s1; B b = s1; a.get(); b.other(); a.other();
   STILL accepted (the method is found through T::m); since ffeef7f it counts in its own pair: 502 *)
Definition m_get : method := {| m_name := "get"; m_void := false; m_locals := []; m_body := [SSetStatic "n" (EAdd (EStatic "n") (EConst 1))]; m_ret := EStatic "n" |}.
Definition m_other : method := {| m_name := "other"; m_void := false; m_locals := []; m_body := [SSetStatic "n" (EAdd (EStatic "n") (EConst 1))]; m_ret := EStatic "n" |}.
Definition d_AS : impl_def := {| i_iface := "A"; i_type := "S"; i_statics := [("n", 10)]; i_methods := [m_get] |}.
Definition d_BS : impl_def := {| i_iface := "B"; i_type := "S"; i_statics := [("n", 500)]; i_methods := [m_other] |}.
Definition prog_cross_interface : program :=
  {| p_ifaces := [("A", ["get"]); ("B", ["other"])]; p_impls := [d_AS; d_BS]; p_vars := [s1_var]; p_helpers := [];
     p_ops := [OBind "a" "A" "s1"; OBind "b" "B" "s1"; OCall (RVar "a") "get" 0; OCall (RVar "b") "other" 0;
               OCall (RVar "a") "other" 0; OCall (RVar "b") "other" 0] |}.
Lemma cross_interface_witness :
  run_program prog_cross_interface = ([("", [11]); ("", [501]); ("", [502]); ("", [503])], None).
Proof. vm_compute. reflexivity. Qed.

(* former finding (fixed 3be9fd7): a nested call under another block's context, then the caller's static:
   impl A for S { static n = 10; int get .. ; int both(int d) { n = n + 1; int r = self.other(d); n = n + 1; return n; } }
   the callee counts in (B,S), the caller goes on counting in (A,S) *)
Definition m_both : method :=
  {| m_name := "both";
     m_void := false; m_locals := []; m_body := [SSetStatic "n" (EAdd (EStatic "n") (EConst 1)); SCallSelf "A.S.both>other" "other" EArg;
                SSetStatic "n" (EAdd (EStatic "n") (EConst 1))];
     m_ret := EStatic "n" |}.
Definition d_AS2 : impl_def := {| i_iface := "A"; i_type := "S"; i_statics := [("n", 10)]; i_methods := [m_get; m_both] |}.
Definition prog_nested_context : program :=
  {| p_ifaces := [("A", ["get"; "both"]); ("B", ["other"])]; p_impls := [d_AS2; d_BS]; p_vars := [s1_var]; p_helpers := [];
     p_ops := [OBind "a" "A" "s1"; OCall (RVar "a") "both" 0; OCall (RVar "s1") "both" 0; OCall (RVar "a") "get" 0] |}.
Example nested_context_restored :
  run_program prog_nested_context =
  ([("A.S.both>other", [501]); ("", [12]); ("A.S.both>other", [502]); ("", [14]); ("", [15])], None).
Proof. vm_compute. reflexivity. Qed.

(* former finding (fixed 5e201e9): typedef int P; impl C for P { int me(int d) { return self; } }; *)
Definition m_me : method := {| m_name := "me"; m_void := false; m_locals := []; m_body := []; m_ret := ESelf |}.
Definition d_CP2 : impl_def := {| i_iface := "C"; i_type := "P"; i_statics := []; i_methods := [m_me] |}.
Definition prog_return_self : program :=
  {| p_ifaces := [("C", ["me"])]; p_impls := [d_CP2]; p_vars := [("x", VConc "P" (PPrim 7))]; p_helpers := [];
     p_ops := [OBind "c" "C" "x"; OCall (RVar "c") "me" 0] |}.
Example return_self_value : run_program prog_return_self = ([("", [7])], None).
Proof. vm_compute. reflexivity. Qed.

(* STILL failing: the writes a nested  self.bump(d)  makes to self are not in the caller's self afterwards:
   impl C for S { int bump(int d) { self.v = self.v + d; return self.v; }
                  int outer(int d) { int r = self.bump(d); println(r); println(self.v); return self.v; } };
   s1.v = 2; s1.outer(5)  prints 7, then 2 (demanded 7), and s1.v stays 2 *)
Definition m_bump : method := {| m_name := "bump"; m_void := false; m_locals := []; m_body := [SSetField "v" (EAdd (EField "v") EArg)]; m_ret := EField "v" |}.
Definition m_outer : method :=
  {| m_name := "outer"; m_void := false; m_locals := []; m_body := [SCallSelf "C.S.outer>bump" "bump" EArg; SPrint "C.S.outer" [EField "v"]]; m_ret := EField "v" |}.
Definition d_CS2 : impl_def := {| i_iface := "C"; i_type := "S"; i_statics := []; i_methods := [m_bump; m_outer] |}.
Definition prog_nested_write : program :=
  {| p_ifaces := [("C", ["bump"; "outer"])]; p_impls := [d_CS2]; p_vars := [s1_var]; p_helpers := [];
     p_ops := [OCall (RVar "s1") "outer" 5; OShow "s1"] |}.
Lemma nested_write_witness :
  run_program prog_nested_write = ([("C.S.outer>bump", [7]); ("C.S.outer", [2]); ("", [2]); ("s1", [2])], None).
Proof. vm_compute. reflexivity. Qed.

(* ---------- positive examples: the hypotheses used by the theorems hold for ordinary programs ---------- *)
Definition m_areaC : method := {| m_name := "area"; m_void := false; m_locals := []; m_body := [SSetField "r" (EAdd (EField "r") EArg); SPrint "Shape.Circle.area" [EField "r"]];
                                   m_ret := EMul (EField "r") (EConst 3) |}.
Definition m_areaR : method := {| m_name := "area"; m_void := false; m_locals := []; m_body := [SPrint "Shape.Rect.area" [EField "w"; EField "h"]];
                                   m_ret := EMul (EField "w") (EField "h") |}.
Definition d_SC : impl_def := {| i_iface := "Shape"; i_type := "Circle"; i_statics := [("n", 0)]; i_methods := [m_areaC] |}.
Definition d_SR : impl_def := {| i_iface := "Shape"; i_type := "Rect"; i_statics := [("n", 100)]; i_methods := [m_areaR] |}.
Example wf_example : wf_impls [d_SC; d_SR].
Proof.
  repeat constructor; simpl; try reflexivity; intros H; try (destruct H; try discriminate; auto).
Qed.
Example registers_example : exists r, register_all empty_registry [d_SC; d_SR] = inl r.
Proof. eexists. vm_compute. reflexivity. Qed.
Example dispatch_example :
  run_program {| p_ifaces := [("Shape", ["area"])]; p_impls := [d_SR; d_SC];
                 p_vars := [("c", VConc "Circle" (PStruct [("r", 2)])); ("q", VConc "Rect" (PStruct [("w", 3); ("h", 4)]))];
                 p_helpers := [];
                 p_ops := [OBind "s" "Shape" "c"; OCall (RVar "s") "area" 5; OBind "s" "Shape" "q"; OCall (RVar "s") "area" 0; OShow "c"] |}
  = ([("Shape.Circle.area", [7]); ("", [21]); ("Shape.Rect.area", [3; 4]); ("", [12]); ("c", [2])], None).
Proof. vm_compute. reflexivity. Qed.


(* ---------- nesting three deep across three pairs that all declare a static `n` (the shape of seeded/C12-1) ----------
   struct Mail { int size; }; struct Hub { int id; };
   impl Job for Mail { static int n = 0;
     int cost(int d)    { return self.size * 2; }
     int process(int d) { int r = self.cost(0); println("Job.Mail.process>cost", r); n = n + 1; self.size = self.size + 1; return n; } };
   impl Registry for Hub { static int n = 1000;
     int submit(int d) { Mail lm; lm.size = 3; Job j = lm; n = n + 1; println(j.process(0)); println(j.process(0)); n = n + 1; return n; } };
   Hub h; h.submit(0);  -> process counts 1, 2 in (Job,Mail) although it runs under submit and after its own nested call;
   submit counts 1001, 1002 in (Registry,Hub) *)
Definition m_cost : method := {| m_name := "cost"; m_void := false; m_locals := []; m_body := []; m_ret := EMul (EField "size") (EConst 2) |}.
Definition m_process : method :=
  {| m_name := "process"; m_void := false; m_locals := [];
     m_body := [SCallSelf "Job.Mail.process>cost" "cost" (EConst 0); SSetStatic "n" (EAdd (EStatic "n") (EConst 1));
                SSetField "size" (EAdd (EField "size") (EConst 1))];
     m_ret := EStatic "n" |}.
Definition m_submit : method :=
  {| m_name := "submit"; m_void := false; m_locals := [("lm", VConc "Mail" (PStruct [("size", 3)]))];
     m_body := [SOp (OBind "j" "Job" "lm"); SSetStatic "n" (EAdd (EStatic "n") (EConst 1));
                SOp (OCall (RVar "j") "process" 0); SOp (OCall (RVar "j") "process" 0);
                SSetStatic "n" (EAdd (EStatic "n") (EConst 1))];
     m_ret := EStatic "n" |}.
Definition d_JobMail : impl_def := {| i_iface := "Job"; i_type := "Mail"; i_statics := [("n", 0)]; i_methods := [m_cost; m_process] |}.
Definition d_RegHub : impl_def := {| i_iface := "Registry"; i_type := "Hub"; i_statics := [("n", 1000)]; i_methods := [m_submit] |}.
Definition prog_three_deep : program :=
  {| p_ifaces := [("Job", ["cost"; "process"]); ("Registry", ["submit"])]; p_impls := [d_JobMail; d_RegHub];
     p_vars := [("h", VConc "Hub" (PStruct [("id", 1)]))]; p_helpers := [];
     p_ops := [OCall (RVar "h") "submit" 0; OCall (RVar "h") "submit" 0] |}.
Example three_deep_statics_stay_with_their_pair :
  run_program prog_three_deep =
  ([("Job.Mail.process>cost", [6]); ("", [1]); ("Job.Mail.process>cost", [8]); ("", [2]); ("", [1002]);
    ("Job.Mail.process>cost", [6]); ("", [3]); ("Job.Mail.process>cost", [8]); ("", [4]); ("", [1004])], None).
Proof. vm_compute. reflexivity. Qed.

(* a void method: the receiver gets its writes back (variable, pointer) and a nested  self.grow(d)  of a void
   method leaves its writes in the caller's self:
   impl C for S { void grow(int d) { self.v = self.v + d; }
                  void twice(int d) { self.grow(d); println("C.S.twice>grow", 0); self.grow(d); println(.., 0); println("C.S.twice", self.v); } }; *)
Definition m_grow : method := {| m_name := "grow"; m_void := true; m_locals := []; m_body := [SSetField "v" (EAdd (EField "v") EArg)]; m_ret := EConst 0 |}.
Definition m_twice : method :=
  {| m_name := "twice"; m_void := true; m_locals := [];
     m_body := [SCallSelf "C.S.twice>grow" "grow" EArg; SCallSelf "C.S.twice>grow" "grow" EArg; SPrint "C.S.twice" [EField "v"]];
     m_ret := EConst 0 |}.
Definition d_CS3 : impl_def := {| i_iface := "C"; i_type := "S"; i_statics := []; i_methods := [m_grow; m_twice] |}.
Definition prog_void_nested : program :=
  {| p_ifaces := [("C", ["grow"; "twice"])]; p_impls := [d_CS3]; p_vars := [s1_var]; p_helpers := [];
     p_ops := [OCall (RVar "s1") "twice" 5; OShow "s1"; OPtr "q" "s1"; OCall (RPtr "q") "grow" 1; OShow "s1"] |}.
Example void_nested_writes_visible :
  run_program prog_void_nested =
  ([("C.S.twice>grow", [0]); ("C.S.twice>grow", [0]); ("C.S.twice", [12]); ("", [0]); ("s1", [12]); ("", [0]); ("s1", [13])], None).
Proof. vm_compute. reflexivity. Qed.

(* guarded recursion inside one pair, eight frames deep, every frame counting in the pair's static before and
   after its nested call:  int down(int d) { n = n + 1; if (d > 0) { int r = self.down(d - 1); println(.., r); } n = n + 1; return n; } *)
Definition m_down : method :=
  {| m_name := "down"; m_void := false; m_locals := [];
     m_body := [SSetStatic "n" (EAdd (EStatic "n") (EConst 1));
                SGuard EArg (SCallSelf "C.S.down>down" "down" (ESub EArg (EConst 1)));
                SSetStatic "n" (EAdd (EStatic "n") (EConst 1))];
     m_ret := EStatic "n" |}.
Definition d_CS4 : impl_def := {| i_iface := "C"; i_type := "S"; i_statics := [("n", 0)]; i_methods := [m_down] |}.
Example recursion_counts_in_one_pair :
  run_program {| p_ifaces := [("C", ["down"])]; p_impls := [d_CS4]; p_vars := [s1_var]; p_helpers := []; p_ops := [OCall (RVar "s1") "down" 2] |}
  = ([("C.S.down>down", [4]); ("C.S.down>down", [5]); ("", [6])], None).
Proof. vm_compute. reflexivity. Qed.

(* the hypotheses of impl_statics_separate are satisfiable: {Hub, Mail} is closed for prog_three_deep *)
Example closed_example : forall r, register_all empty_registry (p_impls prog_three_deep) = inl r ->
  closed (r_funcs r) (fun t => t = "Hub" \/ t = "Mail").
Proof.
  intros r R. vm_compute in R. inversion R; subst; clear R. intros k fe L T x v I.
  simpl in L.
  repeat match type of L with
  | (if ?c then _ else _) = _ => destruct c; [inversion L; subst; simpl in I; try contradiction|]
  end; try discriminate;
  try (destruct I as [I|[]]; inversion I; subst; simpl; auto).
Qed.

(* ---------- the refuted laws, as stated in Properties_C12.v ---------- *)
Lemma method_outside_interface_rejected_refuted_l :
  exists p, wf_impls (p_impls p) /\
    run_program p = ([("", [11%Z]); ("", [501%Z]); ("", [502%Z]); ("", [503%Z])], None) /\
    In (OCall (RVar "a") "other" 0%Z) (p_ops p) /\ alookup "A" (p_ifaces p) = Some ["get"].
Proof.
  exists prog_cross_interface. split; [|split; [exact cross_interface_witness|split; [simpl; auto 10|reflexivity]]].
  repeat constructor; simpl; try reflexivity; intros H; destruct H.
Qed.

Lemma nested_self_call_writes_visible_refuted_l :
  exists p out, wf_impls (p_impls p) /\ run_program p = (out, None) /\
    In ("C.S.outer>bump", [7%Z]) out /\ In ("C.S.outer", [2%Z]) out /\
    (exists d, p_impls p = [d] /\ In m_bump (i_methods d) /\ In m_outer (i_methods d)).
Proof.
  exists prog_nested_write. eexists. split; [|split; [exact nested_write_witness|]].
  - repeat constructor; simpl; try reflexivity; intros H; repeat (destruct H as [H|H]; try discriminate); auto.
  - simpl. split; [auto|split; [auto|]]. exists d_CS2. simpl. auto.
Qed.
