(* C12 - the property-level statements, assembled from Registry.v and Calls.v *)
From Coq Require Import List Arith Bool Ascii String ZArith Lia Permutation.
From Cb Require Import C12.Model C12.Maps C12.Registry C12.Calls.
Import ListNotations.
Local Open Scope string_scope.
Local Open Scope list_scope.

Lemma receiver_of_read_iface : forall vs rc l i t p, resolve vs rc = Some l -> read vs l = Some (VIface i t p) ->
  receiver vs rc = Some (l, VIface i t p, t, p).
Proof. intros. unfold receiver. rewrite H, H0. reflexivity. Qed.
Lemma receiver_of_read_conc : forall vs rc l t p, resolve vs rc = Some l -> read vs l = Some (VConc t p) ->
  receiver vs rc = Some (l, VConc t p, t, p).
Proof. intros. unfold receiver. rewrite H, H0. reflexivity. Qed.

(* C12, first sentence: through an interface-typed receiver (variable, copy, parameter, pointer target)
   holding dynamic type t for interface i, the body that runs is the method of the impl block registered
   for (i, t) - found by find_impl_for_struct - although the lookup goes through the T::m table; it runs
   under the context of THAT block (mk_entry d m carries (i_iface d, i_type d)) *)
Lemma dispatch_on_dynamic_type_l : forall n hs ds r st rc l i t p d m arg,
  wf_impls ds -> register_all empty_registry ds = inl r -> s_funcs st = r_funcs r ->
  resolve (s_vars st) rc = Some l -> read (s_vars st) l = Some (VIface i t p) ->
  find_impl ds t i = Some d -> In m (i_methods d) ->
  call n hs st rc (m_name m) arg = invoke n hs st l (VIface i t p) t p (mk_entry d m) arg.
Proof.
  intros n hs ds r st rc l i t p d m arg W R F RS RD FI Hm.
  apply find_impl_some in FI as [Hd [_ Ht]].
  eapply call_dispatches_l; eauto. apply receiver_of_read_iface; assumption.
Qed.

(* the same for a receiver of the concrete type (value, pointer to struct, array element, struct parameter) *)
Lemma dispatch_concrete_receiver_l : forall n hs ds r st rc l t p d m arg,
  wf_impls ds -> register_all empty_registry ds = inl r -> s_funcs st = r_funcs r ->
  resolve (s_vars st) rc = Some l -> read (s_vars st) l = Some (VConc t p) ->
  In d ds -> i_type d = t -> In m (i_methods d) ->
  call n hs st rc (m_name m) arg = invoke n hs st l (VConc t p) t p (mk_entry d m) arg.
Proof.
  intros. eapply call_dispatches_l; eauto. apply receiver_of_read_conc; assumption.
Qed.

(* re-binding: whatever x held before, after  x = src  a call on x runs the impl of src's dynamic type *)
Lemma rebinding_switches_impl_l : forall n hs ds r st st' x i src sv t2 p d m arg,
  wf_impls ds -> register_all empty_registry ds = inl r -> s_funcs st = r_funcs r ->
  alookup src (s_vars st) = Some sv -> src_view sv = Some (t2, p) ->
  bind st x i src = Ok st' ->
  find_impl ds t2 i = Some d -> In m (i_methods d) ->
  call n hs st' (RVar x) (m_name m) arg = invoke n hs st' (LVar x) (VIface i t2 p) t2 p (mk_entry d m) arg.
Proof.
  intros n hs ds r st st' x i src sv t2 p d m arg W R F S V B FI Hm.
  apply bind_ok_inv in B as [sv' [t' [p' [S' [V' [_ ->]]]]]].
  rewrite S in S'. inversion S'; subst sv'. rewrite V in V'. inversion V'; subst t' p'.
  eapply dispatch_on_dynamic_type_l; eauto; simpl.
  apply alookup_aset_same.
Qed.

(* self is the receiver's current state: a direct write to the receiver just before the call is what
   the body reads, through the variable itself and through a pointer to it *)
Lemma self_sees_latest_write_l : forall n hs st x f z st1 t fs,
  alookup x (s_vars st) = Some (VConc t (PStruct fs)) -> step n hs st (OSet x f z) = Ok st1 ->
  receiver (s_vars st1) (RVar x) = Some (LVar x, VConc t (PStruct (aset f z fs)), t, PStruct (aset f z fs)) /\
  (forall q, alookup q (s_vars st1) = Some (VPtr x) -> receiver (s_vars st1) (RPtr q) = receiver (s_vars st1) (RVar x)) /\
  (forall fr, f_self fr = PStruct (aset f z fs) -> eval fr (EField f) = inl z).
Proof.
  intros n hs st x f z st1 t fs A H. unfold step in H. cbn [step_g] in H. rewrite A in H.
  destruct (alookup f fs) eqn:F; [|discriminate]. inversion H; subst; clear H. simpl.
  split; [|split].
  - apply receiver_conc_var. apply alookup_aset_same.
  - intros q Q. apply receiver_ptr. assumption.
  - intros fr S. simpl. rewrite S. rewrite alookup_aset_same. reflexivity.
Qed.
Lemma self_sees_latest_elem_write_l : forall n hs st a k f z st1 t es fs,
  alookup a (s_vars st) = Some (VArr t es) -> nth_error es k = Some (PStruct fs) ->
  step n hs st (OSetElem a k f z) = Ok st1 ->
  receiver (s_vars st1) (RElem a k) = Some (LElem a k, VConc t (PStruct (aset f z fs)), t, PStruct (aset f z fs)).
Proof.
  intros n hs st a k f z st1 t es fs A N H. unfold step in H. cbn [step_g] in H. simpl in H. rewrite A, N in H.
  destruct (alookup f fs) eqn:F; [|discriminate]. inversion H; subst; clear H. simpl.
  eapply receiver_elem.
  - apply alookup_aset_same.
  - apply set_nth_nth_same. apply nth_error_Some. congruence.
Qed.

(* member writes made by the method are in the receiver after the call; no other cell changes *)
Lemma self_writes_visible_l : forall n hs st rc m arg st' z, call (S n) hs st rc m arg = Ok (st', z) ->
  exists l v t self fe fr',
    receiver (s_vars st) rc = Some (l, v, t, self) /\
    alookup (method_key t m) (s_funcs st) = Some fe /\
    exec_body (run_n n hs) hs st t (frame0 fe self arg st) (m_body (fe_meth fe)) = inl fr' /\
    read (s_vars st') l = Some (with_payload v (f_self fr')) /\
    (forall l', disjoint l l' -> read (s_vars st') l' = read (s_vars st) l').
Proof.
  intros n hs st rc m arg st' z H.
  destruct (call_g_ok_inv _ _ _ _ _ _ _ H) as [l [v [t [self [fe [RC [F IV]]]]]]].
  destruct (invoke_g_ok_inv _ _ _ _ _ _ _ _ _ _ IV) as [fr' [B [V _]]].
  simpl in B. apply run_method_g_inv in B as [B _].
  exists l, v, t, self, fe, fr'. split; [assumption|split; [assumption|split; [assumption|]]].
  destruct (receiver_current_l _ _ _ _ _ _ RC) as [RD [PO _]].
  rewrite V. split.
  - apply read_write_same; [assumption|].
    destruct v; simpl in PO; try discriminate; [left|right]; eauto.
  - intros l' D. apply read_write_other; assumption.
Qed.
(* with fuel 0 nothing runs, so every successful call has the form above *)
Lemma call_ok_fuel : forall n hs st rc m arg st' z, call n hs st rc m arg = Ok (st', z) -> exists k, n = S k.
Proof.
  intros [|k] hs st rc m arg st' z H; [|eauto]. exfalso.
  destruct (call_g_ok_inv _ _ _ _ _ _ _ H) as [l [v [t [self [fe [_ [_ IV]]]]]]].
  destruct (invoke_g_ok_inv _ _ _ _ _ _ _ _ _ _ IV) as [fr' [B _]]. discriminate.
Qed.

(* the same inside a body, for the objects the body declares: SOp (OCall ..) is the same call path *)
Lemma body_call_is_call_l : forall n hs g t fr rc m arg,
  exec_stmt (run_n n hs) hs g t fr (SOp (OCall rc m arg)) =
  match call n hs (st_of g fr) rc m arg with
  | Fail o x => inr (o, x)
  | Ok (st', z) => inl {| f_self := f_self fr; f_arg := f_arg fr; f_vars := s_vars st'; f_statics := s_statics st';
                          f_ctx := s_ctx st'; f_out := s_out st' ++ [("", [z])] |}
  end.
Proof.
  intros. cbn [exec_stmt step_g]. unfold call.
  destruct (call_g (run_n n hs) (st_of g fr) rc m arg) as [[st' z]|o x]; reflexivity.
Qed.

(* what a nested  self.m(..)  of a VOID method wrote to self is in the caller's self afterwards (the write-back after
   a fall-through end); the caller's argument, objects and impl context are as before *)
Lemma nested_void_self_call_writes_visible_l : forall n hs g t m z fr fr1 r fe,
  wf_ctx (f_ctx fr) ->
  alookup (method_key t m) (s_funcs g) = Some fe -> m_void (fe_meth fe) = true ->
  nested_self_g (run_n n hs) g t m z fr = inl (fr1, r) ->
  exists fr', run_n n hs fe t (f_self fr) z (st_of g fr) = inl (fr', r) /\
    f_self fr1 = f_self fr' /\ r = 0%Z /\ f_ctx fr1 = f_ctx fr /\ f_vars fr1 = f_vars fr /\ f_arg fr1 = f_arg fr.
Proof.
  intros n hs g t m z fr fr1 r fe W L V H.
  apply nested_self_g_inv in H as [fe0 [fr' [L0 [R ->]]]]. rewrite L in L0. inversion L0; subst fe0.
  exists fr'. simpl. rewrite V.
  destruct (run_n_basic n hs fe t (f_self fr) z (st_of g fr) fr' r W R) as [E _]. simpl in E.
  repeat split; auto.
  destruct n as [|n]; [discriminate|]. simpl in R. apply run_method_g_inv in R as [_ Z]. rewrite V in Z. exact Z.
Qed.

(* every method sees the statics of the block that declares it, whatever the receiver form and however deep the
   call is nested: its frame starts under that pair's context ... *)
Lemma method_sees_own_statics_l : forall fe self arg st n,
  eval (frame0 fe self arg st) (EStatic n) =
  match alookup (static_key (fe_iface fe) (fe_type fe) n) (s_statics st) with Some v => inl v | None => inr (EUndefVar n) end.
Proof. intros. reflexivity. Qed.
(* ... and keeps it: after any prefix of the body - with calls nested to any depth in it - the current pair is still
   the declaring one, so a static name still denotes that pair's cell *)
Lemma body_keeps_declaring_context_l : forall n hs fe t self arg st b fr1,
  exec_body (run_n n hs) hs st t (frame0 fe self arg st) b = inl fr1 ->
  f_ctx fr1 = enter_ctx (s_ctx st) (fe_iface fe, fe_type fe) /\
  c_cur (f_ctx fr1) = Some (fe_iface fe, fe_type fe) /\
  forall s, eval fr1 (EStatic s) =
    match alookup (static_key (fe_iface fe) (fe_type fe) s) (f_statics fr1) with Some v => inl v | None => inr (EUndefVar s) end.
Proof.
  intros n hs fe t self arg st b fr1 H.
  destruct (exec_body_basic _ hs st t (run_n_basic n hs) _ (frame0 fe self arg st) _ (wf_enter _ _) H) as [C _].
  simpl in C. split; [assumption|]. rewrite C. split; [reflexivity|]. intros s. simpl. rewrite C. reflexivity.
Qed.

(* the impl context the caller had is in force again after a call, at top level and inside a body *)
Lemma impl_context_restored_l :
  (forall n hs st rc m arg st' z, wf_ctx (s_ctx st) -> call n hs st rc m arg = Ok (st', z) -> s_ctx st' = s_ctx st) /\
  (forall n hs g t m z fr fr1 r, wf_ctx (f_ctx fr) -> nested_self_g (run_n n hs) g t m z fr = inl (fr1, r) -> f_ctx fr1 = f_ctx fr) /\
  (forall n hs g t s fr fr', wf_ctx (f_ctx fr) -> exec_stmt (run_n n hs) hs g t fr s = inl fr' -> f_ctx fr' = f_ctx fr).
Proof.
  split; [|split].
  - intros n hs st rc m arg st' z W H. apply (call_n_basic n hs _ _ _ _ _ _ W H).
  - intros n hs g t m z fr fr1 r W H. apply nested_self_g_inv in H as [fe [fr' [_ [R ->]]]]. simpl.
    apply (run_n_basic n hs fe t (f_self fr) z (st_of g fr) fr' r W R).
  - intros n hs g t s fr fr' W H. apply (exec_stmt_basic _ hs g t (run_n_basic n hs) _ _ _ W H).
Qed.

(* `return self;` of a primitive self returns the receiver's value *)
Lemma return_self_returns_receiver_l : forall run hs fe t v arg st,
  m_body (fe_meth fe) = [] -> m_ret (fe_meth fe) = ESelf -> m_void (fe_meth fe) = false -> int_ok v = true ->
  exists fr', run_method_g run hs fe t (PPrim v) arg st = inl (fr', v).
Proof.
  intros run hs fe t v arg st B R V I. unfold run_method_g. rewrite B, R, V. simpl. rewrite I. eauto.
Qed.

(* a call on a receiver whose type lies in a set TS of types that is closed under "a method of the type declares an
   object of" leaves the statics of every pair with a type outside TS alone, whatever the bodies do and however
   deep they call ... *)
Lemma impl_statics_separate_l : forall (TS : name -> Prop) n hs ds r st rc m arg st' z l v self t i' t' n',
  wf_impls ds -> register_all empty_registry ds = inl r -> s_funcs st = r_funcs r -> wf_ctx (s_ctx st) ->
  closed (s_funcs st) TS -> (forall x, TS x -> no_colon x = true) ->
  call n hs st rc m arg = Ok (st', z) -> receiver (s_vars st) rc = Some (l, v, t, self) -> TS t ->
  no_colon i' = true -> no_colon t' = true -> no_colon n' = true -> ~ TS t' ->
  alookup (static_key i' t' n') (s_statics st') = alookup (static_key i' t' n') (s_statics st).
Proof.
  intros TS n hs ds r st rc m arg st' z l v self t i' t' n' W R F WC CL NC C RC Tt Hi' Ht' Hn' NE.
  eapply call_statics_closed_l; eauto.
  - rewrite F. eapply registered_funcs_typed; eauto.
  - apply types_keys_other_type; assumption.
Qed.
(* ... in particular of every other type when the methods of the receiver's type declare no objects of other types *)
Lemma closed_single_type : forall fs t,
  (forall k fe, alookup k fs = Some fe -> fe_type fe = t -> vars_typed (eq t) (m_locals (fe_meth fe))) -> closed fs (eq t).
Proof. intros fs t H k fe L E. apply (H k fe L). symmetry; assumption. Qed.
(* ... and when the method found makes no nested call, of every pair but the one that declares it *)
Lemma impl_statics_separate_leaf_l : forall n hs st rc m arg st' z l v self t fe i' t' n',
  call n hs st rc m arg = Ok (st', z) -> receiver (s_vars st) rc = Some (l, v, t, self) ->
  alookup (method_key t m) (s_funcs st) = Some fe -> has_calls (m_body (fe_meth fe)) = false ->
  no_colon (fe_iface fe) = true -> no_colon i' = true -> no_colon (fe_type fe) = true -> no_colon t' = true ->
  (i', t') <> (fe_iface fe, fe_type fe) ->
  alookup (static_key i' t' n') (s_statics st') = alookup (static_key i' t' n') (s_statics st).
Proof.
  intros n hs st rc m arg st' z l v self t fe i' t' n' C RC F HC Hi Hi' Ht Ht' NE.
  eapply call_statics_leaf_l; eauto. apply ctx_keys_other_pair; assumption.
Qed.

(* statics live for the whole run: after any history every declared static still has a value *)
Lemma impl_static_persists_l : forall n ds r vs hs ops st' d nz,
  wf_impls ds -> register_all empty_registry ds = inl r ->
  run_ops n hs (init_state r vs) ops = Ok st' -> In d ds -> In nz (i_statics d) ->
  exists z, alookup (static_key (i_iface d) (i_type d) (fst nz)) (s_statics st') = Some z.
Proof.
  intros n ds r vs hs ops st' d nz W R RO Hd Hn.
  apply alookup_in_keys. destruct (run_ops_keys n hs ops (init_state r vs) st' wf_ctx0 RO) as [K _]. rewrite K. simpl.
  destruct (register_all_impls _ _ W R) as [_ ->]. apply fold_add_statics_new; assumption.
Qed.

(* a value of a type with no impl for the interface is rejected where the interface is required:
   declaration / assignment ... *)
Lemma no_impl_rejected_bind_l : forall ds r st x i src sv t p,
  wf_impls ds -> register_all empty_registry ds = inl r -> s_impls st = r_impls r ->
  alookup src (s_vars st) = Some sv -> src_view sv = Some (t, p) ->
  (forall d, In d ds -> ~ (i_iface d = i /\ i_type d = t)) ->
  bind st x i src = Fail (s_out st) (ENoImpl i t).
Proof.
  intros ds r st x i src sv t p W R I S V N.
  eapply bind_no_impl_l; eauto. rewrite I. destruct (register_all_impls _ _ W R) as [-> _].
  apply impl_exists_false; assumption.
Qed.
(* ... and parameter passing *)
Lemma no_impl_rejected_param_l : forall n ds r hs st h hh i src d0 sv t p,
  wf_impls ds -> register_all empty_registry ds = inl r -> s_impls st = r_impls r ->
  find (fun x => String.eqb (h_name x) h) hs = Some hh -> h_iface hh = Some i -> src <> h_param hh ->
  alookup src (s_vars st) = Some sv -> src_view sv = Some (t, p) ->
  (forall d, In d ds -> ~ (i_iface d = i /\ i_type d = t)) ->
  step n hs st (OVia h src d0) = Fail (s_out st) (ENoImpl i t).
Proof.
  intros n ds r hs st h hh i src d0 sv t p W R I F HI NE S V N.
  unfold step. cbn [step_g]. rewrite F, HI.
  rewrite (no_impl_rejected_bind_l ds r (set_vars st (aremove (h_param hh) (s_vars st))) (h_param hh) i src sv t p); auto.
  simpl. rewrite alookup_aremove_other; assumption.
Qed.
(* conversely an accepted binding has an impl block, and the variable then carries (i, dynamic type, copy) *)
Lemma bind_accepts_only_implementors_l : forall ds r st x i src st',
  wf_impls ds -> register_all empty_registry ds = inl r -> s_impls st = r_impls r ->
  bind st x i src = Ok st' ->
  exists sv t p d, alookup src (s_vars st) = Some sv /\ src_view sv = Some (t, p) /\
    In d ds /\ i_iface d = i /\ i_type d = t /\
    alookup x (s_vars st') = Some (VIface i t p) /\
    (forall y, y <> x -> alookup y (s_vars st') = alookup y (s_vars st)).
Proof.
  intros ds r st x i src st' W R I B.
  apply bind_ok_inv in B as [sv [t [p [S [V [E ->]]]]]].
  rewrite I in E. destruct (register_all_impls _ _ W R) as [EQ _]. rewrite EQ in E.
  apply impl_exists_true in E as [d [Hd [Hi Ht]]].
  exists sv, t, p, d. simpl. repeat split; auto.
  - apply alookup_aset_same.
  - intros y NE. apply alookup_aset_other; assumption.
Qed.

(* ---------- statements assembled for Properties_C12.v ---------- *)
Lemma dispatch_table_exact_l : forall ds r, wf_impls ds -> register_all empty_registry ds = inl r ->
  (forall d m, In d ds -> In m (i_methods d) -> alookup (method_key (i_type d) (m_name m)) (r_funcs r) = Some (mk_entry d m)) /\
  (forall t n fe, alookup (method_key t n) (r_funcs r) = Some fe ->
     exists d m, In d ds /\ i_type d = t /\ In m (i_methods d) /\ m_name m = n /\ fe = mk_entry d m).
Proof. intros ds r W R. split; [intros; eapply dispatch_registered_l; eauto|intros; eapply dispatch_sound_l; eauto]. Qed.

Lemma dispatch_independent_of_registration_order_l : forall ds ds' r, Permutation ds ds' -> wf_impls ds ->
  NoDup (map (fun d => (i_iface d, i_type d)) ds) ->
  register_all empty_registry ds = inl r ->
  exists r', register_all empty_registry ds' = inl r' /\
    (forall t n, alookup (method_key t n) (r_funcs r') = alookup (method_key t n) (r_funcs r)) /\
    (forall i t, impl_exists ds' i t = impl_exists ds i t) /\
    (forall i t, find_impl ds' t i = find_impl ds t i).
Proof.
  intros ds ds' r P W ND R.
  destruct (registration_succeeds_any_order _ _ _ P R) as [r' R'].
  exists r'. split; [assumption|split; [|split]].
  - intros. eapply dispatch_order_independent_l; eauto.
  - intros. symmetry. apply impl_exists_perm; assumption.
  - intros. apply find_impl_order_independent_l; assumption.
Qed.

Lemma registration_iff_conflict_free_l : forall ds,
  (exists r, register_all empty_registry ds = inl r) <-> ForallOrdPairs (fun e d => ~ conflict d e) ds.
Proof.
  intros ds. rewrite register_all_ok_iff. split; [intros [_ H]; exact H|].
  intros H. split; [apply Forall_forall; intros x _ e []|exact H].
Qed.

Lemma impl_context_stack_discipline_l :
  (forall c p, wf_ctx c -> exit_ctx (enter_ctx c p) = c) /\
  (forall c p, wf_ctx (enter_ctx c p) /\ c_cur (enter_ctx c p) = Some p) /\
  wf_ctx ctx0 /\
  (forall w, balanced w -> forall c, wf_ctx c -> run_acts c w = c) /\
  (forall w c p, balanced w -> c_cur (run_acts (enter_ctx c p) w) = Some p).
Proof.
  split; [exact exit_enter|split; [intros; split; [apply wf_enter|reflexivity]|split; [exact wf_ctx0|split; [exact balanced_restores|exact balanced_inner_cur]]]].
Qed.
