(* C12 - lemmas on association lists (std::map) and on the key strings T::m, I_T_m, impl::I::T::n *)
From Coq Require Import List Arith Bool Ascii String ZArith Lia.
From Cb Require Import C12.Model.
Import ListNotations.
Local Open Scope string_scope.
Local Open Scope list_scope.

(* ---------- alookup / aset / aremove ---------- *)
Lemma alookup_aset : forall (A : Type) k k' (v : A) l,
  alookup k' (aset k v l) = if String.eqb k' k then Some v else alookup k' l.
Proof.
  induction l as [|[k0 v0] r IH]; simpl.
  - reflexivity.
  - destruct (String.eqb k k0) eqn:E; simpl.
    + apply String.eqb_eq in E; subst k0. destruct (String.eqb k' k); reflexivity.
    + destruct (String.eqb k' k0) eqn:E2.
      * apply String.eqb_eq in E2; subst k0.
        destruct (String.eqb k' k) eqn:E3; [|reflexivity].
        apply String.eqb_eq in E3; subst. rewrite String.eqb_refl in E; discriminate.
      * apply IH.
Qed.
Lemma alookup_aset_same : forall (A : Type) k (v : A) l, alookup k (aset k v l) = Some v.
Proof. intros. rewrite alookup_aset, String.eqb_refl. reflexivity. Qed.
Lemma alookup_aset_other : forall (A : Type) k k' (v : A) l, k' <> k -> alookup k' (aset k v l) = alookup k' l.
Proof. intros. rewrite alookup_aset. destruct (String.eqb k' k) eqn:E; [apply String.eqb_eq in E; contradiction|reflexivity]. Qed.

Lemma alookup_aremove_other : forall (A : Type) k k' (l : list (string * A)), k' <> k -> alookup k' (aremove k l) = alookup k' l.
Proof.
  induction l as [|[k0 v0] r IH]; simpl; intros; [reflexivity|].
  destruct (String.eqb k k0) eqn:E.
  - apply String.eqb_eq in E; subst k0.
    destruct (String.eqb k' k) eqn:E2; [apply String.eqb_eq in E2; contradiction|reflexivity].
  - simpl. destruct (String.eqb k' k0); [reflexivity|]. apply IH; assumption.
Qed.

Definition keys {A : Type} (l : list (string * A)) : list string := map fst l.
Lemma alookup_in_keys : forall (A : Type) k (l : list (string * A)), In k (keys l) <-> exists v, alookup k l = Some v.
Proof.
  induction l as [|[k0 v0] r IH]; simpl.
  - split; [tauto|intros [v H]; discriminate].
  - destruct (String.eqb k k0) eqn:E.
    + apply String.eqb_eq in E; subst. split; [eauto|auto].
    + split.
      * intros [H|H]; [subst; rewrite String.eqb_refl in E; discriminate|]. apply IH; assumption.
      * intros H. right. apply IH; assumption.
Qed.
Lemma keys_aset_present : forall (A : Type) k (v : A) l, In k (keys l) -> keys (aset k v l) = keys l.
Proof.
  induction l as [|[k0 v0] r IH]; simpl; intros H; [tauto|].
  destruct (String.eqb k k0) eqn:E; simpl.
  - apply String.eqb_eq in E; subst; reflexivity.
  - f_equal. apply IH. destruct H as [H|H]; [subst; rewrite String.eqb_refl in E; discriminate|assumption].
Qed.

Lemma set_nth_nth_same : forall (A : Type) i (v : A) l, i < List.length l -> nth_error (set_nth i v l) i = Some v.
Proof. induction i; destruct l; simpl; intros; try lia; [reflexivity|apply IHi; lia]. Qed.
Lemma set_nth_nth_other : forall (A : Type) i j (v : A) l, i <> j -> nth_error (set_nth i v l) j = nth_error l j.
Proof. induction i; destruct l; destruct j; simpl; intros; try reflexivity; try lia. apply IHi; lia. Qed.
Lemma set_nth_length : forall (A : Type) i (v : A) l, List.length (set_nth i v l) = List.length l.
Proof. induction i; destruct l; simpl; intros; auto. Qed.

(* ---------- identifiers and key strings ---------- *)
Definition colon : ascii := ":"%char.
Fixpoint no_colon (s : string) : bool :=
  match s with
  | EmptyString => true
  | String c r => negb (Ascii.eqb c colon) && no_colon r
  end.

Lemma append_assoc : forall a b c : string, (a +++ b) +++ c = a +++ (b +++ c).
Proof. induction a; simpl; intros; [reflexivity|rewrite IHa; reflexivity]. Qed.
Lemma no_colon_app : forall a b, no_colon (a +++ b) = no_colon a && no_colon b.
Proof. induction a; simpl; intros; [reflexivity|rewrite IHa, andb_assoc; reflexivity]. Qed.

(* a ++ "::" ++ b determines a and b when a contains no ':' *)
Lemma sep_inj : forall a a' b b', no_colon a = true -> no_colon a' = true ->
  a +++ "::" +++ b = a' +++ "::" +++ b' -> a = a' /\ b = b'.
Proof.
  induction a as [|c r IH]; destruct a' as [|c' r']; simpl; intros b b' Ha Ha' H.
  - inversion H; auto.
  - inversion H; subst c'. apply andb_true_iff in Ha' as [Hc _]. rewrite Ascii.eqb_refl in Hc. discriminate.
  - inversion H; subst c. apply andb_true_iff in Ha as [Hc _]. rewrite Ascii.eqb_refl in Hc. discriminate.
  - inversion H; subst c'. apply andb_true_iff in Ha as [_ Ha]. apply andb_true_iff in Ha' as [_ Ha'].
    destruct (IH r' b b' Ha Ha' H2) as [-> ->]. auto.
Qed.

Lemma method_key_inj : forall t m t' m', no_colon t = true -> no_colon t' = true ->
  method_key t m = method_key t' m' -> t = t' /\ m = m'.
Proof. unfold method_key; intros. eapply sep_inj; eauto. Qed.

Lemma static_key_inj : forall i t n i' t' n',
  no_colon i = true -> no_colon i' = true -> no_colon t = true -> no_colon t' = true ->
  static_key i t n = static_key i' t' n' -> i = i' /\ t = t' /\ n = n'.
Proof.
  unfold static_key; intros i t n i' t' n' Hi Hi' Ht Ht' H.
  simpl in H. inversion H as [H1]; clear H.
  destruct (sep_inj _ _ _ _ Hi Hi' H1) as [-> H2].
  destruct (sep_inj _ _ _ _ Ht Ht' H2) as [-> ->]. auto.
Qed.

Lemma no_colon_iface_key : forall i t m, no_colon i = true -> no_colon t = true -> no_colon m = true ->
  no_colon (iface_key i t m) = true.
Proof. unfold iface_key; intros. rewrite !no_colon_app, H, H0, H1. reflexivity. Qed.
Lemma has_colon_method_key : forall t m, no_colon (method_key t m) = false.
Proof. unfold method_key; intros. rewrite no_colon_app. simpl. apply andb_false_r. Qed.
Lemma method_key_not_iface_key : forall t m i t' m', no_colon i = true -> no_colon t' = true -> no_colon m' = true ->
  method_key t m <> iface_key i t' m'.
Proof.
  intros t m i t' m' Hi Ht Hm E.
  pose proof (has_colon_method_key t m) as H1. rewrite E, no_colon_iface_key in H1 by assumption. discriminate.
Qed.

(* ---------- extensional equality of maps ---------- *)
Definition eqmap {A : Type} (l l' : list (string * A)) : Prop := forall k, alookup k l = alookup k l'.
Lemma eqmap_refl : forall (A : Type) (l : list (string * A)), eqmap l l.
Proof. intros A l k; reflexivity. Qed.
Lemma eqmap_aset : forall (A : Type) k (v : A) l l', eqmap l l' -> eqmap (aset k v l) (aset k v l').
Proof. intros A k v l l' H k'. rewrite !alookup_aset, H. reflexivity. Qed.

(* ---------- counting ':' : T::m determines T and m as soon as ONE side consists of identifiers ---------- *)
Fixpoint ncolon (s : string) : nat :=
  match s with
  | EmptyString => 0
  | String c r => (if Ascii.eqb c colon then 1 else 0) + ncolon r
  end.
Lemma ncolon_app : forall a b, ncolon (a +++ b) = ncolon a + ncolon b.
Proof. induction a; simpl; intros; [reflexivity|rewrite IHa; lia]. Qed.
Lemma no_colon_ncolon : forall s, no_colon s = true <-> ncolon s = 0.
Proof.
  induction s as [|c r IH]; simpl; [tauto|].
  destruct (Ascii.eqb c colon); simpl; [split; [discriminate|lia]|exact IH].
Qed.
Lemma method_key_inj_r : forall t m t' m', no_colon t' = true -> no_colon m' = true ->
  method_key t m = method_key t' m' -> t = t' /\ m = m'.
Proof.
  intros t m t' m' Ht' Hm' E.
  assert (ncolon (method_key t m) = ncolon (method_key t' m')) as N by (rewrite E; reflexivity).
  unfold method_key in N. rewrite !ncolon_app in N. simpl in N.
  apply no_colon_ncolon in Ht'. apply no_colon_ncolon in Hm'.
  assert (ncolon t = 0) as Z by lia. apply no_colon_ncolon in Z. apply no_colon_ncolon in Ht'.
  eapply sep_inj; eauto.
Qed.
