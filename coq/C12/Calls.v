(* C12 - the call path: which body runs, what self is, where its writes go, which statics a call can
   touch, and rejection of types without an impl. *)
From Coq Require Import List Arith Bool Ascii String ZArith Lia Permutation.
From Cb Require Import C12.Model C12.Maps C12.Registry.
Import ListNotations.
Local Open Scope string_scope.
Local Open Scope list_scope.

(* ---------- which body runs ---------- *)
Lemma call_dispatches_l : forall ds r st rc l v t self enter d m arg,
  wf_impls ds -> register_all empty_registry ds = inl r -> s_funcs st = r_funcs r ->
  receiver (s_vars st) rc = Some (l, v, t, self, enter) ->
  In d ds -> i_type d = t -> In m (i_methods d) ->
  call st rc (m_name m) arg = invoke st l v self enter m arg.
Proof.
  intros ds r st rc l v t self enter d m arg W R F RC Hd Ht Hm.
  unfold call. rewrite RC, F. subst t. rewrite (dispatch_registered_l ds r d m W R Hd Hm). reflexivity.
Qed.

(* the receiver an interface variable denotes: its dynamic type is the implementing type it carries *)
Definition enter_of (i t : name) (p : payload) : option (name * name) :=
  match p with PStruct _ => Some (i, t) | PPrim _ => None end.
Lemma receiver_iface_var : forall vs x i t p, alookup x vs = Some (VIface i t p) ->
  receiver vs (RVar x) = Some (LVar x, VIface i t p, t, p, enter_of i t p).
Proof. intros. unfold receiver; simpl. rewrite H. destruct p; reflexivity. Qed.
Lemma receiver_conc_var : forall vs x t p, alookup x vs = Some (VConc t p) ->
  receiver vs (RVar x) = Some (LVar x, VConc t p, t, p, None).
Proof. intros. unfold receiver; simpl. rewrite H. reflexivity. Qed.
Lemma receiver_ptr : forall vs q x, alookup q vs = Some (VPtr x) -> receiver vs (RPtr q) = receiver vs (RVar x).
Proof. intros. unfold receiver; simpl. rewrite H. reflexivity. Qed.
Lemma receiver_elem : forall vs a t es k p, alookup a vs = Some (VArr t es) -> nth_error es k = Some p ->
  receiver vs (RElem a k) = Some (LElem a k, VConc t p, t, p, None).
Proof. intros. unfold receiver; simpl. rewrite H, H0. reflexivity. Qed.

(* whatever the receiver form, self is a copy of what the receiver holds at the time of the call *)
Definition payload_of (v : value) : option payload :=
  match v with VConc _ p => Some p | VIface _ _ p => Some p | _ => None end.
Definition dyn_type (v : value) : option name :=
  match v with VConc t _ => Some t | VIface _ t _ => Some t | _ => None end.
Lemma receiver_current_l : forall vs rc l v t self enter,
  receiver vs rc = Some (l, v, t, self, enter) ->
  read vs l = Some v /\ payload_of v = Some self /\ dyn_type v = Some t /\
  match rc with
  | RVar x => l = LVar x
  | RPtr q => exists x, alookup q vs = Some (VPtr x) /\ l = LVar x
  | RElem a k => l = LElem a k
  end.
Proof.
  unfold receiver; intros vs rc l v t self enter H.
  destruct (resolve vs rc) as [l0|] eqn:RS; [|discriminate].
  destruct (read vs l0) as [v0|] eqn:RD; [|discriminate].
  destruct (obj_of v0) as [[[t0 s0] e0]|] eqn:OB; [|discriminate].
  inversion H; subst; clear H.
  split; [assumption|].
  assert (payload_of v = Some self /\ dyn_type v = Some t) as [A B].
  { destruct v as [t1 p1|i1 t1 p1| |]; simpl in OB; try discriminate.
    - inversion OB; subst; auto.
    - destruct p1; inversion OB; subst; auto. }
  split; [assumption|split; [assumption|]].
  destruct rc; simpl in RS.
  - inversion RS; reflexivity.
  - destruct (alookup p vs) as [[| |x|]|] eqn:P; try discriminate. inversion RS. eauto.
  - inversion RS; reflexivity.
Qed.

(* ---------- read / write on cells ---------- *)
Definition disjoint (l l' : loc) : Prop :=
  match l, l' with
  | LVar x, LVar y => x <> y
  | LVar x, LElem a _ => x <> a
  | LElem a _, LVar x => a <> x
  | LElem a i, LElem b j => a <> b \/ i <> j
  end.

Lemma read_write_same : forall vs l v p, read vs l = Some v -> (exists t p0, v = VConc t p0) \/ (exists i t p0, v = VIface i t p0) ->
  read (write vs l (with_payload v p)) l = Some (with_payload v p).
Proof.
  intros vs l v p R K. destruct l as [x|a k]; simpl in *.
  - apply alookup_aset_same.
  - destruct (alookup a vs) as [[| | |t es]|] eqn:A; try discriminate.
    destruct (nth_error es k) as [p0|] eqn:N; [|discriminate]. inversion R; subst v. simpl.
    rewrite alookup_aset_same. rewrite set_nth_nth_same; [reflexivity|].
    apply nth_error_Some. congruence.
Qed.

Lemma read_write_other : forall vs l l' v, disjoint l l' -> read (write vs l v) l' = read vs l'.
Proof.
  intros vs l l' v D. destruct l as [x|a k]; destruct l' as [y|b j]; simpl in *.
  - apply alookup_aset_other; auto.
  - rewrite alookup_aset_other by auto. reflexivity.
  - destruct (alookup a vs) as [[| | |t es]|] eqn:A; try reflexivity.
    destruct v; try reflexivity. apply alookup_aset_other; auto.
  - destruct (alookup a vs) as [[| | |t es]|] eqn:A; try reflexivity.
    destruct v as [t' p| | |]; try reflexivity.
    destruct (String.eqb b a) eqn:E.
    + apply String.eqb_eq in E; subst b. rewrite alookup_aset_same, A.
      destruct D as [D|D]; [congruence|]. rewrite set_nth_nth_other by auto. reflexivity.
    + rewrite alookup_aset_other; [reflexivity|]. intros ->. rewrite String.eqb_refl in E. discriminate.
Qed.

(* ---------- invoke: self in, self out ---------- *)
Definition frame0 (st : state) (self : payload) (enter : option (name * name)) (arg : Z) : frame :=
  {| f_self := self; f_arg := arg; f_statics := s_statics st;
     f_ctx := match enter with Some c => Some c | None => s_ctx st end; f_out := s_out st |}.

Lemma invoke_ok_inv : forall st l v self enter meth arg st' z,
  invoke st l v self enter meth arg = Ok (st', z) ->
  exists fr', exec_body (frame0 st self enter arg) (m_body meth) = inl fr' /\
              eval_ret fr' (m_ret meth) = inl z /\
              s_vars st' = write (s_vars st) l (with_payload v (f_self fr')) /\
              s_statics st' = f_statics fr' /\ s_out st' = f_out fr' /\
              s_funcs st' = s_funcs st /\ s_impls st' = s_impls st /\
              s_ctx st' = match enter with Some _ => None | None => s_ctx st end.
Proof.
  unfold invoke, frame0; intros st l v self enter meth arg st' z H.
  destruct (exec_body _ (m_body meth)) as [fr'|[o x]] eqn:B; [|discriminate].
  destruct (eval_ret fr' (m_ret meth)) as [z0|x] eqn:E; [|discriminate].
  inversion H; subst; clear H. exists fr'. simpl. repeat split; auto.
Qed.

(* ---------- statics: what a body can touch ---------- *)
Definition ctx_keys (c : option (name * name)) (k : string) : Prop := exists n, static_name c n = Some k.

Lemma exec_stmt_frame : forall fr s fr', exec_stmt fr s = inl fr' ->
  f_ctx fr' = f_ctx fr /\ f_arg fr' = f_arg fr /\
  keys (f_statics fr') = keys (f_statics fr) /\
  (forall k, ~ ctx_keys (f_ctx fr) k -> alookup k (f_statics fr') = alookup k (f_statics fr)).
Proof.
  intros fr s fr' H. destruct s as [f e|n e|tag es]; simpl in H.
  - destruct (eval fr e); [|discriminate]. destruct (f_self fr); [|discriminate].
    destruct (alookup f fs); [|discriminate]. destruct (int_ok z); [|discriminate].
    inversion H; subst; simpl. auto.
  - destruct (eval fr e); [|discriminate].
    destruct (static_name (f_ctx fr) n) as [k|] eqn:SN; [|discriminate].
    destruct (alookup k (f_statics fr)) eqn:A; [|discriminate]. destruct (int_ok z); [|discriminate].
    inversion H; subst; simpl. split; [reflexivity|split; [reflexivity|split]].
    + apply keys_aset_present. apply alookup_in_keys. eauto.
    + intros k' NK. apply alookup_aset_other. intros ->. apply NK. exists n. assumption.
  - destruct (eval_list fr es); [|discriminate]. inversion H; subst; simpl. auto.
Qed.

Lemma exec_body_frame : forall b fr fr', exec_body fr b = inl fr' ->
  f_ctx fr' = f_ctx fr /\ f_arg fr' = f_arg fr /\
  keys (f_statics fr') = keys (f_statics fr) /\
  (forall k, ~ ctx_keys (f_ctx fr) k -> alookup k (f_statics fr') = alookup k (f_statics fr)).
Proof.
  induction b as [|s b IH]; simpl; intros fr fr' H.
  - inversion H; subst. auto.
  - destruct (exec_stmt fr s) as [fr1|] eqn:S; [|discriminate].
    destruct (exec_stmt_frame _ _ _ S) as [C1 [A1 [K1 F1]]].
    destruct (IH _ _ H) as [C2 [A2 [K2 F2]]].
    split; [congruence|split; [congruence|split; [congruence|]]].
    intros k NK. rewrite F2 by (rewrite C1; assumption). apply F1; assumption.
Qed.

(* with no impl context no static can even be read, let alone written *)
Lemma exec_body_no_ctx : forall b fr fr', f_ctx fr = None -> exec_body fr b = inl fr' -> f_statics fr' = f_statics fr.
Proof.
  induction b as [|s b IH]; simpl; intros fr fr' C H.
  - inversion H; reflexivity.
  - destruct (exec_stmt fr s) as [fr1|] eqn:S; [|discriminate].
    assert (f_statics fr1 = f_statics fr /\ f_ctx fr1 = None) as [E1 C1].
    { destruct s as [f e|n e|tag es]; simpl in S.
      - destruct (eval fr e); [|discriminate]. destruct (f_self fr); [|discriminate].
        destruct (alookup f fs); [|discriminate]. destruct (int_ok z); [|discriminate]. inversion S; subst; simpl; auto.
      - destruct (eval fr e); [|discriminate]. rewrite C in S. simpl in S. discriminate.
      - destruct (eval_list fr es); [|discriminate]. inversion S; subst; simpl; auto. }
    rewrite <- E1. apply IH; assumption.
Qed.

Lemma call_ok_inv : forall st rc m arg st' z, call st rc m arg = Ok (st', z) ->
  exists l v t self enter meth,
    receiver (s_vars st) rc = Some (l, v, t, self, enter) /\
    alookup (method_key t m) (s_funcs st) = Some meth /\
    invoke st l v self enter meth arg = Ok (st', z).
Proof.
  unfold call; intros st rc m arg st' z H.
  destruct (receiver (s_vars st) rc) as [[[[[l v] t] self] enter]|] eqn:RC; [|discriminate].
  destruct (alookup (method_key t m) (s_funcs st)) as [meth|] eqn:F; [|discriminate].
  exists l, v, t, self, enter, meth. auto.
Qed.

(* a call can only change the statics of the pair whose context it runs in; the key set never changes *)
Lemma call_statics_l : forall st rc m arg st' z, call st rc m arg = Ok (st', z) ->
  keys (s_statics st') = keys (s_statics st) /\
  forall l v t self enter, receiver (s_vars st) rc = Some (l, v, t, self, enter) ->
    forall k, ~ ctx_keys (match enter with Some c => Some c | None => s_ctx st end) k ->
      alookup k (s_statics st') = alookup k (s_statics st).
Proof.
  intros st rc m arg st' z H.
  destruct (call_ok_inv _ _ _ _ _ _ H) as [l [v [t [self [enter [meth [RC [F I]]]]]]]].
  destruct (invoke_ok_inv _ _ _ _ _ _ _ _ _ I) as [fr' [B [_ [_ [S _]]]]].
  destruct (exec_body_frame _ _ _ B) as [_ [_ [K FR]]]. simpl in K, FR.
  split; [rewrite S; assumption|].
  intros l0 v0 t0 self0 enter0 RC0 k NK. rewrite RC in RC0. inversion RC0; subst.
  rewrite S. apply FR. assumption.
Qed.

Lemma ctx_keys_other_pair : forall i t i' t' n', no_colon i = true -> no_colon i' = true ->
  no_colon t = true -> no_colon t' = true -> (i', t') <> (i, t) -> ~ ctx_keys (Some (i, t)) (static_key i' t' n').
Proof.
  intros i t i' t' n' Hi Hi' Ht Ht' NE [n H]. unfold static_name in H.
  assert (static_key i t n = static_key i' t' n') as E by congruence.
  apply static_key_inj in E as [-> [-> _]]; auto.
Qed.

(* ---------- binding ---------- *)
Definition src_view (v : value) : option (name * payload) :=
  match v with VConc t p => Some (t, p) | VIface _ t p => Some (t, p) | _ => None end.

Lemma bind_ok_inv : forall st x i src st', bind st x i src = Ok st' ->
  exists sv t p, alookup src (s_vars st) = Some sv /\ src_view sv = Some (t, p) /\
    impl_exists (s_impls st) i t = true /\
    st' = set_vars st (aset x (VIface i t p) (s_vars st)).
Proof.
  unfold bind; intros st x i src st' H.
  destruct (alookup src (s_vars st)) as [sv|] eqn:S; [|discriminate].
  destruct sv as [t p|i0 t p|y|t es]; try discriminate.
  - destruct (impl_exists (s_impls st) i t) eqn:E; simpl in H; [|discriminate].
    exists (VConc t p), t, p. repeat split; auto.
    destruct (alookup x (s_vars st)) as [[| i' t' p'| |]|]; try discriminate.
    + destruct (String.eqb i' i && Bool.eqb (payload_kind p') (payload_kind p)); inversion H; reflexivity.
    + inversion H; reflexivity.
  - destruct (impl_exists (s_impls st) i t) eqn:E; simpl in H; [|discriminate].
    exists (VIface i0 t p), t, p. repeat split; auto.
    destruct (alookup x (s_vars st)) as [[| i' t' p'| |]|]; try discriminate.
    + destruct (String.eqb i' i && Bool.eqb (payload_kind p') (payload_kind p)); inversion H; reflexivity.
    + inversion H; reflexivity.
Qed.

Lemma bind_no_impl_l : forall st x i src sv t p, alookup src (s_vars st) = Some sv -> src_view sv = Some (t, p) ->
  impl_exists (s_impls st) i t = false -> bind st x i src = Fail (s_out st) (ENoImpl i t).
Proof.
  unfold bind; intros st x i src sv t p S V E. rewrite S.
  destruct sv as [t0 p0|i0 t0 p0|y|t0 es]; simpl in V; try discriminate; inversion V; subst; rewrite E; reflexivity.
Qed.

Lemma impl_exists_false : forall ds i t, (forall d, In d ds -> ~ (i_iface d = i /\ i_type d = t)) -> impl_exists ds i t = false.
Proof.
  intros ds i t H. unfold impl_exists. destruct (existsb (same_pair i t) ds) eqn:E; [|reflexivity].
  apply existsb_exists in E as [d [Hd S]]. unfold same_pair in S. apply andb_true_iff in S as [A B].
  apply String.eqb_eq in A. apply String.eqb_eq in B. exfalso. apply (H d Hd). auto.
Qed.
Lemma impl_exists_true : forall ds i t, impl_exists ds i t = true -> exists d, In d ds /\ i_iface d = i /\ i_type d = t.
Proof.
  intros ds i t E. apply existsb_exists in E as [d [Hd S]]. unfold same_pair in S. apply andb_true_iff in S as [A B].
  apply String.eqb_eq in A. apply String.eqb_eq in B. eauto.
Qed.

(* ---------- whole histories: the static key set is an invariant ---------- *)
Lemma run_calls_keys : forall cs st tag rc d st', run_calls st tag rc d cs = Ok st' ->
  keys (s_statics st') = keys (s_statics st).
Proof.
  induction cs as [|[m c] cs IH]; simpl; intros st tag rc d st' H.
  - inversion H; reflexivity.
  - destruct (call st rc m (d + c)%Z) as [[st1 z]|] eqn:C; [|discriminate].
    apply IH in H. simpl in H. rewrite H. apply (call_statics_l _ _ _ _ _ _ C).
Qed.

Lemma step_keys : forall hs st o st', step hs st o = Ok st' -> keys (s_statics st') = keys (s_statics st).
Proof.
  intros hs st o st' H. destruct o; cbn [step] in H.
  - apply bind_ok_inv in H as [sv [t [p [_ [_ [_ ->]]]]]]. reflexivity.
  - destruct (alookup x (s_vars st)); inversion H; reflexivity.
  - destruct (call st r m arg) as [[st1 z]|] eqn:C; [|discriminate]. inversion H; subst; simpl.
    apply (call_statics_l _ _ _ _ _ _ C).
  - destruct (find _ hs) as [hh|]; [|discriminate].
    match type of H with match ?E with _ => _ end = _ => destruct E as [st1|] eqn:EN; [|discriminate] end.
    destruct (run_calls st1 h (RVar (h_param hh)) d (h_calls hh)) as [st2|] eqn:RCs; [|discriminate].
    inversion H; subst; simpl. apply run_calls_keys in RCs. rewrite RCs.
    destruct (h_iface hh).
    + apply bind_ok_inv in EN as [sv [t [p [_ [_ [_ ->]]]]]]. reflexivity.
    + destruct (alookup src (s_vars st)) as [[| | |]|]; inversion EN; reflexivity.
  - destruct (alookup x (s_vars st)) as [[t [fs|v]| | |]|]; try discriminate.
    + destruct (alookup f fs); inversion H; reflexivity.
    + inversion H; reflexivity.
  - destruct (read (s_vars st) (LElem a i)) as [[t [fs|v]| | |]|]; try discriminate.
    destruct (alookup f fs); inversion H; reflexivity.
  - destruct (alookup x (s_vars st)) as [[| | |]|]; inversion H; reflexivity.
Qed.

Lemma run_ops_keys : forall hs os st st', run_ops hs st os = Ok st' -> keys (s_statics st') = keys (s_statics st).
Proof.
  induction os as [|o os IH]; simpl; intros st st' H.
  - inversion H; reflexivity.
  - destruct (step hs st o) as [st1|] eqn:S; [|discriminate].
    rewrite (IH _ _ H). eapply step_keys; eauto.
Qed.

(* operations other than calls do not touch the statics at all *)
Lemma step_noncall_statics : forall hs st o st', step hs st o = Ok st' ->
  match o with OCall _ _ _ | OVia _ _ _ => True | _ => s_statics st' = s_statics st end.
Proof.
  intros hs st o st' H. destruct o; cbn [step] in H; auto.
  - apply bind_ok_inv in H as [sv [t [p [_ [_ [_ ->]]]]]]. reflexivity.
  - destruct (alookup x (s_vars st)); inversion H; reflexivity.
  - destruct (alookup x (s_vars st)) as [[t [fs|v]| | |]|]; try discriminate.
    + destruct (alookup f fs); inversion H; reflexivity.
    + inversion H; reflexivity.
  - destruct (read (s_vars st) (LElem a i)) as [[t [fs|v]| | |]|]; try discriminate.
    destruct (alookup f fs); inversion H; reflexivity.
  - destruct (alookup x (s_vars st)) as [[| | |]|]; inversion H; reflexivity.
Qed.

(* every declared static is in the table after registration *)
Lemma add_statics_keys_mono : forall d ss k, In k (keys ss) -> In k (keys (add_statics d ss)).
Proof.
  intros d. unfold add_statics. induction (i_statics d) as [|[n z] l IH]; simpl; intros ss k H; [assumption|].
  apply IH. apply alookup_in_keys. rewrite alookup_aset. destruct (String.eqb k _); [eauto|].
  apply alookup_in_keys; assumption.
Qed.
Lemma add_statics_keys_new : forall d ss nz, In nz (i_statics d) ->
  In (static_key (i_iface d) (i_type d) (fst nz)) (keys (add_statics d ss)).
Proof.
  intros d. unfold add_statics. induction (i_statics d) as [|[n z] l IH]; simpl; intros ss nz H; [tauto|].
  destruct H as [<-|H].
  - simpl.
    assert (forall l0 (ss0 : list (string * Z)) k, In k (keys ss0) ->
      In k (keys (fold_left (fun acc (nz : name * Z) => aset (static_key (i_iface d) (i_type d) (fst nz)) (snd nz) acc) l0 ss0))) as M.
    { induction l0 as [|[n' z'] l0 IH0]; simpl; intros; [assumption|].
      apply IH0. apply alookup_in_keys. rewrite alookup_aset. destruct (String.eqb k _); [eauto|]. apply alookup_in_keys; assumption. }
    apply M. apply alookup_in_keys. rewrite alookup_aset_same. eauto.
  - apply IH; assumption.
Qed.
Lemma fold_add_statics_mono : forall ds ss k, In k (keys ss) -> In k (keys (fold_left (fun ss d => add_statics d ss) ds ss)).
Proof. induction ds as [|d ds IH]; simpl; intros; [assumption|]. apply IH. apply add_statics_keys_mono; assumption. Qed.
Lemma fold_add_statics_new : forall ds ss d nz, In d ds -> In nz (i_statics d) ->
  In (static_key (i_iface d) (i_type d) (fst nz)) (keys (fold_left (fun ss d => add_statics d ss) ds ss)).
Proof.
  induction ds as [|e ds IH]; simpl; intros ss d nz Hd Hn; [tauto|].
  destruct Hd as [->|Hd].
  - apply fold_add_statics_mono. apply add_statics_keys_new; assumption.
  - apply IH; assumption.
Qed.

Lemma register_all_impls : forall ds r, wf_impls ds -> register_all empty_registry ds = inl r ->
  r_impls r = ds /\ r_statics r = fold_left (fun ss d => add_statics d ss) ds [].
Proof.
  intros ds r W R. destruct empty_ok as [A [B C]].
  destruct (register_all_inv _ _ _ W C A B R) as [_ [_ [I S]]]. simpl in I, S. auto.
Qed.
