(* C12 - the call path: which body runs, what self is, where its writes go, the impl-context stack, which
   statics a call (nested to any depth) can touch, and rejection of types without an impl. *)
From Coq Require Import List Arith Bool Ascii String ZArith Lia Permutation.
From Cb Require Import C12.Model C12.Maps C12.Registry.
Import ListNotations.
Local Open Scope string_scope.
Local Open Scope list_scope.

(* ---------- which body runs ---------- *)
Lemma call_g_dispatches_l : forall run ds r st rc l v t self d m arg,
  wf_impls ds -> register_all empty_registry ds = inl r -> s_funcs st = r_funcs r ->
  receiver (s_vars st) rc = Some (l, v, t, self) ->
  In d ds -> i_type d = t -> In m (i_methods d) ->
  call_g run st rc (m_name m) arg = invoke_g run st l v t self (mk_entry d m) arg.
Proof.
  intros run ds r st rc l v t self d m arg W R F RC Hd Ht Hm.
  unfold call_g. rewrite RC, F. subst t. rewrite (dispatch_registered_l ds r d m W R Hd Hm). reflexivity.
Qed.
Lemma call_dispatches_l : forall n hs ds r st rc l v t self d m arg,
  wf_impls ds -> register_all empty_registry ds = inl r -> s_funcs st = r_funcs r ->
  receiver (s_vars st) rc = Some (l, v, t, self) ->
  In d ds -> i_type d = t -> In m (i_methods d) ->
  call n hs st rc (m_name m) arg = invoke n hs st l v t self (mk_entry d m) arg.
Proof. intros. unfold call, invoke. eapply call_g_dispatches_l; eauto. Qed.

(* the receiver an interface variable denotes: its dynamic type is the implementing type it carries *)
Lemma receiver_iface_var : forall vs x i t p, alookup x vs = Some (VIface i t p) ->
  receiver vs (RVar x) = Some (LVar x, VIface i t p, t, p).
Proof. intros. unfold receiver; simpl. rewrite H. reflexivity. Qed.
Lemma receiver_conc_var : forall vs x t p, alookup x vs = Some (VConc t p) ->
  receiver vs (RVar x) = Some (LVar x, VConc t p, t, p).
Proof. intros. unfold receiver; simpl. rewrite H. reflexivity. Qed.
Lemma receiver_ptr : forall vs q x, alookup q vs = Some (VPtr x) -> receiver vs (RPtr q) = receiver vs (RVar x).
Proof. intros. unfold receiver; simpl. rewrite H. reflexivity. Qed.
Lemma receiver_elem : forall vs a t es k p, alookup a vs = Some (VArr t es) -> nth_error es k = Some p ->
  receiver vs (RElem a k) = Some (LElem a k, VConc t p, t, p).
Proof. intros. unfold receiver; simpl. rewrite H, H0. reflexivity. Qed.

(* whatever the receiver form, self is a copy of what the receiver holds at the time of the call *)
Definition payload_of (v : value) : option payload :=
  match v with VConc _ p => Some p | VIface _ _ p => Some p | _ => None end.
Definition dyn_type (v : value) : option name :=
  match v with VConc t _ => Some t | VIface _ t _ => Some t | _ => None end.
Lemma receiver_current_l : forall vs rc l v t self,
  receiver vs rc = Some (l, v, t, self) ->
  read vs l = Some v /\ payload_of v = Some self /\ dyn_type v = Some t /\
  match rc with
  | RVar x => l = LVar x
  | RPtr q => exists x, alookup q vs = Some (VPtr x) /\ l = LVar x
  | RElem a k => l = LElem a k
  end.
Proof.
  unfold receiver; intros vs rc l v t self H.
  destruct (resolve vs rc) as [l0|] eqn:RS; [|discriminate].
  destruct (read vs l0) as [v0|] eqn:RD; [|discriminate].
  destruct (obj_of v0) as [[t0 s0]|] eqn:OB; [|discriminate].
  inversion H; subst; clear H.
  split; [assumption|].
  assert (payload_of v = Some self /\ dyn_type v = Some t) as [A B].
  { destruct v as [t1 p1|i1 t1 p1| |]; simpl in OB; try discriminate; inversion OB; subst; auto. }
  split; [assumption|split; [assumption|]].
  destruct rc; simpl in RS.
  - inversion RS; reflexivity.
  - destruct (alookup p vs) as [[| |x|]|] eqn:P; try discriminate. inversion RS. eauto.
  - inversion RS; reflexivity.
Qed.

(* ---------- read / write on cells ---------- *)
Definition disjoint (l l' : loc) : Prop :=
  match l, l' with
  | LVar x, LVar y => x <> y
  | LVar x, LElem a _ => x <> a
  | LElem a _, LVar x => a <> x
  | LElem a i, LElem b j => a <> b \/ i <> j
  end.

Lemma read_write_same : forall vs l v p, read vs l = Some v -> (exists t p0, v = VConc t p0) \/ (exists i t p0, v = VIface i t p0) ->
  read (write vs l (with_payload v p)) l = Some (with_payload v p).
Proof.
  intros vs l v p R K. destruct l as [x|a k]; simpl in *.
  - apply alookup_aset_same.
  - destruct (alookup a vs) as [[| | |t es]|] eqn:A; try discriminate.
    destruct (nth_error es k) as [p0|] eqn:N; [|discriminate]. inversion R; subst v. simpl.
    rewrite alookup_aset_same. rewrite set_nth_nth_same; [reflexivity|].
    apply nth_error_Some. congruence.
Qed.

Lemma read_write_other : forall vs l l' v, disjoint l l' -> read (write vs l v) l' = read vs l'.
Proof.
  intros vs l l' v D. destruct l as [x|a k]; destruct l' as [y|b j]; simpl in *.
  - apply alookup_aset_other; auto.
  - rewrite alookup_aset_other by auto. reflexivity.
  - destruct (alookup a vs) as [[| | |t es]|] eqn:A; try reflexivity.
    destruct v; try reflexivity. apply alookup_aset_other; auto.
  - destruct (alookup a vs) as [[| | |t es]|] eqn:A; try reflexivity.
    destruct v as [t' p| | |]; try reflexivity.
    destruct (String.eqb b a) eqn:E.
    + apply String.eqb_eq in E; subst b. rewrite alookup_aset_same, A.
      destruct D as [D|D]; [congruence|]. rewrite set_nth_nth_other by auto. reflexivity.
    + rewrite alookup_aset_other; [reflexivity|]. intros ->. rewrite String.eqb_refl in E. discriminate.
Qed.

(* ---------- the impl-context stack (static.cpp enter_impl_context / exit_impl_context) ---------- *)
(* an inactive context has nothing saved (true initially; enter makes the context active) *)
Definition wf_ctx (c : ictx) : Prop := c_cur c = None -> c_stack c = [].
Lemma wf_ctx0 : wf_ctx ctx0.
Proof. intros _. reflexivity. Qed.
Lemma wf_enter : forall c p, wf_ctx (enter_ctx c p).
Proof. intros c p H. discriminate. Qed.
Lemma enter_cur : forall c p, c_cur (enter_ctx c p) = Some p.
Proof. reflexivity. Qed.
Lemma exit_enter : forall c p, wf_ctx c -> exit_ctx (enter_ctx c p) = c.
Proof.
  intros [[q|] stk] p W; unfold enter_ctx, exit_ctx; simpl.
  - reflexivity.
  - unfold wf_ctx in W. simpl in W. rewrite (W eq_refl). reflexivity.
Qed.

(* any well-nested history of enter / exit leaves the context (current pair AND saved stack) as it was *)
Inductive cact := CEnter (p : name * name) | CExit.
Definition do_act (c : ictx) (a : cact) : ictx := match a with CEnter p => enter_ctx c p | CExit => exit_ctx c end.
Definition run_acts (c : ictx) (w : list cact) : ictx := fold_left do_act w c.
Inductive balanced : list cact -> Prop :=
| bal_nil : balanced []
| bal_call : forall p w1 w2, balanced w1 -> balanced w2 -> balanced (CEnter p :: w1 ++ CExit :: w2).
Lemma balanced_restores : forall w, balanced w -> forall c, wf_ctx c -> run_acts c w = c.
Proof.
  induction 1 as [|p w1 w2 B1 IH1 B2 IH2]; intros c W; [reflexivity|].
  unfold run_acts. simpl. rewrite fold_left_app. simpl.
  fold (run_acts (enter_ctx c p) w1). rewrite (IH1 _ (wf_enter c p)).
  rewrite (exit_enter c p W). apply IH2; assumption.
Qed.
(* ... and inside the nesting the current pair is the one entered last *)
Lemma balanced_inner_cur : forall w c p, balanced w -> c_cur (run_acts (enter_ctx c p) w) = Some p.
Proof. intros w c p B. rewrite (balanced_restores w B _ (wf_enter c p)). reflexivity. Qed.

(* ---------- inversion of the call path ---------- *)
Lemma invoke_g_ok_inv : forall run st l v t self fe arg st' z,
  invoke_g run st l v t self fe arg = Ok (st', z) ->
  exists fr', run fe t self arg st = inl (fr', z) /\
              s_vars st' = write (s_vars st) l (with_payload v (f_self fr')) /\
              s_statics st' = f_statics fr' /\ s_out st' = f_out fr' /\
              s_funcs st' = s_funcs st /\ s_impls st' = s_impls st /\ s_ctx st' = exit_ctx (f_ctx fr').
Proof.
  unfold invoke_g; intros run st l v t self fe arg st' z H.
  destruct (run fe t self arg st) as [[fr' z0]|[o x]] eqn:B; [|discriminate].
  inversion H; subst; clear H. exists fr'. simpl. repeat split; auto.
Qed.
Lemma call_g_ok_inv : forall run st rc m arg st' z, call_g run st rc m arg = Ok (st', z) ->
  exists l v t self fe,
    receiver (s_vars st) rc = Some (l, v, t, self) /\
    alookup (method_key t m) (s_funcs st) = Some fe /\
    invoke_g run st l v t self fe arg = Ok (st', z).
Proof.
  unfold call_g; intros run st rc m arg st' z H.
  destruct (receiver (s_vars st) rc) as [[[[l v] t] self]|] eqn:RC; [|discriminate].
  destruct (alookup (method_key t m) (s_funcs st)) as [fe|] eqn:F; [|discriminate].
  exists l, v, t, self, fe. auto.
Qed.
Lemma run_method_g_inv : forall run hs fe t self arg st fr' z, run_method_g run hs fe t self arg st = inl (fr', z) ->
  exec_body run hs st t (frame0 fe self arg st) (m_body (fe_meth fe)) = inl fr' /\
  (if m_void (fe_meth fe) then z = 0%Z else eval fr' (m_ret (fe_meth fe)) = inl z).
Proof.
  unfold run_method_g; intros run hs fe t self arg st fr' z H.
  destruct (exec_body run hs st t _ (m_body (fe_meth fe))) as [fr1|x] eqn:B; [|discriminate].
  destruct (m_void (fe_meth fe)).
  - inversion H; subst. auto.
  - destruct (eval fr1 (m_ret (fe_meth fe))) as [z1|x] eqn:E; [|discriminate].
    destruct (int_ok z1); [|discriminate]. inversion H; subst. auto.
Qed.
Lemma nested_self_g_inv : forall run g t m z fr fr1 r, nested_self_g run g t m z fr = inl (fr1, r) ->
  exists fe fr', alookup (method_key t m) (s_funcs g) = Some fe /\
    run fe t (f_self fr) z (st_of g fr) = inl (fr', r) /\
    fr1 = {| f_self := if m_void (fe_meth fe) then f_self fr' else f_self fr; f_arg := f_arg fr; f_vars := f_vars fr;
             f_statics := f_statics fr'; f_ctx := exit_ctx (f_ctx fr'); f_out := f_out fr' |}.
Proof.
  unfold nested_self_g; intros run g t m z fr fr1 r H.
  destruct (alookup (method_key t m) (s_funcs g)) as [fe|]; [|discriminate].
  destruct (run fe t (f_self fr) z (st_of g fr)) as [[fr' z0]|] eqn:R; [|discriminate].
  inversion H; subst. eauto.
Qed.

(* ---------- what every call preserves: the impl context, the set of static cells, the tables ---------- *)
Definition run_basic (run : runner) : Prop := forall fe t self arg st fr' z,
  wf_ctx (s_ctx st) -> run fe t self arg st = inl (fr', z) ->
  exit_ctx (f_ctx fr') = s_ctx st /\ keys (f_statics fr') = keys (s_statics st).
Definition call_basic (call : caller) : Prop := forall st r m arg st' z,
  wf_ctx (s_ctx st) -> call st r m arg = Ok (st', z) ->
  s_ctx st' = s_ctx st /\ keys (s_statics st') = keys (s_statics st) /\ s_funcs st' = s_funcs st /\ s_impls st' = s_impls st.

Lemma call_g_basic : forall run, run_basic run -> call_basic (call_g run).
Proof.
  intros run RB st r m arg st' z W H.
  destruct (call_g_ok_inv _ _ _ _ _ _ _ H) as [l [v [t [self [fe [_ [_ IV]]]]]]].
  destruct (invoke_g_ok_inv _ _ _ _ _ _ _ _ _ _ IV) as [fr' [B [_ [S [_ [F [I C]]]]]]].
  destruct (RB _ _ _ _ _ _ _ W B) as [E K]. rewrite C, S. auto.
Qed.

Definition src_view (v : value) : option (name * payload) :=
  match v with VConc t p => Some (t, p) | VIface _ t p => Some (t, p) | _ => None end.

Lemma bind_ok_inv : forall st x i src st', bind st x i src = Ok st' ->
  exists sv t p, alookup src (s_vars st) = Some sv /\ src_view sv = Some (t, p) /\
    impl_exists (s_impls st) i t = true /\
    st' = set_vars st (aset x (VIface i t p) (s_vars st)).
Proof.
  unfold bind; intros st x i src st' H.
  destruct (alookup src (s_vars st)) as [sv|] eqn:S; [|discriminate].
  destruct sv as [t p|i0 t p|y|t es]; try discriminate.
  - destruct (impl_exists (s_impls st) i t) eqn:E; simpl in H; [|discriminate].
    exists (VConc t p), t, p. repeat split; auto.
    destruct (alookup x (s_vars st)) as [[| i' t' p'| |]|]; try discriminate.
    + destruct (String.eqb i' i && Bool.eqb (payload_kind p') (payload_kind p)); inversion H; reflexivity.
    + inversion H; reflexivity.
  - destruct (impl_exists (s_impls st) i t) eqn:E; simpl in H; [|discriminate].
    exists (VIface i0 t p), t, p. repeat split; auto.
    destruct (alookup x (s_vars st)) as [[| i' t' p'| |]|]; try discriminate.
    + destruct (String.eqb i' i && Bool.eqb (payload_kind p') (payload_kind p)); inversion H; reflexivity.
    + inversion H; reflexivity.
Qed.

(* the facts `call_basic` speaks about, as one relation between states *)
Definition same_frame (st st' : state) : Prop :=
  s_ctx st' = s_ctx st /\ keys (s_statics st') = keys (s_statics st) /\ s_funcs st' = s_funcs st /\ s_impls st' = s_impls st.
Lemma same_frame_refl : forall st, same_frame st st.
Proof. intros; repeat split. Qed.
Lemma same_frame_trans : forall a b c, same_frame a b -> same_frame b c -> same_frame a c.
Proof. intros a b c [A1 [A2 [A3 A4]]] [B1 [B2 [B3 B4]]]. repeat split; congruence. Qed.
Lemma same_frame_set_vars : forall st vs, same_frame st (set_vars st vs).
Proof. intros; repeat split. Qed.
Lemma same_frame_emit : forall st l, same_frame st (emit st l).
Proof. intros; repeat split. Qed.

Lemma run_calls_g_basic : forall call, call_basic call -> forall cs st tag rc d st',
  wf_ctx (s_ctx st) -> run_calls_g call st tag rc d cs = Ok st' -> same_frame st st'.
Proof.
  intros call CB. induction cs as [|[m c] cs IH]; simpl; intros st tag rc d st' W H.
  - inversion H; subst. apply same_frame_refl.
  - destruct (call st rc m (d + c)%Z) as [[st1 z]|] eqn:C; [|discriminate].
    pose proof (CB _ _ _ _ _ _ W C) as SF.
    eapply same_frame_trans; [exact SF|].
    eapply same_frame_trans; [apply (same_frame_emit st1 (tag, [z]))|].
    apply (IH _ _ _ _ _ ) with (2 := H). simpl. destruct SF as [-> _]. assumption.
Qed.

Lemma step_g_basic : forall call hs, call_basic call -> forall st o st',
  wf_ctx (s_ctx st) -> step_g call hs st o = Ok st' -> same_frame st st'.
Proof.
  intros call hs CB st o st' W H. destruct o; cbn [step_g] in H.
  - apply bind_ok_inv in H as [sv [t [p [_ [_ [_ ->]]]]]]. apply same_frame_set_vars.
  - destruct (alookup x (s_vars st)); inversion H; subst. apply same_frame_set_vars.
  - destruct (call st r m arg) as [[st1 z]|] eqn:C; [|discriminate]. inversion H; subst.
    eapply same_frame_trans; [exact (CB _ _ _ _ _ _ W C)|apply same_frame_emit].
  - destruct (find _ hs) as [hh|]; [|discriminate].
    match type of H with match ?E with _ => _ end = _ => destruct E as [st1|] eqn:EN; [|discriminate] end.
    destruct (run_calls_g call st1 h (RVar (h_param hh)) d (h_calls hh)) as [st2|] eqn:RCs; [|discriminate].
    inversion H; subst.
    assert (same_frame st st1) as S1.
    { destruct (h_iface hh).
      - apply bind_ok_inv in EN as [sv [t [p [_ [_ [_ ->]]]]]]. repeat split.
      - destruct (alookup src (s_vars st)) as [[| | |]|]; inversion EN; subst. apply same_frame_set_vars. }
    eapply same_frame_trans; [exact S1|].
    eapply same_frame_trans; [|apply same_frame_set_vars].
    eapply run_calls_g_basic; eauto. destruct S1 as [-> _]. assumption.
  - destruct (alookup x (s_vars st)) as [[t [fs|v]| | |]|]; try discriminate.
    + destruct (alookup f fs); inversion H; subst. apply same_frame_set_vars.
    + inversion H; subst. apply same_frame_set_vars.
  - destruct (read (s_vars st) (LElem a i)) as [[t [fs|v]| | |]|]; try discriminate.
    destruct (alookup f fs); inversion H; subst. apply same_frame_set_vars.
  - destruct (alookup x (s_vars st)) as [[| | |]|]; inversion H; subst; apply same_frame_emit.
Qed.

(* a body statement - including a call nested to any depth - leaves the body's impl context, its argument
   and the set of static cells as they were *)
Lemma exec_stmt_basic : forall run hs g t, run_basic run -> forall s fr fr',
  wf_ctx (f_ctx fr) -> exec_stmt run hs g t fr s = inl fr' ->
  f_ctx fr' = f_ctx fr /\ f_arg fr' = f_arg fr /\ keys (f_statics fr') = keys (f_statics fr).
Proof.
  intros run hs g t RB. induction s as [f e|n e|tag es|tag m e|o|ge s IH]; intros fr fr' W H; cbn [exec_stmt] in H.
  - destruct (eval fr e); [|discriminate]. destruct (f_self fr); [|discriminate].
    destruct (alookup f fs); [|discriminate]. destruct (int_ok z); [|discriminate].
    inversion H; subst; simpl. auto.
  - destruct (eval fr e); [|discriminate].
    destruct (static_name (c_cur (f_ctx fr)) n) as [k|] eqn:SN; [|discriminate].
    destruct (alookup k (f_statics fr)) eqn:A; [|discriminate]. destruct (int_ok z); [|discriminate].
    inversion H; subst; simpl. split; [reflexivity|split; [reflexivity|]].
    apply keys_aset_present. apply alookup_in_keys. eauto.
  - destruct (eval_list fr es); [|discriminate]. inversion H; subst; simpl. auto.
  - destruct (eval fr e); [|discriminate]. destruct (negb (int_ok z)); [discriminate|].
    destruct (nested_self_g run g t m z fr) as [[fr1 r]|] eqn:C; [|discriminate].
    inversion H; subst; simpl. apply nested_self_g_inv in C as [fe [fr2 [_ [R ->]]]]. simpl.
    destruct (RB fe t (f_self fr) z (st_of g fr) fr2 r W R) as [E K]. simpl in E, K. auto.
  - destruct (step_g (call_g run) hs (st_of g fr) o) as [st'|] eqn:S; [|discriminate].
    inversion H; subst; simpl.
    destruct (step_g_basic _ hs (call_g_basic _ RB) (st_of g fr) o st' W S) as [C [K _]]. simpl in C, K. auto.
  - destruct (eval fr ge); [|discriminate]. destruct (0 <? z)%Z.
    + apply IH; assumption.
    + inversion H; subst. auto.
Qed.
Lemma exec_body_basic : forall run hs g t, run_basic run -> forall b fr fr',
  wf_ctx (f_ctx fr) -> exec_body run hs g t fr b = inl fr' ->
  f_ctx fr' = f_ctx fr /\ f_arg fr' = f_arg fr /\ keys (f_statics fr') = keys (f_statics fr).
Proof.
  intros run hs g t RB. induction b as [|s b IH]; simpl; intros fr fr' W H.
  - inversion H; subst. auto.
  - destruct (exec_stmt run hs g t fr s) as [fr1|] eqn:S; [|discriminate].
    destruct (exec_stmt_basic _ _ _ _ RB _ _ _ W S) as [C1 [A1 K1]].
    assert (wf_ctx (f_ctx fr1)) as W1 by (rewrite C1; assumption).
    destruct (IH _ _ W1 H) as [C2 [A2 K2]]. repeat split; congruence.
Qed.

Lemma run_method_g_basic : forall run hs, run_basic run -> run_basic (run_method_g run hs).
Proof.
  intros run hs RB fe t self arg st fr' z W H. apply run_method_g_inv in H as [B _].
  destruct (exec_body_basic _ _ _ _ RB _ (frame0 fe self arg st) _ (wf_enter _ _) B) as [C [_ K]]. simpl in C, K.
  rewrite C. split; [apply exit_enter; assumption|assumption].
Qed.
Lemma run_n_basic : forall n hs, run_basic (run_n n hs).
Proof.
  induction n as [|n IH]; intros hs.
  - intros fe t self arg st fr' z _ H. discriminate.
  - simpl. apply run_method_g_basic. apply IH.
Qed.
Lemma call_n_basic : forall n hs, call_basic (call n hs).
Proof. intros. apply call_g_basic. apply run_n_basic. Qed.

(* ---------- statics: what a call can touch ---------- *)
Definition ctx_keys (c : option (name * name)) (k : string) : Prop := exists n, static_name c n = Some k.
Definition funcs_typed (fs : list (string * fentry)) : Prop :=
  forall t n fe, alookup (method_key t n) fs = Some fe -> fe_type fe = t.
(* the cells of the pairs whose type is in TS *)
Definition types_keys (TS : name -> Prop) (k : string) : Prop := exists i t n, TS t /\ k = static_key i t n.
Definition typed_val (TS : name -> Prop) (v : value) : Prop :=
  match v with VConc t _ | VIface _ t _ | VArr t _ => TS t | VPtr _ => True end.
Definition vars_typed (TS : name -> Prop) (vs : list (name * value)) : Prop := forall x v, In (x, v) vs -> typed_val TS v.
(* TS is closed under "declares an object of": every method of a TS type declares objects of TS types only *)
Definition closed (fs : list (string * fentry)) (TS : name -> Prop) : Prop :=
  forall k fe, alookup k fs = Some fe -> TS (fe_type fe) -> vars_typed TS (m_locals (fe_meth fe)).

Lemma alookup_In : forall (A : Type) k (l : list (string * A)) v, alookup k l = Some v -> In (k, v) l.
Proof.
  induction l as [|[k0 v0] r IH]; simpl; intros v H; [discriminate|].
  destruct (String.eqb k k0) eqn:E.
  - apply String.eqb_eq in E; subst. inversion H; auto.
  - right. apply IH; assumption.
Qed.
Lemma In_aset : forall (A : Type) k (v : A) l x w, In (x, w) (aset k v l) -> (x, w) = (k, v) \/ In (x, w) l.
Proof.
  induction l as [|[k0 v0] r IH]; simpl; intros x w H.
  - destruct H as [H|[]]; auto.
  - destruct (String.eqb k k0); simpl in H.
    + destruct H as [H|H]; auto.
    + destruct H as [H|H]; auto. destruct (IH _ _ H); auto.
Qed.
Lemma In_aremove : forall (A : Type) k (l : list (string * A)) x w, In (x, w) (aremove k l) -> In (x, w) l.
Proof.
  induction l as [|[k0 v0] r IH]; simpl; intros x w H; [assumption|].
  destruct (String.eqb k k0); simpl in H; [auto|]. destruct H as [H|H]; auto.
Qed.
Lemma vars_typed_aset : forall TS vs x v, vars_typed TS vs -> typed_val TS v -> vars_typed TS (aset x v vs).
Proof. intros TS vs x v H T y w I. apply In_aset in I as [E|I]; [inversion E; subst; assumption|eapply H; eauto]. Qed.
Lemma vars_typed_aremove : forall TS vs x, vars_typed TS vs -> vars_typed TS (aremove x vs).
Proof. intros TS vs x H y w I. apply In_aremove in I. eapply H; eauto. Qed.
Lemma read_typed : forall TS vs l v, vars_typed TS vs -> read vs l = Some v -> typed_val TS v.
Proof.
  intros TS vs l v H R. destruct l as [x|a k]; simpl in R.
  - apply alookup_In in R. eapply H; eauto.
  - destruct (alookup a vs) as [[| | |t es]|] eqn:A; try discriminate.
    destruct (nth_error es k); [|discriminate]. inversion R; subst. simpl.
    apply alookup_In in A. apply (H _ _ A).
Qed.
Lemma receiver_typed : forall TS vs rc l v t self, vars_typed TS vs -> receiver vs rc = Some (l, v, t, self) ->
  TS t /\ typed_val TS v.
Proof.
  unfold receiver; intros TS vs rc l v t self H R.
  destruct (resolve vs rc) as [l0|]; [|discriminate]. destruct (read vs l0) as [v0|] eqn:RD; [|discriminate].
  destruct (obj_of v0) as [[t0 s0]|] eqn:O; [|discriminate]. inversion R; subst.
  pose proof (read_typed _ _ _ _ H RD) as T. split; [|assumption].
  destruct v as [t1 p1|i1 t1 p1| |]; simpl in O; try discriminate; inversion O; subst; exact T.
Qed.
Lemma typed_with_payload : forall TS v p, typed_val TS v -> typed_val TS (with_payload v p).
Proof. intros TS [t q|i t q|x|t es] p H; exact H. Qed.
Lemma write_typed : forall TS vs l v, vars_typed TS vs -> typed_val TS v -> vars_typed TS (write vs l v).
Proof.
  intros TS vs l v H T. destruct l as [x|a k]; simpl.
  - apply vars_typed_aset; assumption.
  - destruct (alookup a vs) as [[| | |t es]|] eqn:A; try assumption.
    destruct v; try assumption. apply vars_typed_aset; [assumption|].
    apply alookup_In in A. exact (H _ _ A).
Qed.

Definition run_sep (TS : name -> Prop) (run : runner) : Prop := forall fe t self arg st fr' z,
  funcs_typed (s_funcs st) -> closed (s_funcs st) TS -> wf_ctx (s_ctx st) -> TS t -> fe_type fe = t ->
  (exists k, alookup k (s_funcs st) = Some fe) ->
  run fe t self arg st = inl (fr', z) ->
  forall k, ~ types_keys TS k -> alookup k (f_statics fr') = alookup k (s_statics st).
(* a scope whose objects have TS types: what one call does to it *)
Definition call_sep (TS : name -> Prop) (call : caller) : Prop := forall st r m arg st' z,
  funcs_typed (s_funcs st) -> closed (s_funcs st) TS -> wf_ctx (s_ctx st) -> vars_typed TS (s_vars st) ->
  call st r m arg = Ok (st', z) ->
  vars_typed TS (s_vars st') /\ forall k, ~ types_keys TS k -> alookup k (s_statics st') = alookup k (s_statics st).

Lemma call_g_sep : forall TS run, run_sep TS run -> call_sep TS (call_g run).
Proof.
  intros TS run RS st r m arg st' z FT CL W VT H.
  destruct (call_g_ok_inv _ _ _ _ _ _ _ H) as [l [v [t [self [fe [RC [F IV]]]]]]].
  destruct (invoke_g_ok_inv _ _ _ _ _ _ _ _ _ _ IV) as [fr' [B [V [S _]]]].
  destruct (receiver_typed _ _ _ _ _ _ _ VT RC) as [Tt Tv].
  split.
  - rewrite V. apply write_typed; [assumption|apply typed_with_payload; assumption].
  - intros k NK. rewrite S. eapply RS; eauto.
Qed.

Definition sep_frame (TS : name -> Prop) (st st' : state) : Prop :=
  vars_typed TS (s_vars st') /\ forall k, ~ types_keys TS k -> alookup k (s_statics st') = alookup k (s_statics st).

Lemma bind_typed : forall TS st x i src st', vars_typed TS (s_vars st) -> bind st x i src = Ok st' ->
  vars_typed TS (s_vars st') /\ s_statics st' = s_statics st.
Proof.
  intros TS st x i src st' VT H. apply bind_ok_inv in H as [sv [t [p [S [V [_ ->]]]]]]. simpl. split; [|reflexivity].
  apply vars_typed_aset; [assumption|]. apply alookup_In in S. pose proof (VT _ _ S) as T.
  destruct sv; simpl in V; try discriminate; inversion V; subst; exact T.
Qed.

Lemma run_calls_g_sep : forall TS call, call_basic call -> call_sep TS call -> forall cs st tag rc d st',
  funcs_typed (s_funcs st) -> closed (s_funcs st) TS -> wf_ctx (s_ctx st) -> vars_typed TS (s_vars st) ->
  run_calls_g call st tag rc d cs = Ok st' -> sep_frame TS st st'.
Proof.
  intros TS call CB CS. induction cs as [|[m c] cs IH]; simpl; intros st tag rc d st' FT CL W VT H.
  - inversion H; subst. split; auto.
  - destruct (call st rc m (d + c)%Z) as [[st1 z]|] eqn:C; [|discriminate].
    destruct (CB _ _ _ _ _ _ W C) as [C1 [_ [F1 _]]].
    destruct (CS _ _ _ _ _ _ FT CL W VT C) as [V1 S1].
    assert (sep_frame TS (emit st1 (tag, [z])) st') as [V2 S2].
    { apply IH with (5 := H); simpl; try rewrite F1; try rewrite C1; assumption. }
    split; [assumption|]. intros k NK. rewrite (S2 k NK). simpl. apply S1; assumption.
Qed.

Lemma step_g_sep : forall TS call hs, call_basic call -> call_sep TS call -> forall st o st',
  funcs_typed (s_funcs st) -> closed (s_funcs st) TS -> wf_ctx (s_ctx st) -> vars_typed TS (s_vars st) ->
  step_g call hs st o = Ok st' -> sep_frame TS st st'.
Proof.
  intros TS call hs CB CS st o st' FT CL W VT H. destruct o; cbn [step_g] in H.
  - destruct (bind_typed _ _ _ _ _ _ VT H) as [V S]. split; [assumption|]. intros; rewrite S; reflexivity.
  - destruct (alookup x (s_vars st)); inversion H; subst; simpl. split; [|auto].
    apply vars_typed_aset; [assumption|exact I].
  - destruct (call st r m arg) as [[st1 z]|] eqn:C; [|discriminate]. inversion H; subst; simpl.
    exact (CS _ _ _ _ _ _ FT CL W VT C).
  - destruct (find _ hs) as [hh|]; [|discriminate].
    match type of H with match ?E with _ => _ end = _ => destruct E as [st1|] eqn:EN; [|discriminate] end.
    destruct (run_calls_g call st1 h (RVar (h_param hh)) d (h_calls hh)) as [st2|] eqn:RCs; [|discriminate].
    inversion H; subst.
    assert (vars_typed TS (s_vars st1) /\ s_statics st1 = s_statics st /\ s_funcs st1 = s_funcs st /\ s_ctx st1 = s_ctx st) as [V1 [S1 [F1 C1]]].
    { destruct (h_iface hh).
      - assert (vars_typed TS (s_vars (set_vars st (aremove (h_param hh) (s_vars st))))) as VR by (simpl; apply vars_typed_aremove; assumption).
        destruct (bind_typed _ _ _ _ _ _ VR EN) as [V S]. apply bind_ok_inv in EN as [sv [t [p [_ [_ [_ E]]]]]]. subst st1. simpl in *. auto.
      - destruct (alookup src (s_vars st)) as [[t pl| | |]|] eqn:A; inversion EN; subst; simpl. split; [|auto].
        apply vars_typed_aset; [assumption|]. apply alookup_In in A. exact (VT _ _ A). }
    assert (sep_frame TS st1 st2) as [V2 S2].
    { eapply run_calls_g_sep; eauto; try rewrite F1; try rewrite C1; assumption. }
    split; simpl.
    + apply vars_typed_aremove; assumption.
    + intros k NK. rewrite (S2 k NK). rewrite S1. reflexivity.
  - destruct (alookup x (s_vars st)) as [[t [fs|v]| | |]|] eqn:A; try discriminate.
    + destruct (alookup f fs); inversion H; subst; simpl. split; [|auto].
      apply vars_typed_aset; [assumption|]. apply alookup_In in A. exact (VT _ _ A).
    + inversion H; subst; simpl. split; [|auto].
      apply vars_typed_aset; [assumption|]. apply alookup_In in A. exact (VT _ _ A).
  - destruct (read (s_vars st) (LElem a i)) as [[t [fs|v]| | |]|] eqn:A; try discriminate.
    destruct (alookup f fs); inversion H; subst. split; [|simpl; auto].
    change (vars_typed TS (write (s_vars st) (LElem a i) (VConc t (PStruct (aset f z fs))))).
    apply write_typed; [assumption|]. exact (read_typed _ _ _ _ VT A).
  - destruct (alookup x (s_vars st)) as [[| | |]|]; inversion H; subst; simpl; split; auto.
Qed.

Lemma ctx_keys_types : forall (TS : name -> Prop) i t k, TS t -> ctx_keys (Some (i, t)) k -> types_keys TS k.
Proof. intros TS i t k T [n E]. simpl in E. inversion E. exists i, t, n. auto. Qed.

(* one statement of a body whose type and objects are in TS *)
Lemma exec_stmt_sep : forall TS run hs g t, run_basic run -> run_sep TS run ->
  funcs_typed (s_funcs g) -> closed (s_funcs g) TS -> TS t ->
  forall s fr fr', wf_ctx (f_ctx fr) -> (forall k, ctx_keys (c_cur (f_ctx fr)) k -> types_keys TS k) ->
  vars_typed TS (f_vars fr) -> exec_stmt run hs g t fr s = inl fr' ->
  vars_typed TS (f_vars fr') /\ forall k, ~ types_keys TS k -> alookup k (f_statics fr') = alookup k (f_statics fr).
Proof.
  intros TS run hs g t RB RS FT CL Tt. induction s as [f e|n e|tag es|tag m e|o|ge s IH]; intros fr fr' W HP VT H; cbn [exec_stmt] in H.
  - destruct (eval fr e); [|discriminate]. destruct (f_self fr); [|discriminate].
    destruct (alookup f fs); [|discriminate]. destruct (int_ok z); [|discriminate].
    inversion H; subst; simpl. auto.
  - destruct (eval fr e); [|discriminate].
    destruct (static_name (c_cur (f_ctx fr)) n) as [k|] eqn:SN; [|discriminate].
    destruct (alookup k (f_statics fr)) eqn:A; [|discriminate]. destruct (int_ok z); [|discriminate].
    inversion H; subst; simpl. split; [assumption|].
    intros k' NK. apply alookup_aset_other. intros ->. apply NK. apply HP. exists n. assumption.
  - destruct (eval_list fr es); [|discriminate]. inversion H; subst; simpl. auto.
  - destruct (eval fr e); [|discriminate]. destruct (negb (int_ok z)); [discriminate|].
    destruct (nested_self_g run g t m z fr) as [[fr1 r]|] eqn:C; [|discriminate].
    inversion H; subst; simpl. apply nested_self_g_inv in C as [fe [fr2 [L [R ->]]]]. simpl.
    split; [assumption|]. intros k NK.
    apply (RS fe t (f_self fr) z (st_of g fr) fr2 r); simpl; eauto.
  - destruct (step_g (call_g run) hs (st_of g fr) o) as [st'|] eqn:S; [|discriminate].
    inversion H; subst; simpl.
    exact (step_g_sep TS _ hs (call_g_basic _ RB) (call_g_sep _ _ RS) (st_of g fr) o st' FT CL W VT S).
  - destruct (eval fr ge); [|discriminate]. destruct (0 <? z)%Z.
    + apply IH; assumption.
    + inversion H; subst. auto.
Qed.
Lemma exec_body_sep : forall TS run hs g t, run_basic run -> run_sep TS run ->
  funcs_typed (s_funcs g) -> closed (s_funcs g) TS -> TS t ->
  forall b fr fr', wf_ctx (f_ctx fr) -> (forall k, ctx_keys (c_cur (f_ctx fr)) k -> types_keys TS k) ->
  vars_typed TS (f_vars fr) -> exec_body run hs g t fr b = inl fr' ->
  vars_typed TS (f_vars fr') /\ forall k, ~ types_keys TS k -> alookup k (f_statics fr') = alookup k (f_statics fr).
Proof.
  intros TS run hs g t RB RS FT CL Tt. induction b as [|s b IH]; simpl; intros fr fr' W HP VT H.
  - inversion H; subst. auto.
  - destruct (exec_stmt run hs g t fr s) as [fr1|] eqn:S; [|discriminate].
    destruct (exec_stmt_basic _ _ _ _ RB _ _ _ W S) as [C1 _].
    destruct (exec_stmt_sep _ _ _ _ _ RB RS FT CL Tt _ _ _ W HP VT S) as [V1 S1].
    assert (vars_typed TS (f_vars fr') /\ forall k, ~ types_keys TS k -> alookup k (f_statics fr') = alookup k (f_statics fr1)) as [V2 S2].
    { apply IH; try rewrite C1; assumption. }
    split; [assumption|]. intros k NK. rewrite (S2 k NK). apply S1; assumption.
Qed.

Lemma run_method_g_sep : forall TS run hs, run_basic run -> run_sep TS run -> run_sep TS (run_method_g run hs).
Proof.
  intros TS run hs RB RS fe t self arg st fr' z FT CL W Tt Et [k0 L] H k NK.
  apply run_method_g_inv in H as [B _].
  assert (forall k1, ctx_keys (c_cur (f_ctx (frame0 fe self arg st))) k1 -> types_keys TS k1) as HP.
  { simpl. intros k1 CK. eapply ctx_keys_types; [|exact CK]. rewrite Et. assumption. }
  assert (vars_typed TS (f_vars (frame0 fe self arg st))) as VT.
  { simpl. apply (CL _ _ L). rewrite Et. assumption. }
  destruct (exec_body_sep TS run hs st t RB RS FT CL Tt _ (frame0 fe self arg st) fr' (wf_enter _ _) HP VT B) as [_ S].
  rewrite (S k NK). reflexivity.
Qed.
Lemma run_n_sep : forall TS n hs, run_sep TS (run_n n hs).
Proof.
  induction n as [|n IH]; intros hs.
  - intros fe t self arg st fr' z _ _ _ _ _ _ H. discriminate.
  - simpl. apply run_method_g_sep; [apply run_n_basic|apply IH].
Qed.

(* a call on a receiver whose type is in a closed set TS changes no static of a pair with a type outside TS *)
Lemma call_statics_closed_l : forall TS n hs st rc m arg st' z l v t self,
  funcs_typed (s_funcs st) -> closed (s_funcs st) TS -> wf_ctx (s_ctx st) ->
  call n hs st rc m arg = Ok (st', z) -> receiver (s_vars st) rc = Some (l, v, t, self) -> TS t ->
  forall k, ~ types_keys TS k -> alookup k (s_statics st') = alookup k (s_statics st).
Proof.
  intros TS n hs st rc m arg st' z l v t self FT CL W H RC Tt k NK.
  destruct (call_g_ok_inv _ _ _ _ _ _ _ H) as [l0 [v0 [t0 [self0 [fe [RC0 [F IV]]]]]]].
  rewrite RC in RC0. inversion RC0; subst l0 v0 t0 self0.
  destruct (invoke_g_ok_inv _ _ _ _ _ _ _ _ _ _ IV) as [fr' [B [_ [S _]]]].
  rewrite S. eapply (run_n_sep TS n hs); eauto.
Qed.

(* ---------- a body without calls touches only the statics of the pair that declares it ---------- *)
Fixpoint is_call (s : stmt) : bool :=
  match s with
  | SCallSelf _ _ _ => true
  | SOp (OCall _ _ _) | SOp (OVia _ _ _) => true
  | SGuard _ s' => is_call s'
  | _ => false
  end.
Definition has_calls (b : list stmt) : bool := existsb is_call b.

(* operations other than calls do not touch the statics at all *)
Lemma step_g_noncall_statics : forall call hs st o st', step_g call hs st o = Ok st' ->
  match o with OCall _ _ _ | OVia _ _ _ => True | _ => s_statics st' = s_statics st end.
Proof.
  intros call hs st o st' H. destruct o; cbn [step_g] in H; auto.
  - apply bind_ok_inv in H as [sv [t [p [_ [_ [_ ->]]]]]]. reflexivity.
  - destruct (alookup x (s_vars st)); inversion H; reflexivity.
  - destruct (alookup x (s_vars st)) as [[t [fs|v]| | |]|]; try discriminate.
    + destruct (alookup f fs); inversion H; reflexivity.
    + inversion H; reflexivity.
  - destruct (read (s_vars st) (LElem a i)) as [[t [fs|v]| | |]|]; try discriminate.
    destruct (alookup f fs); inversion H; reflexivity.
  - destruct (alookup x (s_vars st)) as [[| | |]|]; inversion H; reflexivity.
Qed.
Lemma step_g_noncall_ctx : forall call hs st o st', step_g call hs st o = Ok st' ->
  match o with OCall _ _ _ | OVia _ _ _ => True | _ => s_ctx st' = s_ctx st end.
Proof.
  intros call hs st o st' H. destruct o; cbn [step_g] in H; auto.
  - apply bind_ok_inv in H as [sv [t [p [_ [_ [_ ->]]]]]]. reflexivity.
  - destruct (alookup x (s_vars st)); inversion H; reflexivity.
  - destruct (alookup x (s_vars st)) as [[t [fs|v]| | |]|]; try discriminate.
    + destruct (alookup f fs); inversion H; reflexivity.
    + inversion H; reflexivity.
  - destruct (read (s_vars st) (LElem a i)) as [[t [fs|v]| | |]|]; try discriminate.
    destruct (alookup f fs); inversion H; reflexivity.
  - destruct (alookup x (s_vars st)) as [[| | |]|]; inversion H; reflexivity.
Qed.

Lemma exec_stmt_leaf : forall run hs g t s fr fr', is_call s = false -> exec_stmt run hs g t fr s = inl fr' ->
  f_ctx fr' = f_ctx fr /\ forall k, ~ ctx_keys (c_cur (f_ctx fr)) k -> alookup k (f_statics fr') = alookup k (f_statics fr).
Proof.
  intros run hs g t. induction s as [f e|n e|tag es|tag m e|o|ge s IH]; intros fr fr' NC H; cbn [exec_stmt] in H.
  - destruct (eval fr e); [|discriminate]. destruct (f_self fr); [|discriminate].
    destruct (alookup f fs); [|discriminate]. destruct (int_ok z); [|discriminate].
    inversion H; subst; simpl. auto.
  - destruct (eval fr e); [|discriminate].
    destruct (static_name (c_cur (f_ctx fr)) n) as [k|] eqn:SN; [|discriminate].
    destruct (alookup k (f_statics fr)) eqn:A; [|discriminate]. destruct (int_ok z); [|discriminate].
    inversion H; subst; simpl. split; [reflexivity|].
    intros k' NK. apply alookup_aset_other. intros ->. apply NK. exists n. assumption.
  - destruct (eval_list fr es); [|discriminate]. inversion H; subst; simpl. auto.
  - discriminate.
  - destruct (step_g (call_g run) hs (st_of g fr) o) as [st'|] eqn:S; [|discriminate].
    inversion H; subst; simpl.
    pose proof (step_g_noncall_statics _ _ _ _ _ S) as E. pose proof (step_g_noncall_ctx _ _ _ _ _ S) as E2.
    destruct o; simpl in NC; try discriminate; simpl in E, E2; rewrite E, E2; auto.
  - destruct (eval fr ge); [|discriminate]. destruct (0 <? z)%Z.
    + apply IH; assumption.
    + inversion H; subst. auto.
Qed.
Lemma exec_body_leaf : forall run hs g t b fr fr', has_calls b = false -> exec_body run hs g t fr b = inl fr' ->
  f_ctx fr' = f_ctx fr /\ forall k, ~ ctx_keys (c_cur (f_ctx fr)) k -> alookup k (f_statics fr') = alookup k (f_statics fr).
Proof.
  intros run hs g t. induction b as [|s b IH]; simpl; intros fr fr' NC H.
  - inversion H; subst. auto.
  - destruct (exec_stmt run hs g t fr s) as [fr1|] eqn:S; [|discriminate].
    unfold has_calls in NC. simpl in NC. apply orb_false_iff in NC as [N1 N2].
    destruct (exec_stmt_leaf _ _ _ _ _ _ _ N1 S) as [C1 S1].
    destruct (IH _ _ N2 H) as [C2 S2]. split; [congruence|].
    intros k NK. rewrite S2 by (rewrite C1; assumption). apply S1; assumption.
Qed.
Lemma call_statics_leaf_l : forall n hs st rc m arg st' z l v t self fe,
  call n hs st rc m arg = Ok (st', z) -> receiver (s_vars st) rc = Some (l, v, t, self) ->
  alookup (method_key t m) (s_funcs st) = Some fe -> has_calls (m_body (fe_meth fe)) = false ->
  forall k, ~ ctx_keys (Some (fe_iface fe, fe_type fe)) k -> alookup k (s_statics st') = alookup k (s_statics st).
Proof.
  intros n hs st rc m arg st' z l v t self fe H RC F HC k NK.
  destruct (call_g_ok_inv _ _ _ _ _ _ _ H) as [l0 [v0 [t0 [self0 [fe0 [RC0 [F0 IV]]]]]]].
  rewrite RC in RC0. inversion RC0; subst l0 v0 t0 self0. rewrite F in F0. inversion F0; subst fe0.
  destruct (invoke_g_ok_inv _ _ _ _ _ _ _ _ _ _ IV) as [fr' [B [_ [S _]]]].
  rewrite S. destruct n as [|n]; [discriminate|]. simpl in B. apply run_method_g_inv in B as [B _].
  destruct (exec_body_leaf _ _ _ _ _ _ _ HC B) as [_ FR]. rewrite FR; [reflexivity|exact NK].
Qed.

Lemma ctx_keys_other_pair : forall i t i' t' n', no_colon i = true -> no_colon i' = true ->
  no_colon t = true -> no_colon t' = true -> (i', t') <> (i, t) -> ~ ctx_keys (Some (i, t)) (static_key i' t' n').
Proof.
  intros i t i' t' n' Hi Hi' Ht Ht' NE [n H]. unfold static_name in H.
  assert (static_key i t n = static_key i' t' n') as E by congruence.
  apply static_key_inj in E as [-> [-> _]]; auto.
Qed.
Lemma types_keys_other_type : forall (TS : name -> Prop) i' t' n', no_colon i' = true -> (forall t, TS t -> no_colon t = true) -> no_colon t' = true ->
  no_colon n' = true -> ~ TS t' -> ~ types_keys TS (static_key i' t' n').
Proof.
  intros TS i' t' n' Hi' HT Ht' Hn' NE [i [t [n [Tt E]]]]. pose proof (HT _ Tt) as Ht.
  assert (no_colon i = true) as Hi.
  { assert (ncolon (static_key i' t' n') = ncolon (static_key i t n)) as N by (rewrite E; reflexivity).
    unfold static_key in N. rewrite !ncolon_app in N. simpl in N.
    apply no_colon_ncolon in Hi'. apply no_colon_ncolon in Ht. apply no_colon_ncolon in Ht'. apply no_colon_ncolon in Hn'.
    apply no_colon_ncolon. lia. }
  apply static_key_inj in E as [_ [E _]]; auto. subst t'. contradiction.
Qed.

(* ---------- binding ---------- *)
Lemma bind_no_impl_l : forall st x i src sv t p, alookup src (s_vars st) = Some sv -> src_view sv = Some (t, p) ->
  impl_exists (s_impls st) i t = false -> bind st x i src = Fail (s_out st) (ENoImpl i t).
Proof.
  unfold bind; intros st x i src sv t p S V E. rewrite S.
  destruct sv as [t0 p0|i0 t0 p0|y|t0 es]; simpl in V; try discriminate; inversion V; subst; rewrite E; reflexivity.
Qed.

Lemma impl_exists_false : forall ds i t, (forall d, In d ds -> ~ (i_iface d = i /\ i_type d = t)) -> impl_exists ds i t = false.
Proof.
  intros ds i t H. unfold impl_exists. destruct (existsb (same_pair i t) ds) eqn:E; [|reflexivity].
  apply existsb_exists in E as [d [Hd S]]. unfold same_pair in S. apply andb_true_iff in S as [A B].
  apply String.eqb_eq in A. apply String.eqb_eq in B. exfalso. apply (H d Hd). auto.
Qed.
Lemma impl_exists_true : forall ds i t, impl_exists ds i t = true -> exists d, In d ds /\ i_iface d = i /\ i_type d = t.
Proof.
  intros ds i t E. apply existsb_exists in E as [d [Hd S]]. unfold same_pair in S. apply andb_true_iff in S as [A B].
  apply String.eqb_eq in A. apply String.eqb_eq in B. eauto.
Qed.

(* ---------- whole histories: the static key set and the impl context are invariants ---------- *)
Lemma step_keys : forall n hs st o st', wf_ctx (s_ctx st) -> step n hs st o = Ok st' ->
  keys (s_statics st') = keys (s_statics st) /\ s_ctx st' = s_ctx st.
Proof. intros n hs st o st' W H. destruct (step_g_basic _ hs (call_n_basic n hs) _ _ _ W H) as [C [K _]]. auto. Qed.
Lemma run_ops_keys : forall n hs os st st', wf_ctx (s_ctx st) -> run_ops n hs st os = Ok st' ->
  keys (s_statics st') = keys (s_statics st) /\ s_ctx st' = s_ctx st.
Proof.
  induction os as [|o os IH]; simpl; intros st st' W H.
  - inversion H; auto.
  - destruct (step n hs st o) as [st1|] eqn:S; [|discriminate].
    destruct (step_keys _ _ _ _ _ W S) as [K1 C1].
    assert (wf_ctx (s_ctx st1)) as W1 by (rewrite C1; assumption).
    destruct (IH _ _ W1 H) as [K2 C2]. split; congruence.
Qed.
Lemma step_noncall_statics : forall n hs st o st', step n hs st o = Ok st' ->
  match o with OCall _ _ _ | OVia _ _ _ => True | _ => s_statics st' = s_statics st end.
Proof. intros n hs. apply step_g_noncall_statics. Qed.

(* every declared static is in the table after registration *)
Lemma add_statics_keys_mono : forall d ss k, In k (keys ss) -> In k (keys (add_statics d ss)).
Proof.
  intros d. unfold add_statics. induction (i_statics d) as [|[n z] l IH]; simpl; intros ss k H; [assumption|].
  apply IH. apply alookup_in_keys. rewrite alookup_aset. destruct (String.eqb k _); [eauto|].
  apply alookup_in_keys; assumption.
Qed.
Lemma add_statics_keys_new : forall d ss nz, In nz (i_statics d) ->
  In (static_key (i_iface d) (i_type d) (fst nz)) (keys (add_statics d ss)).
Proof.
  intros d. unfold add_statics. induction (i_statics d) as [|[n z] l IH]; simpl; intros ss nz H; [tauto|].
  destruct H as [<-|H].
  - simpl.
    assert (forall l0 (ss0 : list (string * Z)) k, In k (keys ss0) ->
      In k (keys (fold_left (fun acc (nz : name * Z) => aset (static_key (i_iface d) (i_type d) (fst nz)) (snd nz) acc) l0 ss0))) as M.
    { induction l0 as [|[n' z'] l0 IH0]; simpl; intros; [assumption|].
      apply IH0. apply alookup_in_keys. rewrite alookup_aset. destruct (String.eqb k _); [eauto|]. apply alookup_in_keys; assumption. }
    apply M. apply alookup_in_keys. rewrite alookup_aset_same. eauto.
  - apply IH; assumption.
Qed.
Lemma fold_add_statics_mono : forall ds ss k, In k (keys ss) -> In k (keys (fold_left (fun ss d => add_statics d ss) ds ss)).
Proof. induction ds as [|d ds IH]; simpl; intros; [assumption|]. apply IH. apply add_statics_keys_mono; assumption. Qed.
Lemma fold_add_statics_new : forall ds ss d nz, In d ds -> In nz (i_statics d) ->
  In (static_key (i_iface d) (i_type d) (fst nz)) (keys (fold_left (fun ss d => add_statics d ss) ds ss)).
Proof.
  induction ds as [|e ds IH]; simpl; intros ss d nz Hd Hn; [tauto|].
  destruct Hd as [->|Hd].
  - apply fold_add_statics_mono. apply add_statics_keys_new; assumption.
  - apply IH; assumption.
Qed.

Lemma register_all_impls : forall ds r, wf_impls ds -> register_all empty_registry ds = inl r ->
  r_impls r = ds /\ r_statics r = fold_left (fun ss d => add_statics d ss) ds [].
Proof.
  intros ds r W R. destruct empty_ok as [A [B C]].
  destruct (register_all_inv _ _ _ W C A B R) as [_ [_ [I S]]]. simpl in I, S. auto.
Qed.

Lemma registered_funcs_typed : forall ds r, wf_impls ds -> register_all empty_registry ds = inl r -> funcs_typed (r_funcs r).
Proof.
  intros ds r W R t n fe H. destruct (dispatch_sound_l _ _ _ _ _ W R H) as [d [m [_ [Ht [_ [_ ->]]]]]]. exact Ht.
Qed.
