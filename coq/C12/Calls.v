(* C12 - the call path: which body runs, what self is, where its writes go, which statics a call can
   touch, and rejection of types without an impl. *)
From Coq Require Import List Arith Bool Ascii String ZArith Lia Permutation.
From Cb Require Import C12.Model C12.Maps C12.Registry.
Import ListNotations.
Local Open Scope string_scope.
Local Open Scope list_scope.

(* ---------- which body runs ---------- *)
Lemma call_dispatches_l : forall ds r st rc l v t self d m arg,
  wf_impls ds -> register_all empty_registry ds = inl r -> s_funcs st = r_funcs r ->
  receiver (s_vars st) rc = Some (l, v, t, self) ->
  In d ds -> i_type d = t -> In m (i_methods d) ->
  call st rc (m_name m) arg = invoke st l v t self (mk_entry d m) arg.
Proof.
  intros ds r st rc l v t self d m arg W R F RC Hd Ht Hm.
  unfold call. rewrite RC, F. subst t. rewrite (dispatch_registered_l ds r d m W R Hd Hm). reflexivity.
Qed.

(* the receiver an interface variable denotes: its dynamic type is the implementing type it carries *)
Lemma receiver_iface_var : forall vs x i t p, alookup x vs = Some (VIface i t p) ->
  receiver vs (RVar x) = Some (LVar x, VIface i t p, t, p).
Proof. intros. unfold receiver; simpl. rewrite H. reflexivity. Qed.
Lemma receiver_conc_var : forall vs x t p, alookup x vs = Some (VConc t p) ->
  receiver vs (RVar x) = Some (LVar x, VConc t p, t, p).
Proof. intros. unfold receiver; simpl. rewrite H. reflexivity. Qed.
Lemma receiver_ptr : forall vs q x, alookup q vs = Some (VPtr x) -> receiver vs (RPtr q) = receiver vs (RVar x).
Proof. intros. unfold receiver; simpl. rewrite H. reflexivity. Qed.
Lemma receiver_elem : forall vs a t es k p, alookup a vs = Some (VArr t es) -> nth_error es k = Some p ->
  receiver vs (RElem a k) = Some (LElem a k, VConc t p, t, p).
Proof. intros. unfold receiver; simpl. rewrite H, H0. reflexivity. Qed.

(* whatever the receiver form, self is a copy of what the receiver holds at the time of the call *)
Definition payload_of (v : value) : option payload :=
  match v with VConc _ p => Some p | VIface _ _ p => Some p | _ => None end.
Definition dyn_type (v : value) : option name :=
  match v with VConc t _ => Some t | VIface _ t _ => Some t | _ => None end.
Lemma receiver_current_l : forall vs rc l v t self,
  receiver vs rc = Some (l, v, t, self) ->
  read vs l = Some v /\ payload_of v = Some self /\ dyn_type v = Some t /\
  match rc with
  | RVar x => l = LVar x
  | RPtr q => exists x, alookup q vs = Some (VPtr x) /\ l = LVar x
  | RElem a k => l = LElem a k
  end.
Proof.
  unfold receiver; intros vs rc l v t self H.
  destruct (resolve vs rc) as [l0|] eqn:RS; [|discriminate].
  destruct (read vs l0) as [v0|] eqn:RD; [|discriminate].
  destruct (obj_of v0) as [[t0 s0]|] eqn:OB; [|discriminate].
  inversion H; subst; clear H.
  split; [assumption|].
  assert (payload_of v = Some self /\ dyn_type v = Some t) as [A B].
  { destruct v as [t1 p1|i1 t1 p1| |]; simpl in OB; try discriminate; inversion OB; subst; auto. }
  split; [assumption|split; [assumption|]].
  destruct rc; simpl in RS.
  - inversion RS; reflexivity.
  - destruct (alookup p vs) as [[| |x|]|] eqn:P; try discriminate. inversion RS. eauto.
  - inversion RS; reflexivity.
Qed.

(* ---------- read / write on cells ---------- *)
Definition disjoint (l l' : loc) : Prop :=
  match l, l' with
  | LVar x, LVar y => x <> y
  | LVar x, LElem a _ => x <> a
  | LElem a _, LVar x => a <> x
  | LElem a i, LElem b j => a <> b \/ i <> j
  end.

Lemma read_write_same : forall vs l v p, read vs l = Some v -> (exists t p0, v = VConc t p0) \/ (exists i t p0, v = VIface i t p0) ->
  read (write vs l (with_payload v p)) l = Some (with_payload v p).
Proof.
  intros vs l v p R K. destruct l as [x|a k]; simpl in *.
  - apply alookup_aset_same.
  - destruct (alookup a vs) as [[| | |t es]|] eqn:A; try discriminate.
    destruct (nth_error es k) as [p0|] eqn:N; [|discriminate]. inversion R; subst v. simpl.
    rewrite alookup_aset_same. rewrite set_nth_nth_same; [reflexivity|].
    apply nth_error_Some. congruence.
Qed.

Lemma read_write_other : forall vs l l' v, disjoint l l' -> read (write vs l v) l' = read vs l'.
Proof.
  intros vs l l' v D. destruct l as [x|a k]; destruct l' as [y|b j]; simpl in *.
  - apply alookup_aset_other; auto.
  - rewrite alookup_aset_other by auto. reflexivity.
  - destruct (alookup a vs) as [[| | |t es]|] eqn:A; try reflexivity.
    destruct v; try reflexivity. apply alookup_aset_other; auto.
  - destruct (alookup a vs) as [[| | |t es]|] eqn:A; try reflexivity.
    destruct v as [t' p| | |]; try reflexivity.
    destruct (String.eqb b a) eqn:E.
    + apply String.eqb_eq in E; subst b. rewrite alookup_aset_same, A.
      destruct D as [D|D]; [congruence|]. rewrite set_nth_nth_other by auto. reflexivity.
    + rewrite alookup_aset_other; [reflexivity|]. intros ->. rewrite String.eqb_refl in E. discriminate.
Qed.

(* ---------- invoke: self in, self out ---------- *)
(* the frame a method starts in: the impl context is the pair of the block that declares it *)
Definition frame0 (fe : fentry) (self : payload) (arg : Z) (ss : list (string * Z)) (out : list line) : frame :=
  {| f_self := self; f_arg := arg; f_statics := ss; f_ctx := Some (fe_iface fe, fe_type fe); f_out := out |}.

Lemma run_method_inv : forall cb fe self arg ss out fr' z, run_method cb fe self arg ss out = inl (fr', z) ->
  exec_body cb (frame0 fe self arg ss out) (m_body (fe_meth fe)) = inl fr' /\ eval fr' (m_ret (fe_meth fe)) = inl z.
Proof.
  unfold run_method, frame0; intros cb fe self arg ss out fr' z H.
  destruct (exec_body cb _ (m_body (fe_meth fe))) as [fr1|x] eqn:B; [|discriminate].
  destruct (eval fr1 (m_ret (fe_meth fe))) as [z1|x] eqn:E; [|discriminate].
  inversion H; subst. auto.
Qed.

Lemma invoke_ok_inv : forall st l v t self fe arg st' z,
  invoke st l v t self fe arg = Ok (st', z) ->
  exists fr', run_method (nested_self (s_funcs st) t) fe self arg (s_statics st) (s_out st) = inl (fr', z) /\
              s_vars st' = write (s_vars st) l (with_payload v (f_self fr')) /\
              s_statics st' = f_statics fr' /\ s_out st' = f_out fr' /\
              s_funcs st' = s_funcs st /\ s_impls st' = s_impls st /\ s_ctx st' = s_ctx st.
Proof.
  unfold invoke; intros st l v t self fe arg st' z H.
  destruct (run_method _ fe self arg (s_statics st) (s_out st)) as [[fr' z0]|[o x]] eqn:B; [|discriminate].
  inversion H; subst; clear H. exists fr'. simpl. repeat split; auto.
Qed.

(* ---------- statics: what a body can touch ---------- *)
Definition ctx_keys (c : option (name * name)) (k : string) : Prop := exists n, static_name c n = Some k.
(* what a nested call may do to the caller's frame: everything but statics/out is as before, no static
   cell appears or disappears, and only cells in P change *)
Definition cb_ok (P : string -> Prop) (cb : callback) : Prop :=
  forall m z fr fr1 r, cb m z fr = inl (fr1, r) ->
    f_ctx fr1 = f_ctx fr /\ f_self fr1 = f_self fr /\ f_arg fr1 = f_arg fr /\
    keys (f_statics fr1) = keys (f_statics fr) /\
    (forall k, ~ P k -> alookup k (f_statics fr1) = alookup k (f_statics fr)).
Definition is_call (s : stmt) : bool := match s with SCallSelf _ _ _ => true | _ => false end.
Definition has_calls (b : list stmt) : bool := existsb is_call b.

Lemma exec_stmt_frame : forall P cb fr s fr', (is_call s = false \/ cb_ok P cb) ->
  (forall k, ctx_keys (f_ctx fr) k -> P k) -> exec_stmt cb fr s = inl fr' ->
  f_ctx fr' = f_ctx fr /\ f_arg fr' = f_arg fr /\
  keys (f_statics fr') = keys (f_statics fr) /\
  (forall k, ~ P k -> alookup k (f_statics fr') = alookup k (f_statics fr)).
Proof.
  intros P cb fr s fr' HC HP H. destruct s as [f e|n e|tag es|tag m e]; simpl in H.
  - destruct (eval fr e); [|discriminate]. destruct (f_self fr); [|discriminate].
    destruct (alookup f fs); [|discriminate]. destruct (int_ok z); [|discriminate].
    inversion H; subst; simpl. auto.
  - destruct (eval fr e); [|discriminate].
    destruct (static_name (f_ctx fr) n) as [k|] eqn:SN; [|discriminate].
    destruct (alookup k (f_statics fr)) eqn:A; [|discriminate]. destruct (int_ok z); [|discriminate].
    inversion H; subst; simpl. split; [reflexivity|split; [reflexivity|split]].
    + apply keys_aset_present. apply alookup_in_keys. eauto.
    + intros k' NK. apply alookup_aset_other. intros ->. apply NK. apply HP. exists n. assumption.
  - destruct (eval_list fr es); [|discriminate]. inversion H; subst; simpl. auto.
  - destruct HC as [HC|HC]; [discriminate|].
    destruct (eval fr e); [|discriminate].
    destruct (cb m z fr) as [[fr1 r]|] eqn:C; [|discriminate].
    inversion H; subst; simpl. destruct (HC _ _ _ _ _ C) as [A [_ [B [K F]]]]. auto.
Qed.

Lemma exec_body_frame : forall P cb b fr fr', (has_calls b = false \/ cb_ok P cb) ->
  (forall k, ctx_keys (f_ctx fr) k -> P k) -> exec_body cb fr b = inl fr' ->
  f_ctx fr' = f_ctx fr /\ f_arg fr' = f_arg fr /\
  keys (f_statics fr') = keys (f_statics fr) /\
  (forall k, ~ P k -> alookup k (f_statics fr') = alookup k (f_statics fr)).
Proof.
  intros P cb. induction b as [|s b IH]; simpl; intros fr fr' HC HP H.
  - inversion H; subst. auto.
  - destruct (exec_stmt cb fr s) as [fr1|] eqn:S; [|discriminate].
    assert (is_call s = false \/ cb_ok P cb) as HC1.
    { destruct HC as [HC|HC]; [left|right; assumption]. unfold has_calls in HC. simpl in HC. apply orb_false_iff in HC. tauto. }
    assert (has_calls b = false \/ cb_ok P cb) as HC2.
    { destruct HC as [HC|HC]; [left|right; assumption]. unfold has_calls in HC. simpl in HC. apply orb_false_iff in HC. tauto. }
    destruct (exec_stmt_frame _ _ _ _ _ HC1 HP S) as [C1 [A1 [K1 F1]]].
    assert (forall k, ctx_keys (f_ctx fr1) k -> P k) as HP1 by (rewrite C1; assumption).
    destruct (IH _ _ HC2 HP1 H) as [C2 [A2 [K2 F2]]].
    split; [congruence|split; [congruence|split; [congruence|]]].
    intros k NK. rewrite F2 by assumption. apply F1; assumption.
Qed.

Lemma run_method_frame : forall P cb fe self arg ss out fr' z,
  (has_calls (m_body (fe_meth fe)) = false \/ cb_ok P cb) ->
  (forall k, ctx_keys (Some (fe_iface fe, fe_type fe)) k -> P k) ->
  run_method cb fe self arg ss out = inl (fr', z) ->
  keys (f_statics fr') = keys ss /\ (forall k, ~ P k -> alookup k (f_statics fr') = alookup k ss).
Proof.
  intros P cb fe self arg ss out fr' z HC HP H. apply run_method_inv in H as [B _].
  destruct (exec_body_frame P cb _ (frame0 fe self arg ss out) _ HC HP B) as [_ [_ [K F]]]. auto.
Qed.

Lemma no_nested_ok : forall P, cb_ok P no_nested.
Proof. intros P m z fr fr1 r H. discriminate. Qed.

(* a nested self call touches only the statics of the callee's own pair; with a well-typed function
   table that pair has the caller's type *)
Definition funcs_typed (fs : list (string * fentry)) : Prop :=
  forall t n fe, alookup (method_key t n) fs = Some fe -> fe_type fe = t.
Definition type_keys (t : name) (k : string) : Prop := exists i n, k = static_key i t n.

Lemma nested_self_inv : forall funcs t m z fr fr1 r, nested_self funcs t m z fr = inl (fr1, r) ->
  exists fe fr', alookup (method_key t m) funcs = Some fe /\
    run_method no_nested fe (f_self fr) z (f_statics fr) (f_out fr) = inl (fr', r) /\
    fr1 = {| f_self := f_self fr; f_arg := f_arg fr; f_statics := f_statics fr'; f_ctx := f_ctx fr; f_out := f_out fr' |}.
Proof.
  unfold nested_self; intros funcs t m z fr fr1 r H.
  destruct (alookup (method_key t m) funcs) as [fe|]; [|discriminate].
  destruct (run_method no_nested fe (f_self fr) z (f_statics fr) (f_out fr)) as [[fr' z0]|] eqn:R; [|discriminate].
  inversion H; subst. eauto.
Qed.

Lemma nested_self_ok_any : forall funcs t, cb_ok (fun _ => True) (nested_self funcs t).
Proof.
  intros funcs t m z fr fr1 r H. apply nested_self_inv in H as [fe [fr' [_ [R ->]]]]. simpl.
  destruct (run_method_frame (fun _ => True) no_nested _ _ _ _ _ _ _ (or_intror (no_nested_ok _)) (fun _ _ => I) R) as [K _].
  repeat split; auto. intros k NK. exfalso. apply NK. exact I.
Qed.
Lemma nested_self_ok_typed : forall funcs t, funcs_typed funcs -> cb_ok (type_keys t) (nested_self funcs t).
Proof.
  intros funcs t FT m z fr fr1 r H. apply nested_self_inv in H as [fe [fr' [L [R ->]]]]. simpl.
  assert (forall k, ctx_keys (Some (fe_iface fe, fe_type fe)) k -> type_keys t k) as HP.
  { intros k [n E]. simpl in E. inversion E. rewrite (FT _ _ _ L). exists (fe_iface fe), n. reflexivity. }
  destruct (run_method_frame (type_keys t) no_nested _ _ _ _ _ _ _ (or_intror (no_nested_ok _)) HP R) as [K F].
  repeat split; auto.
Qed.

Lemma registered_funcs_typed : forall ds r, wf_impls ds -> register_all empty_registry ds = inl r -> funcs_typed (r_funcs r).
Proof.
  intros ds r W R t n fe H. destruct (dispatch_sound_l _ _ _ _ _ W R H) as [d [m [_ [Ht [_ [_ ->]]]]]]. exact Ht.
Qed.

Lemma call_ok_inv : forall st rc m arg st' z, call st rc m arg = Ok (st', z) ->
  exists l v t self fe,
    receiver (s_vars st) rc = Some (l, v, t, self) /\
    alookup (method_key t m) (s_funcs st) = Some fe /\
    invoke st l v t self fe arg = Ok (st', z).
Proof.
  unfold call; intros st rc m arg st' z H.
  destruct (receiver (s_vars st) rc) as [[[[l v] t] self]|] eqn:RC; [|discriminate].
  destruct (alookup (method_key t m) (s_funcs st)) as [fe|] eqn:F; [|discriminate].
  exists l, v, t, self, fe. auto.
Qed.

(* no static cell ever appears or disappears in a call; the impl context is put back *)
Lemma call_keys_l : forall st rc m arg st' z, call st rc m arg = Ok (st', z) ->
  keys (s_statics st') = keys (s_statics st) /\ s_ctx st' = s_ctx st.
Proof.
  intros st rc m arg st' z H.
  destruct (call_ok_inv _ _ _ _ _ _ H) as [l [v [t [self [fe [RC [F IV]]]]]]].
  destruct (invoke_ok_inv _ _ _ _ _ _ _ _ _ IV) as [fr' [B [_ [S [_ [_ [_ C]]]]]]].
  destruct (run_method_frame (fun _ => True) _ _ _ _ _ _ _ _ (or_intror (nested_self_ok_any _ _)) (fun _ _ => I) B) as [K _].
  split; [rewrite S; assumption|assumption].
Qed.

(* a call on a receiver of dynamic type t changes no static of a pair with another type ... *)
Lemma call_statics_type_l : forall st rc m arg st' z l v t self, funcs_typed (s_funcs st) ->
  call st rc m arg = Ok (st', z) -> receiver (s_vars st) rc = Some (l, v, t, self) ->
  forall k, ~ type_keys t k -> alookup k (s_statics st') = alookup k (s_statics st).
Proof.
  intros st rc m arg st' z l v t self FT H RC k NK.
  destruct (call_ok_inv _ _ _ _ _ _ H) as [l0 [v0 [t0 [self0 [fe [RC0 [F IV]]]]]]].
  rewrite RC in RC0. inversion RC0; subst l0 v0 t0 self0.
  destruct (invoke_ok_inv _ _ _ _ _ _ _ _ _ IV) as [fr' [B [_ [S _]]]].
  assert (forall k, ctx_keys (Some (fe_iface fe, fe_type fe)) k -> type_keys t k) as HP.
  { intros k0 [n E]. simpl in E. inversion E. rewrite (FT _ _ _ F). exists (fe_iface fe), n. reflexivity. }
  destruct (run_method_frame (type_keys t) _ _ _ _ _ _ _ _ (or_intror (nested_self_ok_typed _ _ FT)) HP B) as [_ FR].
  rewrite S. apply FR; assumption.
Qed.
(* ... and when the method's body makes no nested call, only statics of the pair that declares it *)
Lemma call_statics_leaf_l : forall st rc m arg st' z l v t self fe,
  call st rc m arg = Ok (st', z) -> receiver (s_vars st) rc = Some (l, v, t, self) ->
  alookup (method_key t m) (s_funcs st) = Some fe -> has_calls (m_body (fe_meth fe)) = false ->
  forall k, ~ ctx_keys (Some (fe_iface fe, fe_type fe)) k -> alookup k (s_statics st') = alookup k (s_statics st).
Proof.
  intros st rc m arg st' z l v t self fe H RC F HC k NK.
  destruct (call_ok_inv _ _ _ _ _ _ H) as [l0 [v0 [t0 [self0 [fe0 [RC0 [F0 IV]]]]]]].
  rewrite RC in RC0. inversion RC0; subst l0 v0 t0 self0. rewrite F in F0. inversion F0; subst fe0.
  destruct (invoke_ok_inv _ _ _ _ _ _ _ _ _ IV) as [fr' [B [_ [S _]]]].
  destruct (run_method_frame (ctx_keys (Some (fe_iface fe, fe_type fe))) _ _ _ _ _ _ _ _ (or_introl HC) (fun _ h => h) B) as [_ FR].
  rewrite S. apply FR; assumption.
Qed.

Lemma ctx_keys_other_pair : forall i t i' t' n', no_colon i = true -> no_colon i' = true ->
  no_colon t = true -> no_colon t' = true -> (i', t') <> (i, t) -> ~ ctx_keys (Some (i, t)) (static_key i' t' n').
Proof.
  intros i t i' t' n' Hi Hi' Ht Ht' NE [n H]. unfold static_name in H.
  assert (static_key i t n = static_key i' t' n') as E by congruence.
  apply static_key_inj in E as [-> [-> _]]; auto.
Qed.
Lemma type_keys_other_type : forall t i' t' n', no_colon i' = true -> no_colon t = true -> no_colon t' = true ->
  no_colon n' = true -> t' <> t -> ~ type_keys t (static_key i' t' n').
Proof.
  intros t i' t' n' Hi' Ht Ht' Hn' NE [i [n E]].
  assert (no_colon i = true) as Hi.
  { assert (ncolon (static_key i' t' n') = ncolon (static_key i t n)) as N by (rewrite E; reflexivity).
    unfold static_key in N. rewrite !ncolon_app in N. simpl in N.
    apply no_colon_ncolon in Hi'. apply no_colon_ncolon in Ht. apply no_colon_ncolon in Ht'. apply no_colon_ncolon in Hn'.
    apply no_colon_ncolon. lia. }
  apply static_key_inj in E as [_ [E _]]; auto.
Qed.

(* ---------- binding ---------- *)
Definition src_view (v : value) : option (name * payload) :=
  match v with VConc t p => Some (t, p) | VIface _ t p => Some (t, p) | _ => None end.

Lemma bind_ok_inv : forall st x i src st', bind st x i src = Ok st' ->
  exists sv t p, alookup src (s_vars st) = Some sv /\ src_view sv = Some (t, p) /\
    impl_exists (s_impls st) i t = true /\
    st' = set_vars st (aset x (VIface i t p) (s_vars st)).
Proof.
  unfold bind; intros st x i src st' H.
  destruct (alookup src (s_vars st)) as [sv|] eqn:S; [|discriminate].
  destruct sv as [t p|i0 t p|y|t es]; try discriminate.
  - destruct (impl_exists (s_impls st) i t) eqn:E; simpl in H; [|discriminate].
    exists (VConc t p), t, p. repeat split; auto.
    destruct (alookup x (s_vars st)) as [[| i' t' p'| |]|]; try discriminate.
    + destruct (String.eqb i' i && Bool.eqb (payload_kind p') (payload_kind p)); inversion H; reflexivity.
    + inversion H; reflexivity.
  - destruct (impl_exists (s_impls st) i t) eqn:E; simpl in H; [|discriminate].
    exists (VIface i0 t p), t, p. repeat split; auto.
    destruct (alookup x (s_vars st)) as [[| i' t' p'| |]|]; try discriminate.
    + destruct (String.eqb i' i && Bool.eqb (payload_kind p') (payload_kind p)); inversion H; reflexivity.
    + inversion H; reflexivity.
Qed.

Lemma bind_no_impl_l : forall st x i src sv t p, alookup src (s_vars st) = Some sv -> src_view sv = Some (t, p) ->
  impl_exists (s_impls st) i t = false -> bind st x i src = Fail (s_out st) (ENoImpl i t).
Proof.
  unfold bind; intros st x i src sv t p S V E. rewrite S.
  destruct sv as [t0 p0|i0 t0 p0|y|t0 es]; simpl in V; try discriminate; inversion V; subst; rewrite E; reflexivity.
Qed.

Lemma impl_exists_false : forall ds i t, (forall d, In d ds -> ~ (i_iface d = i /\ i_type d = t)) -> impl_exists ds i t = false.
Proof.
  intros ds i t H. unfold impl_exists. destruct (existsb (same_pair i t) ds) eqn:E; [|reflexivity].
  apply existsb_exists in E as [d [Hd S]]. unfold same_pair in S. apply andb_true_iff in S as [A B].
  apply String.eqb_eq in A. apply String.eqb_eq in B. exfalso. apply (H d Hd). auto.
Qed.
Lemma impl_exists_true : forall ds i t, impl_exists ds i t = true -> exists d, In d ds /\ i_iface d = i /\ i_type d = t.
Proof.
  intros ds i t E. apply existsb_exists in E as [d [Hd S]]. unfold same_pair in S. apply andb_true_iff in S as [A B].
  apply String.eqb_eq in A. apply String.eqb_eq in B. eauto.
Qed.

(* ---------- whole histories: the static key set is an invariant ---------- *)
Lemma run_calls_keys : forall cs st tag rc d st', run_calls st tag rc d cs = Ok st' ->
  keys (s_statics st') = keys (s_statics st).
Proof.
  induction cs as [|[m c] cs IH]; simpl; intros st tag rc d st' H.
  - inversion H; reflexivity.
  - destruct (call st rc m (d + c)%Z) as [[st1 z]|] eqn:C; [|discriminate].
    apply IH in H. simpl in H. rewrite H. apply (call_keys_l _ _ _ _ _ _ C).
Qed.

Lemma step_keys : forall hs st o st', step hs st o = Ok st' -> keys (s_statics st') = keys (s_statics st).
Proof.
  intros hs st o st' H. destruct o; cbn [step] in H.
  - apply bind_ok_inv in H as [sv [t [p [_ [_ [_ ->]]]]]]. reflexivity.
  - destruct (alookup x (s_vars st)); inversion H; reflexivity.
  - destruct (call st r m arg) as [[st1 z]|] eqn:C; [|discriminate]. inversion H; subst; simpl.
    apply (call_keys_l _ _ _ _ _ _ C).
  - destruct (find _ hs) as [hh|]; [|discriminate].
    match type of H with match ?E with _ => _ end = _ => destruct E as [st1|] eqn:EN; [|discriminate] end.
    destruct (run_calls st1 h (RVar (h_param hh)) d (h_calls hh)) as [st2|] eqn:RCs; [|discriminate].
    inversion H; subst; simpl. apply run_calls_keys in RCs. rewrite RCs.
    destruct (h_iface hh).
    + apply bind_ok_inv in EN as [sv [t [p [_ [_ [_ ->]]]]]]. reflexivity.
    + destruct (alookup src (s_vars st)) as [[| | |]|]; inversion EN; reflexivity.
  - destruct (alookup x (s_vars st)) as [[t [fs|v]| | |]|]; try discriminate.
    + destruct (alookup f fs); inversion H; reflexivity.
    + inversion H; reflexivity.
  - destruct (read (s_vars st) (LElem a i)) as [[t [fs|v]| | |]|]; try discriminate.
    destruct (alookup f fs); inversion H; reflexivity.
  - destruct (alookup x (s_vars st)) as [[| | |]|]; inversion H; reflexivity.
Qed.

Lemma run_ops_keys : forall hs os st st', run_ops hs st os = Ok st' -> keys (s_statics st') = keys (s_statics st).
Proof.
  induction os as [|o os IH]; simpl; intros st st' H.
  - inversion H; reflexivity.
  - destruct (step hs st o) as [st1|] eqn:S; [|discriminate].
    rewrite (IH _ _ H). eapply step_keys; eauto.
Qed.

(* operations other than calls do not touch the statics at all *)
Lemma step_noncall_statics : forall hs st o st', step hs st o = Ok st' ->
  match o with OCall _ _ _ | OVia _ _ _ => True | _ => s_statics st' = s_statics st end.
Proof.
  intros hs st o st' H. destruct o; cbn [step] in H; auto.
  - apply bind_ok_inv in H as [sv [t [p [_ [_ [_ ->]]]]]]. reflexivity.
  - destruct (alookup x (s_vars st)); inversion H; reflexivity.
  - destruct (alookup x (s_vars st)) as [[t [fs|v]| | |]|]; try discriminate.
    + destruct (alookup f fs); inversion H; reflexivity.
    + inversion H; reflexivity.
  - destruct (read (s_vars st) (LElem a i)) as [[t [fs|v]| | |]|]; try discriminate.
    destruct (alookup f fs); inversion H; reflexivity.
  - destruct (alookup x (s_vars st)) as [[| | |]|]; inversion H; reflexivity.
Qed.

(* every declared static is in the table after registration *)
Lemma add_statics_keys_mono : forall d ss k, In k (keys ss) -> In k (keys (add_statics d ss)).
Proof.
  intros d. unfold add_statics. induction (i_statics d) as [|[n z] l IH]; simpl; intros ss k H; [assumption|].
  apply IH. apply alookup_in_keys. rewrite alookup_aset. destruct (String.eqb k _); [eauto|].
  apply alookup_in_keys; assumption.
Qed.
Lemma add_statics_keys_new : forall d ss nz, In nz (i_statics d) ->
  In (static_key (i_iface d) (i_type d) (fst nz)) (keys (add_statics d ss)).
Proof.
  intros d. unfold add_statics. induction (i_statics d) as [|[n z] l IH]; simpl; intros ss nz H; [tauto|].
  destruct H as [<-|H].
  - simpl.
    assert (forall l0 (ss0 : list (string * Z)) k, In k (keys ss0) ->
      In k (keys (fold_left (fun acc (nz : name * Z) => aset (static_key (i_iface d) (i_type d) (fst nz)) (snd nz) acc) l0 ss0))) as M.
    { induction l0 as [|[n' z'] l0 IH0]; simpl; intros; [assumption|].
      apply IH0. apply alookup_in_keys. rewrite alookup_aset. destruct (String.eqb k _); [eauto|]. apply alookup_in_keys; assumption. }
    apply M. apply alookup_in_keys. rewrite alookup_aset_same. eauto.
  - apply IH; assumption.
Qed.
Lemma fold_add_statics_mono : forall ds ss k, In k (keys ss) -> In k (keys (fold_left (fun ss d => add_statics d ss) ds ss)).
Proof. induction ds as [|d ds IH]; simpl; intros; [assumption|]. apply IH. apply add_statics_keys_mono; assumption. Qed.
Lemma fold_add_statics_new : forall ds ss d nz, In d ds -> In nz (i_statics d) ->
  In (static_key (i_iface d) (i_type d) (fst nz)) (keys (fold_left (fun ss d => add_statics d ss) ds ss)).
Proof.
  induction ds as [|e ds IH]; simpl; intros ss d nz Hd Hn; [tauto|].
  destruct Hd as [->|Hd].
  - apply fold_add_statics_mono. apply add_statics_keys_new; assumption.
  - apply IH; assumption.
Qed.

Lemma register_all_impls : forall ds r, wf_impls ds -> register_all empty_registry ds = inl r ->
  r_impls r = ds /\ r_statics r = fold_left (fun ss d => add_statics d ss) ds [].
Proof.
  intros ds r W R. destruct empty_ok as [A [B C]].
  destruct (register_all_inv _ _ _ W C A B R) as [_ [_ [I S]]]. simpl in I, S. auto.
Qed.
