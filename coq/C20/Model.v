(* C20 - Mech model of the foreign-function interface of the Cb interpreter (code state: after the fix commits
   0c197b6 1309e2f 7ec0e3a ccde50e 000c633).

   Mirrors, function by function:
     src/backend/interpreter/ffi_manager.cpp   FFIManager::loadLibrary / registerFunction /
                                               processForeignModule / callFunction / callForeignFunction
     src/backend/interpreter/evaluator/functions/call_impl.cpp
                                               qualified call  module.f(...)   (~line 1204)
                                               unqualified call f(...)         (~line 3637)
   The signature if-chain of callFunction itself is NOT written here: it is re-extracted from the
   current C++ text into Gen_FfiTable.v (ffi_chain : list group) by translators/ffi_table.py; this
   file gives the meaning of such a table (first group whose return-type test holds, first row whose
   parameter test holds, the typedef the pointer is cast to, the Variable field feeding each
   argument, where the native result is stored).

   Numbers: int64_t fields are Z kept in [-2^63, 2^63); doubles are their 64-bit patterns, Z in
   [0, 2^64) - the model never does floating-point arithmetic; the only conversion the code performs
   on a double, static_cast<int64_t>(d), is modelled on the bit pattern (trunc_i64: cvttsd2si). *)
From Coq Require Import ZArith List Bool.
Import ListNotations.
Local Open Scope Z_scope.

(* ---------------------------------------------------------------- TypeInfo values the chain tests *)
Inductive ty := TInt | TLong | TDouble | TFloat | TVoid | TPointer | TUnknown | TOther.

Definition ty_eqb (a b : ty) : bool :=
  match a, b with
  | TInt, TInt | TLong, TLong | TDouble, TDouble | TFloat, TFloat
  | TVoid, TVoid | TPointer, TPointer | TUnknown, TUnknown | TOther, TOther => true
  | _, _ => false
  end.

Fixpoint tys_eqb (a b : list ty) : bool :=
  match a, b with
  | [], [] => true
  | x :: a', y :: b' => ty_eqb x y && tys_eqb a' b'
  | _, _ => false
  end.

Fixpoint mem_ty (t : ty) (l : list ty) : bool :=
  match l with [] => false | x :: l' => ty_eqb t x || mem_ty t l' end.

(* a C function type: what a declaration denotes and what a pointer is cast to *)
Record csig := mk_csig { cs_ret : ty; cs_params : list ty }.
Definition csig_eqb (a b : csig) : bool :=
  ty_eqb (cs_ret a) (cs_ret b) && tys_eqb (cs_params a) (cs_params b).

(* ---------------------------------------------------------------- machine integers / doubles *)
Definition wrap32 (z : Z) : Z := (z + 2 ^ 31) mod 2 ^ 32 - 2 ^ 31.     (* static_cast<int>(int64_t) *)
Definition wrap64 (z : Z) : Z := (z + 2 ^ 63) mod 2 ^ 64 - 2 ^ 63.
Definition in_i32 (z : Z) : Prop := - 2 ^ 31 <= z < 2 ^ 31.
Definition in_i64 (z : Z) : Prop := - 2 ^ 63 <= z < 2 ^ 63.

Definition dbl_sign (b : Z) : Z := (b / 2 ^ 63) mod 2.
Definition dbl_exp (b : Z) : Z := (b / 2 ^ 52) mod 2 ^ 11.
Definition dbl_man (b : Z) : Z := b mod 2 ^ 52.

(* static_cast<int64_t>(double) as x86-64 performs it (cvttsd2si): truncation toward zero, the
   "integer indefinite" value -2^63 for NaN, infinities and everything outside the int64 range *)
Definition trunc_i64 (b : Z) : Z :=
  let e := dbl_exp b in
  if e <? 1023 then 0
  else if 1086 <=? e then - 2 ^ 63
  else let s := 2 ^ 52 + dbl_man b in
       let mag := if e <? 1075 then s / 2 ^ (1075 - e) else s * 2 ^ (e - 1075) in
       if dbl_sign b =? 1 then - mag else mag.

(* static_cast<double>(int64_t): the nearest double, ties to even (cvtsi2sd), as a bit pattern *)
Definition double_of_i64 (v : Z) : Z :=
  if v =? 0 then 0
  else let m := Z.abs v in
       let e := Z.log2 m in
       let q0 := if e <=? 52 then m * 2 ^ (52 - e)
                 else let sh := e - 52 in
                      let q := m / 2 ^ sh in
                      let r := m mod 2 ^ sh in
                      let half := 2 ^ (sh - 1) in
                      if (half <? r) || ((r =? half) && Z.odd q) then q + 1 else q in
       let (e', q') := if q0 =? 2 ^ 53 then (e + 1, 2 ^ 52) else (e, q0) in
       (if v <? 0 then 2 ^ 63 else 0) + (e' + 1023) * 2 ^ 52 + (q' - 2 ^ 52).

(* a value as the native function sees it / returns it *)
Inductive cval := CInt (z : Z) | CLong (z : Z) | CDouble (bits : Z) | CVoid.

(* the three fields of `Variable` the FFI code touches *)
Record var := mk_var { v_type : ty; v_value : Z; v_dbl : Z }.
Definition default_var : var := mk_var TInt 0 0.        (* `Variable()` : type = TYPE_INT, value 0, double_value 0.0 *)
Definition set_type (t : ty) (v : var) : var := mk_var t (v_value v) (v_dbl v).

(* ---------------------------------------------------------------- meaning of a generated table *)
(* which Variable field feeds a native argument, with the conversion written in the code *)
Inductive feed :=
| FInt (k : nat)      (* static_cast<int>(args[k].value)  *)
| FLong (k : nat)     (* args[k].value as long            *)
| FDbl (k : nat).     (* args[k].double_value             *)

Inductive rstore :=
| RSDouble            (* result.double_value = func(..); result.value = (int64_t) result.double_value *)
| RSValue             (* result.value = func(..)  *)
| RSNone.             (* func(..);  *)

Record row := mk_row {
  r_pat : list (option ty);   (* size() == length; position k: Some t  <->  parameters[k].first == t tested *)
  r_cast : csig;              (* typedef R ( *func_type )(P...) the void* is reinterpret_cast to *)
  r_feeds : list feed;        (* the arguments of func(...) in call order *)
  r_store : rstore;
  r_return : bool             (* `return result;` inside the branch *)
}.

Record group := mk_group {
  g_rets : list ty;           (* sig.return_type == t1 || sig.return_type == t2 ... *)
  g_pre : option ty;          (* result.type = t; before the inner chain *)
  g_rows : list row;
  g_tail : option ty          (* after the inner chain: result.type = t; return result;  (None: fall out of the group) *)
}.

Fixpoint pat_match (p : list (option ty)) (ps : list ty) : bool :=
  match p, ps with
  | [], [] => true
  | o :: p', t :: ps' => (match o with None => true | Some u => ty_eqb t u end) && pat_match p' ps'
  | _, _ => false
  end.

Fixpoint find_row (rows : list row) (ps : list ty) : option row :=
  match rows with
  | [] => None
  | r :: rows' => if pat_match (r_pat r) ps then Some r else find_row rows' ps
  end.

Fixpoint find_group (gs : list group) (ret : ty) : option group :=
  match gs with
  | [] => None
  | g :: gs' => if mem_ty ret (g_rets g) then Some g else find_group gs' ret
  end.

Definition feed_val (args : list var) (f : feed) : cval :=
  match f with
  | FInt k => CInt (wrap32 (v_value (nth k args default_var)))
  | FLong k => CLong (v_value (nth k args default_var))
  | FDbl k => CDouble (v_dbl (nth k args default_var))
  end.

(* what lands in an int64_t / a double when the callee's return register is read *)
Definition cval_int (c : cval) : Z :=
  match c with CInt z => wrap32 z | CLong z => wrap64 z | CDouble _ => 0 | CVoid => 0 end.
Definition cval_bits (c : cval) : Z :=
  match c with CDouble b => b mod 2 ^ 64 | _ => 0 end.

Definition store (s : rstore) (res : var) (r : cval) : var :=
  match s with
  | RSDouble => mk_var (v_type res) (trunc_i64 (cval_bits r)) (cval_bits r)
  | RSValue => mk_var (v_type res) (cval_int r) (v_dbl res)
  | RSNone => res
  end.

(* one native call: the function type the pointer was cast to and the values handed over *)
Record call := mk_call { k_cast : csig; k_args : list cval }.

Inductive err :=
| ENotLoaded | ENotRegistered | EArgCount
| EUnsupported (ret : ty) (n : nat).      (* "Unsupported function signature for f: return type R with n parameters" *)

Record outcome := mk_out { o_res : var; o_err : option err; o_call : option call }.

Definition opt_set_type (o : option ty) (v : var) : var :=
  match o with Some t => set_type t v | None => v end.

Section Dispatch.
  (* the callee: receives the type it is called through and the marshalled values *)
  Variable native : csig -> list cval -> cval.
  Variable chain : list group.

  Definition unsupported (sig : csig) (res : var) (c : option call) : outcome :=
    mk_out (set_type TUnknown res) (Some (EUnsupported (cs_ret sig) (length (cs_params sig)))) c.

  (* FFIManager::callFunction from `Variable result;` to the end *)
  Definition dispatch (sig : csig) (args : list var) : outcome :=
    match find_group chain (cs_ret sig) with
    | None => unsupported sig default_var None
    | Some g =>
        let res1 := opt_set_type (g_pre g) default_var in
        match find_row (g_rows g) (cs_params sig) with
        | Some r =>
            let margs := map (feed_val args) (r_feeds r) in
            let res2 := store (r_store r) res1 (native (r_cast r) margs) in
            let c := Some (mk_call (r_cast r) margs) in
            if r_return r then mk_out res2 None c
            else match g_tail g with
                 | Some t => mk_out (set_type t res2) None c
                 | None => unsupported sig res2 c
                 end
        | None =>
            match g_tail g with
            | Some t => mk_out (set_type t res1) None None
            | None => unsupported sig res1 None
            end
        end
    end.

  Definition supported (sig : csig) : bool :=
    match find_group chain (cs_ret sig) with
    | None => false
    | Some g => match find_row (g_rows g) (cs_params sig) with Some _ => true | None => false end
    end.
End Dispatch.

(* ---------------------------------------------------------------- FFIManager state *)
(* module and function names are abstract identifiers *)
Record fdecl := mk_fdecl {
  fd_name : nat;
  fd_ret : ty;
  fd_params : list (ty * bool)%type       (* ForeignParameter.type, ForeignParameter.is_pointer *)
}.

(* the C type a declaration denotes, when it has one over the property's types; a pointer parameter
   is never a plain int/long/double *)
Inductive dty := DPlain (t : ty) | DPtr (t : ty).
Definition decl_ctype (d : fdecl) : (ty * list dty)%type :=
  (fd_ret d, map (fun p : (ty * bool)%type => if snd p then DPtr (fst p) else DPlain (fst p)) (fd_params d)).
(* processForeignModule: sig.parameters.push_back({param.is_pointer ? TYPE_POINTER : param.type, param.name}) *)
Definition dty_ty (d : dty) : ty := match d with DPlain t => t | DPtr _ => TPointer end.
Definition decl_sig (d : fdecl) : csig :=
  mk_csig (fd_ret d) (map (fun p : (ty * bool)%type => if snd p then TPointer else fst p) (fd_params d)).

Record ffi_state := mk_st {
  st_loaded : list nat;                      (* keys of loaded_libraries_ *)
  st_fns : list (nat * nat * csig)%type           (* (module, function) -> signature; newest first *)
}.
Definition st_empty : ffi_state := mk_st [] [].

Fixpoint mem_nat (n : nat) (l : list nat) : bool :=
  match l with [] => false | x :: l' => Nat.eqb n x || mem_nat n l' end.

Fixpoint lookup_fn (fns : list (nat * nat * csig)%type) (m f : nat) : option csig :=
  match fns with
  | [] => None
  | (m', f', s) :: fns' => if Nat.eqb m m' && Nat.eqb f f' then Some s else lookup_fn fns' m f
  end.

(* the files on disk: module -> exported symbols of lib<module>.so, None when dlopen fails *)
Definition env := nat -> option (list nat).

Inductive diag :=
| DLoadFailed (m : nat)          (* "Error: Failed to load library for module ..." *)
| DRegFailed (m f : nat)         (* "Error: Failed to register function ..."       *)
| DCallFailed (e : err).         (* "Error: FFI call failed: ..." followed by exit(1) *)

(* FFIManager::processForeignModule *)
Fixpoint register_all (st : ffi_state) (m : nat) (syms : list nat) (ds : list fdecl)
  : (ffi_state * list diag)%type :=
  match ds with
  | [] => (st, [])
  | d :: ds' =>
      if mem_nat (fd_name d) syms
      then register_all (mk_st (st_loaded st) ((m, fd_name d, decl_sig d) :: st_fns st)) m syms ds'
      else let (st', dg) := register_all st m syms ds' in (st', DRegFailed m (fd_name d) :: dg)
  end.

Definition process_module (e : env) (st : ffi_state) (m : nat) (ds : list fdecl) : (ffi_state * list diag)%type :=
  match e m with
  | None => if mem_nat m (st_loaded st)
            then register_all st m [] ds      (* cannot happen for a fixed env; kept total *)
            else (st, [DLoadFailed m])
  | Some syms =>
      let st1 := if mem_nat m (st_loaded st) then st else mk_st (m :: st_loaded st) (st_fns st) in
      register_all st1 m syms ds
  end.

Section Calls.
  Variable native : nat -> nat -> csig -> list cval -> cval.    (* module, function, cast type, values *)
  Variable chain : list group.
  Variable arity_check : bool.

  (* FFIManager::callFunction *)
  Definition call_function (st : ffi_state) (m f : nat) (args : list var) : outcome :=
    if negb (mem_nat m (st_loaded st)) then mk_out default_var (Some ENotLoaded) None
    else match lookup_fn (st_fns st) m f with
         | None => mk_out default_var (Some ENotRegistered) None
         | Some sig =>
             if arity_check && negb (Nat.eqb (length args) (length (cs_params sig)))
             then mk_out default_var (Some EArgCount) None
             else dispatch (native m f) chain sig args
         end.

  (* ------------------------------------------------------------ call sites (call_impl.cpp) *)
  (* what evaluate_typed returned for an argument expression *)
  Record typed_value := mk_tv {
    tv_type : ty; tv_is_float : bool; tv_is_string : bool; tv_value : Z; tv_dbl : Z }.

  Definition is_fp (t : ty) : bool := match t with TDouble | TFloat => true | _ => false end.

  (* the loop building `std::vector<Variable> args` (identical at both call sites) *)
  Definition build_arg (tv : typed_value) : var :=
    if tv_is_float tv || is_fp (tv_type tv)
    then mk_var (match tv_type tv with TUnknown => TDouble | t => t end) (trunc_i64 (tv_dbl tv)) (tv_dbl tv)
    else if tv_is_string tv then mk_var (tv_type tv) (tv_value tv) 0      (* string branch: only .value (and str_value) *)
    else mk_var (tv_type tv) (tv_value tv) (double_of_i64 (tv_value tv)). (* integer branch: value and (double) value *)

  Inductive site_result :=
  | SValue (is_double : bool) (v : Z)    (* value handed back to the evaluator: bits when is_double *)
  | SExit (e : err)                      (* diagnostic on stderr + std::exit(1) *)
  | SNotForeign.                         (* not an FFI call for this path: other lookup rules apply *)

  Definition site_value (r : var) : site_result :=
    if is_fp (v_type r) then SValue true (v_dbl r) else SValue false (v_value r).

  (* both sites: if (result.type == TYPE_UNKNOWN) { cerr << "Error: FFI call failed: ..."; exit(1); } *)
  Definition site_outcome (out : outcome) : (site_result * option call)%type :=
    match v_type (o_res out) with
    | TUnknown => (SExit (match o_err out with Some e => e | None => ENotRegistered end), o_call out)
    | _ => (site_value (o_res out), o_call out)
    end.

  (* module.f(args)   with `module` a loaded foreign module *)
  Definition qualified_call (st : ffi_state) (m f : nat) (tvs : list typed_value)
    : (site_result * option call)%type :=
    if negb (mem_nat m (st_loaded st)) then (SNotForeign, None)
    else site_outcome (call_function st m f (map build_arg tvs)).

  (* callForeignFunction: the first module (std::map order = ascending name) declaring f *)
  Fixpoint min_module (fns : list (nat * nat * csig)%type) (f : nat) (best : option nat) : option nat :=
    match fns with
    | [] => best
    | (m', f', _) :: fns' =>
        min_module fns' f (if Nat.eqb f f'
                           then match best with None => Some m' | Some b => Some (Nat.min b m') end
                           else best)
    end.

  (* f(args)  with f registered as a foreign function; TYPE_UNKNOWN -> diagnostic + exit(1) here too *)
  Definition unqualified_call (st : ffi_state) (f : nat) (tvs : list typed_value)
    : (site_result * option call)%type :=
    match min_module (st_fns st) f None with
    | None => (SNotForeign, None)
    | Some m => site_outcome (call_function st m f (map build_arg tvs))
    end.

  (* ------------------------------------------------------------ histories *)
  Inductive op :=
  | OUse (m : nat) (ds : list fdecl)                         (* use foreign.m { ... }  (processed before main) *)
  | OCall (qualified : bool) (m f : nat) (tvs : list typed_value).

  Inductive event :=
  | EvDiag (d : diag)
  | EvCall (m f : nat) (c : call)        (* a native function was entered *)
  | EvResult (r : site_result).

  Definition call_events (m f : nat) (rc : (site_result * option call)%type) : list event :=
    (match snd rc with Some c => [EvCall m f c] | None => [] end) ++
    (match fst rc with SExit e => [EvDiag (DCallFailed e)] | _ => [] end) ++ [EvResult (fst rc)].

  Definition is_exit (r : site_result) : bool := match r with SExit _ => true | _ => false end.

  (* runs until the list ends or a call site exits the process *)
  Fixpoint run_history (e : env) (st : ffi_state) (ops : list op) : list event :=
    match ops with
    | [] => []
    | OUse m ds :: ops' =>
        let (st', dg) := process_module e st m ds in map EvDiag dg ++ run_history e st' ops'
    | OCall q m f tvs :: ops' =>
        let rc := if q then qualified_call st m f tvs else unqualified_call st f tvs in
        let m' := if q then m else match min_module (st_fns st) f None with Some x => x | None => m end in
        call_events m' f rc ++ (if is_exit (fst rc) then [] else run_history e st ops')
    end.
End Calls.

(* ---------------------------------------------------------------- Spec: the property's own words *)
(* C conversion of a Cb argument to the declared parameter type, for the types the property names *)
Definition spec_arg (t : ty) (a : var) : option cval :=
  match t with
  | TInt => Some (CInt (wrap32 (v_value a)))
  | TLong => Some (CLong (v_value a))
  | TDouble => Some (CDouble (v_dbl a))
  | _ => None
  end.

Fixpoint spec_args (ps : list ty) (args : list var) : list cval :=
  match ps, args with
  | t :: ps', a :: args' =>
      (match spec_arg t a with Some c => c | None => CVoid end) :: spec_args ps' args'
  | _, _ => []
  end.

(* the result as Cb must see it: the native value unchanged, typed by the declared return type *)
Definition spec_result (ret : ty) (r : cval) (res0 : var) : var :=
  match ret with
  | TInt | TLong => mk_var ret (cval_int r) (v_dbl res0)
  | TDouble => mk_var TDouble (trunc_i64 (cval_bits r)) (cval_bits r)
  | _ => set_type ret res0
  end.

Definition in_scope (t : ty) : bool :=
  match t with TInt | TLong | TDouble | TVoid => true | _ => false end.

(* ---------------------------------------------------------------- the echo library of the check *)
(* harness/cpp/c20_echo.c: every function records its arguments and returns either a constant chosen
   by the test (reply = Some bits) or an asymmetric mix of its arguments needing all 64 bits. *)
Definition cval_w64 (c : cval) : Z :=
  match c with
  | CInt z => (wrap32 z) mod 2 ^ 64
  | CLong z => z mod 2 ^ 64
  | CDouble b => b mod 2 ^ 64
  | CVoid => 0
  end.

Fixpoint mix_args (k : Z) (args : list cval) : Z :=
  match args with
  | [] => 0
  | a :: args' => ((2 * k + 3) * cval_w64 a + mix_args (k + 1) args')
  end.

Definition echo_mix (args : list cval) : Z := (11400714819323198485 + mix_args 0 args) mod 2 ^ 64.

(* a NaN pattern would not survive the interpreter's long double conversions: clear exponent bit 62 *)
Definition no_nan (b : Z) : Z :=
  if (dbl_exp b =? 2047) && negb (dbl_man b =? 0) then b - 2 ^ 62 else b.

Definition echo_native (reply : option Z) (cast : csig) (args : list cval) : cval :=
  let w := match reply with Some b => b mod 2 ^ 64 | None => echo_mix args end in
  match cs_ret cast with
  | TInt => CInt (wrap32 ((w + w / 2 ^ 32) mod 2 ^ 32))
  | TLong => CLong (wrap64 w)
  | TDouble => CDouble (no_nan w)
  | _ => CVoid
  end.
