(* C20 - proofs about the meaning of ANY dispatch table (Model.dispatch) under decidable well-formedness
   checks (casts_ok, feeds_ok, stores_ok, tails_ok). Properties_C20.v instantiates them with the table
   regenerated from ffi_manager.cpp (Gen_FfiTable.ffi_chain), the checks being evaluated by vm_compute. *)
From Coq Require Import ZArith List Bool Lia Arith.
From Cb Require Import C20.Model.
Import ListNotations.
Local Open Scope Z_scope.

(* ------------------------------------------------------------------ equality tests *)
Lemma ty_eqb_eq a b : ty_eqb a b = true <-> a = b.
Proof. destruct a, b; simpl; split; intro H; try reflexivity; try discriminate. Qed.

Lemma ty_eqb_refl a : ty_eqb a a = true.
Proof. destruct a; reflexivity. Qed.

Lemma tys_eqb_eq a : forall b, tys_eqb a b = true <-> a = b.
Proof.
  induction a as [|x a IH]; destruct b as [|y b]; simpl; split; intro H;
    try reflexivity; try discriminate.
  - apply andb_true_iff in H. destruct H as [H1 H2]. apply ty_eqb_eq in H1. apply IH in H2. now subst.
  - inversion H; subst. apply andb_true_iff; split; [apply ty_eqb_refl | now apply IH].
Qed.

Lemma csig_eqb_eq a b : csig_eqb a b = true <-> a = b.
Proof.
  destruct a as [r1 p1], b as [r2 p2]; unfold csig_eqb; simpl. rewrite andb_true_iff, ty_eqb_eq, tys_eqb_eq.
  split; [intros [-> ->]; reflexivity | intro H; inversion H; auto].
Qed.

Lemma mem_ty_In t l : mem_ty t l = true <-> In t l.
Proof.
  induction l as [|x l IH]; simpl; [split; [discriminate | tauto]|].
  rewrite orb_true_iff, ty_eqb_eq, IH. split; intros [H|H]; auto.
Qed.

Lemma mem_nat_In n l : mem_nat n l = true <-> In n l.
Proof.
  induction l as [|x l IH]; simpl; [split; [discriminate | tauto]|].
  rewrite orb_true_iff, Nat.eqb_eq, IH. split; intros [H|H]; auto.
Qed.

Lemma pat_match_some tys : forall ps, pat_match (map Some tys) ps = true <-> ps = tys.
Proof.
  induction tys as [|t tys IH]; destruct ps as [|p ps]; simpl; split; intro H;
    try reflexivity; try discriminate.
  - apply andb_true_iff in H. destruct H as [H1 H2]. apply ty_eqb_eq in H1. apply IH in H2. now subst.
  - inversion H; subst. apply andb_true_iff; split; [apply ty_eqb_refl | now apply IH].
Qed.

Definition opat_eqb (a b : option ty) : bool :=
  match a, b with None, None => true | Some x, Some y => ty_eqb x y | _, _ => false end.
Fixpoint pat_eqb (a b : list (option ty)) : bool :=
  match a, b with
  | [], [] => true
  | x :: a', y :: b' => opat_eqb x y && pat_eqb a' b'
  | _, _ => false
  end.
Lemma pat_eqb_eq a : forall b, pat_eqb a b = true -> a = b.
Proof.
  induction a as [|x a IH]; destruct b as [|y b]; simpl; intro H; try reflexivity; try discriminate.
  apply andb_true_iff in H. destruct H as [H1 H2]. apply IH in H2. subst.
  destruct x, y; simpl in H1; try discriminate; [apply ty_eqb_eq in H1; now subst | reflexivity].
Qed.

(* ------------------------------------------------------------------ lookups *)
Lemma find_group_In chain ret g : find_group chain ret = Some g -> In g chain /\ In ret (g_rets g).
Proof.
  induction chain as [|g0 chain IH]; simpl; [discriminate|].
  destruct (mem_ty ret (g_rets g0)) eqn:E.
  - intro H; inversion H; subst. split; [now left | now apply mem_ty_In].
  - intro H. destruct (IH H). split; [now right | assumption].
Qed.

Lemma find_row_In rows ps r : find_row rows ps = Some r -> In r rows /\ pat_match (r_pat r) ps = true.
Proof.
  induction rows as [|r0 rows IH]; simpl; [discriminate|].
  destruct (pat_match (r_pat r0) ps) eqn:E.
  - intro H; inversion H; subst. split; [now left | assumption].
  - intro H. destruct (IH H). split; [now right | assumption].
Qed.

(* ------------------------------------------------------------------ check 1: the cast of every row *)
Definition cast_ok (g : group) (r : row) : bool :=
  pat_eqb (r_pat r) (map Some (cs_params (r_cast r))) &&
  forallb (fun ret => ty_eqb (cs_ret (r_cast r)) ret) (g_rets g).
Definition casts_ok (chain : list group) : bool :=
  forallb (fun g => forallb (cast_ok g) (g_rows g)) chain.

Lemma casts_ok_sound chain : casts_ok chain = true ->
  forall g r ret ps, In g chain -> In r (g_rows g) -> In ret (g_rets g) ->
  pat_match (r_pat r) ps = true -> r_cast r = mk_csig ret ps.
Proof.
  intros H g r ret ps Hg Hr Hret Hm.
  unfold casts_ok in H. rewrite forallb_forall in H. specialize (H g Hg).
  rewrite forallb_forall in H. specialize (H r Hr). unfold cast_ok in H.
  apply andb_true_iff in H. destruct H as [H1 H2].
  apply pat_eqb_eq in H1. rewrite H1 in Hm. apply pat_match_some in Hm.
  rewrite forallb_forall in H2. specialize (H2 ret Hret).
  apply ty_eqb_eq in H2. destruct (r_cast r) as [cr cp]; simpl in *. now subst.
Qed.

(* every native call dispatch makes goes through a row selected by the declared signature *)
Lemma dispatch_call_row native chain sig args c :
  o_call (dispatch native chain sig args) = Some c ->
  exists g r, find_group chain (cs_ret sig) = Some g /\ find_row (g_rows g) (cs_params sig) = Some r /\
              c = mk_call (r_cast r) (map (feed_val args) (r_feeds r)).
Proof.
  unfold dispatch. destruct (find_group chain (cs_ret sig)) as [g|] eqn:Eg; [|simpl; discriminate].
  destruct (find_row (g_rows g) (cs_params sig)) as [r|] eqn:Er.
  - intro H. exists g, r. split; [reflexivity|]. split; [exact Er|].
    destruct (r_return r); [simpl in H; now inversion H|].
    destruct (g_tail g); simpl in H; now inversion H.
  - destruct (g_tail g); simpl; discriminate.
Qed.

Lemma dispatch_cast_sound native chain : casts_ok chain = true ->
  forall sig args c,
  o_call (dispatch native chain sig args) = Some c -> k_cast c = sig.
Proof.
  intros H sig args c Hc. apply dispatch_call_row in Hc. destruct Hc as (g & r & Hg & Hr & ->).
  apply find_group_In in Hg. apply find_row_In in Hr. destruct Hg, Hr. simpl.
  rewrite (casts_ok_sound chain H g r (cs_ret sig) (cs_params sig)); auto. now destruct sig.
Qed.

(* ------------------------------------------------------------------ check 2: the argument feeds *)
Definition feed_for (t : ty) (k : nat) : option feed :=
  match t with TInt => Some (FInt k) | TLong => Some (FLong k) | TDouble => Some (FDbl k) | _ => None end.
Fixpoint feeds_for (k : nat) (ps : list ty) : option (list feed) :=
  match ps with
  | [] => Some []
  | t :: ps' => match feed_for t k, feeds_for (S k) ps' with
                | Some f, Some fs => Some (f :: fs)
                | _, _ => None
                end
  end.
Definition feed_eqb (a b : feed) : bool :=
  match a, b with
  | FInt x, FInt y | FLong x, FLong y | FDbl x, FDbl y => Nat.eqb x y
  | _, _ => false
  end.
Fixpoint feeds_eqb (a b : list feed) : bool :=
  match a, b with
  | [], [] => true
  | x :: a', y :: b' => feed_eqb x y && feeds_eqb a' b'
  | _, _ => false
  end.
Lemma feed_eqb_eq a b : feed_eqb a b = true -> a = b.
Proof. destruct a, b; simpl; intro H; try discriminate; apply Nat.eqb_eq in H; now subst. Qed.
Lemma feeds_eqb_eq a : forall b, feeds_eqb a b = true -> a = b.
Proof.
  induction a as [|x a IH]; destruct b as [|y b]; simpl; intro H; try reflexivity; try discriminate.
  apply andb_true_iff in H. destruct H as [H1 H2]. apply feed_eqb_eq in H1. apply IH in H2. now subst.
Qed.

Definition feeds_ok_row (r : row) : bool :=
  match feeds_for 0 (cs_params (r_cast r)) with
  | Some fs => feeds_eqb fs (r_feeds r)
  | None => false
  end.
Definition feeds_ok (chain : list group) : bool :=
  forallb (fun g => forallb feeds_ok_row (g_rows g)) chain.

Lemma skipn_cons_nth {A} (d : A) : forall k (l : list A) a rest,
  skipn k l = a :: rest -> nth k l d = a /\ skipn (S k) l = rest.
Proof.
  induction k as [|k IH]; intros l a rest H.
  - destruct l; simpl in H; [discriminate|]. inversion H; subst. split; reflexivity.
  - destruct l as [|x l]; simpl in H; [discriminate|]. apply IH in H. destruct H as [H1 H2]. split; assumption.
Qed.

Lemma feeds_sound args : forall ps k fs,
  feeds_for k ps = Some fs -> length (skipn k args) = length ps ->
  map (feed_val args) fs = spec_args ps (skipn k args).
Proof.
  induction ps as [|t ps IH]; intros k fs H L.
  - simpl in H. inversion H; subst. reflexivity.
  - simpl in H. destruct (feed_for t k) as [f|] eqn:Ef; [|discriminate].
    destruct (feeds_for (S k) ps) as [fs'|] eqn:Efs; [|discriminate]. inversion H; subst.
    destruct (skipn k args) as [|a rest] eqn:Es; [simpl in L; discriminate|].
    destruct (skipn_cons_nth default_var _ _ _ _ Es) as [Hn Hr].
    simpl. f_equal.
    + destruct t; simpl in Ef; try discriminate; injection Ef as <-; simpl; rewrite Hn; reflexivity.
    + rewrite <- Hr. apply IH; [assumption|]. rewrite Hr. simpl in L. now inversion L.
Qed.

Lemma dispatch_args_sound native chain : casts_ok chain = true -> feeds_ok chain = true ->
  forall sig args c, length args = length (cs_params sig) ->
  o_call (dispatch native chain sig args) = Some c ->
  k_args c = spec_args (cs_params sig) args.
Proof.
  intros H1 H2 sig args c L Hc. apply dispatch_call_row in Hc. destruct Hc as (g & r & Hg & Hr & ->).
  apply find_group_In in Hg. apply find_row_In in Hr. destruct Hg as [Hg Hret], Hr as [Hr Hm]. simpl.
  pose proof (casts_ok_sound chain H1 g r _ _ Hg Hr Hret Hm) as Hc.
  unfold feeds_ok in H2. rewrite forallb_forall in H2. specialize (H2 g Hg).
  rewrite forallb_forall in H2. specialize (H2 r Hr). unfold feeds_ok_row in H2.
  rewrite Hc in H2. simpl in H2.
  destruct (feeds_for 0 (cs_params sig)) as [fs|] eqn:Ef; [|discriminate].
  apply feeds_eqb_eq in H2. subst fs.
  apply (feeds_sound args) in Ef; [exact Ef | exact L].
Qed.

(* position by position: native argument k is the conversion of Cb argument k to parameter type k *)
Definition conv (t : ty) (a : var) : cval := match spec_arg t a with Some c => c | None => CVoid end.

Lemma spec_args_nth : forall ps args k t a,
  nth_error ps k = Some t -> nth_error args k = Some a ->
  nth_error (spec_args ps args) k = Some (conv t a).
Proof.
  induction ps as [|p ps IH]; intros args k t a Hp Ha; [destruct k; discriminate|].
  destruct args as [|x args]; [destruct k; discriminate|].
  destruct k as [|k]; simpl in *.
  - inversion Hp; inversion Ha; subst. reflexivity.
  - now apply IH.
Qed.

(* ------------------------------------------------------------------ machine arithmetic facts *)
Lemma wrap32_id z : in_i32 z -> wrap32 z = z.
Proof. unfold in_i32, wrap32. intro H. rewrite Z.mod_small; lia. Qed.
Lemma wrap64_id z : in_i64 z -> wrap64 z = z.
Proof. unfold in_i64, wrap64. intro H. rewrite Z.mod_small; lia. Qed.
Lemma wrap32_range z : in_i32 (wrap32 z).
Proof. unfold in_i32, wrap32. pose proof (Z.mod_pos_bound (z + 2 ^ 31) (2 ^ 32)). lia. Qed.
Lemma wrap32_congr z : (wrap32 z - z) mod 2 ^ 32 = 0.
Proof.
  unfold wrap32.
  replace ((z + 2 ^ 31) mod 2 ^ 32 - 2 ^ 31 - z) with ((z + 2 ^ 31) mod 2 ^ 32 - (z + 2 ^ 31)) by lia.
  rewrite Zminus_mod, Z.mod_mod by lia. rewrite Z.sub_diag. reflexivity.
Qed.

(* ------------------------------------------------------------------ check 3: result storage *)
Definition store_for (t : ty) : option rstore :=
  match t with TDouble => Some RSDouble | TInt | TLong => Some RSValue | TVoid => Some RSNone | _ => None end.
Definition rstore_eqb (a b : rstore) : bool :=
  match a, b with RSDouble, RSDouble | RSValue, RSValue | RSNone, RSNone => true | _, _ => false end.
Definition eff_type (g : group) (r : row) : ty :=
  if r_return r then match g_pre g with Some t => t | None => TInt end
  else match g_tail g with Some t => t | None => TUnknown end.
Definition store_ok (g : group) (r : row) : bool :=
  match store_for (cs_ret (r_cast r)) with Some s => rstore_eqb s (r_store r) | None => false end &&
  ty_eqb (eff_type g r) (cs_ret (r_cast r)).
Definition stores_ok (chain : list group) : bool :=
  forallb (fun g => forallb (store_ok g) (g_rows g)) chain.

Lemma opt_set_type_fields o : v_value (opt_set_type o default_var) = 0 /\ v_dbl (opt_set_type o default_var) = 0 /\
  v_type (opt_set_type o default_var) = match o with Some t => t | None => TInt end.
Proof. destruct o; simpl; auto. Qed.

Lemma dispatch_result_sound native chain : casts_ok chain = true -> stores_ok chain = true ->
  forall sig args c,
  o_call (dispatch native chain sig args) = Some c ->
  o_err (dispatch native chain sig args) = None /\
  o_res (dispatch native chain sig args) = spec_result (cs_ret sig) (native sig (k_args c)) default_var.
Proof.
  intros H1 H2 sig args c Hc.
  destruct (dispatch_call_row _ _ _ _ _ Hc) as (g & r & Hg & Hr & ->).
  unfold dispatch. rewrite Hg, Hr.
  apply find_group_In in Hg. apply find_row_In in Hr. destruct Hg as [Hg Hret], Hr as [Hr Hm].
  pose proof (casts_ok_sound chain H1 g r _ _ Hg Hr Hret Hm) as Hcast.
  unfold stores_ok in H2. rewrite forallb_forall in H2. specialize (H2 g Hg).
  rewrite forallb_forall in H2. specialize (H2 r Hr). unfold store_ok in H2.
  apply andb_true_iff in H2. destruct H2 as [Hst Het]. apply ty_eqb_eq in Het.
  rewrite Hcast in Hst, Het. simpl in Hst, Het. simpl k_args.
  assert (Hsig : mk_csig (cs_ret sig) (cs_params sig) = sig) by now destruct sig.
  rewrite Hcast, Hsig.
  destruct (opt_set_type_fields (g_pre g)) as (Fv & Fd & Ft).
  set (res1 := opt_set_type (g_pre g) default_var) in *.
  set (rr := native sig (map (feed_val args) (r_feeds r))).
  unfold eff_type in Het.
  destruct (cs_ret sig) eqn:Eret; simpl in Hst; try discriminate;
    destruct (r_store r); simpl in Hst; try discriminate;
    destruct (r_return r); simpl;
    try (destruct (g_tail g) as [tl|]; [|discriminate]); simpl;
    (split; [reflexivity|]); unfold spec_result, store, set_type; simpl;
    rewrite ?Fv, ?Fd, ?Ft; try rewrite Het; try reflexivity.
  all: clearbody res1; destruct res1; simpl in *; congruence.
Qed.

(* ------------------------------------------------------------------ unsupported signatures *)
Lemma unsupported_no_call native chain sig args :
  supported chain sig = false -> o_call (dispatch native chain sig args) = None.
Proof.
  unfold supported, dispatch. destruct (find_group chain (cs_ret sig)) as [g|]; [|reflexivity].
  destruct (find_row (g_rows g) (cs_params sig)); [discriminate|].
  intros _. destruct (g_tail g); reflexivity.
Qed.

Lemma supported_calls native chain sig args :
  supported chain sig = true -> exists c, o_call (dispatch native chain sig args) = Some c.
Proof.
  unfold supported, dispatch. destruct (find_group chain (cs_ret sig)) as [g|]; [|discriminate].
  destruct (find_row (g_rows g) (cs_params sig)) as [r|]; [|discriminate].
  intros _. destruct (r_return r); [eexists; reflexivity|]. destruct (g_tail g); eexists; reflexivity.
Qed.

Definition group_falls (chain : list group) (ret : ty) : bool :=
  match find_group chain ret with
  | Some g => match g_tail g with None => true | Some _ => false end
  | None => true
  end.

Lemma unsupported_diag native chain sig args :
  supported chain sig = false -> group_falls chain (cs_ret sig) = true ->
  o_err (dispatch native chain sig args) = Some (EUnsupported (cs_ret sig) (length (cs_params sig))) /\
  v_type (o_res (dispatch native chain sig args)) = TUnknown.
Proof.
  unfold supported, group_falls, dispatch.
  destruct (find_group chain (cs_ret sig)) as [g|]; [|intros _ _; split; reflexivity].
  destruct (find_row (g_rows g) (cs_params sig)); [discriminate|].
  intros _. destruct (g_tail g); [discriminate|]. intros _. split; reflexivity.
Qed.

Definition all_tys : list ty := [TInt; TLong; TDouble; TFloat; TVoid; TPointer; TUnknown; TOther].
Lemma all_tys_complete t : In t all_tys.
Proof. destruct t; simpl; tauto. Qed.

(* every return type leaves its group through the "Unsupported" diagnostic when no row matches *)
Definition tails_ok (chain : list group) : bool := forallb (group_falls chain) all_tys.
Lemma tails_ok_sound chain : tails_ok chain = true -> forall ret, group_falls chain ret = true.
Proof.
  intros H ret. unfold tails_ok in H. rewrite forallb_forall in H. exact (H ret (all_tys_complete ret)).
Qed.

(* ------------------------------------------------------------------ what a supported signature looks like *)
Definition plain (t : ty) : Prop := t = TInt \/ t = TLong \/ t = TDouble.

Lemma feeds_for_plain : forall ps k fs, feeds_for k ps = Some fs -> Forall plain ps.
Proof.
  induction ps as [|t ps IH]; intros k fs H; [constructor|].
  simpl in H. destruct (feed_for t k) eqn:Ef; [|discriminate].
  destruct (feeds_for (S k) ps) eqn:Efs; [|discriminate].
  constructor; [|eapply IH; eauto].
  unfold plain. destruct t; simpl in Ef; try discriminate; auto.
Qed.

(* only int/long/double/void returns over int/long/double parameters can be in a checked table: a float
   return, a pointer parameter, any other TypeInfo is unsupported *)
Lemma supported_plain chain : casts_ok chain = true -> feeds_ok chain = true -> stores_ok chain = true ->
  forall sig, supported chain sig = true -> in_scope (cs_ret sig) = true /\ Forall plain (cs_params sig).
Proof.
  intros H1 H2 H3 sig. unfold supported.
  destruct (find_group chain (cs_ret sig)) as [g|] eqn:Eg; [|discriminate].
  destruct (find_row (g_rows g) (cs_params sig)) as [r|] eqn:Er; [|discriminate]. intros _.
  apply find_group_In in Eg. apply find_row_In in Er. destruct Eg as [Hg Hret], Er as [Hr Hm].
  pose proof (casts_ok_sound chain H1 g r _ _ Hg Hr Hret Hm) as Hc.
  unfold feeds_ok in H2. rewrite forallb_forall in H2. specialize (H2 g Hg).
  rewrite forallb_forall in H2. specialize (H2 r Hr). unfold feeds_ok_row in H2. rewrite Hc in H2. simpl in H2.
  unfold stores_ok in H3. rewrite forallb_forall in H3. specialize (H3 g Hg).
  rewrite forallb_forall in H3. specialize (H3 r Hr). unfold store_ok in H3. rewrite Hc in H3. simpl in H3.
  apply andb_true_iff in H3. destruct H3 as [H3 _].
  split.
  - destruct (cs_ret sig); simpl in H3; try discriminate; reflexivity.
  - destruct (feeds_for 0 (cs_params sig)) eqn:Ef; [|discriminate]. eapply feeds_for_plain; eauto.
Qed.
