(* Extraction of the C20 model to OCaml (ExtrOcamlBasic + ExtrOcamlString only; nat/Z stay inductive). *)
From Coq Require Import Extraction ExtrOcamlBasic ExtrOcamlString.
From Cb Require Import C20.Model C20.Gen_FfiTable.
Extraction Language OCaml.
Extraction "C20/c20_model.ml" run_history echo_native supported dispatch ffi_chain ffi_arity_check st_empty.
