(* C20 - static_cast<double>(int64_t) as modelled by Model.double_of_i64 is exact below 2^53:
   the bit pattern produced denotes exactly the integer (sign, exponent, 53-bit significand). *)
From Coq Require Import ZArith Lia Bool.
From Cb Require Import C20.Model.
Local Open Scope Z_scope.

(* the IEEE-754 double with pattern b is the integer v:  (-1)^s * (2^52 + man) * 2^(exp - 1075) = v *)
Definition dbl_denotes_int (b v : Z) : Prop :=
  (v = 0 /\ b = 0) \/
  (v <> 0 /\ dbl_sign b = (if v <? 0 then 1 else 0) /\ 1023 <= dbl_exp b < 2047 /\
   (2 ^ 52 + dbl_man b) * 2 ^ (dbl_exp b - 1023) = Z.abs v * 2 ^ 52).

Lemma pos_case m e : 0 < m -> e = Z.log2 m -> m < 2 ^ 53 ->
  0 <= e <= 52 /\ 2 ^ 52 <= m * 2 ^ (52 - e) < 2 ^ 53 /\ m * 2 ^ (52 - e) * 2 ^ e = m * 2 ^ 52.
Proof.
  intros Hm He Hlt.
  destruct (Z.log2_spec m Hm) as [Hlo Hhi]. rewrite <- He in Hlo, Hhi.
  assert (H0 : 0 <= e) by (subst; apply Z.log2_nonneg).
  assert (H52 : e <= 52).
  { assert (Z.log2 m < 53) by (apply Z.log2_lt_pow2; lia). lia. }
  assert (Hp : 0 < 2 ^ (52 - e)) by (apply Z.pow_pos_nonneg; lia).
  assert (E1 : 2 ^ e * 2 ^ (52 - e) = 2 ^ 52) by (rewrite <- Z.pow_add_r by lia; f_equal; lia).
  assert (E2 : 2 ^ Z.succ e * 2 ^ (52 - e) = 2 ^ 53) by (rewrite <- Z.pow_add_r by lia; f_equal; lia).
  split; [lia|]. split.
  - split.
    + rewrite <- E1. apply Z.mul_le_mono_nonneg_r; lia.
    + rewrite <- E2. apply Z.mul_lt_mono_pos_r; lia.
  - rewrite <- Z.mul_assoc. f_equal. rewrite Z.mul_comm. exact E1.
Qed.

Lemma fields (S e q : Z) : (S = 0 \/ S = 2 ^ 63) -> 0 <= e <= 52 -> 2 ^ 52 <= q < 2 ^ 53 ->
  let b := S + (e + 1023) * 2 ^ 52 + (q - 2 ^ 52) in
  0 <= b < 2 ^ 64 /\ dbl_man b = q - 2 ^ 52 /\ dbl_exp b = e + 1023 /\ dbl_sign b = S / 2 ^ 63.
Proof.
  intros HS He Hq b. unfold dbl_man, dbl_exp, dbl_sign. subst b.
  change (2 ^ 52) with 4503599627370496 in *. change (2 ^ 53) with 9007199254740992 in *.
  change (2 ^ 63) with 9223372036854775808 in *. change (2 ^ 64) with 18446744073709551616.
  change (2 ^ 11) with 2048.
  destruct HS as [-> | ->]; repeat split; try lia;
    Z.div_mod_to_equations; lia.
Qed.

Theorem double_of_i64_exact v : Z.abs v < 2 ^ 53 ->
  0 <= double_of_i64 v < 2 ^ 64 /\ dbl_denotes_int (double_of_i64 v) v.
Proof.
  intro Hv. unfold double_of_i64.
  destruct (v =? 0) eqn:E0.
  - apply Z.eqb_eq in E0. subst. split; [lia|]. left. split; reflexivity.
  - apply Z.eqb_neq in E0.
    assert (Hm : 0 < Z.abs v) by lia.
    destruct (pos_case (Z.abs v) (Z.log2 (Z.abs v)) Hm eq_refl Hv) as (He & Hq & Heq).
    set (e := Z.log2 (Z.abs v)) in *. set (q := Z.abs v * 2 ^ (52 - e)) in *.
    assert (L : (e <=? 52) = true) by (apply Z.leb_le; lia). rewrite L.
    assert (N : (q =? 2 ^ 53) = false) by (apply Z.eqb_neq; lia). rewrite N.
    cbv beta iota.
    assert (HS : (if v <? 0 then 2 ^ 63 else 0) = 0 \/ (if v <? 0 then 2 ^ 63 else 0) = 2 ^ 63)
      by (destruct (v <? 0); auto).
    destruct (fields _ e q HS He Hq) as (Hb & Fm & Fe & Fs).
    split; [exact Hb|]. right. split; [exact E0|].
    rewrite Fs, Fe, Fm. split; [|split].
    + destruct (v <? 0); reflexivity.
    + lia.
    + replace (2 ^ 52 + (q - 2 ^ 52)) with q by lia. replace (e + 1023 - 1023) with e by lia. exact Heq.
Qed.
