(* C20 - proofs about FFIManager::callFunction as a whole, the two call sites of call_impl.cpp and
   whole histories (use foreign declarations followed by calls), for any table passing the checks of
   Lemmas.v and any native functions / any files on disk. *)
From Coq Require Import ZArith List Bool Lia Arith.
From Cb Require Import C20.Model C20.Lemmas.
Import ListNotations.
Local Open Scope Z_scope.

Lemma lookup_fn_In fns m f s : lookup_fn fns m f = Some s -> In (m, f, s) fns.
Proof.
  induction fns as [|[[m' f'] s'] fns IH]; simpl; [discriminate|].
  destruct (Nat.eqb m m' && Nat.eqb f f') eqn:E.
  - intro H; inversion H; subst. apply andb_true_iff in E. destruct E as [E1 E2].
    apply Nat.eqb_eq in E1. apply Nat.eqb_eq in E2. subst. now left.
  - intro H. right. now apply IH.
Qed.

(* ------------------------------------------------------------------ well-typed arguments *)
Definition int_typed (tv : typed_value) : Prop :=
  tv_is_float tv = false /\ is_fp (tv_type tv) = false /\ tv_is_string tv = false.

Inductive wt : ty -> typed_value -> Prop :=
| wt_int tv : int_typed tv -> in_i32 (tv_value tv) -> wt TInt tv
| wt_long tv : int_typed tv -> wt TLong tv
| wt_dbl tv : tv_type tv = TDouble -> wt TDouble tv
| wt_dbl_int tv : int_typed tv -> wt TDouble tv.   (* integer expression for a double parameter: C conversion *)

(* the value the property demands the native function to see *)
Definition exact_val (t : ty) (tv : typed_value) : cval :=
  match t with
  | TInt => CInt (tv_value tv) | TLong => CLong (tv_value tv)
  | TDouble => CDouble (if tv_is_float tv || is_fp (tv_type tv) then tv_dbl tv else double_of_i64 (tv_value tv))
  | _ => CVoid
  end.
Fixpoint exact_vals (ps : list ty) (tvs : list typed_value) : list cval :=
  match ps, tvs with
  | t :: ps', tv :: tvs' => exact_val t tv :: exact_vals ps' tvs'
  | _, _ => []
  end.

Lemma build_arg_double tv : tv_type tv = TDouble ->
  build_arg tv = mk_var TDouble (trunc_i64 (tv_dbl tv)) (tv_dbl tv).
Proof. intro H. unfold build_arg. rewrite H. simpl. rewrite orb_true_r. reflexivity. Qed.

Lemma build_arg_int tv : int_typed tv ->
  build_arg tv = mk_var (tv_type tv) (tv_value tv) (double_of_i64 (tv_value tv)).
Proof. intros (H1 & H2 & H3). unfold build_arg. rewrite H1, H2, H3. reflexivity. Qed.

Lemma spec_args_wt ps tvs : Forall2 wt ps tvs -> spec_args ps (map build_arg tvs) = exact_vals ps tvs.
Proof.
  induction 1 as [|t tv ps tvs Hw _ IH]; [reflexivity|].
  simpl. f_equal; [|exact IH].
  destruct Hw as [tv Hi Hr | tv Hi | tv Hd | tv Hi]; simpl.
  - rewrite (build_arg_int tv Hi). simpl. now rewrite wrap32_id.
  - rewrite (build_arg_int tv Hi). reflexivity.
  - rewrite (build_arg_double tv Hd). simpl. rewrite Hd. simpl. rewrite orb_true_r. reflexivity.
  - rewrite (build_arg_int tv Hi). simpl. destruct Hi as (H1 & H2 & _). rewrite H1, H2. reflexivity.
Qed.

Lemma Forall2_length' {A B} (R : A -> B -> Prop) l1 l2 : Forall2 R l1 l2 -> length l1 = length l2.
Proof. induction 1; simpl; congruence. Qed.

Lemma spec_result_type ret r : in_scope ret = true -> v_type (spec_result ret r default_var) = ret.
Proof. destruct ret; simpl; intro H; try discriminate; reflexivity. Qed.

Section S.
  Variable native : nat -> nat -> csig -> list cval -> cval.
  Variable chain : list group.
  Variable ac : bool.

  Lemma call_function_call st m f args c :
    o_call (call_function native chain ac st m f args) = Some c ->
    exists sig, mem_nat m (st_loaded st) = true /\ lookup_fn (st_fns st) m f = Some sig /\
                o_call (dispatch (native m f) chain sig args) = Some c.
  Proof.
    unfold call_function. destruct (mem_nat m (st_loaded st)); simpl; [|discriminate].
    destruct (lookup_fn (st_fns st) m f) as [sig|]; [|simpl; discriminate].
    destruct (ac && negb (Nat.eqb (length args) (length (cs_params sig)))); [simpl; discriminate|].
    intro H. exists sig. auto.
  Qed.

  (* callFunction never calls when the argument count differs (with the arity test in place) *)
  Lemma arity_mismatch_no_call st m f args sig :
    ac = true -> lookup_fn (st_fns st) m f = Some sig -> length args <> length (cs_params sig) ->
    o_call (call_function native chain ac st m f args) = None.
  Proof.
    intros -> Hl Hn. unfold call_function. destruct (mem_nat m (st_loaded st)); [|reflexivity]. simpl.
    rewrite Hl. apply Nat.eqb_neq in Hn. rewrite Hn. reflexivity.
  Qed.

  (* ---------------------------------------------------------------- both call sites *)
  Lemma site_supported_l :
    casts_ok chain = true -> feeds_ok chain = true -> stores_ok chain = true ->
    forall st m f sig tvs,
      mem_nat m (st_loaded st) = true -> lookup_fn (st_fns st) m f = Some sig ->
      supported chain sig = true -> Forall2 wt (cs_params sig) tvs ->
      site_outcome (call_function native chain ac st m f (map build_arg tvs)) =
        (site_value (spec_result (cs_ret sig) (native m f sig (exact_vals (cs_params sig) tvs)) default_var),
         Some (mk_call sig (exact_vals (cs_params sig) tvs))).
  Proof.
    intros H1 H2 H3 st m f sig tvs Hm Hl Hsup Hw.
    destruct (supported_plain chain H1 H2 H3 sig Hsup) as [Hs _].
    unfold site_outcome, call_function. rewrite Hm, Hl. simpl.
    assert (L : length (map build_arg tvs) = length (cs_params sig)).
    { rewrite map_length. symmetry. eapply Forall2_length'; eauto. }
    rewrite L, Nat.eqb_refl, andb_false_r.
    destruct (supported_calls (native m f) chain sig (map build_arg tvs) Hsup) as [c Hc].
    pose proof (dispatch_cast_sound _ _ H1 _ _ _ Hc) as Hcast.
    pose proof (dispatch_args_sound _ _ H1 H2 _ _ _ L Hc) as Hargs.
    destruct (dispatch_result_sound _ _ H1 H3 _ _ _ Hc) as [_ Hres].
    rewrite spec_args_wt in Hargs by exact Hw.
    rewrite Hres, Hc, Hargs. rewrite spec_result_type by exact Hs.
    destruct c as [cc ca]; simpl in *; subst.
    destruct (cs_ret sig); simpl in Hs; try discriminate; reflexivity.
  Qed.

  Lemma site_unsupported_l :
    forall st m f sig tvs,
      mem_nat m (st_loaded st) = true -> lookup_fn (st_fns st) m f = Some sig ->
      length tvs = length (cs_params sig) ->
      supported chain sig = false -> group_falls chain (cs_ret sig) = true ->
      site_outcome (call_function native chain ac st m f (map build_arg tvs)) =
        (SExit (EUnsupported (cs_ret sig) (length (cs_params sig))), None).
  Proof.
    intros st m f sig tvs Hm Hl L Hsup Hf.
    unfold site_outcome, call_function. rewrite Hm, Hl. simpl.
    rewrite map_length, L, Nat.eqb_refl, andb_false_r.
    destruct (unsupported_diag (native m f) chain sig (map build_arg tvs) Hsup Hf) as [He Ht].
    rewrite Ht, He, (unsupported_no_call _ _ _ _ Hsup). reflexivity.
  Qed.

  Lemma qualified_is_site st m f tvs : mem_nat m (st_loaded st) = true ->
    qualified_call native chain ac st m f tvs =
    site_outcome (call_function native chain ac st m f (map build_arg tvs)).
  Proof. intro H. unfold qualified_call. rewrite H. reflexivity. Qed.

  Lemma unqualified_is_site st m f tvs : min_module (st_fns st) f None = Some m ->
    unqualified_call native chain ac st f tvs =
    site_outcome (call_function native chain ac st m f (map build_arg tvs)).
  Proof. intro H. unfold unqualified_call. rewrite H. reflexivity. Qed.

  (* ---------------------------------------------------------------- histories *)
  Definition inv (e : env) (st : ffi_state) : Prop :=
    (forall m, In m (st_loaded st) -> e m <> None) /\
    (forall m f s, In (m, f, s) (st_fns st) -> exists syms, e m = Some syms /\ In f syms).

  Definition declared (all : list op) (m f : nat) (s : csig) : Prop :=
    exists ds d, In (OUse m ds) all /\ In d ds /\ fd_name d = f /\ decl_sig d = s.

  Definition inv2 (all : list op) (st : ffi_state) : Prop :=
    forall m f s, In (m, f, s) (st_fns st) -> declared all m f s.

  Lemma inv_empty e : inv e st_empty.
  Proof. split; simpl; intros; contradiction. Qed.
  Lemma inv2_empty all : inv2 all st_empty.
  Proof. intros m f s H. simpl in H. contradiction. Qed.

  Lemma register_all_loaded m syms : forall ds st,
    st_loaded (fst (register_all st m syms ds)) = st_loaded st.
  Proof.
    induction ds as [|d ds IH]; intro st; simpl; [reflexivity|].
    destruct (mem_nat (fd_name d) syms).
    - rewrite IH. reflexivity.
    - specialize (IH st). destruct (register_all st m syms ds). simpl in *. exact IH.
  Qed.

  Lemma register_all_fns m syms : forall ds st x,
    In x (st_fns (fst (register_all st m syms ds))) ->
    In x (st_fns st) \/ exists d, In d ds /\ In (fd_name d) syms /\ x = (m, fd_name d, decl_sig d).
  Proof.
    induction ds as [|d ds IH]; intros st x H; simpl in H; [now left|].
    destruct (mem_nat (fd_name d) syms) eqn:E.
    - apply IH in H. simpl in H. destruct H as [[H|H]|(d' & H1 & H2 & H3)].
      + right. exists d. split; [now left|]. split; [now apply mem_nat_In | now symmetry].
      + now left.
      + right. exists d'. split; [now right | auto].
    - specialize (IH st x). destruct (register_all st m syms ds). simpl in *.
      destruct (IH H) as [H'|(d' & H1 & H2 & H3)]; [now left|].
      right. exists d'. split; [now right | auto].
  Qed.

  Lemma register_all_diag m syms d : forall ds st,
    In d ds -> mem_nat (fd_name d) syms = false ->
    In (DRegFailed m (fd_name d)) (snd (register_all st m syms ds)).
  Proof.
    induction ds as [|d0 ds IH]; intros st Hin Hm; [contradiction|].
    simpl. destruct Hin as [->|Hin].
    - rewrite Hm. destruct (register_all st m syms ds). simpl. now left.
    - destruct (mem_nat (fd_name d0) syms).
      + now apply IH.
      + specialize (IH st Hin Hm). destruct (register_all st m syms ds). simpl in *. now right.
  Qed.

  Lemma process_module_inv e st m ds all :
    inv e st -> inv2 all st -> In (OUse m ds) all ->
    inv e (fst (process_module e st m ds)) /\ inv2 all (fst (process_module e st m ds)).
  Proof.
    intros [I1 I2] J Hall. unfold process_module.
    destruct (e m) as [syms|] eqn:Em.
    - set (st1 := if mem_nat m (st_loaded st) then st else mk_st (m :: st_loaded st) (st_fns st)).
      assert (F1 : st_fns st1 = st_fns st) by (unfold st1; destruct (mem_nat m (st_loaded st)); reflexivity).
      assert (L1 : forall x, In x (st_loaded st1) -> x = m \/ In x (st_loaded st)).
      { unfold st1. destruct (mem_nat m (st_loaded st)); simpl; intros x Hx; [now right|].
        destruct Hx; [left; now symmetry | now right]. }
      split; [split|].
      + intros x Hx. rewrite register_all_loaded in Hx. destruct (L1 x Hx) as [->|Hx']; [congruence | now apply I1].
      + intros m0 f s Hin. apply register_all_fns in Hin. rewrite F1 in Hin.
        destruct Hin as [Hin|(d & Hd & Hs & Heq)]; [now apply (I2 m0 f s)|].
        inversion Heq; subst. exists syms. split; assumption.
      + intros m0 f s Hin. apply register_all_fns in Hin. rewrite F1 in Hin.
        destruct Hin as [Hin|(d & Hd & Hs & Heq)]; [now apply J|].
        inversion Heq; subst. exists ds, d. auto.
    - destruct (mem_nat m (st_loaded st)) eqn:El.
      + apply mem_nat_In in El. exfalso. exact (I1 m El Em).
      + simpl. split; [split|]; assumption.
  Qed.

  Lemma min_module_some fns f : forall best m,
    min_module fns f best = Some m ->
    best = Some m \/ exists s, In (m, f, s) fns.
  Proof.
    induction fns as [|[[m' f'] s'] fns IH]; intros best m H; simpl in H; [now left|].
    apply IH in H. destruct H as [H|[s H]]; [|right; exists s; now right].
    destruct (Nat.eqb f f') eqn:E; [|now left].
    apply Nat.eqb_eq in E. subst f'.
    destruct best as [b|].
    - inversion H as [Hm]. destruct (Nat.min_spec b m') as [[_ Hb]|[_ Hb]]; rewrite Hb in *.
      + left. now subst.
      + right. exists s'. left. reflexivity.
    - inversion H; subst. right. exists s'. now left.
  Qed.

  (* in every history, every native call enters an existing symbol of an existing library, through
     the pointer type of one of the declarations of that function whenever its return type is one
     of int/long/double/void *)
  Theorem history_calls_sound_l (e : env) (all : list op) :
    casts_ok chain = true ->
    forall ops st, incl ops all -> inv e st -> inv2 all st ->
    forall m f c, In (EvCall m f c) (run_history native chain ac e st ops) ->
      (exists syms, e m = Some syms /\ In f syms) /\
      (exists s, declared all m f s /\ k_cast c = s).
  Proof.
    intro H1. induction ops as [|o ops IH]; intros st Hincl I J m f c Hin; [contradiction|].
    assert (Hincl' : incl ops all) by (intros x Hx; apply Hincl; now right).
    destruct o as [m0 ds | q m0 f0 tvs]; simpl in Hin.
    - assert (Hall : In (OUse m0 ds) all) by (apply Hincl; now left).
      destruct (process_module_inv e st m0 ds all I J Hall) as [I' J'].
      destruct (process_module e st m0 ds) as [st' dg]. simpl in *.
      apply in_app_or in Hin. destruct Hin as [Hin|Hin].
      + apply in_map_iff in Hin. destruct Hin as (x & Hx & _). discriminate.
      + eapply IH; eauto.
    - apply in_app_or in Hin. destruct Hin as [Hin|Hin].
      + (* the call made by this operation *)
        unfold call_events in Hin. apply in_app_or in Hin. destruct Hin as [Hin|Hin].
        2:{ apply in_app_or in Hin. destruct Hin as [Hin|Hin].
            - destruct (fst _); simpl in Hin; try contradiction. destruct Hin as [Hin|[]]. discriminate.
            - destruct Hin as [Hin|[]]. discriminate. }
        assert (Hcf : exists mm, m = mm /\ f = f0 /\
                   o_call (call_function native chain ac st mm f0 (map build_arg tvs)) = Some c).
        { assert (Hso : forall mm, In (EvCall m f c)
                     (match snd (site_outcome (call_function native chain ac st mm f0 (map build_arg tvs))) with
                      | Some c0 => [EvCall (if q then m0 else mm) f0 c0] | None => [] end) ->
                     m = (if q then m0 else mm) /\ f = f0 /\
                     o_call (call_function native chain ac st mm f0 (map build_arg tvs)) = Some c).
          { intros mm Hx. unfold site_outcome in Hx.
            destruct (v_type (o_res (call_function native chain ac st mm f0 (map build_arg tvs)))); simpl in Hx;
              (destruct (o_call (call_function native chain ac st mm f0 (map build_arg tvs))) as [c'|] eqn:Ec;
               simpl in Hx; [destruct Hx as [Hx|[]]; inversion Hx; subst; auto | contradiction]). }
          destruct q.
          - unfold qualified_call in Hin. destruct (negb (mem_nat m0 (st_loaded st))); simpl in Hin; [contradiction|].
            destruct (Hso m0 Hin) as (A & B & C). exists m0. auto.
          - unfold unqualified_call in Hin. destruct (min_module (st_fns st) f0 None) as [mm|]; simpl in Hin; [|contradiction].
            destruct (Hso mm Hin) as (A & B & C). exists mm. auto. }
        destruct Hcf as (mm & -> & -> & Hc).
        apply call_function_call in Hc. destruct Hc as (sig & _ & Hl & Hd).
        apply lookup_fn_In in Hl. destruct I as [_ I2]. split; [now apply (I2 mm f0 sig)|].
        exists sig. split; [now apply J|]. eapply dispatch_cast_sound; eauto.
      + destruct (is_exit _); [contradiction|]. eapply IH; eauto.
  Qed.

  Theorem missing_library_reported_l e st m ds ops :
    inv e st -> e m = None ->
    run_history native chain ac e st (OUse m ds :: ops) =
      EvDiag (DLoadFailed m) :: run_history native chain ac e st ops.
  Proof.
    intros [I1 _] Em. simpl. unfold process_module. rewrite Em.
    destruct (mem_nat m (st_loaded st)) eqn:El; [apply mem_nat_In in El; exfalso; exact (I1 m El Em)|].
    reflexivity.
  Qed.

  Theorem missing_symbol_reported_l e st m ds ops syms d :
    e m = Some syms -> In d ds -> ~ In (fd_name d) syms ->
    In (EvDiag (DRegFailed m (fd_name d))) (run_history native chain ac e st (OUse m ds :: ops)).
  Proof.
    intros Em Hd Hn. simpl. unfold process_module. rewrite Em.
    set (st1 := if mem_nat m (st_loaded st) then st else mk_st (m :: st_loaded st) (st_fns st)).
    assert (Hm : mem_nat (fd_name d) syms = false).
    { destruct (mem_nat (fd_name d) syms) eqn:E; [apply mem_nat_In in E; contradiction | reflexivity]. }
    pose proof (register_all_diag m syms d ds st1 Hd Hm) as H.
    destruct (register_all st1 m syms ds) as [st' dg]. simpl in *.
    apply in_or_app. left. apply in_map. exact H.
  Qed.
End S.

(* a declaration with a pointer parameter is registered with TYPE_POINTER at that position *)
Lemma decl_sig_params d : cs_params (decl_sig d) = map dty_ty (snd (decl_ctype d)).
Proof.
  unfold decl_sig, decl_ctype. simpl. rewrite map_map. apply map_ext. intros [t b]. destruct b; reflexivity.
Qed.

Lemma decl_sig_pointer d p : In p (fd_params d) -> snd p = true -> In TPointer (cs_params (decl_sig d)).
Proof.
  intros Hin Hp. unfold decl_sig. simpl. apply in_map_iff. exists p. rewrite Hp. auto.
Qed.

Lemma not_plain_unsupported chain : casts_ok chain = true -> feeds_ok chain = true -> stores_ok chain = true ->
  forall sig, (in_scope (cs_ret sig) = false \/ exists t, In t (cs_params sig) /\ ~ plain t) ->
  supported chain sig = false.
Proof.
  intros H1 H2 H3 sig H. destruct (supported chain sig) eqn:E; [|reflexivity]. exfalso.
  destruct (supported_plain chain H1 H2 H3 sig E) as [Hs Hp].
  destruct H as [H|(t & Ht & Hn)]; [congruence|].
  rewrite Forall_forall in Hp. exact (Hn (Hp t Ht)).
Qed.
