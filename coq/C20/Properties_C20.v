(* C20 - property theorems only. `ffi_chain` / `ffi_arity_check` are the definitions regenerated on every
   run from the CURRENT text of FFIManager::callFunction (Gen_FfiTable.v); each theorem about them is
   the generic lemma of Lemmas.v / Sites.v applied to a vm_compute evaluation of the corresponding
   decidable check on the generated table - a change of the table re-opens the obligation itself.
   Statements quantify over every native function, every signature (any arity, any TypeInfo), every
   argument list, every state of the FFI manager, every set of libraries on disk and every history.
   (State of the code: after the fix commits 0c197b6 1309e2f 7ec0e3a ccde50e 000c633; the five
   `_refuted` theorems of the first version are now the positive statements below.) *)
From Coq Require Import ZArith List Bool.
From Cb Require Import C20.Model C20.Lemmas C20.IntDouble C20.Sites C20.Gen_FfiTable.
Import ListNotations.
Local Open Scope Z_scope.

(* ---- the generated table ------------------------------------------------------------------- *)

(* Every row, for EVERY declared signature that selects it (no restriction on the return type any
   more), casts the void* to exactly the C type of that declared signature. *)
Theorem dispatch_cast_matches_signature :
  forall g r ret ps, In g ffi_chain -> In r (g_rows g) -> In ret (g_rets g) ->
  pat_match (r_pat r) ps = true -> r_cast r = mk_csig ret ps.
Proof. exact (casts_ok_sound ffi_chain (eq_refl true <: casts_ok ffi_chain = true)). Qed.
Print Assumptions dispatch_cast_matches_signature.

(* Semantic form: whatever the registered signature (any arity, any types - float returns, pointer
   parameters included) and the arguments, a native call made by callFunction goes through a pointer
   of exactly that type. *)
Theorem never_calls_through_wrong_type :
  forall native sig args c,
  o_call (dispatch native ffi_chain sig args) = Some c -> k_cast c = sig.
Proof. exact (fun native => dispatch_cast_sound native ffi_chain (eq_refl true <: casts_ok ffi_chain = true)). Qed.
Print Assumptions never_calls_through_wrong_type.

(* The native function receives, position by position and in declaration order, the C conversion of
   the k-th Cb argument to the k-th declared parameter type. *)
Theorem args_in_declaration_order :
  forall native sig args c, length args = length (cs_params sig) ->
  o_call (dispatch native ffi_chain sig args) = Some c ->
  k_args c = spec_args (cs_params sig) args /\
  forall k t a, nth_error (cs_params sig) k = Some t -> nth_error args k = Some a ->
                nth_error (k_args c) k = Some (conv t a).
Proof.
  intros native sig args c L Hc.
  pose proof (dispatch_args_sound native ffi_chain (eq_refl true <: casts_ok ffi_chain = true)
                (eq_refl true <: feeds_ok ffi_chain = true) sig args c L Hc) as H.
  split; [exact H|]. intros k t a Hp Ha. rewrite H. exact (spec_args_nth _ _ _ _ _ Hp Ha).
Qed.
Print Assumptions args_in_declaration_order.

(* int parameters: a value inside the 32-bit range arrives unchanged ... *)
Theorem int_exact_in_range :
  forall native sig args c k a, length args = length (cs_params sig) ->
  o_call (dispatch native ffi_chain sig args) = Some c ->
  nth_error (cs_params sig) k = Some TInt -> nth_error args k = Some a -> in_i32 (v_value a) ->
  nth_error (k_args c) k = Some (CInt (v_value a)).
Proof.
  intros native sig args c k a L Hc Hp Ha Hr.
  destruct (args_in_declaration_order native sig args c L Hc) as [_ H].
  rewrite (H k TInt a Hp Ha). unfold conv. simpl. now rewrite wrap32_id.
Qed.
Print Assumptions int_exact_in_range.

(* ... and any other 64-bit value is narrowed explicitly: the callee sees the value reduced modulo
   2^32 into the int range, never anything else. *)
Theorem int_narrowing_explicit :
  forall native sig args c k a, length args = length (cs_params sig) ->
  o_call (dispatch native ffi_chain sig args) = Some c ->
  nth_error (cs_params sig) k = Some TInt -> nth_error args k = Some a ->
  exists z, nth_error (k_args c) k = Some (CInt z) /\ in_i32 z /\ (z - v_value a) mod 2 ^ 32 = 0.
Proof.
  intros native sig args c k a L Hc Hp Ha.
  destruct (args_in_declaration_order native sig args c L Hc) as [_ H].
  exists (wrap32 (v_value a)). split; [exact (H k TInt a Hp Ha)|]. split; [apply wrap32_range | apply wrap32_congr].
Qed.
Print Assumptions int_narrowing_explicit.

(* Results: whenever a call is made, no error is recorded and the Variable handed back is exactly the
   native result, typed by the declared return type ... *)
Theorem results_returned_unchanged :
  forall native sig args c,
  o_call (dispatch native ffi_chain sig args) = Some c ->
  o_err (dispatch native ffi_chain sig args) = None /\
  o_res (dispatch native ffi_chain sig args) = spec_result (cs_ret sig) (native sig (k_args c)) default_var.
Proof.
  exact (fun native => dispatch_result_sound native ffi_chain (eq_refl true <: casts_ok ffi_chain = true)
                         (eq_refl true <: stores_ok ffi_chain = true)).
Qed.
Print Assumptions results_returned_unchanged.

(* ... in particular every 64-bit long result and every double bit pattern comes back exactly. *)
Theorem long_exact :
  forall native sig args c z, cs_ret sig = TLong ->
  o_call (dispatch native ffi_chain sig args) = Some c -> native sig (k_args c) = CLong z -> in_i64 z ->
  v_type (o_res (dispatch native ffi_chain sig args)) = TLong /\
  v_value (o_res (dispatch native ffi_chain sig args)) = z.
Proof.
  intros native sig args c z Hr Hc Hn Hz.
  destruct (results_returned_unchanged native sig args c Hc) as [_ H].
  rewrite H, Hn, Hr. simpl. split; [reflexivity | now apply wrap64_id].
Qed.
Print Assumptions long_exact.

Theorem double_result_bit_exact :
  forall native sig args c b, cs_ret sig = TDouble ->
  o_call (dispatch native ffi_chain sig args) = Some c -> native sig (k_args c) = CDouble b -> 0 <= b < 2 ^ 64 ->
  v_type (o_res (dispatch native ffi_chain sig args)) = TDouble /\
  v_dbl (o_res (dispatch native ffi_chain sig args)) = b.
Proof.
  intros native sig args c b Hr Hc Hn Hb.
  destruct (results_returned_unchanged native sig args c Hc) as [_ H].
  rewrite H, Hn, Hr. simpl. split; [reflexivity | now apply Z.mod_small].
Qed.
Print Assumptions double_result_bit_exact.

(* Only int/long/double/void returns over int/long/double parameters are ever called: a declaration
   returning float, or with a pointer parameter (registered as TYPE_POINTER), or with any other
   TypeInfo is unsupported - hence (unsupported_is_no_call, unsupported_reports_diagnostic) never
   entered and always reported. *)
Theorem supported_only_plain_types :
  forall sig, supported ffi_chain sig = true ->
  in_scope (cs_ret sig) = true /\ Forall plain (cs_params sig).
Proof.
  exact (supported_plain ffi_chain (eq_refl true <: casts_ok ffi_chain = true)
           (eq_refl true <: feeds_ok ffi_chain = true) (eq_refl true <: stores_ok ffi_chain = true)).
Qed.
Print Assumptions supported_only_plain_types.

Theorem float_return_or_pointer_param_is_unsupported :
  forall d, (fd_ret d = TFloat \/ exists p, In p (fd_params d) /\ snd p = true) ->
  cs_params (decl_sig d) = map dty_ty (snd (decl_ctype d)) /\ supported ffi_chain (decl_sig d) = false.
Proof.
  intros d H. split; [apply decl_sig_params|].
  apply (not_plain_unsupported ffi_chain (eq_refl true <: casts_ok ffi_chain = true)
           (eq_refl true <: feeds_ok ffi_chain = true) (eq_refl true <: stores_ok ffi_chain = true)).
  destruct H as [H|(p & Hin & Hp)].
  - left. simpl. rewrite H. reflexivity.
  - right. exists TPointer. split; [exact (decl_sig_pointer d p Hin Hp)|].
    intros [A|[A|A]]; discriminate.
Qed.
Print Assumptions float_return_or_pointer_param_is_unsupported.

(* ---- unsupported signatures --------------------------------------------------------------- *)

(* A signature outside the table never reaches a native function. *)
Theorem unsupported_is_no_call :
  forall native sig args, supported ffi_chain sig = false ->
  o_call (dispatch native ffi_chain sig args) = None.
Proof. exact (fun native => unsupported_no_call native ffi_chain). Qed.
Print Assumptions unsupported_is_no_call.

(* ... and it is always reported, for EVERY return type (void included) and on BOTH call paths:
   callFunction records "Unsupported function signature" and returns TYPE_UNKNOWN; module.f(...) and
   f(...) print the diagnostic and exit with status 1 without calling. *)
Theorem unsupported_reports_diagnostic :
  forall native sig, supported ffi_chain sig = false ->
  (forall args,
     o_err (dispatch native ffi_chain sig args) = Some (EUnsupported (cs_ret sig) (length (cs_params sig))) /\
     v_type (o_res (dispatch native ffi_chain sig args)) = TUnknown) /\
  (forall nat_fn st m f tvs, lookup_fn (st_fns st) m f = Some sig -> length tvs = length (cs_params sig) ->
     (mem_nat m (st_loaded st) = true ->
      qualified_call nat_fn ffi_chain ffi_arity_check st m f tvs =
        (SExit (EUnsupported (cs_ret sig) (length (cs_params sig))), None)) /\
     (mem_nat m (st_loaded st) = true -> min_module (st_fns st) f None = Some m ->
      unqualified_call nat_fn ffi_chain ffi_arity_check st f tvs =
        (SExit (EUnsupported (cs_ret sig) (length (cs_params sig))), None))).
Proof.
  intros native sig Hu.
  pose proof (tails_ok_sound ffi_chain (eq_refl true <: tails_ok ffi_chain = true) (cs_ret sig)) as Hf.
  split.
  - intro args. exact (unsupported_diag native ffi_chain sig args Hu Hf).
  - intros nat_fn st m f tvs Hl L. split.
    + intro Hm. rewrite (qualified_is_site nat_fn ffi_chain ffi_arity_check st m f tvs Hm).
      exact (site_unsupported_l nat_fn ffi_chain ffi_arity_check st m f sig tvs Hm Hl L Hu Hf).
    + intros Hm Hmin. rewrite (unqualified_is_site nat_fn ffi_chain ffi_arity_check st m f tvs Hmin).
      exact (site_unsupported_l nat_fn ffi_chain ffi_arity_check st m f sig tvs Hm Hl L Hu Hf).
Qed.
Print Assumptions unsupported_reports_diagnostic.

(* ---- call sites (call_impl.cpp) ----------------------------------------------------------- *)

(* Mech refines Spec on both paths: for every supported signature, every state in which it is
   registered and every well-typed argument list (integer-typed values in the int range for int
   parameters, integer-typed for long, double-typed OR integer-typed for double), exactly one native
   call is made, through the declared type, with exactly the argument values (doubles: the same 64
   bits; integers for a double parameter: their C conversion), and the value handed to the evaluator
   is exactly the native result. *)
Theorem supported_call_end_to_end :
  forall native st m f sig tvs,
    mem_nat m (st_loaded st) = true -> lookup_fn (st_fns st) m f = Some sig ->
    supported ffi_chain sig = true -> Forall2 wt (cs_params sig) tvs ->
    let expected :=
      (site_value (spec_result (cs_ret sig) (native m f sig (exact_vals (cs_params sig) tvs)) default_var),
       Some (mk_call sig (exact_vals (cs_params sig) tvs))) in
    qualified_call native ffi_chain ffi_arity_check st m f tvs = expected /\
    (min_module (st_fns st) f None = Some m ->
     unqualified_call native ffi_chain ffi_arity_check st f tvs = expected).
Proof.
  intros native st m f sig tvs Hm Hl Hs Hw expected.
  pose proof (site_supported_l native ffi_chain ffi_arity_check
                (eq_refl true <: casts_ok ffi_chain = true) (eq_refl true <: feeds_ok ffi_chain = true)
                (eq_refl true <: stores_ok ffi_chain = true) st m f sig tvs Hm Hl Hs Hw) as H.
  split.
  - rewrite (qualified_is_site native ffi_chain ffi_arity_check st m f tvs Hm). exact H.
  - intro Hmin. rewrite (unqualified_is_site native ffi_chain ffi_arity_check st m f tvs Hmin). exact H.
Qed.
Print Assumptions supported_call_end_to_end.

(* DESIGN.md section 7 #30, repaired: an integer-typed argument for a double parameter arrives as the
   double that IS that integer - for every |v| < 2^53 the pattern handed over denotes exactly v (sign,
   exponent and 53-bit significand decode to v; beyond 2^53 the model rounds to nearest-even like
   cvtsi2sd, tested only). *)
Theorem int_arg_to_double_param_exact :
  forall tv, int_typed tv -> Z.abs (tv_value tv) < 2 ^ 53 ->
  exact_val TDouble tv = CDouble (double_of_i64 (tv_value tv)) /\
  v_dbl (build_arg tv) = double_of_i64 (tv_value tv) /\
  0 <= double_of_i64 (tv_value tv) < 2 ^ 64 /\
  dbl_denotes_int (double_of_i64 (tv_value tv)) (tv_value tv).
Proof.
  intros tv Hi Hv. destruct (double_of_i64_exact (tv_value tv) Hv) as [Hb Hd].
  split; [|split; [|split; assumption]].
  - simpl. destruct Hi as (H1 & H2 & _). rewrite H1, H2. reflexivity.
  - rewrite (build_arg_int tv Hi). reflexivity.
Qed.
Print Assumptions int_arg_to_double_param_exact.

(* A call with the wrong number of arguments never reaches the native function. *)
Theorem arity_mismatch_is_no_call :
  forall native st m f args sig, lookup_fn (st_fns st) m f = Some sig ->
  length args <> length (cs_params sig) ->
  o_call (call_function native ffi_chain ffi_arity_check st m f args) = None.
Proof.
  exact (fun native st m f args sig =>
           arity_mismatch_no_call native ffi_chain ffi_arity_check st m f args sig (eq_refl true <: ffi_arity_check = true)).
Qed.
Print Assumptions arity_mismatch_is_no_call.

(* ---- histories: use foreign declarations followed by calls -------------------------------- *)

(* In every history, for every set of library files, every native call enters a symbol that exists
   in a library that exists (a missing library or symbol never leads to a call), through exactly
   the pointer type registered by one of the declarations given for that function (decl_sig: the
   declared types, pointer parameters as TYPE_POINTER). *)
Theorem history_calls_sound :
  forall native e ops m f c,
  In (EvCall m f c) (run_history native ffi_chain ffi_arity_check e st_empty ops) ->
  (exists syms, e m = Some syms /\ In f syms) /\
  (exists s, declared ops m f s /\ k_cast c = s).
Proof.
  intros native e ops m f c H.
  exact (history_calls_sound_l native ffi_chain ffi_arity_check e ops (eq_refl true <: casts_ok ffi_chain = true)
           ops st_empty (incl_refl ops) (inv_empty e) (inv2_empty ops) m f c H).
Qed.
Print Assumptions history_calls_sound.

Theorem missing_library_reported :
  forall native e st m ds ops, inv e st -> e m = None ->
  run_history native ffi_chain ffi_arity_check e st (OUse m ds :: ops) =
    EvDiag (DLoadFailed m) :: run_history native ffi_chain ffi_arity_check e st ops.
Proof. exact (fun native => missing_library_reported_l native ffi_chain ffi_arity_check). Qed.
Print Assumptions missing_library_reported.

Theorem missing_symbol_reported :
  forall native e st m ds ops syms d, e m = Some syms -> In d ds -> ~ In (fd_name d) syms ->
  In (EvDiag (DRegFailed m (fd_name d))) (run_history native ffi_chain ffi_arity_check e st (OUse m ds :: ops)).
Proof. exact (fun native => missing_symbol_reported_l native ffi_chain ffi_arity_check). Qed.
Print Assumptions missing_symbol_reported.

(* ---- non-vacuity / former refutation witnesses, now on the right side --------------------- *)
Example supported_examples :
  supported ffi_chain (mk_csig TInt [TInt; TInt]) = true /\ supported ffi_chain (mk_csig TLong [TInt]) = true /\
  supported ffi_chain (mk_csig TDouble [TDouble; TDouble; TDouble; TDouble]) = true /\
  supported ffi_chain (mk_csig TInt [TLong]) = false /\ supported ffi_chain (mk_csig TLong []) = false /\
  supported ffi_chain (mk_csig TFloat [TDouble]) = false /\ supported ffi_chain (mk_csig TVoid [TDouble]) = false.
Proof. repeat split. Qed.

(* f(2) for double f(double): the callee now sees 0x4000000000000000 = 2.0 *)
Example int_two_arrives_as_two :
  forall native, snd (qualified_call native ffi_chain ffi_arity_check
                        (mk_st [0%nat] [(0%nat, 0%nat, mk_csig TDouble [TDouble])]) 0%nat 0%nat
                        [mk_tv TInt false false 2 0]) =
                 Some (mk_call (mk_csig TDouble [TDouble]) [CDouble 4611686018427387904]).
Proof. intro. vm_compute. reflexivity. Qed.

(* int f(int* p) called with an address: reported, never entered *)
Example pointer_declaration_history :
  forall native, run_history native ffi_chain ffi_arity_check (fun _ => Some [0%nat]) st_empty
                   [OUse 0%nat [mk_fdecl 0%nat TInt [(TInt, true)]];
                    OCall true 0%nat 0%nat [mk_tv TPointer false false 140737488355328 0]] =
                 [EvDiag (DCallFailed (EUnsupported TInt 1)); EvResult (SExit (EUnsupported TInt 1))].
Proof. intro. vm_compute. reflexivity. Qed.

(* one complete history against the echo library: declaration, qualified call long e(int) with -1 *)
Example history_example :
  run_history (fun _ _ => echo_native None) ffi_chain ffi_arity_check (fun _ => Some [7%nat]) st_empty
    [OUse 3%nat [mk_fdecl 7%nat TLong [(TInt, false)]; mk_fdecl 8%nat TInt []];
     OCall true 3%nat 7%nat [mk_tv TInt false false (-1) 0]] =
  [EvDiag (DRegFailed 3%nat 8%nat);
   EvCall 3%nat 7%nat (mk_call (mk_csig TLong [TInt]) [CInt (-1)]);
   EvResult (SValue false (-7046029254386353134))].
Proof. vm_compute. reflexivity. Qed.
