(* C20 - property theorems only. `ffi_chain` / `ffi_arity_check` are the definitions regenerated on every
   run from the CURRENT text of FFIManager::callFunction (Gen_FfiTable.v); each theorem about them is
   the generic lemma of Lemmas.v / Sites.v applied to a vm_compute evaluation of the corresponding
   decidable check on the generated table - a change of the table re-opens the obligation itself.
   Statements quantify over every native function, every signature (any arity), every argument list,
   every state of the FFI manager, every set of libraries on disk and every history. *)
From Coq Require Import ZArith List Bool.
From Cb Require Import C20.Model C20.Lemmas C20.Sites C20.Gen_FfiTable.
Import ListNotations.
Local Open Scope Z_scope.

(* ---- the generated table ------------------------------------------------------------------- *)

(* Every row, for every declared signature over int/long/double/void that selects it, casts the
   void* to exactly the C type of that declared signature (all positions tested, same types). *)
Theorem dispatch_cast_matches_signature :
  forall g r ret ps, In g ffi_chain -> In r (g_rows g) -> In ret (g_rets g) -> in_scope ret = true ->
  pat_match (r_pat r) ps = true -> r_cast r = mk_csig ret ps.
Proof. exact (casts_ok_sound ffi_chain (eq_refl true <: casts_ok ffi_chain = true)). Qed.
Print Assumptions dispatch_cast_matches_signature.

(* Semantic form: whatever the declared signature (any arity, any types) and the arguments, a native
   call made by callFunction goes through a pointer of exactly the declared type. *)
Theorem never_calls_through_wrong_type :
  forall native sig args c, in_scope (cs_ret sig) = true ->
  o_call (dispatch native ffi_chain sig args) = Some c -> k_cast c = sig.
Proof. exact (fun native => dispatch_cast_sound native ffi_chain (eq_refl true <: casts_ok ffi_chain = true)). Qed.
Print Assumptions never_calls_through_wrong_type.

(* The native function receives, position by position and in declaration order, the C conversion of
   the k-th Cb argument to the k-th declared parameter type. *)
Theorem args_in_declaration_order :
  forall native sig args c, in_scope (cs_ret sig) = true -> length args = length (cs_params sig) ->
  o_call (dispatch native ffi_chain sig args) = Some c ->
  k_args c = spec_args (cs_params sig) args /\
  forall k t a, nth_error (cs_params sig) k = Some t -> nth_error args k = Some a ->
                nth_error (k_args c) k = Some (conv t a).
Proof.
  intros native sig args c Hs L Hc.
  pose proof (dispatch_args_sound native ffi_chain (eq_refl true <: casts_ok ffi_chain = true)
                (eq_refl true <: feeds_ok ffi_chain = true) sig args c Hs L Hc) as H.
  split; [exact H|]. intros k t a Hp Ha. rewrite H. exact (spec_args_nth _ _ _ _ _ Hp Ha).
Qed.
Print Assumptions args_in_declaration_order.

(* int parameters: a value inside the 32-bit range arrives unchanged ... *)
Theorem int_exact_in_range :
  forall native sig args c k a, in_scope (cs_ret sig) = true -> length args = length (cs_params sig) ->
  o_call (dispatch native ffi_chain sig args) = Some c ->
  nth_error (cs_params sig) k = Some TInt -> nth_error args k = Some a -> in_i32 (v_value a) ->
  nth_error (k_args c) k = Some (CInt (v_value a)).
Proof.
  intros native sig args c k a Hs L Hc Hp Ha Hr.
  destruct (args_in_declaration_order native sig args c Hs L Hc) as [_ H].
  rewrite (H k TInt a Hp Ha). unfold conv. simpl. now rewrite wrap32_id.
Qed.
Print Assumptions int_exact_in_range.

(* ... and any other 64-bit value is narrowed explicitly: the callee sees the value reduced modulo
   2^32 into the int range, never anything else. *)
Theorem int_narrowing_explicit :
  forall native sig args c k a, in_scope (cs_ret sig) = true -> length args = length (cs_params sig) ->
  o_call (dispatch native ffi_chain sig args) = Some c ->
  nth_error (cs_params sig) k = Some TInt -> nth_error args k = Some a ->
  exists z, nth_error (k_args c) k = Some (CInt z) /\ in_i32 z /\ (z - v_value a) mod 2 ^ 32 = 0.
Proof.
  intros native sig args c k a Hs L Hc Hp Ha.
  destruct (args_in_declaration_order native sig args c Hs L Hc) as [_ H].
  exists (wrap32 (v_value a)). split; [exact (H k TInt a Hp Ha)|]. split; [apply wrap32_range | apply wrap32_congr].
Qed.
Print Assumptions int_narrowing_explicit.

(* Results: whenever a call is made, no error is recorded and the Variable handed back is exactly the
   native result, typed by the declared return type ... *)
Theorem results_returned_unchanged :
  forall native sig args c, in_scope (cs_ret sig) = true ->
  o_call (dispatch native ffi_chain sig args) = Some c ->
  o_err (dispatch native ffi_chain sig args) = None /\
  o_res (dispatch native ffi_chain sig args) = spec_result (cs_ret sig) (native sig (k_args c)) default_var.
Proof.
  exact (fun native => dispatch_result_sound native ffi_chain (eq_refl true <: casts_ok ffi_chain = true)
                         (eq_refl true <: stores_ok ffi_chain = true)).
Qed.
Print Assumptions results_returned_unchanged.

(* ... in particular every 64-bit long result and every double bit pattern comes back exactly. *)
Theorem long_exact :
  forall native sig args c z, cs_ret sig = TLong ->
  o_call (dispatch native ffi_chain sig args) = Some c -> native sig (k_args c) = CLong z -> in_i64 z ->
  v_type (o_res (dispatch native ffi_chain sig args)) = TLong /\
  v_value (o_res (dispatch native ffi_chain sig args)) = z.
Proof.
  intros native sig args c z Hr Hc Hn Hz.
  assert (Hs : in_scope (cs_ret sig) = true) by (rewrite Hr; reflexivity).
  destruct (results_returned_unchanged native sig args c Hs Hc) as [_ H].
  rewrite H, Hn, Hr. simpl. split; [reflexivity | now apply wrap64_id].
Qed.
Print Assumptions long_exact.

Theorem double_result_bit_exact :
  forall native sig args c b, cs_ret sig = TDouble ->
  o_call (dispatch native ffi_chain sig args) = Some c -> native sig (k_args c) = CDouble b -> 0 <= b < 2 ^ 64 ->
  v_type (o_res (dispatch native ffi_chain sig args)) = TDouble /\
  v_dbl (o_res (dispatch native ffi_chain sig args)) = b.
Proof.
  intros native sig args c b Hr Hc Hn Hb.
  assert (Hs : in_scope (cs_ret sig) = true) by (rewrite Hr; reflexivity).
  destruct (results_returned_unchanged native sig args c Hs Hc) as [_ H].
  rewrite H, Hn, Hr. simpl. split; [reflexivity | now apply Z.mod_small].
Qed.
Print Assumptions double_result_bit_exact.

(* ---- unsupported signatures --------------------------------------------------------------- *)

(* A signature outside the table never reaches a native function (any return type, void included). *)
Theorem unsupported_is_no_call :
  forall native sig args, supported ffi_chain sig = false ->
  o_call (dispatch native ffi_chain sig args) = None.
Proof. exact (fun native => unsupported_no_call native ffi_chain). Qed.
Print Assumptions unsupported_is_no_call.

(* PARTIAL (non-void only): it is reported - callFunction records "Unsupported function signature",
   returns TYPE_UNKNOWN, and the qualified call site prints the diagnostic and exits with status 1. *)
Theorem unsupported_reports_diagnostic_partial :
  forall native sig, supported ffi_chain sig = false -> cs_ret sig <> TVoid ->
  (forall args,
     o_err (dispatch native ffi_chain sig args) = Some (EUnsupported (cs_ret sig) (length (cs_params sig))) /\
     v_type (o_res (dispatch native ffi_chain sig args)) = TUnknown) /\
  (forall nat_fn st m f tvs, mem_nat m (st_loaded st) = true -> lookup_fn (st_fns st) m f = Some sig ->
     length tvs = length (cs_params sig) ->
     qualified_call nat_fn ffi_chain ffi_arity_check st m f tvs =
       (SExit (EUnsupported (cs_ret sig) (length (cs_params sig))), None)).
Proof.
  intros native sig Hu Hv.
  pose proof (tails_ok_sound ffi_chain (eq_refl true <: tails_ok ffi_chain = true) (cs_ret sig) Hv) as Hf.
  split.
  - intro args. exact (unsupported_diag native ffi_chain sig args Hu Hf).
  - intros nat_fn st m f tvs Hm Hl L.
    exact (qualified_unsupported_exits_l nat_fn ffi_chain ffi_arity_check st m f sig tvs Hm Hl L Hu Hf).
Qed.
Print Assumptions unsupported_reports_diagnostic_partial.

(* REFUTED for void: `void f(double)` is not in the table, no call is made, but no error is recorded
   and the program goes on (known finding C20-void-unsupported-silent). *)
Theorem unsupported_void_reports_diagnostic_refuted :
  exists sig, supported ffi_chain sig = false /\
  forall native args, o_err (dispatch native ffi_chain sig args) = None /\
                      v_type (o_res (dispatch native ffi_chain sig args)) = TVoid /\
                      o_call (dispatch native ffi_chain sig args) = None.
Proof. exists (mk_csig TVoid [TDouble]). split; [reflexivity|]. intros. repeat split. Qed.
Print Assumptions unsupported_void_reports_diagnostic_refuted.

(* REFUTED on the unqualified path f(...): the TYPE_UNKNOWN result is not tested there, an unsupported
   `int f(double)` evaluates to 0 without any diagnostic (known finding C20-unqualified-unsupported-silent). *)
Theorem unqualified_unsupported_reports_diagnostic_refuted :
  exists st f tvs sig, lookup_fn (st_fns st) 0%nat f = Some sig /\ supported ffi_chain sig = false /\
  cs_ret sig <> TVoid /\ length tvs = length (cs_params sig) /\
  forall native, unqualified_call native ffi_chain ffi_arity_check st f tvs = (SValue false 0, None).
Proof.
  exists (mk_st [0%nat] [(0%nat, 0%nat, mk_csig TInt [TDouble])]), 0%nat,
         [mk_tv TDouble true false 1 4607182418800017408], (mk_csig TInt [TDouble]).
  repeat split; try reflexivity. discriminate.
Qed.
Print Assumptions unqualified_unsupported_reports_diagnostic_refuted.

(* REFUTED outside int/long/double/void: a function declared `float f(double)` is entered through a
   double( * )(double) pointer (known finding C20-float-return-cast-as-double). *)
Theorem dispatch_cast_matches_signature_float_refuted :
  exists sig, cs_ret sig = TFloat /\
  forall native args, exists c, o_call (dispatch native ffi_chain sig args) = Some c /\ k_cast c <> sig.
Proof.
  exists (mk_csig TFloat [TDouble]). split; [reflexivity|]. intros native args.
  eexists. split; [reflexivity|]. simpl. discriminate.
Qed.
Print Assumptions dispatch_cast_matches_signature_float_refuted.

(* ---- call sites (call_impl.cpp) ----------------------------------------------------------- *)

(* Mech refines Spec on the qualified path: for every supported signature over int/long/double/void,
   every state in which it is registered and every well-typed argument list (integer-typed values in
   the int range for int parameters, integer-typed for long, double-typed for double), exactly one
   native call is made, through the declared type, with exactly the argument values (doubles: the
   same 64 bits), and the value handed to the evaluator is exactly the native result. *)
Theorem supported_call_end_to_end :
  forall native st m f sig tvs,
    mem_nat m (st_loaded st) = true -> lookup_fn (st_fns st) m f = Some sig ->
    in_scope (cs_ret sig) = true -> supported ffi_chain sig = true -> Forall2 wt (cs_params sig) tvs ->
    qualified_call native ffi_chain ffi_arity_check st m f tvs =
      (site_value (spec_result (cs_ret sig) (native m f sig (exact_vals (cs_params sig) tvs)) default_var),
       Some (mk_call sig (exact_vals (cs_params sig) tvs))).
Proof.
  exact (fun native => qualified_supported_end_to_end_l native ffi_chain ffi_arity_check
           (eq_refl true <: casts_ok ffi_chain = true) (eq_refl true <: feeds_ok ffi_chain = true)
           (eq_refl true <: stores_ok ffi_chain = true)).
Qed.
Print Assumptions supported_call_end_to_end.

(* REFUTED when the argument is integer-typed and the parameter is double: only Variable::value is
   filled at the call site and the row reads Variable::double_value, so `f(2)` hands 0.0 to
   `double f(double)` instead of 2.0 = 0x4000000000000000 (DESIGN.md section 7 #30,
   known finding C20-int-arg-to-double-param). *)
Theorem int_arg_to_double_param_refuted :
  exists st tv, tv_type tv = TInt /\ tv_value tv = 2 /\
  forall native, snd (qualified_call native ffi_chain ffi_arity_check st 0%nat 0%nat [tv]) =
                 Some (mk_call (mk_csig TDouble [TDouble]) [CDouble 0]).
Proof.
  exists (mk_st [0%nat] [(0%nat, 0%nat, mk_csig TDouble [TDouble])]), (mk_tv TInt false false 2 0).
  repeat split.
Qed.
Print Assumptions int_arg_to_double_param_refuted.

(* A call with the wrong number of arguments never reaches the native function. *)
Theorem arity_mismatch_is_no_call :
  forall native st m f args sig, lookup_fn (st_fns st) m f = Some sig ->
  length args <> length (cs_params sig) ->
  o_call (call_function native ffi_chain ffi_arity_check st m f args) = None.
Proof.
  exact (fun native st m f args sig =>
           arity_mismatch_no_call native ffi_chain ffi_arity_check st m f args sig (eq_refl true <: ffi_arity_check = true)).
Qed.
Print Assumptions arity_mismatch_is_no_call.

(* ---- histories: use foreign declarations followed by calls -------------------------------- *)

(* In every history, for every set of library files, every native call enters a symbol that exists
   in a library that exists (a missing library or symbol never leads to a call), through the
   pointer type of one of the declarations given for that function whenever that declaration
   returns int/long/double/void. *)
Theorem history_calls_sound :
  forall native e ops m f c,
  In (EvCall m f c) (run_history native ffi_chain ffi_arity_check e st_empty ops) ->
  (exists syms, e m = Some syms /\ In f syms) /\
  (exists s, declared ops m f s /\ (in_scope (cs_ret s) = true -> k_cast c = s)).
Proof.
  intros native e ops m f c H.
  exact (history_calls_sound_l native ffi_chain ffi_arity_check e ops (eq_refl true <: casts_ok ffi_chain = true)
           ops st_empty (incl_refl ops) (inv_empty e) (inv2_empty ops) m f c H).
Qed.
Print Assumptions history_calls_sound.

Theorem missing_library_reported :
  forall native e st m ds ops, inv e st -> e m = None ->
  run_history native ffi_chain ffi_arity_check e st (OUse m ds :: ops) =
    EvDiag (DLoadFailed m) :: run_history native ffi_chain ffi_arity_check e st ops.
Proof. exact (fun native => missing_library_reported_l native ffi_chain ffi_arity_check). Qed.
Print Assumptions missing_library_reported.

Theorem missing_symbol_reported :
  forall native e st m ds ops syms d, e m = Some syms -> In d ds -> ~ In (fd_name d) syms ->
  In (EvDiag (DRegFailed m (fd_name d))) (run_history native ffi_chain ffi_arity_check e st (OUse m ds :: ops)).
Proof. exact (fun native => missing_symbol_reported_l native ffi_chain ffi_arity_check). Qed.
Print Assumptions missing_symbol_reported.

(* REFUTED for pointer parameters: processForeignModule drops ForeignParameter::is_pointer, so
   `int f(int* p)` is registered as int(int) and entered through int( * )(int) with a truncated address
   (known finding C20-pointer-param-as-int). *)
Theorem pointer_param_cast_refuted :
  exists d tv, decl_ctype d = (TInt, [DPtr TInt]) /\
  forall native, In (EvCall 0%nat 0%nat (mk_call (mk_csig TInt [TInt]) [CInt 5]))
                    (run_history native ffi_chain ffi_arity_check (fun _ => Some [0%nat]) st_empty
                                 [OUse 0%nat [d]; OCall true 0%nat 0%nat [tv]]).
Proof.
  exists (mk_fdecl 0%nat TInt [(TInt, true)]), (mk_tv TInt false false 5 0).
  split; [reflexivity|]. intro native. simpl. left. reflexivity.
Qed.
Print Assumptions pointer_param_cast_refuted.

(* ---- non-vacuity -------------------------------------------------------------------------- *)
Example supported_examples :
  supported ffi_chain (mk_csig TInt [TInt; TInt]) = true /\ supported ffi_chain (mk_csig TLong [TInt]) = true /\
  supported ffi_chain (mk_csig TDouble [TDouble; TDouble; TDouble; TDouble]) = true /\
  supported ffi_chain (mk_csig TInt [TLong]) = false /\ supported ffi_chain (mk_csig TLong []) = false.
Proof. repeat split. Qed.

(* one complete history against the echo library: declaration, qualified call long e(int) with -1 *)
Example history_example :
  run_history (fun _ _ => echo_native None) ffi_chain ffi_arity_check (fun _ => Some [7%nat]) st_empty
    [OUse 3%nat [mk_fdecl 7%nat TLong [(TInt, false)]; mk_fdecl 8%nat TInt []];
     OCall true 3%nat 7%nat [mk_tv TInt false false (-1) 0]] =
  [EvDiag (DRegFailed 3%nat 8%nat);
   EvCall 3%nat 7%nat (mk_call (mk_csig TLong [TInt]) [CInt (-1)]);
   EvResult (SValue false (-7046029254386353134))].
Proof. vm_compute. reflexivity. Qed.
