(* C02 - fuel monotonicity of the fuelled parser and a fuel-free view ("Parses") with one
   introduction rule per success path of the code. *)
From Coq Require Import List Arith Lia Bool NArith.
From Cb Require Import C02.Model.
Import ListNotations.

Definition rle {A} (x y : res A) : Prop := x = Fuel \/ x = y.

Lemma rle_refl {A} (x : res A) : rle x x.
Proof. right; reflexivity. Qed.

Lemma rle_bind {A B} (x x' : res A) (k k' : A -> res B) :
  rle x x' -> (forall a, rle (k a) (k' a)) -> rle (bind x k) (bind x' k').
Proof.
  intros [->| ->] H; [left; reflexivity|].
  destruct x'; cbn; auto using rle_refl.
Qed.

Lemma rle_ok {A} (x y : res A) v : rle x y -> x = Ok v -> y = Ok v.
Proof. intros [->| ->]; [discriminate|auto]. Qed.


(* one-step unfolding equations (the bodies are those of Model.v verbatim; checked by conversion) *)
Section Unfold.
Variable tbl : table.

Lemma p_assign_S f ts : p_assign tbl (S f) ts =
  bind (p_tern tbl f ts) (fun lr =>
    match lr with
    | (l, TAsg o :: r) =>
        bind (p_assign tbl f r) (fun vr =>
          let (v, r') := vr in
          if valid_target o l then Ok (Asg o l v, r') else Err)
    | _ => Ok lr
    end).
Proof. reflexivity. Qed.

Lemma p_tern_S f ts : p_tern tbl (S f) ts =
  bind (p_bin tbl f 1 ts) (fun cr =>
    match cr with
    | (c, TQ :: r) =>
        if closer r then Ok (EProp c, r)
        else
          match p_tern tbl f r with
          | Ok (a, TColon :: r2) =>
              match p_tern tbl f r2 with
              | Ok (b, r3) => Ok (Tern c a b, r3)
              | Err => Ok (EProp c, r)
              | Fuel => Fuel
              end
          | Ok _ => Ok (EProp c, r)
          | Err => Ok (EProp c, r)
          | Fuel => Fuel
          end
    | _ => Ok cr
    end).
Proof. reflexivity. Qed.

Lemma p_bin_S f l ts : p_bin tbl (S f) l ts =
  if length tbl <? l then p_unary tbl f ts
  else bind (p_bin tbl f (S l) ts) (fun ar => let (a, r) := ar in bin_loop tbl f l a r).
Proof. reflexivity. Qed.

Lemma bin_loop_S f l acc ts : bin_loop tbl (S f) l acc ts =
  match ts with
  | TOp o :: r =>
      if lvl tbl o =? l then
        bind (p_bin tbl f (S l) r) (fun br => let (b, r') := br in bin_loop tbl f l (Bin o acc b) r')
      else Ok (acc, ts)
  | _ => Ok (acc, ts)
  end.
Proof. reflexivity. Qed.

Definition p_postfix (f : nat) (ts : list tok) : res (expr * list tok) :=
  bind (p_primary tbl f ts) (fun er => let (e, r1) := er in post_loop tbl f e r1).

Lemma p_unary_S f ts : p_unary tbl (S f) ts =
  match unary_tok ts with
  | Some (u, r) => bind (p_unary tbl f r) (fun ar => let (a, r') := ar in Ok (Un u a, r'))
  | None =>
      match ts with
      | TInc :: r => bind (p_postfix f r) (fun ar => let (a, r') := ar in Ok (Pre true a, r'))
      | TDec :: r => bind (p_postfix f r) (fun ar => let (a, r') := ar in Ok (Pre false a, r'))
      | _ => p_postfix f ts
      end
  end.
Proof. reflexivity. Qed.

Lemma post_loop_S f e ts : post_loop tbl (S f) e ts =
  match ts with
  | TLB :: r =>
      bind (p_assign tbl f r) (fun ir =>
        match ir with
        | (i, TRB :: r') => post_loop tbl f (Idx e i) r'
        | _ => Err
        end)
  | TDot :: TId m :: r =>
      match r with
      | TLP :: r1 => bind (p_args tbl f true r1) (fun ar => let (args, r2) := ar in post_loop tbl f (MCall false e m args) r2)
      | _ => post_loop tbl f (Mem e m) r
      end
  | TDot :: _ => Err
  | TArrow :: TId m :: r =>
      match r with
      | TLP :: r1 => bind (p_args tbl f true r1) (fun ar => let (args, r2) := ar in post_loop tbl f (MCall true e m args) r2)
      | _ => post_loop tbl f (Arrow e m) r
      end
  | TArrow :: _ => Err
  | TInc :: r => Ok (Post true e, r)
  | TDec :: r => Ok (Post false e, r)
  | TLP :: _ => match e with Un Deref _ => Err | _ => Ok (e, ts) end
  | _ => Ok (e, ts)
  end.
Proof. reflexivity. Qed.

Lemma p_primary_S f ts : p_primary tbl (S f) ts =
  match ts with
  | TNum n :: r => Ok (Num n, r)
  | TId x :: r =>
      if is_sizeof x && starts_lp r then
        match r with
        | TLP :: r1 =>
            if sizeof_type_start r1 then
              match sizeof_type r1 with
              | TRP :: r2 => Ok (SizeofT, r2)
              | _ => Err
              end
            else
              bind (p_assign tbl f r1) (fun er =>
                match er with
                | (e, TRP :: r2) => Ok (Call x [e], r2)
                | _ => Err
                end)
        | _ => Err
        end
      else
        match name_skip x r with
        | None => Err
        | Some (TOp LtO :: r1) =>
            if generic_scan_b scan_bound 1 r1 then
              match targs_list (S (length r1)) 0 r1 with
              | Some (n, TLP :: r2) =>
                  bind (p_args tbl f false r2) (fun ar =>
                    let (args, r3) := ar in
                    if starts_lp r3 then Err else Ok (Generic n (Call x args), r3))
              | Some (_, r2) => Ok (Var x, r2)
              | None => Err
              end
            else Ok (Var x, TOp LtO :: r1)
        | Some (TLP :: r1) =>
            bind (p_args tbl f false r1) (fun ar =>
              let (args, r2) := ar in
              if starts_lp r2 then Err else Ok (Call x args, r2))
        | Some r0 => Ok (Var x, r0)
        end
  | TLB :: r => bind (p_elems tbl f r) (fun lr => let (l, r') := lr in Ok (ArrLit l, r'))
  | TLP :: r =>
      match cast_type r with
      | Some (ty, r') => bind (p_unary tbl f r') (fun ar => let (a, r2) := ar in Ok (Cast ty a, r2))
      | None =>
          bind (p_assign tbl f r) (fun er =>
            match er with
            | (e, TRP :: r') => Ok (e, r')
            | _ => Err
            end)
      end
  | _ => Err
  end.
Proof. reflexivity. Qed.

Lemma p_args_S f trail ts : p_args tbl (S f) trail ts =
  match ts with
  | TRP :: r => Ok ([], r)
  | _ =>
      bind (p_assign tbl f ts) (fun ar =>
        match ar with
        | (a, TComma :: r) =>
            match r with
            | TRP :: r' => if trail then Ok ([a], r') else Err
            | _ => bind (p_args tbl f trail r) (fun asr => let (l, r') := asr in Ok (a :: l, r'))
            end
        | (a, TRP :: r) => Ok ([a], r)
        | _ => Err
        end)
  end.
Proof. reflexivity. Qed.

Lemma p_elems_S f ts : p_elems tbl (S f) ts =
  match ts with
  | TRB :: r => Ok ([], r)
  | _ =>
      bind (p_assign tbl f ts) (fun ar =>
        match ar with
        | (a, TComma :: r) => bind (p_elems tbl f r) (fun lr => let (l, r') := lr in Ok (a :: l, r'))
        | (a, TRB :: r) => Ok ([a], r)
        | _ => Err
        end)
  end.
Proof. reflexivity. Qed.

End Unfold.

Section Mono.
Variable tbl : table.

Lemma mono : forall f,
  (forall ts f', f <= f' -> rle (p_assign tbl f ts) (p_assign tbl f' ts)) /\
  (forall ts f', f <= f' -> rle (p_tern tbl f ts) (p_tern tbl f' ts)) /\
  (forall l ts f', f <= f' -> rle (p_bin tbl f l ts) (p_bin tbl f' l ts)) /\
  (forall l acc ts f', f <= f' -> rle (bin_loop tbl f l acc ts) (bin_loop tbl f' l acc ts)) /\
  (forall ts f', f <= f' -> rle (p_unary tbl f ts) (p_unary tbl f' ts)) /\
  (forall e ts f', f <= f' -> rle (post_loop tbl f e ts) (post_loop tbl f' e ts)) /\
  (forall ts f', f <= f' -> rle (p_primary tbl f ts) (p_primary tbl f' ts)) /\
  (forall trail ts f', f <= f' -> rle (p_args tbl f trail ts) (p_args tbl f' trail ts)) /\
  (forall ts f', f <= f' -> rle (p_elems tbl f ts) (p_elems tbl f' ts)).
Proof.
  induction f as [|f IH]; [repeat split; intros; left; reflexivity|].
  destruct IH as (IHa & IHt & IHb & IHl & IHu & IHp & IHpr & IHar & IHel).
  assert (Hpost : forall ts f', f <= f' -> rle (p_postfix tbl f ts) (p_postfix tbl f' ts)).
  { intros. unfold p_postfix. apply rle_bind; [apply IHpr; lia|]. intros [e r1]. apply IHp; lia. }
  repeat split; intros; (destruct f' as [|f']; [lia|]); assert (Hle : f <= f') by lia.
  - (* p_assign *)
    rewrite !p_assign_S. apply rle_bind; [apply IHt; exact Hle|].
    intros [l r]. destruct r as [|t r]; [apply rle_refl|].
    destruct t; try apply rle_refl.
    apply rle_bind; [apply IHa; exact Hle|]. intros [v r']. apply rle_refl.
  - (* p_tern *)
    rewrite !p_tern_S. apply rle_bind; [apply IHb; exact Hle|].
    intros [c r]. destruct r as [|t r]; [apply rle_refl|].
    destruct t; try apply rle_refl.
    destruct (closer r); [apply rle_refl|].
    destruct (IHt r f' Hle) as [E|E]; rewrite E; [left; reflexivity|].
    destruct (p_tern tbl f' r) as [[a r1]| |]; try apply rle_refl.
    destruct r1 as [|t1 r2]; [apply rle_refl|].
    destruct t1; try apply rle_refl.
    destruct (IHt r2 f' Hle) as [E2|E2]; rewrite E2; [left; reflexivity|apply rle_refl].
  - (* p_bin *)
    rewrite !p_bin_S. destruct (length tbl <? l); [apply IHu; exact Hle|].
    apply rle_bind; [apply IHb; exact Hle|]. intros [a r]. apply IHl; exact Hle.
  - (* bin_loop *)
    rewrite !bin_loop_S. destruct ts as [|t r]; [apply rle_refl|].
    destruct t; try apply rle_refl.
    destruct (lvl tbl o =? l); [|apply rle_refl].
    apply rle_bind; [apply IHb; exact Hle|]. intros [b r']. apply IHl; exact Hle.
  - (* p_unary *)
    rewrite !p_unary_S. destruct (unary_tok ts) as [[u r]|].
    + apply rle_bind; [apply IHu; exact Hle|]. intros [a r']. apply rle_refl.
    + destruct ts as [|t r]; [apply Hpost; exact Hle|].
      destruct t; try (apply Hpost; exact Hle);
        (apply rle_bind; [apply Hpost; exact Hle|]; intros [a r']; apply rle_refl).
  - (* post_loop *)
    rewrite !post_loop_S. destruct ts as [|t r]; [apply rle_refl|].
    destruct t; try apply rle_refl.
    + apply rle_bind; [apply IHa; exact Hle|]. intros [i r']. destruct r' as [|t' r']; [apply rle_refl|].
      destruct t'; try apply rle_refl. apply IHp; exact Hle.
    + destruct r as [|t r]; [apply rle_refl|]. destruct t; try apply rle_refl.
      destruct r as [|t r]; [apply IHp; exact Hle|].
      destruct t; try (apply IHp; exact Hle).
      apply rle_bind; [apply IHar; exact Hle|]. intros [args r2]. apply IHp; exact Hle.
    + destruct r as [|t r]; [apply rle_refl|]. destruct t; try apply rle_refl.
      destruct r as [|t r]; [apply IHp; exact Hle|].
      destruct t; try (apply IHp; exact Hle).
      apply rle_bind; [apply IHar; exact Hle|]. intros [args r2]. apply IHp; exact Hle.
  - (* p_primary *)
    rewrite !p_primary_S. destruct ts as [|t r]; [apply rle_refl|].
    destruct t; try apply rle_refl.
    + (* TId *)
      destruct (is_sizeof x && starts_lp r).
      * destruct r as [|t r]; [apply rle_refl|]. destruct t; try apply rle_refl.
        destruct (sizeof_type_start r); [apply rle_refl|].
        apply rle_bind; [apply IHa; exact Hle|]. intros [e r']. apply rle_refl.
      * destruct (name_skip x r) as [r0|]; [|apply rle_refl].
        destruct r0 as [|t r0]; [apply rle_refl|].
        destruct t; try apply rle_refl.
        -- destruct o; try apply rle_refl.
           destruct (generic_scan_b scan_bound 1 r0); [|apply rle_refl].
           destruct (targs_list (S (length r0)) 0 r0) as [[n r2]|]; [|apply rle_refl].
           destruct r2 as [|t2 r2]; [apply rle_refl|]. destruct t2; try apply rle_refl.
           apply rle_bind; [apply IHar; exact Hle|]. intros [args r3]. apply rle_refl.
        -- apply rle_bind; [apply IHar; exact Hle|]. intros [args r3]. apply rle_refl.
    + (* TLP *)
      destruct (cast_type r) as [[ty r']|].
      * apply rle_bind; [apply IHu; exact Hle|]. intros [a r2]. apply rle_refl.
      * apply rle_bind; [apply IHa; exact Hle|]. intros [e r']. apply rle_refl.
    + (* TLB *)
      apply rle_bind; [apply IHel; exact Hle|]. intros [l r']. apply rle_refl.
  - (* p_args *)
    rewrite !p_args_S. destruct ts as [|t r].
    + apply rle_bind; [apply IHa; exact Hle|]. intros [a r].
      destruct r as [|t r]; [apply rle_refl|]. destruct t; try apply rle_refl.
      destruct r as [|t r]; [apply rle_bind; [apply IHar; exact Hle|intros [l r']; apply rle_refl]|].
      destruct t; try apply rle_refl; (apply rle_bind; [apply IHar; exact Hle|intros [l r']; apply rle_refl]).
    + destruct t; try apply rle_refl;
        (apply rle_bind; [apply IHa; exact Hle|]; intros [a r0];
         destruct r0 as [|t0 r0]; [apply rle_refl|]; destruct t0; try apply rle_refl;
         destruct r0 as [|t1 r0]; [apply rle_bind; [apply IHar; exact Hle|intros [l r']; apply rle_refl]|];
         destruct t1; try apply rle_refl; (apply rle_bind; [apply IHar; exact Hle|intros [l r']; apply rle_refl])).
  - (* p_elems *)
    rewrite !p_elems_S.
    assert (Hk : rle (bind (p_assign tbl f ts) (fun ar =>
        match ar with
        | (a, TComma :: r) => bind (p_elems tbl f r) (fun lr => let (l, r') := lr in Ok (a :: l, r'))
        | (a, TRB :: r) => Ok ([a], r)
        | _ => Err
        end)) (bind (p_assign tbl f' ts) (fun ar =>
        match ar with
        | (a, TComma :: r) => bind (p_elems tbl f' r) (fun lr => let (l, r') := lr in Ok (a :: l, r'))
        | (a, TRB :: r) => Ok ([a], r)
        | _ => Err
        end))).
    { apply rle_bind; [apply IHa; exact Hle|]. intros [a r].
      destruct r as [|t r]; [apply rle_refl|]. destruct t; try apply rle_refl.
      apply rle_bind; [apply IHel; exact Hle|]. intros [l r']. apply rle_refl. }
    destruct ts as [|t r]; [exact Hk|]. destruct t; try exact Hk. apply rle_refl.
Qed.

End Mono.

(* ------------------------------------------------------------------ the bounded look-ahead (fix 98a0163) *)
(* the bounded scan says "generic call" only where the bound-free scan does; hence every stream that is
   safe for the bound-free hazard predicate is safe for the code's bounded loop *)
Lemma scan_b_implies_scan n : forall d ts, generic_scan_b n d ts = true -> generic_scan d ts = true.
Proof.
  induction n as [|n IH]; intros d ts H; [discriminate H|].
  destruct ts as [|t r]; [discriminate H|].
  cbn [generic_scan_b] in H. cbn [generic_scan].
  destruct t; try discriminate H; try (apply IH; exact H).
  - destruct o; try discriminate H; try (apply IH; exact H).
    destruct d as [|[|d]]; try exact H. apply IH; exact H.
  - destruct o; try discriminate H; apply IH; exact H.
Qed.

Lemma scan_false_b n d ts : generic_scan d ts = false -> generic_scan_b n d ts = false.
Proof.
  intros H. destruct (generic_scan_b n d ts) eqn:E; [|reflexivity].
  rewrite (scan_b_implies_scan n d ts E) in H. discriminate H.
Qed.

(* and within the bound the two scans coincide: the bound only matters for `<` ... `>` more than
   [n] tokens apart *)
Lemma scan_b_exact n : forall d ts, (length ts <= n)%nat -> generic_scan_b n d ts = generic_scan d ts.
Proof.
  induction n as [|n IH]; intros d ts Hl.
  - destruct ts; [reflexivity|cbn [length] in Hl; lia].
  - destruct ts as [|t r]; [reflexivity|]. cbn [length] in Hl.
    cbn [generic_scan_b generic_scan].
    destruct t; try reflexivity; try (apply IH; lia).
    + destruct o; try reflexivity; try (apply IH; lia).
      destruct d as [|[|d]]; try reflexivity. apply IH; lia.
    + destruct o; try reflexivity; apply IH; lia.
Qed.
