(* Extraction of the C02 model to OCaml (ExtrOcamlBasic + ExtrOcamlString only; nat/N/Z stay inductive). *)
From Coq Require Import Extraction ExtrOcamlBasic ExtrOcamlString.
From Cb Require Import C02.Model.
Extraction Language OCaml.
Extraction "C02/c02_model.ml" parse p_assign enough_fuel pr strip wf full safeb syn_safe no_gt_lp folb eval_fn lvl lev
  pinned_table spec_table old_table table_total cast_type generic_scan id_upper id_type is_sizeof.
