(* C02 - facts about the concrete level tables (spec = docs/spec.md:309 / docs/BNF.md:407 = pinned, the
   ladder the model is written against since fix 4d0a4b7; old_table = the ladder before it), the
   former refutation witnesses turned positive, and the one law the code still does not satisfy. *)
From Coq Require Import List Arith Lia Bool NArith ZArith String.
From Cb Require Import C02.Model C02.Mono C02.Rules C02.Roundtrip C02.Theorems.
Import ListNotations.

Lemma pinned_total_l : table_total pinned_table = true.
Proof. vm_compute. reflexivity. Qed.
Lemma spec_total_l : table_total spec_table = true.
Proof. vm_compute. reflexivity. Qed.

(* nothing here mentions the generated Gen_LadderTable.v: the theorems about ladder_table are closed in
   Properties_C02.v by conversion (ladder_table unfolds to spec_table as long as the C++ is unchanged),
   so that a changed table breaks a NAMED obligation there and nothing else *)
Lemma pinned_is_spec_l : pinned_table = spec_table.
Proof. reflexivity. Qed.

(* the ladder before fix 4d0a4b7 was not the documented one *)
Lemma old_is_not_spec_l : old_table <> spec_table.
Proof. intros H. discriminate H. Qed.

Definition is_eq (o : binop) : bool := match o with EqO | NeO => true | _ => false end.
Definition is_rel (o : binop) : bool := match o with LtO | LeO | GtO | GeO => true | _ => false end.

Lemma in_all_binops o : In o all_binops.
Proof. destruct o; cbn; tauto. Qed.

(* printing by the documented table round-trips through the documented table (= the code's ladder) *)
Lemma conforms_l : forall e rest, wf e = true -> folb spec_table 0 rest = true ->
  safeb (pr spec_table 0 e ++ rest) = true ->
  exists fuel, p_assign spec_table fuel (pr spec_table 0 e ++ rest) = Ok (strip e, rest).
Proof. intros e rest Hw Hf Hs. apply roundtrip_general_l; auto using spec_total_l. Qed.

(* former finding C02-eq-rel-same-level, now positive: every equality operator binds looser than every
   relational operator, on either side; the former witness 3 == 3 > 0 is 3 == (3 > 0) = 0 *)
Lemma spec_grouping_l : forall oe orl x y z, is_eq oe = true -> is_rel orl = true ->
  (exists fuel, p_assign spec_table fuel [TId x; TOp oe; TId y; TOp orl; TId z] =
                Ok (Bin oe (Var x) (Bin orl (Var y) (Var z)), [])) /\
  (exists fuel, p_assign spec_table fuel [TId x; TOp orl; TId y; TOp oe; TId z] =
                Ok (Bin oe (Bin orl (Var x) (Var y)) (Var z), [])).
Proof.
  intros oe orl x y z He Hr. apply higher_level_binds_tighter_l; [exact spec_total_l|].
  destruct oe; try discriminate He; destruct orl; try discriminate Hr; vm_compute; lia.
Qed.

Lemma spec_witness_l :
  parse spec_table [TNum 3; TOp EqO; TNum 3; TOp GtO; TNum 0] =
    Ok (Bin EqO (Num 3) (Bin GtO (Num 3) (Num 0)), []) /\
  eval (fun _ => 0%Z) (Bin EqO (Num 3) (Bin GtO (Num 3) (Num 0))) = Some 0%Z /\
  parse old_table [TNum 3; TOp EqO; TNum 3; TOp GtO; TNum 0] =
    Ok (Bin GtO (Bin EqO (Num 3) (Num 3)) (Num 0), []).
Proof. repeat split. Qed.

(* former finding C02-paren-ident-cast, now positive: the former witnesses (a) - 1 and (a[1]) - 1 *)
Lemma paren_identifier_l :
  parse pinned_table (pr pinned_table 0 (Bin Sub (Par (Var 0)) (Num 1))) = Ok (Bin Sub (Var 0) (Num 1), []) /\
  pr pinned_table 0 (Bin Sub (Par (Var 0)) (Num 1)) = [TLP; TId 0; TRP; TOp Sub; TNum 1] /\
  parse pinned_table [TLP; TId 0; TLB; TNum 1; TRB; TRP; TOp Sub; TNum 1] =
    Ok (Bin Sub (Idx (Var 0) (Num 1)) (Num 1), []) /\
  parse pinned_table [TLP; TLP; TId 0; TRP; TOp Mul; TNum 2; TRP] = Ok (Bin Mul (Var 0) (Num 2), []).
Proof. repeat split. Qed.

(* C02-generic-lookahead, the part that is still there: a < b > (c & d), minimal parentheses, no explicit
   pair, is taken for the generic call a<b>(c & d) *)
Lemma roundtrip_min_refuted_generic_l :
  exists e, wf e = true /\ nopar e = true /\
    pr pinned_table 0 e = [TId 0; TOp LtO; TId 1; TOp GtO; TLP; TId 2; TOp BAnd; TId 3; TRP] /\
    parse pinned_table (pr pinned_table 0 e) = Ok (Generic 1 (Call 0 [Bin BAnd (Var 2) (Var 3)]), []) /\
    safeb (pr pinned_table 0 e) = false.
Proof.
  exists (Bin GtO (Bin LtO (Var 0) (Var 1)) (Bin BAnd (Var 2) (Var 3))). repeat split.
Qed.

(* ... while the look-ahead now gives up at ; ( ) { } = + - && ||: a < b + 1 > (c) and a statement
   boundary are comparisons again *)
Lemma generic_lookahead_bounded_l :
  parse pinned_table [TId 0; TOp LtO; TId 1; TOp Add; TNum 1; TOp GtO; TLP; TId 2; TRP] =
    Ok (Bin GtO (Bin LtO (Var 0) (Bin Add (Var 1) (Num 1))) (Var 2), []) /\
  generic_scan 1 [TId 1; TRP; TSemi; TOther; TLP; TId 1; TOp GtO; TLP; TId 0; TRP] = false.
Proof. split; reflexivity. Qed.

(* hypotheses of the round trip are satisfiable, and the fuel of [parse] is enough, on a stream
   that exercises every construct *)
Definition sample : expr :=
  Asg (Some Add) (Idx (Var 0) (Bin Add (Var 1) (Num 1)))
      (Tern (Bin Or (Bin LtO (Par (Var 2)) (Num 3)) (Un Not (Var 3)))
            (Bin Mul (Par (Bin Sub (Var 0) (Un Neg (Post true (Var 1))))) (Call 5 [Var 2; Bin Shl (Num 1) (Num 2)]))
            (Tern (Bin EqO (Var 1) (Bin GeO (Var 2) (Var 3))) (Mem (Arrow (Var 4) 10) 11) (Pre false (Par (Idx (Var 0) (Num 0)))))).

Lemma sample_roundtrip_l :
  wf sample = true /\ folb pinned_table 0 [TRP; TSemi] = true /\
  safeb (pr pinned_table 0 sample ++ [TRP; TSemi]) = true /\
  parse pinned_table (pr pinned_table 0 sample ++ [TRP; TSemi]) = Ok (strip sample, [TRP; TSemi]) /\
  parse pinned_table (pr pinned_table 0 (full sample) ++ [TRP; TSemi]) = Ok (strip sample, [TRP; TSemi]).
Proof. repeat split. Qed.

(* ------------------------------------------------------------------ structure of the ladder *)
Local Open Scope string_scope.

Fixpoint chain_ok (l : list (string * string * string * string)) : bool :=
  match l with
  | [] => false
  | [(_, opd, rhs, kind)] => String.eqb opd rhs && String.eqb kind "while" && String.eqb opd "parseUnary"
  | (_, opd, rhs, kind) :: (((fn', _, _, _) :: _) as l') =>
      String.eqb opd rhs && String.eqb kind "while" && String.eqb opd fn' && chain_ok l'
  end.

Definition list_string_eqb (a b : list string) : bool :=
  (List.length a =? List.length b)%nat && forallb (fun p => String.eqb (fst p) (snd p)) (combine a b).

(* what Model.v assumes about the code around the table: every level is a `while` loop whose
   right operand is parsed by the same callee as its left operand (left associative), the levels
   form one chain from parseTernary's condition callee down to parseUnary; ?: parses its branches
   with parseTernary; assignment is parseTernary = parseAssignment; prefix operators recurse into
   parseUnary, ++/-- and the fall-through use parsePostfix *)
Definition structure_ok (shape : list (string * string * string * string)) (ternary : list string)
    (entry : string) (assign unary_prefix unary_calls generic_stops : list string) (generic_bound : nat) (cast_guard : bool)
    (t : table) : bool :=
  chain_ok shape &&
  match shape, ternary with
  | (fn, _, _, _) :: _, [c; th; el] => String.eqb fn c && String.eqb th "parseTernary" && String.eqb el "parseTernary"
  | _, _ => false
  end &&
  String.eqb entry "parseAssignment" &&
  list_string_eqb assign ["parseTernary"; "parseAssignment"] &&
  list_string_eqb unary_prefix ["TOK_BIT_AND"; "TOK_BIT_NOT"; "TOK_MINUS"; "TOK_MUL"; "TOK_NOT"] &&
  list_string_eqb unary_calls ["parseUnary"; "parsePostfix"; "parsePostfix"] &&
  list_string_eqb generic_stops ["TOK_AND"; "TOK_ASSIGN"; "TOK_LBRACE"; "TOK_LPAREN"; "TOK_MINUS"; "TOK_OR";
                                  "TOK_PLUS"; "TOK_RBRACE"; "TOK_RPAREN"; "TOK_SEMICOLON"] &&
  (generic_bound =? scan_bound)%nat &&
  cast_guard &&
  (List.length shape =? List.length t)%nat.
