(* C02 - facts about the concrete level tables (pinned = the ladder the model was written against,
   spec = docs/spec.md:309 / docs/BNF.md:407, ladder_table = re-extracted from the C++ on every run),
   and the refutation witnesses for the laws the pinned code does not satisfy. *)
From Coq Require Import List Arith Lia Bool NArith ZArith String.
From Cb Require Import C02.Model C02.Mono C02.Rules C02.Roundtrip C02.Theorems.
Import ListNotations.

Lemma pinned_total_l : table_total pinned_table = true.
Proof. vm_compute. reflexivity. Qed.
Lemma spec_total_l : table_total spec_table = true.
Proof. vm_compute. reflexivity. Qed.

(* nothing here mentions the generated Gen_LadderTable.v: the theorems about ladder_table are closed in
   Properties_C02.v by conversion (ladder_table unfolds to pinned_table as long as the C++ is unchanged),
   so that a changed table breaks a NAMED obligation there and nothing else *)
Lemma pinned_is_not_spec_l : pinned_table <> spec_table.
Proof. intros H. discriminate H. Qed.

Definition is_eq (o : binop) : bool := match o with EqO | NeO => true | _ => false end.
Definition is_rel (o : binop) : bool := match o with LtO | LeO | GtO | GeO => true | _ => false end.

Lemma in_all_binops o : In o all_binops.
Proof. destruct o; cbn; tauto. Qed.

(* the two tables order every pair of operators alike, except an equality against a relational one *)
Lemma tables_differ_only_eq_rel_l : forall o1 o2,
  Nat.compare (lvl pinned_table o1) (lvl pinned_table o2) = Nat.compare (lvl spec_table o1) (lvl spec_table o2)
  \/ (is_eq o1 = true /\ is_rel o2 = true) \/ (is_rel o1 = true /\ is_eq o2 = true).
Proof.
  assert (H : forallb (fun o1 => forallb (fun o2 =>
      match Nat.compare (lvl pinned_table o1) (lvl pinned_table o2), Nat.compare (lvl spec_table o1) (lvl spec_table o2) with
      | Lt, Lt | Eq, Eq | Gt, Gt => true
      | _, _ => (is_eq o1 && is_rel o2) || (is_rel o1 && is_eq o2)
      end) all_binops) all_binops = true) by (vm_compute; reflexivity).
  intros o1 o2. rewrite forallb_forall in H. specialize (H o1 (in_all_binops o1)).
  rewrite forallb_forall in H. specialize (H o2 (in_all_binops o2)).
  destruct (Nat.compare (lvl pinned_table o1) (lvl pinned_table o2)),
           (Nat.compare (lvl spec_table o1) (lvl spec_table o2)); auto;
    apply orb_true_iff in H; destruct H as [H|H]; apply andb_true_iff in H; tauto.
Qed.

(* if (after a repair) the ladder is the documented table, printing by the DOCUMENTED table
   round-trips through the code's ladder *)
Lemma conforms_if_is_spec_l : forall lt : table, lt = spec_table ->
  forall e rest, wf e = true -> folb spec_table 0 rest = true ->
  safeb false (pr spec_table 0 e ++ rest) = true ->
  exists fuel, p_assign lt fuel (pr spec_table 0 e ++ rest) = Ok (strip e, rest).
Proof.
  intros lt -> e rest Hw Hf Hs. apply roundtrip_general_l; auto using spec_total_l.
Qed.

(* finding C02-eq-rel-same-level: 3 == 3 > 0 is 3 == (3 > 0) = 0 by the documented table, the
   ladder parses (3 == 3) > 0 = 1 *)
Lemma spec_grouping_refuted_l :
  exists e, wf e = true /\ nopar e = true /\
    pr spec_table 0 e = [TNum 3; TOp EqO; TNum 3; TOp GtO; TNum 0] /\
    exists e', parse pinned_table (pr spec_table 0 e) = Ok (e', []) /\ e' <> e /\
      eval (fun _ => 0%Z) e = Some 0%Z /\ eval (fun _ => 0%Z) e' = Some 1%Z.
Proof.
  exists (Bin EqO (Num 3) (Bin GtO (Num 3) (Num 0))). repeat split.
  exists (Bin GtO (Bin EqO (Num 3) (Num 3)) (Num 0)). repeat split.
  intros H; discriminate H.
Qed.

(* finding C02-paren-ident-cast: a redundant pair of parentheses around an identifier (or an
   element x[1]) is taken for a cast *)
Lemma redundant_parens_refuted_l :
  exists e e', wf e = true /\ wf e' = true /\ strip e = strip e' /\
    pr pinned_table 0 e' = [TLP; TId 0; TRP; TOp Sub; TNum 1] /\
    parse pinned_table (pr pinned_table 0 e) = Ok (strip e, []) /\
    parse pinned_table (pr pinned_table 0 e') = Ok (Cast [TId 0] (Un Neg (Num 1)), []) /\
    safeb false (pr pinned_table 0 e') = false.
Proof.
  exists (Bin Sub (Var 0) (Num 1)), (Bin Sub (Par (Var 0)) (Num 1)). repeat split.
Qed.

Lemma paren_element_cast_refuted_l :
  parse pinned_table [TLP; TId 0; TLB; TNum 1; TRB; TRP; TOp Sub; TNum 1] =
    Ok (Cast [TId 0; TLB; TNum 1; TRB] (Un Neg (Num 1)), []) /\
  pr pinned_table 0 (Bin Sub (Par (Idx (Var 0) (Num 1))) (Num 1)) =
    [TLP; TId 0; TLB; TNum 1; TRB; TRP; TOp Sub; TNum 1].
Proof. split; reflexivity. Qed.

(* findings #37/#38 (C02-generic-lookahead): a < b > (c & d), minimal parentheses, no explicit
   pair, is taken for the generic call a<b>(c & d) *)
Lemma roundtrip_min_refuted_generic_l :
  exists e, wf e = true /\ nopar e = true /\
    pr pinned_table 0 e = [TId 0; TOp LtO; TId 1; TOp GtO; TLP; TId 2; TOp BAnd; TId 3; TRP] /\
    parse pinned_table (pr pinned_table 0 e) = Ok (Generic 1 (Call 0 [Bin BAnd (Var 2) (Var 3)]), []) /\
    safeb false (pr pinned_table 0 e) = false.
Proof.
  exists (Bin GtO (Bin LtO (Var 0) (Var 1)) (Bin BAnd (Var 2) (Var 3))). repeat split.
Qed.

(* hypotheses of the round trip are satisfiable, and the fuel of [parse] is enough, on a stream
   that exercises every construct *)
Definition sample : expr :=
  Asg (Some Add) (Idx (Var 0) (Bin Add (Var 1) (Num 1)))
      (Tern (Bin Or (Bin LtO (Var 2) (Num 3)) (Un Not (Var 3)))
            (Bin Mul (Par (Bin Sub (Var 0) (Un Neg (Post true (Var 1))))) (Call 5 [Var 2; Bin Shl (Num 1) (Num 2)]))
            (Tern (Var 1) (Mem (Arrow (Var 4) 10) 11) (Pre false (Idx (Var 0) (Num 0))))).

Lemma sample_roundtrip_l :
  wf sample = true /\ folb pinned_table 0 [TRP; TSemi] = true /\
  safeb false (pr pinned_table 0 sample ++ [TRP; TSemi]) = true /\
  parse pinned_table (pr pinned_table 0 sample ++ [TRP; TSemi]) = Ok (strip sample, [TRP; TSemi]) /\
  parse pinned_table (pr pinned_table 0 (full sample) ++ [TRP; TSemi]) = Ok (strip sample, [TRP; TSemi]).
Proof. repeat split. Qed.

(* ------------------------------------------------------------------ structure of the ladder *)
Local Open Scope string_scope.

Fixpoint chain_ok (l : list (string * string * string * string)) : bool :=
  match l with
  | [] => false
  | [(_, opd, rhs, kind)] => String.eqb opd rhs && String.eqb kind "while" && String.eqb opd "parseUnary"
  | (_, opd, rhs, kind) :: (((fn', _, _, _) :: _) as l') =>
      String.eqb opd rhs && String.eqb kind "while" && String.eqb opd fn' && chain_ok l'
  end.

Definition list_string_eqb (a b : list string) : bool :=
  (List.length a =? List.length b)%nat && forallb (fun p => String.eqb (fst p) (snd p)) (combine a b).

(* what Model.v assumes about the code around the table: every level is a `while` loop whose
   right operand is parsed by the same callee as its left operand (left associative), the levels
   form one chain from parseTernary's condition callee down to parseUnary; ?: parses its branches
   with parseTernary; assignment is parseTernary = parseAssignment; prefix operators recurse into
   parseUnary, ++/-- and the fall-through use parsePostfix *)
Definition structure_ok (shape : list (string * string * string * string)) (ternary : list string)
    (entry : string) (assign unary_prefix unary_calls : list string) (t : table) : bool :=
  chain_ok shape &&
  match shape, ternary with
  | (fn, _, _, _) :: _, [c; th; el] => String.eqb fn c && String.eqb th "parseTernary" && String.eqb el "parseTernary"
  | _, _ => false
  end &&
  String.eqb entry "parseAssignment" &&
  list_string_eqb assign ["parseTernary"; "parseAssignment"] &&
  list_string_eqb unary_prefix ["TOK_BIT_AND"; "TOK_BIT_NOT"; "TOK_MINUS"; "TOK_MUL"; "TOK_NOT"] &&
  list_string_eqb unary_calls ["parseUnary"; "parsePostfix"; "parsePostfix"] &&
  (List.length shape =? List.length t)%nat.
