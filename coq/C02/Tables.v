(* C02 - facts about the concrete level tables (spec = docs/spec.md:309 / docs/BNF.md:407 = pinned, the
   ladder the model is written against since fix 4d0a4b7; old_table = the ladder before it), the
   former refutation witnesses turned positive, and the one law the code still does not satisfy. *)
From Coq Require Import List Arith Lia Bool NArith ZArith String.
From Cb Require Import C02.Model C02.Mono C02.Rules C02.Roundtrip C02.Theorems.
Import ListNotations.

Lemma pinned_total_l : table_total pinned_table = true.
Proof. vm_compute. reflexivity. Qed.
Lemma spec_total_l : table_total spec_table = true.
Proof. vm_compute. reflexivity. Qed.

(* nothing here mentions the generated Gen_LadderTable.v: the theorems about ladder_table are closed in
   Properties_C02.v by conversion (ladder_table unfolds to spec_table as long as the C++ is unchanged),
   so that a changed table breaks a NAMED obligation there and nothing else *)
Lemma pinned_is_spec_l : pinned_table = spec_table.
Proof. reflexivity. Qed.

(* the ladder before fix 4d0a4b7 was not the documented one *)
Lemma old_is_not_spec_l : old_table <> spec_table.
Proof. intros H. discriminate H. Qed.

Definition is_eq (o : binop) : bool := match o with EqO | NeO => true | _ => false end.
Definition is_rel (o : binop) : bool := match o with LtO | LeO | GtO | GeO => true | _ => false end.

Lemma in_all_binops o : In o all_binops.
Proof. destruct o; cbn; tauto. Qed.

(* printing by the documented table round-trips through the documented table (= the code's ladder) *)
Lemma conforms_l : forall e rest, wf e = true -> folb spec_table 0 rest = true ->
  safeb (pr spec_table 0 e ++ rest) = true ->
  exists fuel, p_assign spec_table fuel (pr spec_table 0 e ++ rest) = Ok (strip e, rest).
Proof. intros e rest Hw Hf Hs. apply roundtrip_general_l; auto using spec_total_l. Qed.

(* former finding C02-eq-rel-same-level, now positive: every equality operator binds looser than every
   relational operator, on either side; the former witness 3 == 3 > 0 is 3 == (3 > 0) = 0 *)
Lemma spec_grouping_l : forall oe orl x y z, is_eq oe = true -> is_rel orl = true ->
  (safeb [TId x; TOp oe; TId y; TOp orl; TId z] = true ->
   exists fuel, p_assign spec_table fuel [TId x; TOp oe; TId y; TOp orl; TId z] =
                Ok (Bin oe (Var x) (Bin orl (Var y) (Var z)), [])) /\
  (safeb [TId x; TOp orl; TId y; TOp oe; TId z] = true ->
   exists fuel, p_assign spec_table fuel [TId x; TOp orl; TId y; TOp oe; TId z] =
                Ok (Bin oe (Bin orl (Var x) (Var y)) (Var z), [])).
Proof.
  intros oe orl x y z He Hr. apply higher_level_binds_tighter_l; [exact spec_total_l|].
  destruct oe; try discriminate He; destruct orl; try discriminate Hr; vm_compute; lia.
Qed.

Lemma spec_witness_l :
  parse spec_table [TNum 3; TOp EqO; TNum 3; TOp GtO; TNum 0] =
    Ok (Bin EqO (Num 3) (Bin GtO (Num 3) (Num 0)), []) /\
  eval (fun _ => 0%Z) (Bin EqO (Num 3) (Bin GtO (Num 3) (Num 0))) = Some 0%Z /\
  parse old_table [TNum 3; TOp EqO; TNum 3; TOp GtO; TNum 0] =
    Ok (Bin GtO (Bin EqO (Num 3) (Num 3)) (Num 0), []).
Proof. repeat split. Qed.

(* identifiers of the four classes used in the examples: lower-case a b c d, upper-case N M (no type),
   a lower-case and an upper-case declared type name *)
Definition ia := 4. Definition ib := 8. Definition ic := 12. Definition id_ := 16.
Definition iN := 21. Definition iM := 25. Definition it_ := 30. Definition iT := 35.
Lemma id_classes_l :
  (id_upper ia, id_type ia) = (false, false) /\ (id_upper iN, id_type iN) = (true, false) /\
  (id_upper it_, id_type it_) = (false, true) /\ (id_upper iT, id_type iT) = (true, true) /\
  is_sizeof 0 = true /\ is_sizeof ia = false.
Proof. repeat split. Qed.

(* former finding C02-paren-ident-cast, now positive: the former witnesses (a) - 1 and (a[1]) - 1, and the
   same with an upper-case name that is no type (the spelling of a name does not make it a type) *)
Lemma paren_identifier_l :
  parse pinned_table (pr pinned_table 0 (Bin Sub (Par (Var ia)) (Num 1))) = Ok (Bin Sub (Var ia) (Num 1), []) /\
  pr pinned_table 0 (Bin Sub (Par (Var ia)) (Num 1)) = [TLP; TId ia; TRP; TOp Sub; TNum 1] /\
  parse pinned_table [TLP; TId ia; TLB; TNum 1; TRB; TRP; TOp Sub; TNum 1] =
    Ok (Bin Sub (Idx (Var ia) (Num 1)) (Num 1), []) /\
  parse pinned_table [TLP; TLP; TId ia; TRP; TOp Mul; TNum 2; TRP] = Ok (Bin Mul (Var ia) (Num 2), []) /\
  parse pinned_table [TLP; TId iN; TRP; TOp Sub; TNum 1] = Ok (Bin Sub (Var iN) (Num 1), []) /\
  parse pinned_table [TNum 100; TOp Sub; TLP; TId iN; TRP; TOp Sub; TNum 1] =
    Ok (Bin Sub (Bin Sub (Num 100) (Var iN)) (Num 1), []).
Proof. repeat split. Qed.

(* C02-generic-lookahead, the part that is still there: a < b > (c & d), minimal parentheses, no explicit
   pair, is taken for the generic call a<b>(c & d) *)
Lemma roundtrip_min_refuted_generic_l :
  exists e, wf e = true /\ nopar e = true /\
    pr pinned_table 0 e = [TId ia; TOp LtO; TId ib; TOp GtO; TLP; TId ic; TOp BAnd; TId id_; TRP] /\
    parse pinned_table (pr pinned_table 0 e) = Ok (Generic 1 (Call ia [Bin BAnd (Var ic) (Var id_)]), []) /\
    safeb (pr pinned_table 0 e) = false.
Proof.
  exists (Bin GtO (Bin LtO (Var ia) (Var ib)) (Bin BAnd (Var ic) (Var id_))). repeat split.
Qed.

(* C02-upper-ident-lt: an upper-case variable before `<` is taken for a generic type name: N < 5 is a
   parse error, N < M > - 1 silently parses as N - 1, while (N) < 5 is the comparison *)
Lemma roundtrip_min_refuted_upper_lt_l :
  wf (Bin LtO (Var iN) (Num 5)) = true /\
  parse pinned_table (pr pinned_table 0 (Bin LtO (Var iN) (Num 5)) ++ [TRP; TSemi]) = Err /\
  parse pinned_table (pr pinned_table 0 (Bin LtO (Par (Var iN)) (Num 5)) ++ [TRP; TSemi]) =
    Ok (Bin LtO (Var iN) (Num 5), [TRP; TSemi]) /\
  pr pinned_table 0 (Bin GtO (Bin LtO (Var iN) (Var iM)) (Un Neg (Num 1))) =
    [TId iN; TOp LtO; TId iM; TOp GtO; TOp Sub; TNum 1] /\
  parse pinned_table [TId iN; TOp LtO; TId iM; TOp GtO; TOp Sub; TNum 1] = Ok (Bin Sub (Var iN) (Num 1), []) /\
  safeb [TId iN; TOp LtO; TNum 5] = false.
Proof. repeat split. Qed.

(* C02-sizeof-upper-ident: sizeof(N) takes an upper-case variable for a type name, sizeof((N)) does not *)
Lemma roundtrip_refuted_sizeof_upper_l :
  wf (Call 0 [Var iN]) = true /\
  parse pinned_table (pr pinned_table 0 (Call 0 [Var iN])) = Ok (SizeofT, []) /\
  parse pinned_table (pr pinned_table 0 (Call 0 [Par (Var iN)])) = Ok (Call 0 [Var iN], []) /\
  parse pinned_table (pr pinned_table 0 (Call 0 [Bin Add (Var iN) (Num 1)])) = Err /\
  safeb (pr pinned_table 0 (Call 0 [Var iN])) = false.
Proof. repeat split. Qed.

(* C02-type-named-variable-cast: a variable that shares its name with a declared type, alone in
   parentheses before a token that can start a unary expression, is a cast *)
Lemma roundtrip_refuted_type_named_l :
  wf (Bin Sub (Par (Var iT)) (Num 1)) = true /\
  parse pinned_table (pr pinned_table 0 (Bin Sub (Par (Var iT)) (Num 1))) = Ok (Cast [TId iT] (Un Neg (Num 1)), []) /\
  parse pinned_table (pr pinned_table 0 (Bin Sub (Var iT) (Num 1))) = Ok (Bin Sub (Var iT) (Num 1), []) /\
  parse pinned_table (pr pinned_table 0 (Bin Sub (Par (Var it_)) (Num 1))) = Ok (Cast [TId it_] (Un Neg (Num 1)), []) /\
  safeb (pr pinned_table 0 (Bin Sub (Par (Var iT)) (Num 1))) = false /\
  (* ... but not as a call argument or when the parenthesis holds more than the name *)
  safeb (pr pinned_table 0 (Bin Sub (Call ia [Var iT]) (Num 1))) = true /\
  safeb (pr pinned_table 0 (Bin Sub (Par (Bin Add (Var iT) (Num 0))) (Num 1))) = true.
Proof. repeat split. Qed.

(* casts to keyword types bind like prefix operators: (int) a * b = ((int) a) * b, (int) - a = (int) (- a),
   - (int) a [1] = - ((int) (a[1])) *)
Lemma cast_binds_like_unary_l :
  parse pinned_table [TLP; TKw 0; TRP; TId ia; TOp Mul; TId ib] = Ok (Bin Mul (Cast [TKw 0] (Var ia)) (Var ib), []) /\
  parse pinned_table [TLP; TKw 0; TRP; TOp Sub; TId ia] = Ok (Cast [TKw 0] (Un Neg (Var ia)), []) /\
  parse pinned_table [TOp Sub; TLP; TKw 1; TOp Mul; TRP; TId ia; TLB; TNum 1; TRB] =
    Ok (Un Neg (Cast [TKw 1; TOp Mul] (Idx (Var ia) (Num 1))), []).
Proof. repeat split. Qed.

(* ... while the look-ahead now gives up at ; ( ) { } = + - && ||: a < b + 1 > (c) and a statement
   boundary are comparisons again *)
Lemma generic_lookahead_bounded_l :
  parse pinned_table [TId ia; TOp LtO; TId ib; TOp Add; TNum 1; TOp GtO; TLP; TId ic; TRP] =
    Ok (Bin GtO (Bin LtO (Var ia) (Bin Add (Var ib) (Num 1))) (Var ic), []) /\
  generic_scan 1 [TId ib; TRP; TSemi; TOther; TLP; TId ib; TOp GtO; TLP; TId ia; TRP] = false.
Proof. split; reflexivity. Qed.

(* hypotheses of the round trip are satisfiable, and the fuel of [parse] is enough, on a stream
   that exercises every construct (identifiers of all four classes, method calls, sizeof, casts, an array literal) *)
Definition sample : expr :=
  Asg (Some Add) (Idx (Var ia) (Bin Add (Var iN) (Num 1)))
      (Tern (Bin Or (Bin LeO (Par (Var iN)) (Num 3)) (Un Not (Var iT)))
            (Bin Mul (Par (Bin Sub (Par (Var iM)) (Un Neg (Post true (Var ib)))))
                     (Call 20 [Var ic; Bin Shl (Num 1) (Call 0 [Var ia])]))
            (Tern (Bin EqO (Var ib) (Bin GeO (Par (Bin Add (Var it_) (Num 0))) (Var id_)))
                  (Mem (Arrow (Var 40) 44) 49)
                  (Bin Sub (Cast [TKw 0; TOp Mul] (MCall false (Par (Var iN)) 52 [Var iT; Par (Var iN)]))
                           (Pre false (Par (Idx (ArrLit [Var ia; Bin Add (Var iN) (Num 2)]) (Num 0))))))).

Lemma sample_roundtrip_l :
  wf sample = true /\ folb pinned_table 0 [TRP; TSemi] = true /\
  safeb (pr pinned_table 0 sample ++ [TRP; TSemi]) = true /\
  parse pinned_table (pr pinned_table 0 sample ++ [TRP; TSemi]) = Ok (strip sample, [TRP; TSemi]) /\
  parse pinned_table (pr pinned_table 0 (full sample) ++ [TRP; TSemi]) = Ok (strip sample, [TRP; TSemi]).
Proof. repeat split. Qed.

(* ------------------------------------------------------------------ structure of the ladder *)
Local Open Scope string_scope.

Fixpoint chain_ok (l : list (string * string * string * string)) : bool :=
  match l with
  | [] => false
  | [(_, opd, rhs, kind)] => String.eqb opd rhs && String.eqb kind "while" && String.eqb opd "parseUnary"
  | (_, opd, rhs, kind) :: (((fn', _, _, _) :: _) as l') =>
      String.eqb opd rhs && String.eqb kind "while" && String.eqb opd fn' && chain_ok l'
  end.

Definition list_string_eqb (a b : list string) : bool :=
  (List.length a =? List.length b)%nat && forallb (fun p => String.eqb (fst p) (snd p)) (combine a b).

(* what Model.v assumes about the code around the table: every level is a `while` loop whose
   right operand is parsed by the same callee as its left operand (left associative), the levels
   form one chain from parseTernary's condition callee down to parseUnary; ?: parses its branches
   with parseTernary; assignment is parseTernary = parseAssignment; prefix operators recurse into
   parseUnary, ++/-- and the fall-through use parsePostfix *)
Definition structure_ok (shape : list (string * string * string * string)) (ternary : list string)
    (entry : string) (assign unary_prefix unary_calls generic_stops : list string) (generic_bound : nat) (cast_guard : bool)
    (t : table) : bool :=
  chain_ok shape &&
  match shape, ternary with
  | (fn, _, _, _) :: _, [c; th; el] => String.eqb fn c && String.eqb th "parseTernary" && String.eqb el "parseTernary"
  | _, _ => false
  end &&
  String.eqb entry "parseAssignment" &&
  list_string_eqb assign ["parseTernary"; "parseAssignment"] &&
  list_string_eqb unary_prefix ["TOK_BIT_AND"; "TOK_BIT_NOT"; "TOK_MINUS"; "TOK_MUL"; "TOK_NOT"] &&
  list_string_eqb unary_calls ["parseUnary"; "parsePostfix"; "parsePostfix"] &&
  list_string_eqb generic_stops ["TOK_AND"; "TOK_ASSIGN"; "TOK_LBRACE"; "TOK_LPAREN"; "TOK_MINUS"; "TOK_OR";
                                  "TOK_PLUS"; "TOK_RBRACE"; "TOK_RPAREN"; "TOK_SEMICOLON"] &&
  (generic_bound =? scan_bound)%nat &&
  cast_guard &&
  (List.length shape =? List.length t)%nat.

(* what Model.v assumes about the two look-aheads of parsePrimary and about parsePostfix:
   `( identifier` is a type exactly for the five declaration maps (plus the type-parameter loop): three
   assignments to may_be_type in all - a fourth would be a further rule, e.g. one on the spelling of the
   name; the spelling is tested (std::isupper) in exactly two places, the sizeof operand and `Name<`
   ([sizeof_type_start], [name_skip]); a cast operand is parsed by parseUnary; a cast type starts with
   one of the ten keyword types (TOK_CHAR, the char literal, is in the list of the code but parseType
   rejects it) or an identifier; parsePostfix tests ( [ . -> and ++ (with --); the keyword prefix
   operators await and try / checked take a parseUnary operand *)
Definition primary_ok (maps : list string) (assigns isupper : nat) (operand : string) (starts postfix kwcalls : list string) : bool :=
  list_string_eqb maps ["enum_definitions_"; "interface_definitions_"; "struct_definitions_"; "typedef_map_";
                        "union_definitions_"] &&
  (assigns =? 3)%nat && (isupper =? 2)%nat && String.eqb operand "parseUnary" &&
  list_string_eqb starts ["TOK_BOOL"; "TOK_CHAR"; "TOK_CHAR_TYPE"; "TOK_DOUBLE"; "TOK_FLOAT"; "TOK_IDENTIFIER"; "TOK_INT";
                          "TOK_LONG"; "TOK_SHORT"; "TOK_STRING_TYPE"; "TOK_TINY"; "TOK_VOID"] &&
  list_string_eqb postfix ["TOK_ARROW"; "TOK_DOT"; "TOK_INCR"; "TOK_LBRACKET"; "TOK_LPAREN"] &&
  list_string_eqb kwcalls ["parseUnary"; "parseUnary"].
