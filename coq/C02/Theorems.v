(* C02 - consequences of the round-trip theorem, stated on the fuelled functions of Model.v. *)
From Coq Require Import List Arith Lia Bool NArith ZArith.
From Cb Require Import C02.Model C02.Mono C02.Rules C02.Roundtrip.
Import ListNotations.

Lemma total_spec t : table_total t = true -> forall o, 1 <= lvl t o.
Proof.
  unfold table_total. intros H o. rewrite forallb_forall in H.
  apply Nat.leb_le. apply H. destruct o; cbn; tauto.
Qed.

(* ------------------------------------------------------------------ the general round trip *)
Theorem roundtrip_general_l : forall tbl e rest,
  table_total tbl = true -> wf e = true -> folb tbl 0 rest = true ->
  safeb (pr tbl 0 e ++ rest) = true ->
  exists fuel, p_assign tbl fuel (pr tbl 0 e ++ rest) = Ok (strip e, rest).
Proof.
  intros tbl e rest Ht Hw Hf Hs.
  destruct (roundtrip_all tbl (total_spec tbl Ht) e Hw) as (HP & _ & _).
  apply (HP 0 rest); [lia|exact Hf|exact Hs].
Qed.

(* `( x )` is the variable x whenever x names no declared type: whatever its spelling, whatever follows *)
Theorem paren_nontype_identifier_l : forall tbl x r, table_total tbl = true -> id_type x = false ->
  exists fuel, p_primary tbl fuel (TLP :: TId x :: TRP :: r) = Ok (Var x, r).
Proof. intros tbl x r Ht Hx. exact (paren_ident_operand tbl (total_spec tbl Ht) x r Hx). Qed.

(* whatever fuel is used, the answer is that tree or "out of fuel" - never another tree, never an
   error.  (The driver doubles the fuel until the answer is not "out of fuel".) *)
Theorem roundtrip_any_fuel_l : forall tbl e rest,
  table_total tbl = true -> wf e = true -> folb tbl 0 rest = true ->
  safeb (pr tbl 0 e ++ rest) = true ->
  forall g, p_assign tbl g (pr tbl 0 e ++ rest) = Ok (strip e, rest) \/
            p_assign tbl g (pr tbl 0 e ++ rest) = Fuel.
Proof.
  intros tbl e rest Ht Hw Hf Hs g.
  destruct (roundtrip_general_l tbl e rest Ht Hw Hf Hs) as [f H].
  destruct (Nat.le_gt_cases f g) as [Hle|Hgt].
  - left. eapply up_assign; eassumption.
  - destruct (proj1 (mono tbl g) (pr tbl 0 e ++ rest) f) as [E|E]; [lia|right; exact E|].
    left. rewrite E. exact H.
Qed.

Theorem roundtrip_parse_l : forall tbl e rest,
  table_total tbl = true -> wf e = true -> folb tbl 0 rest = true ->
  safeb (pr tbl 0 e ++ rest) = true ->
  parse tbl (pr tbl 0 e ++ rest) = Ok (strip e, rest) \/ parse tbl (pr tbl 0 e ++ rest) = Fuel.
Proof. intros. unfold parse. apply roundtrip_any_fuel_l; assumption. Qed.

(* ------------------------------------------------------------------ parentheses *)
Fixpoint nopar (e : expr) : bool :=
  match e with
  | Num _ | Var _ => true
  | Par _ => false
  | Un _ a | Pre _ a | Post _ a | Mem a _ | Arrow a _ | EProp a | Cast _ a | Generic _ a => nopar a
  | Bin _ a b | Idx a b | Asg _ a b => nopar a && nopar b
  | Call _ args => forallb nopar args
  | MCall _ a _ args => nopar a && forallb nopar args
  | Tern c a b => nopar c && nopar a && nopar b
  | SizeofT => true
  | ArrLit l => forallb nopar l
  end.

Lemma map_strip_nopar l : Forall (fun e => nopar e = true -> strip e = e) l ->
  forallb nopar l = true -> map strip l = l.
Proof.
  induction 1 as [|a l Ha Hl IH]; intros Hn; [reflexivity|].
  cbn [forallb] in Hn. apply andb_true_iff in Hn. destruct Hn as [Hna Hnl].
  cbn [map]. rewrite (Ha Hna), (IH Hnl). reflexivity.
Qed.

Lemma strip_nopar : forall e, nopar e = true -> strip e = e.
Proof.
  induction e using expr_ind2; intros Hn; cbn [nopar strip] in *; try discriminate Hn;
    repeat match goal with H : _ && _ = true |- _ => apply andb_true_iff in H; destruct H end;
    try reflexivity;
    repeat match goal with IH : nopar ?a = true -> _, H : nopar ?a = true |- _ => rewrite (IH H); clear IH end;
    try reflexivity.
  - rewrite (map_strip_nopar args H Hn). reflexivity.
  - rewrite (map_strip_nopar args H H1). reflexivity.
  - rewrite (map_strip_nopar l H Hn). reflexivity.
Qed.

Theorem roundtrip_min_l : forall tbl e rest,
  table_total tbl = true -> wf e = true -> nopar e = true -> folb tbl 0 rest = true ->
  safeb (pr tbl 0 e ++ rest) = true ->
  exists fuel, p_assign tbl fuel (pr tbl 0 e ++ rest) = Ok (e, rest).
Proof.
  intros tbl e rest Ht Hw Hn Hf Hs.
  destruct (roundtrip_general_l tbl e rest Ht Hw Hf Hs) as [f H].
  rewrite (strip_nopar e Hn) in H. eauto.
Qed.

Lemma strip_wrap e : strip (wrap e) = strip e.
Proof. unfold wrap. destruct (atomic e); reflexivity. Qed.

Lemma map_strip_full l : Forall (fun e => strip (full e) = strip e) l -> map strip (map full l) = map strip l.
Proof. induction 1 as [|a l Ha Hl IH]; [reflexivity|]. cbn [map]. rewrite Ha, IH. reflexivity. Qed.

Lemma strip_full : forall e, strip (full e) = strip e.
Proof.
  induction e using expr_ind2; cbn [full strip]; rewrite ?strip_wrap; try congruence.
  - rewrite (map_strip_full args H). reflexivity.
  - rewrite (map_strip_full args H), IHe. reflexivity.
  - rewrite (map_strip_full l H). reflexivity.
Qed.

Lemma wf_wrap e : wf (wrap e) = wf e.
Proof. unfold wrap. destruct (atomic e); reflexivity. Qed.

Lemma forallb_wf_full l : Forall (fun e => wf e = true -> wf (full e) = true) l ->
  forallb wf l = true -> forallb wf (map full l) = true.
Proof.
  induction 1 as [|a l Ha Hl IH]; intros Hw; [reflexivity|].
  cbn [forallb] in Hw. apply andb_true_iff in Hw. destruct Hw as [Hwa Hwl].
  cbn [map forallb]. rewrite (Ha Hwa), (IH Hwl). reflexivity.
Qed.

Lemma wf_full : forall e, wf e = true -> wf (full e) = true.
Proof.
  induction e using expr_ind2; intros Hw; cbn [full wf] in *; rewrite ?wf_wrap; try discriminate Hw;
    repeat match goal with H : _ && _ = true |- _ => apply andb_true_iff in H; destruct H end;
    auto;
    repeat (apply andb_true_iff; split); auto using forallb_wf_full.
  - rewrite map_length. assumption.
  - rewrite strip_full. assumption.
Qed.

(* fully parenthesised: every operand of every operator is atomic (a literal or a type-like operand
   x, x[i]) or in explicit parentheses
   (call arguments, index expressions and assignment targets are delimited already) *)
Definition opnd (e : expr) : bool := match e with Par _ => true | _ => atomic e end.
Fixpoint fullpar (e : expr) : bool :=
  match e with
  | Num _ | Var _ => true
  | Par a => fullpar a
  | Bin _ a b => opnd a && opnd b && fullpar a && fullpar b
  | Un _ a | Pre _ a | Post _ a | Mem a _ | Arrow a _ => opnd a && fullpar a
  | Idx a i => opnd a && fullpar a && fullpar i
  | Call _ args => forallb fullpar args
  | MCall _ a _ args => opnd a && fullpar a && forallb fullpar args
  | Tern c a b => opnd c && opnd a && opnd b && fullpar c && fullpar a && fullpar b
  | Asg _ l r => fullpar l && opnd r && fullpar r
  | Cast _ a => opnd a && fullpar a
  | EProp a | Generic _ a => fullpar a
  | SizeofT => true
  | ArrLit l => forallb fullpar l
  end.

Lemma opnd_wrap e : opnd (wrap e) = true.
Proof. unfold wrap. destruct (atomic e) eqn:E; [|reflexivity]. unfold opnd. rewrite E. destruct e; reflexivity. Qed.
Lemma fullpar_wrap e : fullpar (wrap e) = fullpar e.
Proof. unfold wrap. destruct (atomic e); reflexivity. Qed.

Lemma forallb_fullpar_full l : Forall (fun e => fullpar (full e) = true) l -> forallb fullpar (map full l) = true.
Proof. induction 1 as [|a l Ha Hl IH]; [reflexivity|]. cbn [map forallb]. rewrite Ha, IH. reflexivity. Qed.

Lemma fullpar_full : forall e, fullpar (full e) = true.
Proof.
  induction e using expr_ind2; cbn [full fullpar]; rewrite ?opnd_wrap, ?fullpar_wrap; cbn [andb];
    repeat match goal with IH : fullpar _ = true |- _ => rewrite IH; clear IH end; try reflexivity;
    apply forallb_fullpar_full; assumption.
Qed.

Theorem roundtrip_full_l : forall tbl e rest,
  table_total tbl = true -> wf e = true -> folb tbl 0 rest = true ->
  safeb (pr tbl 0 (full e) ++ rest) = true ->
  exists fuel, p_assign tbl fuel (pr tbl 0 (full e) ++ rest) = Ok (strip e, rest).
Proof.
  intros tbl e rest Ht Hw Hf Hs.
  destruct (roundtrip_general_l tbl (full e) rest Ht (wf_full e Hw) Hf Hs) as [f H].
  rewrite strip_full in H. eauto.
Qed.

(* two printings that differ only in (any number of) redundant parentheses parse to the same tree *)
Theorem redundant_parens_l : forall tbl e e' rest,
  table_total tbl = true -> wf e = true -> wf e' = true -> strip e = strip e' ->
  folb tbl 0 rest = true ->
  safeb (pr tbl 0 e ++ rest) = true -> safeb (pr tbl 0 e' ++ rest) = true ->
  exists fuel, p_assign tbl fuel (pr tbl 0 e ++ rest) = Ok (strip e, rest) /\
               p_assign tbl fuel (pr tbl 0 e' ++ rest) = Ok (strip e, rest).
Proof.
  intros tbl e e' rest Ht Hw Hw' E Hf Hs Hs'.
  destruct (roundtrip_general_l tbl e rest Ht Hw Hf Hs) as [f H].
  destruct (roundtrip_general_l tbl e' rest Ht Hw' Hf Hs') as [f' H'].
  exists (f + f'). split.
  - apply (up_assign tbl f); [exact H|lia].
  - rewrite E. apply (up_assign tbl f'); [exact H'|lia].
Qed.

Lemma eval_fn_strip fn env : forall e, eval_fn fn env (strip e) = eval_fn fn env e.
Proof.
  induction e using expr_ind2; cbn [strip eval_fn]; try reflexivity; try congruence.
  - rewrite IHe1, IHe2. reflexivity.
  - destruct u; try reflexivity; rewrite IHe; reflexivity.
  - assert (E : forall l, Forall (fun e => eval_fn fn env (strip e) = eval_fn fn env e) l ->
       (fix go (l : list expr) : option (list Z) :=
          match l with
          | [] => Some []
          | a :: l' => match eval_fn fn env a, go l' with
                       | Some x, Some xs => Some (x :: xs)
                       | _, _ => None
                       end
          end) (map strip l) =
       (fix go (l : list expr) : option (list Z) :=
          match l with
          | [] => Some []
          | a :: l' => match eval_fn fn env a, go l' with
                       | Some x, Some xs => Some (x :: xs)
                       | _, _ => None
                       end
          end) l).
    { induction 1 as [|a l Ha Hl IH]; [reflexivity|]. cbn [map]. rewrite Ha, IH. reflexivity. }
    rewrite (E args H). reflexivity.
  - rewrite IHe1, IHe2, IHe3. reflexivity.
  - rewrite IHe. reflexivity.
Qed.

Lemma eval_strip env e : eval env (strip e) = eval env e.
Proof. apply eval_fn_strip. Qed.

(* ... and therefore evaluate alike (pure integer fragment of the model evaluator) *)
Theorem parens_irrelevant_eval_l : forall tbl e e' rest env f f' x x' r r',
  table_total tbl = true -> wf e = true -> wf e' = true -> strip e = strip e' ->
  folb tbl 0 rest = true ->
  safeb (pr tbl 0 e ++ rest) = true -> safeb (pr tbl 0 e' ++ rest) = true ->
  p_assign tbl f (pr tbl 0 e ++ rest) = Ok (x, r) -> p_assign tbl f' (pr tbl 0 e' ++ rest) = Ok (x', r') ->
  x = x' /\ r = r' /\ eval env x = eval env e /\ eval env x' = eval env e.
Proof.
  intros tbl e e' rest env f f' x x' r r' Ht Hw Hw' E Hf Hs Hs' H H'.
  destruct (redundant_parens_l tbl e e' rest Ht Hw Hw' E Hf Hs Hs') as (g & G & G').
  pose proof (up_assign tbl f (f + g) _ _ H ltac:(lia)) as A.
  pose proof (up_assign tbl g (f + g) _ _ G ltac:(lia)) as B.
  pose proof (up_assign tbl f' (f' + g) _ _ H' ltac:(lia)) as A'.
  pose proof (up_assign tbl g (f' + g) _ _ G' ltac:(lia)) as B'.
  rewrite A in B. rewrite A' in B'. inversion B; inversion B'; subst.
  rewrite eval_strip. auto.
Qed.

(* ------------------------------------------------------------------ syntactic sufficient conditions *)
(* the generic look-ahead: no `>` directly before `(` *)
Lemma no_gt_lp_scan ts : forall d, generic_scan d ts = true -> no_gt_lp ts = false.
Proof.
  induction ts as [|t r IH]; intros d H; [discriminate H|].
  assert (Hdef : no_gt_lp r = false -> no_gt_lp (t :: r) = false).
  { intros E. cbn [no_gt_lp]. destruct t; try exact E. destruct o; try exact E.
    destruct r as [|t' r']; [exact E|]. destruct t'; try exact E. reflexivity. }
  destruct t; cbn [generic_scan] in H; try discriminate H; try (apply Hdef; eapply IH; exact H).
  - destruct o; try discriminate H; try (apply Hdef; eapply IH; exact H).
    destruct d as [|[|d]]; try (apply Hdef; eapply IH; exact H);
      (destruct r as [|t' r']; [discriminate H|]; destruct t'; try discriminate H; reflexivity).
  - destruct o; try discriminate H; apply Hdef; eapply IH; exact H.
Qed.

Theorem no_gt_lp_generic_safe_l : forall ts, no_gt_lp ts = true -> forall d, generic_scan d ts = false.
Proof.
  intros ts H d. destruct (generic_scan d ts) eqn:E; [|reflexivity].
  rewrite (no_gt_lp_scan ts d E) in H. discriminate H.
Qed.

Lemma syn_safe_tail t r : syn_safe (t :: r) = true -> syn_safe r = true.
Proof. cbn [syn_safe]. intros H. apply andb_true_iff in H. apply H. Qed.

Lemma syn_safe_no_gt_lp ts : syn_safe ts = true -> no_gt_lp ts = true.
Proof.
  induction ts as [|t r IH]; intros H; [reflexivity|].
  pose proof (IH (syn_safe_tail t r H)) as Hr. cbn [syn_safe] in H. apply andb_true_iff in H. destruct H as [H _].
  cbn [no_gt_lp]. destruct t; try exact Hr. destruct o; try exact Hr.
  destruct r as [|t' r']; [exact Hr|]. destruct t'; try exact Hr. discriminate H.
Qed.

(* the whole hazard predicate: a stream is safe when no `>` stands directly before `(`, no upper-case
   identifier directly before `<` or directly after `sizeof (`, and no type-named identifier directly
   after `(` *)
Lemma syn_safe_from ts : syn_safe ts = true -> forall p, safe_from p ts = true.
Proof.
  induction ts as [|t r IH]; intros H p; [reflexivity|].
  pose proof (syn_safe_tail t r H) as Hr. cbn [safe_from]. rewrite (IH Hr), andb_true_r.
  cbn [syn_safe] in H. apply andb_true_iff in H. destruct H as [H _]. apply negb_true_iff in H.
  apply negb_true_iff. destruct t; try reflexivity.
  - (* identifier *)
    cbn [hazard]. destruct p; try reflexivity;
      (destruct r as [|t' r']; [reflexivity|]; destruct t'; try reflexivity;
       [ destruct o; try reflexivity; rewrite H; cbn [orb];
         apply no_gt_lp_generic_safe_l; apply syn_safe_no_gt_lp; exact (syn_safe_tail _ _ Hr)
       | destruct r' as [|t2 r2]; [reflexivity|]; destruct t2; try reflexivity; exact H ]).
  - (* ( *)
    cbn [hazard]. destruct p; try reflexivity;
      (destruct r as [|t' r']; [reflexivity|]; destruct t'; try reflexivity;
       cbn [cast_type]; rewrite H; reflexivity).
Qed.

Theorem syn_safe_l : forall ts, syn_safe ts = true -> safeb ts = true.
Proof. intros ts H. apply syn_safe_from. exact H. Qed.

(* the same with the purely syntactic side condition on both texts *)
Theorem redundant_parens_syntactic_l : forall tbl e e' rest,
  table_total tbl = true -> wf e = true -> wf e' = true -> strip e = strip e' ->
  folb tbl 0 rest = true ->
  syn_safe (pr tbl 0 e ++ rest) = true -> syn_safe (pr tbl 0 e' ++ rest) = true ->
  exists fuel, p_assign tbl fuel (pr tbl 0 e ++ rest) = Ok (strip e, rest) /\
               p_assign tbl fuel (pr tbl 0 e' ++ rest) = Ok (strip e, rest).
Proof.
  intros. apply redundant_parens_l; auto using syn_safe_l.
Qed.

(* streams without `(` in which no upper-case identifier stands before `<` *)
Fixpoint nolp (ts : list tok) : bool :=
  match ts with [] => true | TLP :: _ => false | _ :: r => nolp r end.
Fixpoint no_upper_lt (ts : list tok) : bool :=
  match ts with
  | [] => true
  | TId x :: ((TOp LtO :: _) as r) => negb (id_upper x) && no_upper_lt r
  | _ :: r => no_upper_lt r
  end.

Lemma nolp_syn_safe ts : nolp ts = true -> no_upper_lt ts = true -> syn_safe ts = true.
Proof.
  induction ts as [|t r IH]; intros Hn Hu; [reflexivity|].
  assert (Hn' : nolp r = true) by (destruct t; try exact Hn; discriminate Hn).
  assert (Hu' : no_upper_lt r = true).
  { destruct t; try exact Hu. cbn [no_upper_lt] in Hu. destruct r as [|t' r']; [reflexivity|].
    destruct t'; try exact Hu. destruct o; try exact Hu. apply andb_true_iff in Hu. apply Hu. }
  cbn [syn_safe]. rewrite (IH Hn' Hu'), andb_true_r.
  destruct t; try reflexivity; try discriminate Hn.
  - destruct r as [|t' r']; [reflexivity|]. destruct t'; try reflexivity; try discriminate Hn'.
    destruct o; try reflexivity. cbn [no_upper_lt] in Hu. apply andb_true_iff in Hu. destruct Hu as [Hu _].
    exact Hu.
  - destruct o; try reflexivity. destruct r as [|t' r']; [reflexivity|]. destruct t'; try reflexivity. discriminate Hn'.
Qed.

Lemma nolp_safe ts : nolp ts = true -> no_upper_lt ts = true -> safeb ts = true.
Proof. intros. apply syn_safe_l, nolp_syn_safe; assumption. Qed.

(* ------------------------------------------------------------------ associativity and precedence,
   on concrete token streams (operands are arbitrary identifiers) *)
Section Shapes.
Variable tbl : table.
Hypothesis Ht : table_total tbl = true.
Notation L := (length tbl).

Let tot := total_spec tbl Ht.

Ltac shape e :=
  let H := fresh in
  destruct (roundtrip_general_l tbl e [] Ht) as [f H];
  [reflexivity | reflexivity | | exists f; rewrite app_nil_r in H; exact H].

Lemma pr_var c x : c <= L + 5 -> pr tbl c (Var x) = [TId x].
Proof. intros H. rewrite pr_le by (cbn [lev]; lia). reflexivity. Qed.

(* x o1 y o2 z with both operators on one level groups to the left *)
Theorem binary_left_assoc_l : forall o1 o2 x y z, lvl tbl o1 = lvl tbl o2 ->
  safeb [TId x; TOp o1; TId y; TOp o2; TId z] = true ->
  exists fuel, p_assign tbl fuel [TId x; TOp o1; TId y; TOp o2; TId z] =
               Ok (Bin o2 (Bin o1 (Var x) (Var y)) (Var z), []).
Proof.
  intros o1 o2 x y z E Hsf. pose proof (tot o1). pose proof (lvl_le tbl o1).
  assert (P : pr tbl 0 (Bin o2 (Bin o1 (Var x) (Var y)) (Var z)) = [TId x; TOp o1; TId y; TOp o2; TId z]).
  { rewrite pr0_bin. rewrite (pr_le tbl _ (Bin o1 _ _)) by (cbn [lev]; lia).
    rewrite pr0_bin. rewrite !pr_var by lia. reflexivity. }
  destruct (roundtrip_general_l tbl (Bin o2 (Bin o1 (Var x) (Var y)) (Var z)) [] Ht) as [f Hf];
    [reflexivity|reflexivity| |exists f; rewrite app_nil_r, P in Hf; exact Hf].
  rewrite app_nil_r, P. exact Hsf.
Qed.

(* the operator of the higher level binds tighter, on either side *)
Theorem higher_level_binds_tighter_l : forall o1 o2 x y z, lvl tbl o1 < lvl tbl o2 ->
  (safeb [TId x; TOp o1; TId y; TOp o2; TId z] = true ->
   exists fuel, p_assign tbl fuel [TId x; TOp o1; TId y; TOp o2; TId z] =
                Ok (Bin o1 (Var x) (Bin o2 (Var y) (Var z)), [])) /\
  (safeb [TId x; TOp o2; TId y; TOp o1; TId z] = true ->
   exists fuel, p_assign tbl fuel [TId x; TOp o2; TId y; TOp o1; TId z] =
                Ok (Bin o1 (Bin o2 (Var x) (Var y)) (Var z), [])).
Proof.
  intros o1 o2 x y z E. pose proof (tot o1). pose proof (lvl_le tbl o2). split; intros Hsf.
  - assert (P : pr tbl 0 (Bin o1 (Var x) (Bin o2 (Var y) (Var z))) = [TId x; TOp o1; TId y; TOp o2; TId z]).
    { rewrite pr0_bin. rewrite (pr_le tbl _ (Bin o2 _ _)) by (cbn [lev]; lia).
      rewrite pr0_bin. rewrite !pr_var by lia. reflexivity. }
    destruct (roundtrip_general_l tbl (Bin o1 (Var x) (Bin o2 (Var y) (Var z))) [] Ht) as [f Hf];
      [reflexivity|reflexivity| |exists f; rewrite app_nil_r, P in Hf; exact Hf].
    rewrite app_nil_r, P. exact Hsf.
  - assert (P : pr tbl 0 (Bin o1 (Bin o2 (Var x) (Var y)) (Var z)) = [TId x; TOp o2; TId y; TOp o1; TId z]).
    { rewrite pr0_bin. rewrite (pr_le tbl _ (Bin o2 _ _)) by (cbn [lev]; lia).
      rewrite pr0_bin. rewrite !pr_var by lia. reflexivity. }
    destruct (roundtrip_general_l tbl (Bin o1 (Bin o2 (Var x) (Var y)) (Var z)) [] Ht) as [f Hf];
      [reflexivity|reflexivity| |exists f; rewrite app_nil_r, P in Hf; exact Hf].
    rewrite app_nil_r, P. exact Hsf.
Qed.

(* a ? b : c ? d : e  =  a ? b : (c ? d : e) *)
Theorem ternary_right_assoc_l : forall a b c d e,
  safeb [TId a; TQ; TId b; TColon; TId c; TQ; TId d; TColon; TId e] = true ->
  exists fuel, p_assign tbl fuel [TId a; TQ; TId b; TColon; TId c; TQ; TId d; TColon; TId e] =
               Ok (Tern (Var a) (Var b) (Tern (Var c) (Var d) (Var e)), []).
Proof.
  intros a b c d e Hsf.
  assert (P : pr tbl 0 (Tern (Var a) (Var b) (Tern (Var c) (Var d) (Var e))) =
              [TId a; TQ; TId b; TColon; TId c; TQ; TId d; TColon; TId e]).
  { rewrite pr0_tern. rewrite (pr_le tbl 1 (Tern _ _ _)) by (cbn [lev]; lia). rewrite pr0_tern.
    rewrite !pr_var by lia. reflexivity. }
  destruct (roundtrip_general_l tbl (Tern (Var a) (Var b) (Tern (Var c) (Var d) (Var e))) [] Ht) as [f Hf];
    [reflexivity|reflexivity| |exists f; rewrite app_nil_r, P in Hf; exact Hf].
  rewrite app_nil_r, P. exact Hsf.
Qed.

(* x op1= y op2= z  =  x op1= (y op2= z) *)
Theorem assignment_right_assoc_l : forall o1 o2 x y z,
  safeb [TId x; TAsg o1; TId y; TAsg o2; TId z] = true ->
  exists fuel, p_assign tbl fuel [TId x; TAsg o1; TId y; TAsg o2; TId z] =
               Ok (Asg o1 (Var x) (Asg o2 (Var y) (Var z)), []).
Proof.
  intros o1 o2 x y z Hsf.
  assert (P : pr tbl 0 (Asg o1 (Var x) (Asg o2 (Var y) (Var z))) = [TId x; TAsg o1; TId y; TAsg o2; TId z]).
  { rewrite !pr0_asg. rewrite !pr_var by lia. reflexivity. }
  destruct (roundtrip_general_l tbl (Asg o1 (Var x) (Asg o2 (Var y) (Var z))) [] Ht) as [f Hf];
    [reflexivity|reflexivity| |exists f; rewrite app_nil_r, P in Hf; exact Hf].
  rewrite app_nil_r, P. exact Hsf.
Qed.

(* x = a o b ? c : d   =   x = ((a o b) ? c : d):  binary > ?: > assignment *)
Theorem binary_ternary_assignment_l : forall o x a b c d,
  safeb [TId x; TAsg None; TId a; TOp o; TId b; TQ; TId c; TColon; TId d] = true ->
  exists fuel, p_assign tbl fuel [TId x; TAsg None; TId a; TOp o; TId b; TQ; TId c; TColon; TId d] =
               Ok (Asg None (Var x) (Tern (Bin o (Var a) (Var b)) (Var c) (Var d)), []).
Proof.
  intros o x a b c d Hsf. pose proof (tot o). pose proof (lvl_le tbl o).
  assert (P : pr tbl 0 (Asg None (Var x) (Tern (Bin o (Var a) (Var b)) (Var c) (Var d))) =
              [TId x; TAsg None; TId a; TOp o; TId b; TQ; TId c; TColon; TId d]).
  { rewrite pr0_asg, pr0_tern. rewrite (pr_le tbl 2 (Bin _ _ _)) by (cbn [lev]; lia). rewrite pr0_bin.
    rewrite !pr_var by lia. reflexivity. }
  destruct (roundtrip_general_l tbl (Asg None (Var x) (Tern (Bin o (Var a) (Var b)) (Var c) (Var d))) [] Ht) as [f Hf];
    [reflexivity|reflexivity| |exists f; rewrite app_nil_r, P in Hf; exact Hf].
  rewrite app_nil_r, P. exact Hsf.
Qed.

(* u x o y = (u x) o y  and  x o u y = x o (u y):  unary > every binary level *)
Theorem unary_binds_tighter_than_binary_l : forall u o x y,
  (safeb [utok u; TId x; TOp o; TId y] = true ->
   exists fuel, p_assign tbl fuel [utok u; TId x; TOp o; TId y] = Ok (Bin o (Un u (Var x)) (Var y), [])) /\
  (safeb [TId x; TOp o; utok u; TId y] = true ->
   exists fuel, p_assign tbl fuel [TId x; TOp o; utok u; TId y] = Ok (Bin o (Var x) (Un u (Var y)), [])).
Proof.
  intros u o x y. pose proof (tot o). pose proof (lvl_le tbl o). split; intros Hsf.
  - assert (P : pr tbl 0 (Bin o (Un u (Var x)) (Var y)) = [utok u; TId x; TOp o; TId y]).
    { rewrite pr0_bin. rewrite (pr_le tbl _ (Un _ _)) by (cbn [lev]; lia). rewrite pr0_un.
      rewrite !pr_var by lia. reflexivity. }
    destruct (roundtrip_general_l tbl (Bin o (Un u (Var x)) (Var y)) [] Ht) as [f Hf];
      [reflexivity|reflexivity| |exists f; rewrite app_nil_r, P in Hf; exact Hf].
    rewrite app_nil_r, P. exact Hsf.
  - assert (P : pr tbl 0 (Bin o (Var x) (Un u (Var y))) = [TId x; TOp o; utok u; TId y]).
    { rewrite pr0_bin. rewrite (pr_le tbl _ (Un _ _)) by (cbn [lev]; lia). rewrite pr0_un.
      rewrite !pr_var by lia. reflexivity. }
    destruct (roundtrip_general_l tbl (Bin o (Var x) (Un u (Var y))) [] Ht) as [f Hf];
      [reflexivity|reflexivity| |exists f; rewrite app_nil_r, P in Hf; exact Hf].
    rewrite app_nil_r, P. exact Hsf.
Qed.

(* u x [ i ] = u (x[i]),  u x ++ = u (x++),  u x . m = u (x.m):  postfix > unary *)
Theorem postfix_binds_tighter_than_unary_l : forall u x i m d,
  (exists fuel, p_assign tbl fuel [utok u; TId x; TLB; TId i; TRB] = Ok (Un u (Idx (Var x) (Var i)), [])) /\
  (exists fuel, p_assign tbl fuel [utok u; TId x; itok d] = Ok (Un u (Post d (Var x)), [])) /\
  (exists fuel, p_assign tbl fuel [utok u; TId x; TDot; TId m] = Ok (Un u (Mem (Var x) m), [])).
Proof.
  intros u x i m d.
  assert (Hsf : forall ts, nolp ts = true -> no_upper_lt ts = true -> safeb ts = true) by exact nolp_safe.
  repeat split.
  - assert (P : pr tbl 0 (Un u (Idx (Var x) (Var i))) = [utok u; TId x; TLB; TId i; TRB]).
    { rewrite pr0_un. rewrite (pr_le tbl _ (Idx _ _)) by (cbn [lev]; lia). rewrite pr0_idx.
      rewrite !pr_var by lia. reflexivity. }
    destruct (roundtrip_general_l tbl (Un u (Idx (Var x) (Var i))) [] Ht) as [f Hf];
      [reflexivity|reflexivity| |exists f; rewrite app_nil_r, P in Hf; exact Hf].
    rewrite app_nil_r, P. apply Hsf; destruct u, d; reflexivity.
  - assert (P : pr tbl 0 (Un u (Post d (Var x))) = [utok u; TId x; itok d]).
    { rewrite pr0_un. rewrite (pr_le tbl _ (Post _ _)) by (cbn [lev]; lia). rewrite pr0_post.
      rewrite !pr_var by lia. reflexivity. }
    destruct (roundtrip_general_l tbl (Un u (Post d (Var x))) [] Ht) as [f Hf];
      [reflexivity|reflexivity| |exists f; rewrite app_nil_r, P in Hf; exact Hf].
    rewrite app_nil_r, P. apply Hsf; destruct u, d; reflexivity.
  - assert (P : pr tbl 0 (Un u (Mem (Var x) m)) = [utok u; TId x; TDot; TId m]).
    { rewrite pr0_un. rewrite (pr_le tbl _ (Mem _ _)) by (cbn [lev]; lia). rewrite pr0_mem.
      rewrite !pr_var by lia. reflexivity. }
    destruct (roundtrip_general_l tbl (Un u (Mem (Var x) m)) [] Ht) as [f Hf];
      [reflexivity|reflexivity| |exists f; rewrite app_nil_r, P in Hf; exact Hf].
    rewrite app_nil_r, P. apply Hsf; destruct u, d; reflexivity.
Qed.

End Shapes.
